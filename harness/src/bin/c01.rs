//! C01 case interpreter: prime-field Montgomery arithmetic
//! (`ark_ff::{Fp, MontBackend, MontConfig}`), 38 moduli x 2 flavours.
//!
//! Every case: `a[0] = [cfg_id, flavour]`, `a[1]` = modulus limbs (sanity check only),
//! `a[2..]` op-specific.  Flavour 0 = `#[derive(MontConfig)]` configuration (the derive
//! macro generates specialised add/sub/mul/square/...), flavour 1 = hand-written
//! `impl MontConfig` that only supplies the three mandatory consts and therefore
//! inherits every trait-default method and const of
//! ff/src/fields/models/fp/montgomery_backend.rs.
//!
//! A field element INPUT is its raw Montgomery limbs (N little-endian u64); an OUTPUT
//! is two lists: raw Montgomery limbs, then standard-form limbs (`into_bigint`).
//!
//! The configuration table and `dispatch` at the bottom of this file were GENERATED
//! from props/C01/configs.py (one `field_cfg!` line and two `dispatch` arms per entry); if
//! configs.py changes, regenerate them.  No oracle logic here: call the API, print.
// the derive macro expands to `cfg!(feature = "asm")`, a feature this crate does not declare
#![allow(unexpected_cfgs)]
use ark_ff::fields::{Fp, MontBackend, MontConfig};
use ark_ff::{AdditiveGroup, BigInt, Field, PrimeField};
use num_traits::ToPrimitive;
use std::str::FromStr;
use vharness::*;

fn limbs<const N: usize>(a: &Arg) -> BigInt<N> {
    let l = arg_limbs(a);
    assert_eq!(l.len(), N, "harness: wrong limb count");
    let mut r = [0u64; N];
    r.copy_from_slice(&l);
    BigInt::<N>(r)
}
fn bytes_of(a: &Arg) -> Vec<u8> {
    a.iter()
        .map(|c| {
            let v = to_u64(c);
            assert!(v < 256, "harness: byte expected");
            v as u8
        })
        .collect()
}
fn bytes_arg(b: &[u8]) -> Arg {
    b.iter().map(|x| from_u64(*x as u64)).collect()
}

fn run_f<T: MontConfig<N>, const N: usize>(op: &str, a: &[Arg]) -> Vec<Arg> {
    type F<T, const N: usize> = Fp<MontBackend<T, N>, N>;
    // raw Montgomery limbs -> element (no reduction, no conversion)
    let el = |x: &Arg| -> F<T, N> { Fp::new_unchecked(limbs::<N>(x)) };
    // element -> [raw Montgomery limbs, standard-form limbs]
    let elem = |x: F<T, N>| -> Vec<Arg> {
        vec![limbs_arg(&(x.0).0), limbs_arg(&x.into_bigint().0)]
    };
    // concatenated limbs -> vector of elements
    let els = |x: &Arg| -> Vec<F<T, N>> {
        let l = arg_limbs(x);
        assert_eq!(l.len() % N, 0, "harness: limb count not a multiple of N");
        l.chunks(N)
            .map(|c| {
                let mut r = [0u64; N];
                r.copy_from_slice(c);
                Fp::new_unchecked(BigInt::<N>(r))
            })
            .collect()
    };
    let opt = |r: Option<F<T, N>>| -> Vec<Arg> {
        match r {
            Some(r) => {
                let mut v = vec![vec![from_u64(1)]];
                v.extend(elem(r));
                ok(v)
            },
            None => ok(vec![vec![from_u64(0)]]),
        }
    };
    assert_eq!(
        arg_limbs(&a[1]),
        T::MODULUS.0.to_vec(),
        "harness: modulus of the case differs from the configuration's"
    );
    match op {
        "cfg" => ok(vec![
            limbs_arg(&T::MODULUS.0),
            limbs_arg(&T::R.0),
            limbs_arg(&T::R2.0),
            vec![from_u64(T::INV)],
            vec![
                from_bool(T::MODULUS_HAS_SPARE_BIT),
                from_bool(T::CAN_USE_NO_CARRY_MUL_OPT),
                from_u64(<F<T, N> as PrimeField>::MODULUS_BIT_SIZE as u64),
            ],
            limbs_arg(&(<F<T, N> as Field>::ONE.0).0),
        ]),
        "add" => {
            let (mut x, y) = (el(&a[2]), el(&a[3]));
            x += &y;
            ok(elem(x))
        },
        "sub" => {
            let (mut x, y) = (el(&a[2]), el(&a[3]));
            x -= &y;
            ok(elem(x))
        },
        "mul" => {
            let (mut x, y) = (el(&a[2]), el(&a[3]));
            x *= &y;
            ok(elem(x))
        },
        "neg" => ok(elem(-el(&a[2]))),
        "double" => {
            let mut x = el(&a[2]);
            x.double_in_place();
            ok(elem(x))
        },
        "square" => {
            let mut x = el(&a[2]);
            x.square_in_place();
            ok(elem(x))
        },
        "inverse" => opt(el(&a[2]).inverse()),
        "from_bigint" => opt(<F<T, N>>::from_bigint(limbs::<N>(&a[2]))),
        "into_bigint" => ok(vec![limbs_arg(&el(&a[2]).into_bigint().0)]),
        "pow" => {
            let e: Vec<u64> = arg_limbs(&a[3]);
            ok(elem(el(&a[2]).pow(&e)))
        },
        "sum_of_products" => {
            let m = to_usize(&a[2][0]);
            let (x, y) = (els(&a[3]), els(&a[4]));
            assert_eq!(x.len(), m, "harness: sum_of_products a length");
            assert_eq!(y.len(), m, "harness: sum_of_products b length");
            fn sop<F: Field, const M: usize>(x: &[F], y: &[F]) -> F {
                let xa: [F; M] = core::array::from_fn(|i| x[i]);
                let ya: [F; M] = core::array::from_fn(|i| y[i]);
                F::sum_of_products::<M>(&xa, &ya)
            }
            let r = match m {
                1 => sop::<F<T, N>, 1>(&x, &y),
                2 => sop::<F<T, N>, 2>(&x, &y),
                3 => sop::<F<T, N>, 3>(&x, &y),
                4 => sop::<F<T, N>, 4>(&x, &y),
                5 => sop::<F<T, N>, 5>(&x, &y),
                6 => sop::<F<T, N>, 6>(&x, &y),
                7 => sop::<F<T, N>, 7>(&x, &y),
                8 => sop::<F<T, N>, 8>(&x, &y),
                9 => sop::<F<T, N>, 9>(&x, &y),
                10 => sop::<F<T, N>, 10>(&x, &y),
                16 => sop::<F<T, N>, 16>(&x, &y),
                17 => sop::<F<T, N>, 17>(&x, &y),
                _ => return unsupported(),
            };
            ok(elem(r))
        },
        "batch_inversion" => {
            let mut v = els(&a[2]);
            let coeff = el(&a[3]);
            ark_ff::batch_inversion_and_mul(&mut v, &coeff);
            let mut raw: Vec<u64> = vec![];
            let mut std: Vec<u64> = vec![];
            for x in &v {
                raw.extend_from_slice(&(x.0).0);
                std.extend_from_slice(&x.into_bigint().0);
            }
            ok(vec![limbs_arg(&raw), limbs_arg(&std)])
        },
        "from_int" => {
            let (bits, signed) = (to_u64(&a[2][0]), to_u64(&a[2][1]));
            let x = &a[3][0];
            const M: &str = "harness: from_int value out of range for the type";
            let r: F<T, N> = match (bits, signed) {
                (1, 0) => match x.to_u8().expect(M) {
                    0 => <F<T, N>>::from(false),
                    1 => <F<T, N>>::from(true),
                    _ => panic!("{}", M),
                },
                (8, 0) => <F<T, N>>::from(x.to_u8().expect(M)),
                (16, 0) => <F<T, N>>::from(x.to_u16().expect(M)),
                (32, 0) => <F<T, N>>::from(x.to_u32().expect(M)),
                (64, 0) => <F<T, N>>::from(x.to_u64().expect(M)),
                (128, 0) => <F<T, N>>::from(x.to_u128().expect(M)),
                (8, 1) => <F<T, N>>::from(x.to_i8().expect(M)),
                (16, 1) => <F<T, N>>::from(x.to_i16().expect(M)),
                (32, 1) => <F<T, N>>::from(x.to_i32().expect(M)),
                (64, 1) => <F<T, N>>::from(x.to_i64().expect(M)),
                (128, 1) => <F<T, N>>::from(x.to_i128().expect(M)),
                _ => return unsupported(),
            };
            ok(elem(r))
        },
        "from_le_bytes_mod_order" => {
            ok(elem(<F<T, N>>::from_le_bytes_mod_order(&bytes_of(&a[2]))))
        },
        "from_be_bytes_mod_order" => {
            ok(elem(<F<T, N>>::from_be_bytes_mod_order(&bytes_of(&a[2]))))
        },
        "from_biguint" => ok(elem(<F<T, N>>::from(u(&a[2][0])))),
        "from_str" => {
            let s: String = bytes_of(&a[2]).into_iter().map(|c| c as char).collect();
            match <F<T, N>>::from_str(&s) {
                Ok(r) => ok(elem(r)),
                Err(()) => err(0),
            }
        },
        "display" => {
            let s = format!("{}", el(&a[2]));
            ok(vec![bytes_arg(s.as_bytes())])
        },
        _ => unsupported(),
    }
}

fn main() {
    main_loop(|op, a| {
        assert_eq!(a[0].len(), 2, "harness: first argument must be [cfg_id, flavour]");
        dispatch(to_u64(&a[0][0]), to_u64(&a[0][1]), op, a)
    });
}

// ---------------------------------------------------------------------------------
// GENERATED from props/C01/configs.py: field_cfg!(Derived, Handwritten, N, modulus, limbs)
// ---------------------------------------------------------------------------------
macro_rules! field_cfg {
    ($d:ident, $h:ident, $n:tt, $m:tt, $l:expr) => {
        #[derive(MontConfig)]
        #[modulus = $m]
        #[generator = "2"]
        pub struct $d;
        pub struct $h;
        impl MontConfig<$n> for $h {
            const MODULUS: BigInt<$n> = BigInt($l);
            const GENERATOR: Fp<MontBackend<Self, $n>, $n> = ark_ff::MontFp!("2");
            const TWO_ADIC_ROOT_OF_UNITY: Fp<MontBackend<Self, $n>, $n> = ark_ff::MontFp!("1");
        }
    };
}

// 0: tiny3 (2 bits)
field_cfg!(D0, H0, 1, "3", [0x0000000000000003]);
// 1: tiny5 (3 bits)
field_cfg!(D1, H1, 1, "5", [0x0000000000000005]);
// 2: tiny7 (3 bits)
field_cfg!(D2, H2, 1, "7", [0x0000000000000007]);
// 3: tiny17 (5 bits)
field_cfg!(D3, H3, 1, "17", [0x0000000000000011]);
// 4: tiny127 (7 bits)
field_cfg!(D4, H4, 1, "127", [0x000000000000007f]);
// 5: m61 (61 bits)
field_cfg!(D5, H5, 1, "2305843009213693951", [0x1fffffffffffffff]);
// 6: p64_59 (64 bits)
field_cfg!(D6, H6, 1, "18446744073709551557", [0xffffffffffffffc5]);
// 7: p63_25 (63 bits)
field_cfg!(D7, H7, 1, "9223372036854775783", [0x7fffffffffffffe7]);
// 8: r62 (62 bits)
field_cfg!(D8, H8, 1, "2849647038907036733", [0x278bfae2414c343d]);
// 9: r40 (40 bits)
field_cfg!(D9, H9, 1, "649522587953", [0x000000973a902931]);
// 10: m127 (127 bits)
field_cfg!(D10, H10, 2, "170141183460469231731687303715884105727", [0xffffffffffffffff, 0x7fffffffffffffff]);
// 11: p128_159 (128 bits)
field_cfg!(D11, H11, 2, "340282366920938463463374607431768211297", [0xffffffffffffff61, 0xffffffffffffffff]);
// 12: n2_top63 (127 bits)
field_cfg!(D12, H12, 2, "170141183460469231727152084608062469083", [0xc10faa4003ba33db, 0x7fffffffffffffff]);
// 13: n2_lowmax (114 bits)
field_cfg!(D13, H13, 2, "16224878352399564846729043390758911", [0xffffffffffffffff, 0x00031ff2c16e22df]);
// 14: r125 (125 bits)
field_cfg!(D14, H14, 2, "27997046152645192579209348579381818623", [0x4c41d9c0f07534ff, 0x151008f2be6c6fe9]);
// 15: r65 (65 bits)
field_cfg!(D15, H15, 2, "19290714530962328327", [0x0bb662a8c979cb07, 0x0000000000000001]);
// 16: p192 (192 bits)
field_cfg!(D16, H16, 3, "6277101735386680763835789423207666416083908700390324961279", [0xffffffffffffffff, 0xfffffffffffffffe, 0xffffffffffffffff]);
// 17: r190 (190 bits)
field_cfg!(D17, H17, 3, "847445669097947260888641831854399259179609312177682211987", [0x1d775b7c69dd6493, 0xe2934bf1d37c9961, 0x228fbee0ca357568]);
// 18: n3_top63 (191 bits)
field_cfg!(D18, H18, 3, "3138550867693340381886227865320842631430780118990342747139", [0x8f76dc8756427403, 0xe82d2fef9c7d498a, 0x7fffffffffffffff]);
// 19: n3_top63m1 (191 bits)
field_cfg!(D19, H19, 3, "3138550867693340381441730476582187280026934358095044190123", [0x1e83059636469fab, 0x99c61aa86e671698, 0x7ffffffffffffffe]);
// 20: secp256k1_p (256 bits)
field_cfg!(D20, H20, 4, "115792089237316195423570985008687907853269984665640564039457584007908834671663", [0xfffffffefffffc2f, 0xffffffffffffffff, 0xffffffffffffffff, 0xffffffffffffffff]);
// 21: secp256k1_n (256 bits)
field_cfg!(D21, H21, 4, "115792089237316195423570985008687907852837564279074904382605163141518161494337", [0xbfd25e8cd0364141, 0xbaaedce6af48a03b, 0xfffffffffffffffe, 0xffffffffffffffff]);
// 22: p25519 (255 bits)
field_cfg!(D22, H22, 4, "57896044618658097711785492504343953926634992332820282019728792003956564819949", [0xffffffffffffffed, 0xffffffffffffffff, 0xffffffffffffffff, 0x7fffffffffffffff]);
// 23: p256 (256 bits)
field_cfg!(D23, H23, 4, "115792089210356248762697446949407573530086143415290314195533631308867097853951", [0xffffffffffffffff, 0x00000000ffffffff, 0x0000000000000000, 0xffffffff00000001]);
// 24: bls381_fr (255 bits)
field_cfg!(D24, H24, 4, "52435875175126190479447740508185965837690552500527637822603658699938581184513", [0xffffffff00000001, 0x53bda402fffe5bfe, 0x3339d80809a1d805, 0x73eda753299d7d48]);
// 25: bn254_fr (254 bits)
field_cfg!(D25, H25, 4, "21888242871839275222246405745257275088548364400416034343698204186575808495617", [0x43e1f593f0000001, 0x2833e84879b97091, 0xb85045b68181585d, 0x30644e72e131a029]);
// 26: n4_lowmax (232 bits)
field_cfg!(D26, H26, 4, "6269105709023741740601337905401599166096695743282299568495787579015167", [0xffffffffffffffff, 0xffffffffffffffff, 0xffffffffffffffff, 0x000000e888b7cc93]);
// 27: r320 (320 bits)
field_cfg!(D27, H27, 5, "2135987035920910082395021706169552114602704522356652769947041607822219725780640550022962086936379", [0xffffffffffffff3b, 0xffffffffffffffff, 0xffffffffffffffff, 0xffffffffffffffff, 0xffffffffffffffff]);
// 28: r300 (300 bits)
field_cfg!(D28, H28, 5, "1300581096040302295596652742210168921446905098551054481190246066007466317782766511461806577", [0xba6e736ceed4b1f1, 0x9b33d94725ef2114, 0x431162a4f20ab305, 0x86cec133759aaeee, 0x00000a37299bf22d]);
// 29: bls381_fq (381 bits)
field_cfg!(D29, H29, 6, "4002409555221667393417789825735904156556882819939007885332058136124031650490837864442687629129015664037894272559787", [0xb9feffffffffaaab, 0x1eabfffeb153ffff, 0x6730d2a0f6b0f624, 0x64774b84f38512bf, 0x4b1ba7b6434bacd7, 0x1a0111ea397fe69a]);
// 30: p384 (384 bits)
field_cfg!(D30, H30, 6, "39402006196394479212279040100143613805079739270465446667948293404245721771496870329047266088258938001861606973112319", [0x00000000ffffffff, 0xffffffff00000000, 0xfffffffffffffffe, 0xffffffffffffffff, 0xffffffffffffffff, 0xffffffffffffffff]);
// 31: r383 (383 bits)
field_cfg!(D31, H31, 6, "13848154608557016080227905542011462101939569077205583165248269754489159214051549899232319294055169198776411060214763", [0x2273ea380e5c9beb, 0x8611f8b90c7950fa, 0x935ac8d97dff04ae, 0xfe145171da64b870, 0xc8b0da28407dbb94, 0x59f9289e3ed03c49]);
// 32: r446 (446 bits)
field_cfg!(D32, H32, 7, "120248080721216850703077326562244153147510814702440411974200803334283361187650822626429729386358827499098339637760279447874099735344261", [0x2111a82298ceb485, 0x89db4616ac354cdd, 0x12fca4ed8bdd915d, 0x3dc07bbbed6e4725, 0x61b50dcdd994539a, 0x4921bef423b17de0, 0x2a5a43e533d14172]);
// 33: r512 (512 bits)
field_cfg!(D33, H33, 8, "13407807929942597099574024998205846127479365820592393377723561443721764030073546976801874298166903427690031858186486050853753882811946569946433649006083527", [0xfffffffffffffdc7, 0xffffffffffffffff, 0xffffffffffffffff, 0xffffffffffffffff, 0xffffffffffffffff, 0xffffffffffffffff, 0xffffffffffffffff, 0xffffffffffffffff]);
// 34: mnt4_753_fq (753 bits)
field_cfg!(D34, H34, 12, "41898490967918953402344214791240637128170709919953949071783502921025352812571106773058893763790338921418070971888253786114353726529584385201591605722013126468931404347949840543007986327743462853720628051692141265303114721689601", [0x5e9063de245e8001, 0xe39d54522cdd119f, 0x638810719ac425f0, 0x685acce9767254a4, 0xb80f0da5cb537e38, 0xb117e776f218059d, 0x99d124d9a15af79d, 0x07fdb925e8a0ed8d, 0x5eb7e8f96c97d873, 0xb7f997505b8fafed, 0x10229022eee2cdad, 0x0001c4c62d92c411]);
// 35: r832 (832 bits)
field_cfg!(D35, H35, 13, "28638903918474961204418783933674838490721739172170652529441449702311064005352904159345284265824628375429359509218999720074396860757073376700445026041564579620512874307979212102266801261478978776245040008231745247475930553606737583615358787106474295153", [0xffffffffffffff71, 0xffffffffffffffff, 0xffffffffffffffff, 0xffffffffffffffff, 0xffffffffffffffff, 0xffffffffffffffff, 0xffffffffffffffff, 0xffffffffffffffff, 0xffffffffffffffff, 0xffffffffffffffff, 0xffffffffffffffff, 0xffffffffffffffff, 0xffffffffffffffff]);
// 36: r830 (830 bits)
field_cfg!(D36, H36, 13, "3810899389672857153810432802772314596435350067222216272619402224321668709945558971201060088111759839952363203280772568389160353664849958234828315586848702403543932225886766706971103818683786289114850275141522578420386670893871313839930762916910346299", [0xdd51c60361e8303b, 0x62f3db21adccf8bd, 0x6d147d5416e1839d, 0x3e973b1fee862ab4, 0xd4881f67d4fed542, 0xe09ab5f27d45c9c5, 0xe92c15e457fd0e22, 0x9adc76812dba1741, 0x1d2480caa62d6e8f, 0x128033013d5e19b5, 0xcc2b38b3c5dddd35, 0xe2ade7076fc484db, 0x2210b18746e42744]);
// 37: m521 (521 bits)
field_cfg!(D37, H37, 9, "6864797660130609714981900799081393217269435300143305409394463459185543183397656052122559640661454554977296311391480858037121987999716643812574028291115057151", [0xffffffffffffffff, 0xffffffffffffffff, 0xffffffffffffffff, 0xffffffffffffffff, 0xffffffffffffffff, 0xffffffffffffffff, 0xffffffffffffffff, 0xffffffffffffffff, 0x00000000000001ff]);

// 38: top62 (62 bits)
field_cfg!(D38, H38, 1, "4611686018427387847", [0x3fffffffffffffc7]);
// 39: top60 (60 bits)
field_cfg!(D39, H39, 1, "1152921504606846883", [0x0fffffffffffffa3]);
// 40: top126 (126 bits)
field_cfg!(D40, H40, 2, "85070591730234615865843651857942052727", [0xffffffffffffff77, 0x3fffffffffffffff]);
// 41: top125 (125 bits)
field_cfg!(D41, H41, 2, "42535295865117307932921825928971026423", [0xfffffffffffffff7, 0x1fffffffffffffff]);
// 42: top254 (254 bits)
field_cfg!(D42, H42, 4, "28948022309329048855892746252171976963317496166410141009864396001978282409739", [0xffffffffffffff0b, 0xffffffffffffffff, 0xffffffffffffffff, 0x3fffffffffffffff]);
// 43: top253 (253 bits)
field_cfg!(D43, H43, 4, "14474011154664524427946373126085988481658748083205070504932198000989141204719", [0xfffffffffffffeef, 0xffffffffffffffff, 0xffffffffffffffff, 0x1fffffffffffffff]);
// 44: top252 (252 bits)
field_cfg!(D44, H44, 4, "7237005577332262213973186563042994240829374041602535252466099000494570602367", [0xffffffffffffff7f, 0xffffffffffffffff, 0xffffffffffffffff, 0x0fffffffffffffff]);
// 45: top190 (190 bits)
field_cfg!(D45, H45, 3, "1569275433846670190958947355801916604025588861116008628213", [0xfffffffffffffff5, 0xffffffffffffffff, 0x3fffffffffffffff]);
// 46: z191 (191 bits)
field_cfg!(D46, H46, 3, "3138550867693340381577612344682894744587803114800249045299", [0x0000000000000133, 0x0000000000000000, 0x7fffffffffffffff]);
// 47: z254 (254 bits)
field_cfg!(D47, H47, 4, "14474011154664524434223474861472669245494537506412736921034553445453175718117", [0x00000000000000e5, 0x0000000000000000, 0x0000000000000000, 0x2000000000000001]);
// 48: z255 (255 bits)
field_cfg!(D48, H48, 4, "57896044618658097705508390768957273162799202909612615603626436559492530307207", [0x0000000000000087, 0x0000000000000000, 0x0000000000000000, 0x7fffffffffffffff]);
// 49: p124 (124 bits)
field_cfg!(D49, H49, 2, "21267647932558653948014168890775961601", [0x0000000000000001, 0x0fffffffffffffff]);

fn dispatch(id: u64, flavour: u64, op: &str, a: &[Arg]) -> Vec<Arg> {
    match (id, flavour) {
        (0, 0) => run_f::<D0, 1>(op, a),
        (0, 1) => run_f::<H0, 1>(op, a),
        (1, 0) => run_f::<D1, 1>(op, a),
        (1, 1) => run_f::<H1, 1>(op, a),
        (2, 0) => run_f::<D2, 1>(op, a),
        (2, 1) => run_f::<H2, 1>(op, a),
        (3, 0) => run_f::<D3, 1>(op, a),
        (3, 1) => run_f::<H3, 1>(op, a),
        (4, 0) => run_f::<D4, 1>(op, a),
        (4, 1) => run_f::<H4, 1>(op, a),
        (5, 0) => run_f::<D5, 1>(op, a),
        (5, 1) => run_f::<H5, 1>(op, a),
        (6, 0) => run_f::<D6, 1>(op, a),
        (6, 1) => run_f::<H6, 1>(op, a),
        (7, 0) => run_f::<D7, 1>(op, a),
        (7, 1) => run_f::<H7, 1>(op, a),
        (8, 0) => run_f::<D8, 1>(op, a),
        (8, 1) => run_f::<H8, 1>(op, a),
        (9, 0) => run_f::<D9, 1>(op, a),
        (9, 1) => run_f::<H9, 1>(op, a),
        (10, 0) => run_f::<D10, 2>(op, a),
        (10, 1) => run_f::<H10, 2>(op, a),
        (11, 0) => run_f::<D11, 2>(op, a),
        (11, 1) => run_f::<H11, 2>(op, a),
        (12, 0) => run_f::<D12, 2>(op, a),
        (12, 1) => run_f::<H12, 2>(op, a),
        (13, 0) => run_f::<D13, 2>(op, a),
        (13, 1) => run_f::<H13, 2>(op, a),
        (14, 0) => run_f::<D14, 2>(op, a),
        (14, 1) => run_f::<H14, 2>(op, a),
        (15, 0) => run_f::<D15, 2>(op, a),
        (15, 1) => run_f::<H15, 2>(op, a),
        (16, 0) => run_f::<D16, 3>(op, a),
        (16, 1) => run_f::<H16, 3>(op, a),
        (17, 0) => run_f::<D17, 3>(op, a),
        (17, 1) => run_f::<H17, 3>(op, a),
        (18, 0) => run_f::<D18, 3>(op, a),
        (18, 1) => run_f::<H18, 3>(op, a),
        (19, 0) => run_f::<D19, 3>(op, a),
        (19, 1) => run_f::<H19, 3>(op, a),
        (20, 0) => run_f::<D20, 4>(op, a),
        (20, 1) => run_f::<H20, 4>(op, a),
        (21, 0) => run_f::<D21, 4>(op, a),
        (21, 1) => run_f::<H21, 4>(op, a),
        (22, 0) => run_f::<D22, 4>(op, a),
        (22, 1) => run_f::<H22, 4>(op, a),
        (23, 0) => run_f::<D23, 4>(op, a),
        (23, 1) => run_f::<H23, 4>(op, a),
        (24, 0) => run_f::<D24, 4>(op, a),
        (24, 1) => run_f::<H24, 4>(op, a),
        (25, 0) => run_f::<D25, 4>(op, a),
        (25, 1) => run_f::<H25, 4>(op, a),
        (26, 0) => run_f::<D26, 4>(op, a),
        (26, 1) => run_f::<H26, 4>(op, a),
        (27, 0) => run_f::<D27, 5>(op, a),
        (27, 1) => run_f::<H27, 5>(op, a),
        (28, 0) => run_f::<D28, 5>(op, a),
        (28, 1) => run_f::<H28, 5>(op, a),
        (29, 0) => run_f::<D29, 6>(op, a),
        (29, 1) => run_f::<H29, 6>(op, a),
        (30, 0) => run_f::<D30, 6>(op, a),
        (30, 1) => run_f::<H30, 6>(op, a),
        (31, 0) => run_f::<D31, 6>(op, a),
        (31, 1) => run_f::<H31, 6>(op, a),
        (32, 0) => run_f::<D32, 7>(op, a),
        (32, 1) => run_f::<H32, 7>(op, a),
        (33, 0) => run_f::<D33, 8>(op, a),
        (33, 1) => run_f::<H33, 8>(op, a),
        (34, 0) => run_f::<D34, 12>(op, a),
        (34, 1) => run_f::<H34, 12>(op, a),
        (35, 0) => run_f::<D35, 13>(op, a),
        (35, 1) => run_f::<H35, 13>(op, a),
        (36, 0) => run_f::<D36, 13>(op, a),
        (36, 1) => run_f::<H36, 13>(op, a),
        (37, 0) => run_f::<D37, 9>(op, a),
        (37, 1) => run_f::<H37, 9>(op, a),
        (38, 0) => run_f::<D38, 1>(op, a),
        (38, 1) => run_f::<H38, 1>(op, a),
        (39, 0) => run_f::<D39, 1>(op, a),
        (39, 1) => run_f::<H39, 1>(op, a),
        (40, 0) => run_f::<D40, 2>(op, a),
        (40, 1) => run_f::<H40, 2>(op, a),
        (41, 0) => run_f::<D41, 2>(op, a),
        (41, 1) => run_f::<H41, 2>(op, a),
        (42, 0) => run_f::<D42, 4>(op, a),
        (42, 1) => run_f::<H42, 4>(op, a),
        (43, 0) => run_f::<D43, 4>(op, a),
        (43, 1) => run_f::<H43, 4>(op, a),
        (44, 0) => run_f::<D44, 4>(op, a),
        (44, 1) => run_f::<H44, 4>(op, a),
        (45, 0) => run_f::<D45, 3>(op, a),
        (45, 1) => run_f::<H45, 3>(op, a),
        (46, 0) => run_f::<D46, 3>(op, a),
        (46, 1) => run_f::<H46, 3>(op, a),
        (47, 0) => run_f::<D47, 4>(op, a),
        (47, 1) => run_f::<H47, 4>(op, a),
        (48, 0) => run_f::<D48, 4>(op, a),
        (48, 1) => run_f::<H48, 4>(op, a),
        (49, 0) => run_f::<D49, 2>(op, a),
        (49, 1) => run_f::<H49, 2>(op, a),
        _ => panic!("harness: unknown (config, flavour)"),
    }
}
