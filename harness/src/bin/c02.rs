//! C02 case interpreter: extension towers (Fp2, Fp3, Fp4, Fp6 3-over-2, Fp6 2-over-3, Fp12)
//! of the shipped curve crates.  args: a[0] = [curve_id, kind], a[1] = tower parameters
//! (ignored here: they are what `dump` printed, the Coq model consumes them), a[2].. =
//! operands as base-prime-field coordinate lists.  No oracle logic: every op calls the
//! public API and prints base-prime-field coordinates.
#![allow(clippy::type_complexity)]
use ark_ff::{
    fields::models::{
        cubic_extension::{CubicExtConfig, CubicExtField},
        fp6_2over3,
        quadratic_extension::{QuadExtConfig, QuadExtField},
    },
    AdditiveGroup, CyclotomicMultSubgroup, Field, Fp12, Fp12Config, Fp12ConfigWrapper, Fp2,
    Fp2Config, Fp2ConfigWrapper, Fp3, Fp3Config, Fp3ConfigWrapper, Fp4, Fp4Config,
    Fp4ConfigWrapper, Fp6, Fp6Config, Fp6ConfigWrapper, PrimeField,
};
use num_bigint::BigUint;
use vharness::*;

type BPF<F> = <F as Field>::BasePrimeField;

fn fp<F: PrimeField>(v: &num_bigint::BigInt) -> F {
    F::from(u(v))
}
fn el<F: Field>(a: &Arg) -> F {
    F::from_base_prime_field_elems(a.iter().map(|c| fp::<BPF<F>>(c))).expect("harness: wrong coordinate count")
}
fn co<F: Field>(x: &F) -> Arg {
    x.to_base_prime_field_elements()
        .map(|c| {
            let b: BigUint = c.into_bigint().into();
            from_biguint(&b)
        })
        .collect()
}
fn modulus<F: Field>() -> BigUint {
    <BPF<F> as PrimeField>::MODULUS.into()
}
fn opt<F: Field>(o: Option<F>) -> Vec<Arg> {
    match o {
        Some(x) => vec![vec![from_u64(1)], co(&x)],
        None => vec![vec![from_u64(0)]],
    }
}
fn limbs_of(a: &Arg) -> Vec<u64> {
    arg_limbs(a)
}

/// ops shared by every extension type; `conj_or_frob`, `easy_j` describe the easy part
fn common<F: Field + CyclotomicMultSubgroup>(
    op: &str,
    a: &[Arg],
    conj_or_frob: &dyn Fn(&F) -> F,
    easy_j: usize,
    mulfp_specific: &dyn Fn(&F, &BPF<F>) -> F,
) -> Vec<Arg> {
    let x: F = el(&a[2]);
    let easy = |f: &F| -> F {
        let g = conj_or_frob(f) * f.inverse().unwrap();
        if easy_j > 0 {
            g.frobenius_map(easy_j) * g
        } else {
            g
        }
    };
    let cyc_in = |x: &F| -> F {
        if to_u64(&a[3][0]) == 0 {
            *x
        } else {
            easy(x)
        }
    };
    match op {
        "mul" => {
            let y: F = el(&a[3]);
            ok(vec![co(&(x * y)), co(&(y * x))])
        },
        "square" => ok(vec![co(&x.square()), co(&(x * x))]),
        "inverse" => ok(opt(x.inverse())),
        "add" => ok(vec![co(&(x + el::<F>(&a[3])))]),
        "sub" => ok(vec![co(&(x - el::<F>(&a[3])))]),
        "neg" => ok(vec![co(&(-x))]),
        "double" => ok(vec![co(&x.double())]),
        "frobenius" => ok(vec![co(&x.frobenius_map(to_usize(&a[3][0])))]),
        "frobenius_pow" => {
            let k = to_usize(&a[3][0]);
            let e = modulus::<F>().pow(k as u32).to_u64_digits();
            ok(vec![co(&x.frobenius_map(k)), co(&x.pow(e))])
        },
        "mul_by_fp" => {
            let e: BPF<F> = fp(&a[3][0]);
            ok(vec![co(&x.mul_by_base_prime_field(&e)), co(&mulfp_specific(&x, &e))])
        },
        "div" => {
            let y: F = el(&a[3]);
            ok(vec![co(&(x / y))])
        },
        "cyc_square" => {
            let g = cyc_in(&x);
            ok(vec![co(&g), co(&g.cyclotomic_square()), co(&g.square())])
        },
        "cyc_inverse" => {
            let g = cyc_in(&x);
            let mut r = vec![co(&g)];
            r.extend(opt(g.cyclotomic_inverse()));
            r.extend(opt(g.inverse()));
            ok(r)
        },
        "cyc_exp" => {
            let g = cyc_in(&x);
            let e = limbs_of(&a[4]);
            ok(vec![co(&g), co(&g.cyclotomic_exp(&e)), co(&g.pow(&e))])
        },
        _ => unsupported(),
    }
}

/// ops of the quadratic template
fn quad<C: QuadExtConfig>(op: &str, a: &[Arg]) -> Option<Vec<Arg>> {
    type E<C> = QuadExtField<C>;
    Some(match op {
        "norm" => {
            let x: E<C> = el(&a[2]);
            let mut c = x;
            c.conjugate_in_place();
            ok(vec![co(&x.norm()), co(&(x * c).c0)])
        },
        "conjugate" => {
            let mut x: E<C> = el(&a[2]);
            x.conjugate_in_place();
            ok(vec![co(&x)])
        },
        "mul_by_basefield" => {
            let mut x: E<C> = el(&a[2]);
            let e: C::BaseField = el(&a[3]);
            x.mul_assign_by_basefield(&e);
            ok(vec![co(&x)])
        },
        "mul_nr" => {
            let y: C::BaseField = el(&a[2]);
            let z: C::BaseField = el(&a[3]);
            let mut r0 = y;
            C::mul_base_field_by_nonresidue_in_place(&mut r0);
            let mut r1 = y;
            C::mul_base_field_by_nonresidue_and_add(&mut r1, &z);
            let mut r2 = y;
            C::mul_base_field_by_nonresidue_plus_one_and_add(&mut r2, &z);
            let mut r3 = y;
            C::sub_and_mul_base_field_by_nonresidue(&mut r3, &z);
            ok(vec![co(&r0), co(&r1), co(&r2), co(&r3)])
        },
        _ => return None,
    })
}

/// ops of the cubic template
fn cubic<C: CubicExtConfig>(op: &str, a: &[Arg]) -> Option<Vec<Arg>> {
    type E<C> = CubicExtField<C>;
    Some(match op {
        "norm" => {
            let x: E<C> = el(&a[2]);
            ok(vec![co(&x.norm())])
        },
        "mul_by_basefield" => {
            let mut x: E<C> = el(&a[2]);
            let e: C::BaseField = el(&a[3]);
            x.mul_assign_by_base_field(&e);
            ok(vec![co(&x)])
        },
        "mul_nr" => {
            let y: C::BaseField = el(&a[2]);
            let r0 = C::mul_base_field_by_nonresidue(y);
            let mut r1 = y;
            C::mul_base_field_by_nonresidue_in_place(&mut r1);
            assert!(r0 == r1, "harness: in-place and by-value non-residue multiplications differ");
            ok(vec![co(&r0)])
        },
        _ => return None,
    })
}

fn conj<C: QuadExtConfig>(x: &QuadExtField<C>) -> QuadExtField<C> {
    let mut c = *x;
    c.conjugate_in_place();
    c
}

fn run_fp2<P: Fp2Config>(op: &str, a: &[Arg]) -> Vec<Arg> {
    if let Some(r) = quad::<Fp2ConfigWrapper<P>>(op, a) {
        return r;
    }
    common::<Fp2<P>>(op, a, &conj, 0, &|x, e| {
        let mut r = *x;
        r.mul_assign_by_fp(e);
        r
    })
}

fn run_fp3<P: Fp3Config>(op: &str, a: &[Arg]) -> Vec<Arg> {
    if let Some(r) = cubic::<Fp3ConfigWrapper<P>>(op, a) {
        return r;
    }
    common::<Fp3<P>>(op, a, &|x| x.frobenius_map(1), 0, &|x, e| {
        let mut r = *x;
        r.mul_assign_by_fp(e);
        r
    })
}

fn run_fp4<P: Fp4Config>(op: &str, a: &[Arg]) -> Vec<Arg> {
    if op == "mul_by_fp2" {
        let mut x: Fp4<P> = el(&a[2]);
        let e: Fp2<P::Fp2Config> = el(&a[3]);
        x.mul_by_fp2(&e);
        return ok(vec![co(&x)]);
    }
    if let Some(r) = quad::<Fp4ConfigWrapper<P>>(op, a) {
        return r;
    }
    common::<Fp4<P>>(op, a, &conj, 0, &|x, e| {
        let mut r = *x;
        r.mul_by_fp(e);
        r
    })
}

fn run_fp6b<P: fp6_2over3::Fp6Config>(op: &str, a: &[Arg]) -> Vec<Arg> {
    type F6<P> = fp6_2over3::Fp6<P>;
    type F3<P> = Fp3<<P as fp6_2over3::Fp6Config>::Fp3Config>;
    type F0<P> = <<P as fp6_2over3::Fp6Config>::Fp3Config as Fp3Config>::Fp;
    match op {
        "mul_by_034" | "mul_by_014" => {
            let x: F6<P> = el(&a[2]);
            let s: Vec<F0<P>> = a[3].iter().map(|c| fp::<F0<P>>(c)).collect();
            let mut r = x;
            let z = F0::<P>::ZERO;
            let full = if op == "mul_by_034" {
                r.mul_by_034(&s[0], &s[1], &s[2]);
                F6::<P>::new(F3::<P>::new(s[0], z, z), F3::<P>::new(s[1], s[2], z))
            } else {
                r.mul_by_014(&s[0], &s[1], &s[2]);
                F6::<P>::new(F3::<P>::new(s[0], s[1], z), F3::<P>::new(z, s[2], z))
            };
            return ok(vec![co(&r), co(&(x * full))]);
        },
        _ => {},
    }
    if let Some(r) = quad::<fp6_2over3::Fp6ConfigWrapper<P>>(op, a) {
        return r;
    }
    common::<F6<P>>(op, a, &conj, 1, &|x, e| x.mul_by_base_prime_field(e))
}

fn run_fp6a<P: Fp6Config>(op: &str, a: &[Arg]) -> Vec<Arg> {
    type F2<P> = Fp2<<P as Fp6Config>::Fp2Config>;
    match op {
        "mul_by_fp2" | "mul_assign_by_fp2" => {
            let mut x: Fp6<P> = el(&a[2]);
            let e: F2<P> = el(&a[3]);
            if op == "mul_by_fp2" {
                x.mul_by_fp2(&e);
            } else {
                x.mul_assign_by_fp2(e);
            }
            return ok(vec![co(&x)]);
        },
        "mul_by_1" => {
            let x: Fp6<P> = el(&a[2]);
            let e1: F2<P> = el(&a[3]);
            let mut r = x;
            r.mul_by_1(&e1);
            let full = Fp6::<P>::new(F2::<P>::ZERO, e1, F2::<P>::ZERO);
            return ok(vec![co(&r), co(&(x * full))]);
        },
        "mul_by_01" => {
            let x: Fp6<P> = el(&a[2]);
            let e0: F2<P> = el(&a[3]);
            let e1: F2<P> = el(&a[4]);
            let mut r = x;
            r.mul_by_01(&e0, &e1);
            let full = Fp6::<P>::new(e0, e1, F2::<P>::ZERO);
            return ok(vec![co(&r), co(&(x * full))]);
        },
        _ => {},
    }
    if let Some(r) = cubic::<Fp6ConfigWrapper<P>>(op, a) {
        return r;
    }
    common::<Fp6<P>>(op, a, &|x| x.frobenius_map(3), 1, &|x, e| {
        let mut r = *x;
        r.mul_by_fp(e);
        r
    })
}

fn run_fp12<P: Fp12Config>(op: &str, a: &[Arg]) -> Vec<Arg> {
    type F2<P> = Fp2<<<P as Fp12Config>::Fp6Config as Fp6Config>::Fp2Config>;
    type F6<P> = Fp6<<P as Fp12Config>::Fp6Config>;
    match op {
        "mul_by_034" | "mul_by_014" => {
            let x: Fp12<P> = el(&a[2]);
            let e0: F2<P> = el(&a[3]);
            let e1: F2<P> = el(&a[4]);
            let e2: F2<P> = el(&a[5]);
            let z = F2::<P>::ZERO;
            let mut r = x;
            let full = if op == "mul_by_034" {
                r.mul_by_034(&e0, &e1, &e2);
                Fp12::<P>::new(F6::<P>::new(e0, z, z), F6::<P>::new(e1, e2, z))
            } else {
                r.mul_by_014(&e0, &e1, &e2);
                Fp12::<P>::new(F6::<P>::new(e0, e1, z), F6::<P>::new(z, e2, z))
            };
            return ok(vec![co(&r), co(&(x * full))]);
        },
        _ => {},
    }
    if let Some(r) = quad::<Fp12ConfigWrapper<P>>(op, a) {
        return r;
    }
    common::<Fp12<P>>(op, a, &conj, 2, &|x, e| {
        let mut r = *x;
        r.mul_by_fp(e);
        r
    })
}

// ---------------- parameter dump ----------------
fn cos<F: Field>(v: &[F]) -> Arg {
    v.iter().flat_map(|x| co(x)).collect()
}
fn p_of<F: Field>() -> Arg {
    vec![from_biguint(&modulus::<F>())]
}
fn dump_fp2<P: Fp2Config>() -> Arg {
    let mut r = p_of::<P::Fp>();
    r.extend(co(&P::NONRESIDUE));
    r.extend(cos(P::FROBENIUS_COEFF_FP2_C1));
    r
}
fn dump_fp3<P: Fp3Config>() -> Arg {
    let mut r = p_of::<P::Fp>();
    r.extend(co(&P::NONRESIDUE));
    r.extend(cos(P::FROBENIUS_COEFF_FP3_C1));
    r.extend(cos(P::FROBENIUS_COEFF_FP3_C2));
    r
}
fn dump_fp4<P: Fp4Config>() -> Arg {
    let mut r = dump_fp2::<P::Fp2Config>();
    r.extend(co(&P::NONRESIDUE));
    r.extend(cos(P::FROBENIUS_COEFF_FP4_C1));
    r
}
fn dump_fp6b<P: fp6_2over3::Fp6Config>() -> Arg {
    let mut r = dump_fp3::<P::Fp3Config>();
    r.extend(co(&P::NONRESIDUE));
    r.extend(cos(P::FROBENIUS_COEFF_FP6_C1));
    r
}
fn dump_fp6a<P: Fp6Config>() -> Arg {
    let mut r = dump_fp2::<P::Fp2Config>();
    r.extend(co(&P::NONRESIDUE));
    r.extend(cos(P::FROBENIUS_COEFF_FP6_C1));
    r.extend(cos(P::FROBENIUS_COEFF_FP6_C2));
    r
}
fn dump_fp12<P: Fp12Config>() -> Arg {
    let mut r = dump_fp6a::<P::Fp6Config>();
    r.extend(co(&P::NONRESIDUE));
    r.extend(cos(P::FROBENIUS_COEFF_FP12_C1));
    r
}


// ---------------- toy towers over small primes (exhaustive enumeration) ----------------
// Constants computed by schoolbook exponentiation (see props/C02/NOTES.md); the frobenius_pow
// op re-checks every table entry against x^(p^k).
mod toy {
    use ark_ff::{
        fields::{
            fp6_2over3, Fp12Config, Fp2, Fp2Config, Fp3, Fp3Config, Fp4Config, Fp64, Fp6Config,
            MontBackend, MontConfig,
        },
        AdditiveGroup, Field, Fp6, MontFp,
    };

    #[derive(MontConfig)]
    #[modulus = "7"]
    #[generator = "3"]
    pub struct F7Config;
    pub type F7 = Fp64<MontBackend<F7Config, 1>>;

    #[derive(MontConfig)]
    #[modulus = "13"]
    #[generator = "2"]
    pub struct F13Config;
    pub type F13 = Fp64<MontBackend<F13Config, 1>>;

    // toy7: F7[u]/(u^2+1), [v]/(v^3 - (1+2u)), [w]/(w^2 - v)
    pub struct T7Fq2Config;
    pub type T7Fq2 = Fp2<T7Fq2Config>;
    impl Fp2Config for T7Fq2Config {
        type Fp = F7;
        const NONRESIDUE: F7 = MontFp!("6");
        const FROBENIUS_COEFF_FP2_C1: &'static [F7] = &[MontFp!("1"), MontFp!("6")];
    }
    #[derive(Clone, Copy)]
    pub struct T7Fq6Config;
    pub type T7Fq6 = Fp6<T7Fq6Config>;
    const fn t7(a: F7, b: F7) -> T7Fq2 {
        T7Fq2::new(a, b)
    }
    impl Fp6Config for T7Fq6Config {
        type Fp2Config = T7Fq2Config;
        const NONRESIDUE: T7Fq2 = t7(MontFp!("1"), MontFp!("2"));
        const FROBENIUS_COEFF_FP6_C1: &'static [T7Fq2] = &[
            t7(MontFp!("1"), MontFp!("0")),
            t7(MontFp!("4"), MontFp!("4")),
            t7(MontFp!("4"), MontFp!("0")),
            t7(MontFp!("2"), MontFp!("2")),
            t7(MontFp!("2"), MontFp!("0")),
            t7(MontFp!("1"), MontFp!("1")),
        ];
        const FROBENIUS_COEFF_FP6_C2: &'static [T7Fq2] = &[
            t7(MontFp!("1"), MontFp!("0")),
            t7(MontFp!("0"), MontFp!("4")),
            t7(MontFp!("2"), MontFp!("0")),
            t7(MontFp!("0"), MontFp!("1")),
            t7(MontFp!("4"), MontFp!("0")),
            t7(MontFp!("0"), MontFp!("2")),
        ];
    }
    #[derive(Clone, Copy)]
    pub struct T7Fq12Config;
    impl Fp12Config for T7Fq12Config {
        type Fp6Config = T7Fq6Config;
        const NONRESIDUE: T7Fq6 = T7Fq6::new(T7Fq2::ZERO, T7Fq2::ONE, T7Fq2::ZERO);
        const FROBENIUS_COEFF_FP12_C1: &'static [T7Fq2] = &[
            t7(MontFp!("1"), MontFp!("0")),
            t7(MontFp!("1"), MontFp!("2")),
            t7(MontFp!("5"), MontFp!("0")),
            t7(MontFp!("5"), MontFp!("3")),
            t7(MontFp!("4"), MontFp!("0")),
            t7(MontFp!("4"), MontFp!("1")),
            t7(MontFp!("6"), MontFp!("0")),
            t7(MontFp!("6"), MontFp!("5")),
            t7(MontFp!("2"), MontFp!("0")),
            t7(MontFp!("2"), MontFp!("4")),
            t7(MontFp!("3"), MontFp!("0")),
            t7(MontFp!("3"), MontFp!("6")),
        ];
    }

    // toy13: F13[u]/(u^2 - 2), [w]/(w^2 - u)
    pub struct T13Fq2Config;
    pub type T13Fq2 = Fp2<T13Fq2Config>;
    impl Fp2Config for T13Fq2Config {
        type Fp = F13;
        const NONRESIDUE: F13 = MontFp!("2");
        const FROBENIUS_COEFF_FP2_C1: &'static [F13] = &[MontFp!("1"), MontFp!("12")];
    }
    pub struct T13Fq4Config;
    impl Fp4Config for T13Fq4Config {
        type Fp2Config = T13Fq2Config;
        const NONRESIDUE: T13Fq2 = T13Fq2::new(F13::ZERO, F13::ONE);
        const FROBENIUS_COEFF_FP4_C1: &'static [F13] =
            &[MontFp!("1"), MontFp!("8"), MontFp!("12"), MontFp!("5")];
    }

    // toy7c: F7[v]/(v^3 - 3), [w]/(w^2 - v)
    pub struct T7Fq3Config;
    pub type T7Fq3 = Fp3<T7Fq3Config>;
    impl Fp3Config for T7Fq3Config {
        type Fp = F7;
        const NONRESIDUE: F7 = MontFp!("3");
        const TWO_ADICITY: u32 = 1;
        const TRACE_MINUS_ONE_DIV_TWO: &'static [u64] = &[85];
        const QUADRATIC_NONRESIDUE_TO_T: T7Fq3 = T7Fq3::new(MontFp!("6"), F7::ZERO, F7::ZERO);
        const FROBENIUS_COEFF_FP3_C1: &'static [F7] = &[MontFp!("1"), MontFp!("2"), MontFp!("4")];
        const FROBENIUS_COEFF_FP3_C2: &'static [F7] = &[MontFp!("1"), MontFp!("4"), MontFp!("2")];
    }
    pub struct T7Fq6bConfig;
    impl fp6_2over3::Fp6Config for T7Fq6bConfig {
        type Fp3Config = T7Fq3Config;
        const NONRESIDUE: T7Fq3 = T7Fq3::new(F7::ZERO, F7::ONE, F7::ZERO);
        const FROBENIUS_COEFF_FP6_C1: &'static [F7] = &[
            MontFp!("1"),
            MontFp!("3"),
            MontFp!("2"),
            MontFp!("6"),
            MontFp!("4"),
            MontFp!("5"),
        ];
    }
}

macro_rules! tower_232 {
    ($krate:ident, $op:expr, $kind:expr, $a:expr) => {
        match ($op, $kind) {
            ("dump", 2) => ok(vec![dump_fp2::<$krate::Fq2Config>()]),
            ("dump", 6) => ok(vec![dump_fp6a::<$krate::Fq6Config>()]),
            ("dump", 12) => ok(vec![dump_fp12::<$krate::Fq12Config>()]),
            (o, 2) => run_fp2::<$krate::Fq2Config>(o, $a),
            (o, 6) => run_fp6a::<$krate::Fq6Config>(o, $a),
            (o, 12) => run_fp12::<$krate::Fq12Config>(o, $a),
            _ => unsupported(),
        }
    };
}
macro_rules! tower_22 {
    ($krate:ident, $op:expr, $kind:expr, $a:expr) => {
        match ($op, $kind) {
            ("dump", 2) => ok(vec![dump_fp2::<$krate::Fq2Config>()]),
            ("dump", 4) => ok(vec![dump_fp4::<$krate::Fq4Config>()]),
            (o, 2) => run_fp2::<$krate::Fq2Config>(o, $a),
            (o, 4) => run_fp4::<$krate::Fq4Config>(o, $a),
            _ => unsupported(),
        }
    };
}
macro_rules! tower_32 {
    ($krate:ident, $op:expr, $kind:expr, $a:expr) => {
        match ($op, $kind) {
            ("dump", 3) => ok(vec![dump_fp3::<$krate::Fq3Config>()]),
            ("dump", 7) => ok(vec![dump_fp6b::<$krate::Fq6Config>()]),
            (o, 3) => run_fp3::<$krate::Fq3Config>(o, $a),
            (o, 7) => run_fp6b::<$krate::Fq6Config>(o, $a),
            _ => unsupported(),
        }
    };
}

fn run(op: &str, a: &[Arg]) -> Vec<Arg> {
    let cid = to_u64(&a[0][0]);
    let kind = to_u64(&a[0][1]);
    match cid {
        0 => tower_232!(ark_bls12_381, op, kind, a),
        1 => tower_232!(ark_bls12_377, op, kind, a),
        2 => tower_232!(ark_bn254, op, kind, a),
        3 => tower_22!(ark_mnt4_298, op, kind, a),
        4 => tower_22!(ark_mnt4_753, op, kind, a),
        5 => tower_32!(ark_mnt6_298, op, kind, a),
        6 => tower_32!(ark_mnt6_753, op, kind, a),
        7 => tower_32!(ark_bw6_761, op, kind, a),
        8 => tower_32!(ark_bw6_767, op, kind, a),
        9 => tower_32!(ark_cp6_782, op, kind, a),
        10 => match (op, kind) {
            ("dump", 2) => ok(vec![dump_fp2::<toy::T7Fq2Config>()]),
            ("dump", 6) => ok(vec![dump_fp6a::<toy::T7Fq6Config>()]),
            ("dump", 12) => ok(vec![dump_fp12::<toy::T7Fq12Config>()]),
            (o, 2) => run_fp2::<toy::T7Fq2Config>(o, a),
            (o, 6) => run_fp6a::<toy::T7Fq6Config>(o, a),
            (o, 12) => run_fp12::<toy::T7Fq12Config>(o, a),
            _ => unsupported(),
        },
        11 => match (op, kind) {
            ("dump", 2) => ok(vec![dump_fp2::<toy::T13Fq2Config>()]),
            ("dump", 4) => ok(vec![dump_fp4::<toy::T13Fq4Config>()]),
            (o, 2) => run_fp2::<toy::T13Fq2Config>(o, a),
            (o, 4) => run_fp4::<toy::T13Fq4Config>(o, a),
            _ => unsupported(),
        },
        12 => match (op, kind) {
            ("dump", 3) => ok(vec![dump_fp3::<toy::T7Fq3Config>()]),
            ("dump", 7) => ok(vec![dump_fp6b::<toy::T7Fq6bConfig>()]),
            (o, 3) => run_fp3::<toy::T7Fq3Config>(o, a),
            (o, 7) => run_fp6b::<toy::T7Fq6bConfig>(o, a),
            _ => unsupported(),
        },
        _ => unsupported(),
    }
}

fn main() {
    main_loop(run);
}
