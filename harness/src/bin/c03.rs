//! C03 case interpreter: curve point operations (short Weierstrass Jacobian, twisted
//! Edwards extended).  Argument layout of every case (see coq/C03/Run.v):
//!   a[0] = [cfg_id], a[1] = [p, deg, nr], a[2] = coeff a, a[3] = coeff b / d, a[4..] operands.
//! Only a[0] and the operands are used here; a[1..3] describe the configuration to the
//! Coq model and are compared with the real constants by the `*_params` ops.
//! Projective operands are raw coordinates (`new_unchecked`); results are printed as
//! affine coordinates (+ infinity flag for short Weierstrass).
//! `c03 dump` prints the constants of the shipped configurations (used once to write
//! props/C03/shipped.json).
#![allow(non_camel_case_types)]
use ark_ec::{
    models::CurveConfig,
    short_weierstrass::{self as sw, SWCurveConfig},
    twisted_edwards::{self as te, MontCurveConfig, TECurveConfig},
    AdditiveGroup, AffineRepr, CurveGroup,
};
use ark_ff::{Field, PrimeField, Zero};
use num_bigint::BigUint;
use vharness::*;

mod toy {
    use ark_ec::{
        models::CurveConfig,
        short_weierstrass::{self as sw, SWCurveConfig},
        twisted_edwards::{self as te, MontCurveConfig, TECurveConfig},
    };
    use ark_ff::fields::{Fp2, Fp2Config, Fp3, Fp3Config, Fp64, MontBackend, MontConfig};
    use ark_ff::MontFp;
// BEGIN GENERATED TOY CONFIGS
#[derive(MontConfig)]
#[modulus = "11"]
#[generator = "2"]
pub struct F11Config;
pub type F11 = Fp64<MontBackend<F11Config, 1>>;

#[derive(MontConfig)]
#[modulus = "7"]
#[generator = "3"]
pub struct F7Config;
pub type F7 = Fp64<MontBackend<F7Config, 1>>;

pub struct F11_2Config;
impl Fp2Config for F11_2Config {
    type Fp = F11;
    const NONRESIDUE: F11 = MontFp!("10");
    const FROBENIUS_COEFF_FP2_C1: &'static [F11] = &[MontFp!("1"), MontFp!("10")];
}
pub type F11_2 = Fp2<F11_2Config>;
pub struct F7_3Config;
impl Fp3Config for F7_3Config {
    type Fp = F7;
    const NONRESIDUE: F7 = MontFp!("2");
    const TWO_ADICITY: u32 = 1;
    const TRACE_MINUS_ONE_DIV_TWO: &'static [u64] = &[85];
    const QUADRATIC_NONRESIDUE_TO_T: Fp3<F7_3Config> = Fp3::<F7_3Config>::new(MontFp!("6"), MontFp!("0"), MontFp!("0"));
    const FROBENIUS_COEFF_FP3_C1: &'static [F7] = &[MontFp!("1"), MontFp!("4"), MontFp!("2")];
    const FROBENIUS_COEFF_FP3_C2: &'static [F7] = &[MontFp!("1"), MontFp!("2"), MontFp!("4")];
}
pub type F7_3 = Fp3<F7_3Config>;

#[derive(MontConfig)]
#[modulus = "13"]
#[generator = "2"]
pub struct F13Config;
pub type F13 = Fp64<MontBackend<F13Config, 1>>;

#[derive(MontConfig)]
#[modulus = "19"]
#[generator = "2"]
pub struct F19Config;
pub type F19 = Fp64<MontBackend<F19Config, 1>>;

// sw13_a0_prime: 19 points, r = 19, cofactor 1
#[derive(Clone, Default, PartialEq, Eq)]
pub struct Sw1;
impl CurveConfig for Sw1 {
    type BaseField = F13;
    type ScalarField = F19;
    const COFACTOR: &'static [u64] = &[1];
    const COFACTOR_INV: F19 = MontFp!("1");
}
impl SWCurveConfig for Sw1 {
    const COEFF_A: F13 = MontFp!("0");
    const COEFF_B: F13 = MontFp!("2");
    const GENERATOR: sw::Affine<Self> = sw::Affine::new_unchecked(MontFp!("1"), MontFp!("4"));
}

// sw19_a0_h4: 28 points, r = 7, cofactor 4
#[derive(Clone, Default, PartialEq, Eq)]
pub struct Sw2;
impl CurveConfig for Sw2 {
    type BaseField = F19;
    type ScalarField = F7;
    const COFACTOR: &'static [u64] = &[4];
    const COFACTOR_INV: F7 = MontFp!("2");
}
impl SWCurveConfig for Sw2 {
    const COEFF_A: F19 = MontFp!("0");
    const COEFF_B: F19 = MontFp!("12");
    const GENERATOR: sw::Affine<Self> = sw::Affine::new_unchecked(MontFp!("10"), MontFp!("9"));
}

// sw13_a0_h3: 21 points, r = 7, cofactor 3
#[derive(Clone, Default, PartialEq, Eq)]
pub struct Sw3;
impl CurveConfig for Sw3 {
    type BaseField = F13;
    type ScalarField = F7;
    const COFACTOR: &'static [u64] = &[3];
    const COFACTOR_INV: F7 = MontFp!("5");
}
impl SWCurveConfig for Sw3 {
    const COEFF_A: F13 = MontFp!("0");
    const COEFF_B: F13 = MontFp!("4");
    const GENERATOR: sw::Affine<Self> = sw::Affine::new_unchecked(MontFp!("7"), MontFp!("3"));
}

// sw11_a1_prime: 13 points, r = 13, cofactor 1
#[derive(Clone, Default, PartialEq, Eq)]
pub struct Sw4;
impl CurveConfig for Sw4 {
    type BaseField = F11;
    type ScalarField = F13;
    const COFACTOR: &'static [u64] = &[1];
    const COFACTOR_INV: F13 = MontFp!("1");
}
impl SWCurveConfig for Sw4 {
    const COEFF_A: F11 = MontFp!("1");
    const COEFF_B: F11 = MontFp!("6");
    const GENERATOR: sw::Affine<Self> = sw::Affine::new_unchecked(MontFp!("2"), MontFp!("4"));
}

#[derive(MontConfig)]
#[modulus = "17"]
#[generator = "3"]
pub struct F17Config;
pub type F17 = Fp64<MontBackend<F17Config, 1>>;

// sw17_a1_h2: 14 points, r = 7, cofactor 2
#[derive(Clone, Default, PartialEq, Eq)]
pub struct Sw5;
impl CurveConfig for Sw5 {
    type BaseField = F17;
    type ScalarField = F7;
    const COFACTOR: &'static [u64] = &[2];
    const COFACTOR_INV: F7 = MontFp!("4");
}
impl SWCurveConfig for Sw5 {
    const COEFF_A: F17 = MontFp!("1");
    const COEFF_B: F17 = MontFp!("4");
    const GENERATOR: sw::Affine<Self> = sw::Affine::new_unchecked(MontFp!("4"), MontFp!("2"));
}

#[derive(MontConfig)]
#[modulus = "23"]
#[generator = "5"]
pub struct F23Config;
pub type F23 = Fp64<MontBackend<F23Config, 1>>;

#[derive(MontConfig)]
#[modulus = "5"]
#[generator = "2"]
pub struct F5Config;
pub type F5 = Fp64<MontBackend<F5Config, 1>>;

// sw23_a1_h4: 20 points, r = 5, cofactor 4
#[derive(Clone, Default, PartialEq, Eq)]
pub struct Sw6;
impl CurveConfig for Sw6 {
    type BaseField = F23;
    type ScalarField = F5;
    const COFACTOR: &'static [u64] = &[4];
    const COFACTOR_INV: F5 = MontFp!("4");
}
impl SWCurveConfig for Sw6 {
    const COEFF_A: F23 = MontFp!("1");
    const COEFF_B: F23 = MontFp!("15");
    const GENERATOR: sw::Affine<Self> = sw::Affine::new_unchecked(MontFp!("19"), MontFp!("4"));
}

// sw17_a1_z4: 20 points, r = 5, cofactor 4
#[derive(Clone, Default, PartialEq, Eq)]
pub struct Sw7;
impl CurveConfig for Sw7 {
    type BaseField = F17;
    type ScalarField = F5;
    const COFACTOR: &'static [u64] = &[4];
    const COFACTOR_INV: F5 = MontFp!("4");
}
impl SWCurveConfig for Sw7 {
    const COEFF_A: F17 = MontFp!("1");
    const COEFF_B: F17 = MontFp!("11");
    const GENERATOR: sw::Affine<Self> = sw::Affine::new_unchecked(MontFp!("10"), MontFp!("1"));
}

// sw17_a3_b0: 26 points, r = 13, cofactor 2
#[derive(Clone, Default, PartialEq, Eq)]
pub struct Sw8;
impl CurveConfig for Sw8 {
    type BaseField = F17;
    type ScalarField = F13;
    const COFACTOR: &'static [u64] = &[2];
    const COFACTOR_INV: F13 = MontFp!("7");
}
impl SWCurveConfig for Sw8 {
    const COEFF_A: F17 = MontFp!("3");
    const COEFF_B: F17 = MontFp!("0");
    const GENERATOR: sw::Affine<Self> = sw::Affine::new_unchecked(MontFp!("1"), MontFp!("2"));
}

// sw19_am3_prime: 19 points, r = 19, cofactor 1
#[derive(Clone, Default, PartialEq, Eq)]
pub struct Sw9;
impl CurveConfig for Sw9 {
    type BaseField = F19;
    type ScalarField = F19;
    const COFACTOR: &'static [u64] = &[1];
    const COFACTOR_INV: F19 = MontFp!("1");
}
impl SWCurveConfig for Sw9 {
    const COEFF_A: F19 = MontFp!("16");
    const COEFF_B: F19 = MontFp!("12");
    const GENERATOR: sw::Affine<Self> = sw::Affine::new_unchecked(MontFp!("3"), MontFp!("7"));
}

#[derive(MontConfig)]
#[modulus = "101"]
#[generator = "2"]
pub struct F101Config;
pub type F101 = Fp64<MontBackend<F101Config, 1>>;

#[derive(MontConfig)]
#[modulus = "109"]
#[generator = "6"]
pub struct F109Config;
pub type F109 = Fp64<MontBackend<F109Config, 1>>;

// sw101_am3_prime: 109 points, r = 109, cofactor 1
#[derive(Clone, Default, PartialEq, Eq)]
pub struct Sw10;
impl CurveConfig for Sw10 {
    type BaseField = F101;
    type ScalarField = F109;
    const COFACTOR: &'static [u64] = &[1];
    const COFACTOR_INV: F109 = MontFp!("1");
}
impl SWCurveConfig for Sw10 {
    const COEFF_A: F101 = MontFp!("98");
    const COEFF_B: F101 = MontFp!("6");
    const GENERATOR: sw::Affine<Self> = sw::Affine::new_unchecked(MontFp!("0"), MontFp!("39"));
}

#[derive(MontConfig)]
#[modulus = "103"]
#[generator = "5"]
pub struct F103Config;
pub type F103 = Fp64<MontBackend<F103Config, 1>>;

#[derive(MontConfig)]
#[modulus = "31"]
#[generator = "3"]
pub struct F31Config;
pub type F31 = Fp64<MontBackend<F31Config, 1>>;

// sw103_a0_h4: 124 points, r = 31, cofactor 4
#[derive(Clone, Default, PartialEq, Eq)]
pub struct Sw11;
impl CurveConfig for Sw11 {
    type BaseField = F103;
    type ScalarField = F31;
    const COFACTOR: &'static [u64] = &[4];
    const COFACTOR_INV: F31 = MontFp!("8");
}
impl SWCurveConfig for Sw11 {
    const COEFF_A: F103 = MontFp!("0");
    const COEFF_B: F103 = MontFp!("3");
    const GENERATOR: sw::Affine<Self> = sw::Affine::new_unchecked(MontFp!("5"), MontFp!("5"));
}

// sw103_a1_h4: 92 points, r = 23, cofactor 4
#[derive(Clone, Default, PartialEq, Eq)]
pub struct Sw12;
impl CurveConfig for Sw12 {
    type BaseField = F103;
    type ScalarField = F23;
    const COFACTOR: &'static [u64] = &[4];
    const COFACTOR_INV: F23 = MontFp!("6");
}
impl SWCurveConfig for Sw12 {
    const COEFF_A: F103 = MontFp!("1");
    const COEFF_B: F103 = MontFp!("7");
    const GENERATOR: sw::Affine<Self> = sw::Affine::new_unchecked(MontFp!("1"), MontFp!("3"));
}

// sw121_a0: 100 points, r = 5, cofactor 20
#[derive(Clone, Default, PartialEq, Eq)]
pub struct Sw13;
impl CurveConfig for Sw13 {
    type BaseField = F11_2;
    type ScalarField = F5;
    const COFACTOR: &'static [u64] = &[20];
    const COFACTOR_INV: F5 = MontFp!("1");
}
impl SWCurveConfig for Sw13 {
    const COEFF_A: F11_2 = F11_2::new(MontFp!("0"), MontFp!("0"));
    const COEFF_B: F11_2 = F11_2::new(MontFp!("1"), MontFp!("1"));
    const GENERATOR: sw::Affine<Self> = sw::Affine::new_unchecked(F11_2::new(MontFp!("1"), MontFp!("0")), F11_2::new(MontFp!("6"), MontFp!("1")));
}

// sw121_a: 132 points, r = 11, cofactor 12
#[derive(Clone, Default, PartialEq, Eq)]
pub struct Sw14;
impl CurveConfig for Sw14 {
    type BaseField = F11_2;
    type ScalarField = F11;
    const COFACTOR: &'static [u64] = &[12];
    const COFACTOR_INV: F11 = MontFp!("1");
}
impl SWCurveConfig for Sw14 {
    const COEFF_A: F11_2 = F11_2::new(MontFp!("3"), MontFp!("1"));
    const COEFF_B: F11_2 = F11_2::new(MontFp!("2"), MontFp!("2"));
    const GENERATOR: sw::Affine<Self> = sw::Affine::new_unchecked(F11_2::new(MontFp!("10"), MontFp!("0")), F11_2::new(MontFp!("10"), MontFp!("5")));
}

#[derive(MontConfig)]
#[modulus = "127"]
#[generator = "3"]
pub struct F127Config;
pub type F127 = Fp64<MontBackend<F127Config, 1>>;

// sw343_a0: 381 points, r = 127, cofactor 3
#[derive(Clone, Default, PartialEq, Eq)]
pub struct Sw15;
impl CurveConfig for Sw15 {
    type BaseField = F7_3;
    type ScalarField = F127;
    const COFACTOR: &'static [u64] = &[3];
    const COFACTOR_INV: F127 = MontFp!("85");
}
impl SWCurveConfig for Sw15 {
    const COEFF_A: F7_3 = F7_3::new(MontFp!("0"), MontFp!("0"), MontFp!("0"));
    const COEFF_B: F7_3 = F7_3::new(MontFp!("0"), MontFp!("1"), MontFp!("0"));
    const GENERATOR: sw::Affine<Self> = sw::Affine::new_unchecked(F7_3::new(MontFp!("3"), MontFp!("0"), MontFp!("0")), F7_3::new(MontFp!("3"), MontFp!("1"), MontFp!("1")));
}

// te13_m1_complete: 20 points, r = 5, cofactor 4
#[derive(Clone, Default, PartialEq, Eq)]
pub struct Te1;
impl CurveConfig for Te1 {
    type BaseField = F13;
    type ScalarField = F5;
    const COFACTOR: &'static [u64] = &[4];
    const COFACTOR_INV: F5 = MontFp!("4");
}
impl TECurveConfig for Te1 {
    const COEFF_A: F13 = MontFp!("12");
    const COEFF_D: F13 = MontFp!("6");
    const GENERATOR: te::Affine<Self> = te::Affine::new_unchecked(MontFp!("3"), MontFp!("9"));
    type MontCurveConfig = Te1;
}
impl MontCurveConfig for Te1 {
    const COEFF_A: F13 = MontFp!("6");
    const COEFF_B: F13 = MontFp!("5");
    type TECurveConfig = Te1;
}

// te17_1_complete: 20 points, r = 5, cofactor 4
#[derive(Clone, Default, PartialEq, Eq)]
pub struct Te2;
impl CurveConfig for Te2 {
    type BaseField = F17;
    type ScalarField = F5;
    const COFACTOR: &'static [u64] = &[4];
    const COFACTOR_INV: F5 = MontFp!("4");
}
impl TECurveConfig for Te2 {
    const COEFF_A: F17 = MontFp!("1");
    const COEFF_D: F17 = MontFp!("7");
    const GENERATOR: te::Affine<Self> = te::Affine::new_unchecked(MontFp!("4"), MontFp!("8"));
    type MontCurveConfig = Te2;
}
impl MontCurveConfig for Te2 {
    const COEFF_A: F17 = MontFp!("3");
    const COEFF_B: F17 = MontFp!("5");
    type TECurveConfig = Te2;
}

// te19_a5_complete: 28 points, r = 7, cofactor 4
#[derive(Clone, Default, PartialEq, Eq)]
pub struct Te3;
impl CurveConfig for Te3 {
    type BaseField = F19;
    type ScalarField = F7;
    const COFACTOR: &'static [u64] = &[4];
    const COFACTOR_INV: F7 = MontFp!("2");
}
impl TECurveConfig for Te3 {
    const COEFF_A: F19 = MontFp!("5");
    const COEFF_D: F19 = MontFp!("2");
    const GENERATOR: te::Affine<Self> = te::Affine::new_unchecked(MontFp!("4"), MontFp!("9"));
    type MontCurveConfig = Te3;
}
impl MontCurveConfig for Te3 {
    const COEFF_A: F19 = MontFp!("11");
    const COEFF_B: F19 = MontFp!("14");
    type TECurveConfig = Te3;
}

// te19_m1_incomplete: 26 points, r = 7, cofactor 4
#[derive(Clone, Default, PartialEq, Eq)]
pub struct Te4;
impl CurveConfig for Te4 {
    type BaseField = F19;
    type ScalarField = F7;
    const COFACTOR: &'static [u64] = &[4];
    const COFACTOR_INV: F7 = MontFp!("2");
}
impl TECurveConfig for Te4 {
    const COEFF_A: F19 = MontFp!("18");
    const COEFF_D: F19 = MontFp!("7");
    const GENERATOR: te::Affine<Self> = te::Affine::new_unchecked(MontFp!("2"), MontFp!("15"));
    type MontCurveConfig = Te4;
}
impl MontCurveConfig for Te4 {
    const COEFF_A: F19 = MontFp!("8");
    const COEFF_B: F19 = MontFp!("9");
    type TECurveConfig = Te4;
}

// te17_a3_incomplete: 18 points, r = 5, cofactor 4
#[derive(Clone, Default, PartialEq, Eq)]
pub struct Te5;
impl CurveConfig for Te5 {
    type BaseField = F17;
    type ScalarField = F5;
    const COFACTOR: &'static [u64] = &[4];
    const COFACTOR_INV: F5 = MontFp!("4");
}
impl TECurveConfig for Te5 {
    const COEFF_A: F17 = MontFp!("3");
    const COEFF_D: F17 = MontFp!("5");
    const GENERATOR: te::Affine<Self> = te::Affine::new_unchecked(MontFp!("1"), MontFp!("3"));
    type MontCurveConfig = Te5;
}
impl MontCurveConfig for Te5 {
    const COEFF_A: F17 = MontFp!("9");
    const COEFF_B: F17 = MontFp!("15");
    type TECurveConfig = Te5;
}

// te23_m1_incomplete: 26 points, r = 7, cofactor 4
#[derive(Clone, Default, PartialEq, Eq)]
pub struct Te6;
impl CurveConfig for Te6 {
    type BaseField = F23;
    type ScalarField = F7;
    const COFACTOR: &'static [u64] = &[4];
    const COFACTOR_INV: F7 = MontFp!("2");
}
impl TECurveConfig for Te6 {
    const COEFF_A: F23 = MontFp!("22");
    const COEFF_D: F23 = MontFp!("6");
    const GENERATOR: te::Affine<Self> = te::Affine::new_unchecked(MontFp!("1"), MontFp!("15"));
    type MontCurveConfig = Te6;
}
impl MontCurveConfig for Te6 {
    const COEFF_A: F23 = MontFp!("15");
    const COEFF_B: F23 = MontFp!("6");
    type TECurveConfig = Te6;
}

#[derive(MontConfig)]
#[modulus = "29"]
#[generator = "2"]
pub struct F29Config;
pub type F29 = Fp64<MontBackend<F29Config, 1>>;

// te101_a5_complete: 116 points, r = 29, cofactor 4
#[derive(Clone, Default, PartialEq, Eq)]
pub struct Te7;
impl CurveConfig for Te7 {
    type BaseField = F101;
    type ScalarField = F29;
    const COFACTOR: &'static [u64] = &[4];
    const COFACTOR_INV: F29 = MontFp!("22");
}
impl TECurveConfig for Te7 {
    const COEFF_A: F101 = MontFp!("5");
    const COEFF_D: F101 = MontFp!("2");
    const GENERATOR: te::Affine<Self> = te::Affine::new_unchecked(MontFp!("1"), MontFp!("2"));
    type MontCurveConfig = Te7;
}
impl MontCurveConfig for Te7 {
    const COEFF_A: F101 = MontFp!("72");
    const COEFF_B: F101 = MontFp!("35");
    type TECurveConfig = Te7;
}

// te103_m1_incomplete: 90 points, r = 23, cofactor 4
#[derive(Clone, Default, PartialEq, Eq)]
pub struct Te8;
impl CurveConfig for Te8 {
    type BaseField = F103;
    type ScalarField = F23;
    const COFACTOR: &'static [u64] = &[4];
    const COFACTOR_INV: F23 = MontFp!("6");
}
impl TECurveConfig for Te8 {
    const COEFF_A: F103 = MontFp!("102");
    const COEFF_D: F103 = MontFp!("2");
    const GENERATOR: te::Affine<Self> = te::Affine::new_unchecked(MontFp!("4"), MontFp!("97"));
    type MontCurveConfig = Te8;
}
impl MontCurveConfig for Te8 {
    const COEFF_A: F103 = MontFp!("68");
    const COEFF_B: F103 = MontFp!("33");
    type TECurveConfig = Te8;
}

// te19_1_dsq_incomplete: 20 points, r = 3, cofactor 4
#[derive(Clone, Default, PartialEq, Eq)]
pub struct Te10;
impl CurveConfig for Te10 {
    type BaseField = F19;
    type ScalarField = F7;
    const COFACTOR: &'static [u64] = &[4];
    const COFACTOR_INV: F7 = MontFp!("2");
}
impl TECurveConfig for Te10 {
    const COEFF_A: F19 = MontFp!("1");
    const COEFF_D: F19 = MontFp!("6");
    const GENERATOR: te::Affine<Self> = te::Affine::new_unchecked(MontFp!("3"), MontFp!("6"));
    type MontCurveConfig = Te10;
}
impl MontCurveConfig for Te10 {
    const COEFF_A: F19 = MontFp!("1");
    const COEFF_B: F19 = MontFp!("3");
    type TECurveConfig = Te10;
}

// te121_complete: 104 points, r = 13, cofactor 8
#[derive(Clone, Default, PartialEq, Eq)]
pub struct Te9;
impl CurveConfig for Te9 {
    type BaseField = F11_2;
    type ScalarField = F13;
    const COFACTOR: &'static [u64] = &[8];
    const COFACTOR_INV: F13 = MontFp!("5");
}
impl TECurveConfig for Te9 {
    const COEFF_A: F11_2 = F11_2::new(MontFp!("1"), MontFp!("0"));
    const COEFF_D: F11_2 = F11_2::new(MontFp!("1"), MontFp!("1"));
    const GENERATOR: te::Affine<Self> = te::Affine::new_unchecked(F11_2::new(MontFp!("0"), MontFp!("1")), F11_2::new(MontFp!("9"), MontFp!("10")));
    type MontCurveConfig = Te9;
}
impl MontCurveConfig for Te9 {
    const COEFF_A: F11_2 = F11_2::new(MontFp!("9"), MontFp!("4"));
    const COEFF_B: F11_2 = F11_2::new(MontFp!("0"), MontFp!("4"));
    type TECurveConfig = Te9;
}

// END GENERATED TOY CONFIGS
}

// ---------- field elements on the wire: base-prime-field coordinate lists ----------
fn deg<F: Field>() -> usize {
    F::extension_degree() as usize
}
fn fe<F: Field>(a: &[num_bigint::BigInt]) -> F {
    F::from_base_prime_field_elems(a.iter().map(|v| F::BasePrimeField::from(u(v)))).expect("harness: coordinate count")
}
/// i-th field element of a flat coordinate list
fn el<F: Field>(a: &Arg, i: usize) -> F {
    let d = deg::<F>();
    fe::<F>(&a[i * d..(i + 1) * d])
}
fn fe_out<F: Field>(x: &F) -> Arg {
    x.to_base_prime_field_elements()
        .map(|c| {
            let b: BigUint = c.into_bigint().into();
            from_biguint(&b)
        })
        .collect()
}
fn cat(parts: &[Arg]) -> Arg {
    parts.iter().flat_map(|p| p.iter().cloned()).collect()
}
fn modulus<F: Field>() -> Arg {
    let m: BigUint = <F::BasePrimeField as PrimeField>::MODULUS.into();
    vec![from_biguint(&m), from_u64(deg::<F>() as u64)]
}
fn probe<F: Field>() -> Vec<Arg> {
    let mut c = vec![num_bigint::BigInt::from(0); deg::<F>()];
    c[0] = num_bigint::BigInt::from(2);
    if c.len() > 1 {
        c[1] = num_bigint::BigInt::from(1);
    }
    let e = fe::<F>(&c);
    vec![fe_out(&(e * e)), fe_out(&(e * e * e))]
}

// ---------- short Weierstrass ----------
fn sw_jac<P: SWCurveConfig>(a: &Arg) -> sw::Projective<P> {
    sw::Projective::<P>::new_unchecked(el(a, 0), el(a, 1), el(a, 2))
}
fn sw_aff<P: SWCurveConfig>(a: &Arg) -> sw::Affine<P> {
    let d = deg::<P::BaseField>();
    if a[2 * d].is_zero() {
        sw::Affine::<P>::new_unchecked(el(a, 0), el(a, 1))
    } else {
        sw::Affine::<P>::identity()
    }
}
fn sw_out<P: SWCurveConfig>(p: &sw::Affine<P>) -> Arg {
    cat(&[fe_out(&p.x), fe_out(&p.y), vec![from_bool(p.infinity)]])
}
fn sw_outj<P: SWCurveConfig>(p: &sw::Projective<P>) -> Arg {
    sw_out(&p.into_affine())
}

fn run_sw<P: SWCurveConfig>(op: &str, a: &[Arg]) -> Vec<Arg> {
    match op {
        "sw_params" => {
            let mut r = vec![modulus::<P::BaseField>(), fe_out(&P::COEFF_A), fe_out(&P::COEFF_B)];
            r.extend(probe::<P::BaseField>());
            ok(r)
        },
        "sw_add_sub_eq" => {
            let p = sw_jac::<P>(&a[4]);
            let q = sw_jac::<P>(&a[5]);
            let mut s = p;
            s += &q;
            assert!(s == p + q, "harness: += and + differ");
            ok(vec![sw_outj(&s), sw_outj(&(p - q)), vec![from_bool(p == q)]])
        },
        "sw_mixed" => {
            let p = sw_jac::<P>(&a[4]);
            let q = sw_aff::<P>(&a[5]);
            ok(vec![sw_outj(&(p + q)), sw_outj(&(p - q)), sw_outj(&(q + p)), vec![from_bool(p == q)]])
        },
        "sw_unary" => {
            let p = sw_jac::<P>(&a[4]);
            ok(vec![
                sw_outj(&p.double()),
                sw_outj(&(-p)),
                sw_outj(&p),
                vec![from_bool(p.is_zero())],
                vec![from_bool(p.into_affine().is_on_curve())],
            ])
        },
        "sw_affine" => {
            let p = sw_aff::<P>(&a[4]);
            let q = sw_aff::<P>(&a[5]);
            ok(vec![
                sw_outj(&(p + q)),
                sw_outj(&(p - q)),
                sw_out(&(-p)),
                vec![from_bool(p.is_on_curve())],
                sw_outj(&p.into_group()),
            ])
        },
        "sw_batch" => {
            let v: Vec<sw::Projective<P>> = a[4..].iter().map(sw_jac::<P>).collect();
            ok(sw::Projective::<P>::normalize_batch(&v).iter().map(sw_out).collect())
        },
        "sw_sum" => {
            let v: Vec<sw::Affine<P>> = a[4..].iter().map(sw_aff::<P>).collect();
            let s: sw::Projective<P> = v.iter().sum();
            ok(vec![sw_outj(&s)])
        },
        "sw_on_curve" => ok(vec![vec![from_bool(sw_aff::<P>(&a[4]).is_on_curve())]]),
        _ => unsupported(),
    }
}

// ---------- twisted Edwards ----------
fn te_ext<P: TECurveConfig>(a: &Arg) -> te::Projective<P> {
    te::Projective::<P>::new_unchecked(el(a, 0), el(a, 1), el(a, 2), el(a, 3))
}
fn te_aff<P: TECurveConfig>(a: &Arg) -> te::Affine<P> {
    te::Affine::<P>::new_unchecked(el(a, 0), el(a, 1))
}
fn te_out<P: TECurveConfig>(p: &te::Affine<P>) -> Arg {
    cat(&[fe_out(&p.x), fe_out(&p.y)])
}
fn te_outp<P: TECurveConfig>(p: &te::Projective<P>) -> Arg {
    te_out(&p.into_affine())
}

/// T * Z == X * Y for every listed result (extended coordinates consistent)
fn tzs<P: TECurveConfig>(l: &[te::Projective<P>]) -> Arg {
    vec![from_bool(l.iter().all(|p| p.t * p.z == p.x * p.y))]
}

fn run_te<P: TECurveConfig>(op: &str, a: &[Arg]) -> Vec<Arg> {
    match op {
        "te_params" => {
            let mut r = vec![modulus::<P::BaseField>(), fe_out(&P::COEFF_A), fe_out(&P::COEFF_D)];
            r.extend(probe::<P::BaseField>());
            ok(r)
        },
        "te_add_sub_eq" => {
            let p = te_ext::<P>(&a[4]);
            let q = te_ext::<P>(&a[5]);
            let mut s = p;
            s += &q;
            ok(vec![te_outp(&s), te_outp(&(p - q)), vec![from_bool(p == q)], tzs(&[s, p - q])])
        },
        "te_mixed" => {
            let p = te_ext::<P>(&a[4]);
            let q = te_aff::<P>(&a[5]);
            ok(vec![te_outp(&(p + q)), te_outp(&(p - q)), te_outp(&(q + p)), vec![from_bool(p == q)], tzs(&[p + q, p - q, q + p])])
        },
        "te_unary" => {
            let p = te_ext::<P>(&a[4]);
            ok(vec![
                te_outp(&p.double()),
                te_outp(&(-p)),
                te_outp(&p),
                vec![from_bool(p.is_zero())],
                vec![from_bool(p.into_affine().is_on_curve())],
                tzs(&[p.double(), -p]),
            ])
        },
        "te_affine" => {
            let p = te_aff::<P>(&a[4]);
            let q = te_aff::<P>(&a[5]);
            ok(vec![
                te_outp(&(p + q)),
                te_outp(&(p - q)),
                te_out(&(-p)),
                te_outp(&p.into_group()),
                vec![from_bool(p.is_on_curve())],
                vec![from_bool(p.is_zero())],
                tzs(&[p + q, p - q, p.into_group()]),
            ])
        },
        "te_batch" => {
            let v: Vec<te::Projective<P>> = a[4..].iter().map(te_ext::<P>).collect();
            ok(te::Projective::<P>::normalize_batch(&v).iter().map(te_out).collect())
        },
        "te_sum" => {
            let v: Vec<te::Affine<P>> = a[4..].iter().map(te_aff::<P>).collect();
            let s: te::Projective<P> = v.iter().sum();
            ok(vec![te_outp(&s), tzs(&[s])])
        },
        "te_on_curve" => ok(vec![vec![from_bool(te_aff::<P>(&a[4]).is_on_curve())]]),
        _ => unsupported(),
    }
}

macro_rules! shipped_sw {
    ($m:ident) => {
        $m!(101, "bls12_381_g1", ark_bls12_381::g1::Config);
        $m!(102, "bls12_381_g2", ark_bls12_381::g2::Config);
        $m!(103, "bn254_g1", ark_bn254::g1::Config);
        $m!(104, "bn254_g2", ark_bn254::g2::Config);
        $m!(105, "secp256k1", ark_secp256k1::Config);
        $m!(106, "mnt4_298_g1", ark_mnt4_298::g1::Config);
        $m!(107, "mnt4_298_g2", ark_mnt4_298::g2::Config);
        $m!(108, "pallas", ark_pallas::PallasConfig);
        $m!(109, "mnt6_298_g2", ark_mnt6_298::g2::Config);
        $m!(110, "secp256r1", ark_secp256r1::Config);
        $m!(111, "bls12_377_g1", ark_bls12_377::g1::Config);
        $m!(112, "jubjub_sw", ark_ed_on_bls12_381::JubjubConfig);
    };
}
macro_rules! shipped_te {
    ($m:ident) => {
        $m!(201, "ed_on_bls12_381", ark_ed_on_bls12_381::JubjubConfig);
        $m!(202, "ed25519", ark_ed25519::EdwardsConfig);
        $m!(203, "bandersnatch", ark_ed_on_bls12_381_bandersnatch::BandersnatchConfig);
        $m!(204, "ed_on_bn254", ark_ed_on_bn254::EdwardsConfig);
    };
}

fn dispatch_sw(cfg: u64, op: &str, a: &[Arg]) -> Vec<Arg> {
    macro_rules! arm {
        ($id:expr, $n:expr, $t:ty) => {
            if cfg == $id {
                return run_sw::<$t>(op, a);
            }
        };
    }
    shipped_sw!(arm);
    match cfg {
// BEGIN GENERATED TOY SW DISPATCH
        1 => run_sw::<toy::Sw1>(op, a),
        2 => run_sw::<toy::Sw2>(op, a),
        3 => run_sw::<toy::Sw3>(op, a),
        4 => run_sw::<toy::Sw4>(op, a),
        5 => run_sw::<toy::Sw5>(op, a),
        6 => run_sw::<toy::Sw6>(op, a),
        7 => run_sw::<toy::Sw7>(op, a),
        8 => run_sw::<toy::Sw8>(op, a),
        9 => run_sw::<toy::Sw9>(op, a),
        10 => run_sw::<toy::Sw10>(op, a),
        11 => run_sw::<toy::Sw11>(op, a),
        12 => run_sw::<toy::Sw12>(op, a),
        13 => run_sw::<toy::Sw13>(op, a),
        14 => run_sw::<toy::Sw14>(op, a),
        15 => run_sw::<toy::Sw15>(op, a),
// END GENERATED TOY SW DISPATCH
        _ => unsupported(),
    }
}
fn dispatch_te(cfg: u64, op: &str, a: &[Arg]) -> Vec<Arg> {
    macro_rules! arm {
        ($id:expr, $n:expr, $t:ty) => {
            if cfg == $id {
                return run_te::<$t>(op, a);
            }
        };
    }
    shipped_te!(arm);
    match cfg {
// BEGIN GENERATED TOY TE DISPATCH
        1 => run_te::<toy::Te1>(op, a),
        2 => run_te::<toy::Te2>(op, a),
        3 => run_te::<toy::Te3>(op, a),
        4 => run_te::<toy::Te4>(op, a),
        5 => run_te::<toy::Te5>(op, a),
        6 => run_te::<toy::Te6>(op, a),
        7 => run_te::<toy::Te7>(op, a),
        8 => run_te::<toy::Te8>(op, a),
        10 => run_te::<toy::Te10>(op, a),
        9 => run_te::<toy::Te9>(op, a),
// END GENERATED TOY TE DISPATCH
        _ => unsupported(),
    }
}

fn s(a: &Arg) -> String {
    format!("[{}]", a.iter().map(|x| format!("\"{}\"", x)).collect::<Vec<_>>().join(","))
}
fn nr_of<F: Field>() -> Arg {
    // u^deg for the adjoined generator u (deg > 1); 0 for a prime field
    let d = deg::<F>();
    if d == 1 {
        return vec![from_u64(0)];
    }
    let mut c = vec![num_bigint::BigInt::from(0); d];
    c[1] = num_bigint::BigInt::from(1);
    let uu = fe::<F>(&c);
    let mut r = F::ONE;
    for _ in 0..d {
        r *= uu;
    }
    vec![fe_out(&r)[0].clone()]
}
fn limbs_to_big(l: &[u64]) -> BigUint {
    let mut r = BigUint::from(0u32);
    for x in l.iter().rev() {
        r = (r << 64) + BigUint::from(*x);
    }
    r
}
fn dump() {
    macro_rules! d_sw {
        ($id:expr, $n:expr, $t:ty) => {{
            type B = <$t as CurveConfig>::BaseField;
            let g = <$t as SWCurveConfig>::GENERATOR;
            let r: BigUint = <<$t as CurveConfig>::ScalarField as PrimeField>::MODULUS.into();
            println!(
                "{{\"kind\":\"sw\",\"id\":{},\"name\":\"{}\",\"field\":{},\"nr\":{},\"a\":{},\"b\":{},\"gx\":{},\"gy\":{},\"r\":\"{}\",\"h\":\"{}\"}}",
                $id, $n, s(&modulus::<B>()), s(&nr_of::<B>()), s(&fe_out(&<$t as SWCurveConfig>::COEFF_A)),
                s(&fe_out(&<$t as SWCurveConfig>::COEFF_B)), s(&fe_out(&g.x)), s(&fe_out(&g.y)), r,
                limbs_to_big(<$t as CurveConfig>::COFACTOR)
            );
        }};
    }
    macro_rules! d_te {
        ($id:expr, $n:expr, $t:ty) => {{
            type B = <$t as CurveConfig>::BaseField;
            let g = <$t as TECurveConfig>::GENERATOR;
            let r: BigUint = <<$t as CurveConfig>::ScalarField as PrimeField>::MODULUS.into();
            println!(
                "{{\"kind\":\"te\",\"id\":{},\"name\":\"{}\",\"field\":{},\"nr\":{},\"a\":{},\"d\":{},\"gx\":{},\"gy\":{},\"r\":\"{}\",\"h\":\"{}\"}}",
                $id, $n, s(&modulus::<B>()), s(&nr_of::<B>()), s(&fe_out(&<$t as TECurveConfig>::COEFF_A)),
                s(&fe_out(&<$t as TECurveConfig>::COEFF_D)), s(&fe_out(&g.x)), s(&fe_out(&g.y)), r,
                limbs_to_big(<$t as CurveConfig>::COFACTOR)
            );
        }};
    }
    shipped_sw!(d_sw);
    shipped_te!(d_te);
}

fn main() {
    if std::env::args().nth(1).as_deref() == Some("dump") {
        dump();
        return;
    }
    main_loop(|op, a| {
        let cfg = to_u64(&a[0][0]);
        if op.starts_with("sw_") {
            dispatch_sw(cfg, op, a)
        } else if op.starts_with("te_") {
            dispatch_te(cfg, op, a)
        } else {
            unsupported()
        }
    });
}
