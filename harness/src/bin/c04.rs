//! C04 case interpreter: every scalar-multiplication path (double-and-add on affine and
//! projective inputs, `mul_bits_be`, windowed NAF, GLV, fixed-base batch multiplication).
//! Argument layout of every case (see coq/C04/Run.v):
//!   a[0] = [cfg_id], a[1] = [p, deg, nr], a[2] = coeff a, a[3] = coeff b / d,
//!   a[4] = [r, N, modbits, ovr], a[5] = [lambda, n11, n12, n21, n22] | _, a[6] = beta | _,
//!   a[7..] operands.
//! Only a[0] and the operands are used here; a[1..6] describe the configuration to the Coq
//! model and are compared with the real constants by the `*_params` ops.
//! Projective operands are raw coordinates (`new_unchecked`); results are printed as affine
//! coordinates (+ infinity flag for short Weierstrass).
//! `c04 dump` prints the constants of the shipped configurations (props/C04/shipped.json).
#![allow(non_camel_case_types, dead_code)]
use ark_ec::{
    models::CurveConfig,
    scalar_mul::{glv::GLVConfig, wnaf::WnafContext, BatchMulPreprocessing, ScalarMul},
    short_weierstrass::{self as sw, SWCurveConfig},
    twisted_edwards::{self as te, TECurveConfig},
    AffineRepr, CurveGroup,
};
use ark_ff::{BigInteger, Field, PrimeField, Zero};
use num_bigint::{BigInt as SInt, BigUint};
use vharness::*;

mod toy {
    use ark_ec::{
        models::CurveConfig,
        scalar_mul::glv::GLVConfig,
        short_weierstrass::{self as sw, SWCurveConfig},
        twisted_edwards::{self as te, MontCurveConfig, TECurveConfig},
    };
    use ark_ff::fields::{Fp2, Fp2Config, Fp3, Fp3Config, Fp64, MontBackend, MontConfig};
    use ark_ff::{BigInt, MontFp, PrimeField};
// BEGIN TOY CONFIGS (copied from harness/src/bin/c03.rs)
#[derive(MontConfig)]
#[modulus = "11"]
#[generator = "2"]
pub struct F11Config;
pub type F11 = Fp64<MontBackend<F11Config, 1>>;

#[derive(MontConfig)]
#[modulus = "7"]
#[generator = "3"]
pub struct F7Config;
pub type F7 = Fp64<MontBackend<F7Config, 1>>;

pub struct F11_2Config;
impl Fp2Config for F11_2Config {
    type Fp = F11;
    const NONRESIDUE: F11 = MontFp!("10");
    const FROBENIUS_COEFF_FP2_C1: &'static [F11] = &[MontFp!("1"), MontFp!("10")];
}
pub type F11_2 = Fp2<F11_2Config>;
pub struct F7_3Config;
impl Fp3Config for F7_3Config {
    type Fp = F7;
    const NONRESIDUE: F7 = MontFp!("2");
    const TWO_ADICITY: u32 = 1;
    const TRACE_MINUS_ONE_DIV_TWO: &'static [u64] = &[85];
    const QUADRATIC_NONRESIDUE_TO_T: Fp3<F7_3Config> = Fp3::<F7_3Config>::new(MontFp!("6"), MontFp!("0"), MontFp!("0"));
    const FROBENIUS_COEFF_FP3_C1: &'static [F7] = &[MontFp!("1"), MontFp!("4"), MontFp!("2")];
    const FROBENIUS_COEFF_FP3_C2: &'static [F7] = &[MontFp!("1"), MontFp!("2"), MontFp!("4")];
}
pub type F7_3 = Fp3<F7_3Config>;

#[derive(MontConfig)]
#[modulus = "13"]
#[generator = "2"]
pub struct F13Config;
pub type F13 = Fp64<MontBackend<F13Config, 1>>;

#[derive(MontConfig)]
#[modulus = "19"]
#[generator = "2"]
pub struct F19Config;
pub type F19 = Fp64<MontBackend<F19Config, 1>>;

// sw13_a0_prime: 19 points, r = 19, cofactor 1
#[derive(Clone, Default, PartialEq, Eq)]
pub struct Sw1;
impl CurveConfig for Sw1 {
    type BaseField = F13;
    type ScalarField = F19;
    const COFACTOR: &'static [u64] = &[1];
    const COFACTOR_INV: F19 = MontFp!("1");
}
impl SWCurveConfig for Sw1 {
    const COEFF_A: F13 = MontFp!("0");
    const COEFF_B: F13 = MontFp!("2");
    const GENERATOR: sw::Affine<Self> = sw::Affine::new_unchecked(MontFp!("1"), MontFp!("4"));
}

// sw19_a0_h4: 28 points, r = 7, cofactor 4
#[derive(Clone, Default, PartialEq, Eq)]
pub struct Sw2;
impl CurveConfig for Sw2 {
    type BaseField = F19;
    type ScalarField = F7;
    const COFACTOR: &'static [u64] = &[4];
    const COFACTOR_INV: F7 = MontFp!("2");
}
impl SWCurveConfig for Sw2 {
    const COEFF_A: F19 = MontFp!("0");
    const COEFF_B: F19 = MontFp!("12");
    const GENERATOR: sw::Affine<Self> = sw::Affine::new_unchecked(MontFp!("10"), MontFp!("9"));
}

// sw13_a0_h3: 21 points, r = 7, cofactor 3
#[derive(Clone, Default, PartialEq, Eq)]
pub struct Sw3;
impl CurveConfig for Sw3 {
    type BaseField = F13;
    type ScalarField = F7;
    const COFACTOR: &'static [u64] = &[3];
    const COFACTOR_INV: F7 = MontFp!("5");
}
impl SWCurveConfig for Sw3 {
    const COEFF_A: F13 = MontFp!("0");
    const COEFF_B: F13 = MontFp!("4");
    const GENERATOR: sw::Affine<Self> = sw::Affine::new_unchecked(MontFp!("7"), MontFp!("3"));
}

// sw11_a1_prime: 13 points, r = 13, cofactor 1
#[derive(Clone, Default, PartialEq, Eq)]
pub struct Sw4;
impl CurveConfig for Sw4 {
    type BaseField = F11;
    type ScalarField = F13;
    const COFACTOR: &'static [u64] = &[1];
    const COFACTOR_INV: F13 = MontFp!("1");
}
impl SWCurveConfig for Sw4 {
    const COEFF_A: F11 = MontFp!("1");
    const COEFF_B: F11 = MontFp!("6");
    const GENERATOR: sw::Affine<Self> = sw::Affine::new_unchecked(MontFp!("2"), MontFp!("4"));
}

#[derive(MontConfig)]
#[modulus = "17"]
#[generator = "3"]
pub struct F17Config;
pub type F17 = Fp64<MontBackend<F17Config, 1>>;

// sw17_a1_h2: 14 points, r = 7, cofactor 2
#[derive(Clone, Default, PartialEq, Eq)]
pub struct Sw5;
impl CurveConfig for Sw5 {
    type BaseField = F17;
    type ScalarField = F7;
    const COFACTOR: &'static [u64] = &[2];
    const COFACTOR_INV: F7 = MontFp!("4");
}
impl SWCurveConfig for Sw5 {
    const COEFF_A: F17 = MontFp!("1");
    const COEFF_B: F17 = MontFp!("4");
    const GENERATOR: sw::Affine<Self> = sw::Affine::new_unchecked(MontFp!("4"), MontFp!("2"));
}

#[derive(MontConfig)]
#[modulus = "23"]
#[generator = "5"]
pub struct F23Config;
pub type F23 = Fp64<MontBackend<F23Config, 1>>;

#[derive(MontConfig)]
#[modulus = "5"]
#[generator = "2"]
pub struct F5Config;
pub type F5 = Fp64<MontBackend<F5Config, 1>>;

// sw23_a1_h4: 20 points, r = 5, cofactor 4
#[derive(Clone, Default, PartialEq, Eq)]
pub struct Sw6;
impl CurveConfig for Sw6 {
    type BaseField = F23;
    type ScalarField = F5;
    const COFACTOR: &'static [u64] = &[4];
    const COFACTOR_INV: F5 = MontFp!("4");
}
impl SWCurveConfig for Sw6 {
    const COEFF_A: F23 = MontFp!("1");
    const COEFF_B: F23 = MontFp!("15");
    const GENERATOR: sw::Affine<Self> = sw::Affine::new_unchecked(MontFp!("19"), MontFp!("4"));
}

// sw17_a1_z4: 20 points, r = 5, cofactor 4
#[derive(Clone, Default, PartialEq, Eq)]
pub struct Sw7;
impl CurveConfig for Sw7 {
    type BaseField = F17;
    type ScalarField = F5;
    const COFACTOR: &'static [u64] = &[4];
    const COFACTOR_INV: F5 = MontFp!("4");
}
impl SWCurveConfig for Sw7 {
    const COEFF_A: F17 = MontFp!("1");
    const COEFF_B: F17 = MontFp!("11");
    const GENERATOR: sw::Affine<Self> = sw::Affine::new_unchecked(MontFp!("10"), MontFp!("1"));
}

// sw17_a3_b0: 26 points, r = 13, cofactor 2
#[derive(Clone, Default, PartialEq, Eq)]
pub struct Sw8;
impl CurveConfig for Sw8 {
    type BaseField = F17;
    type ScalarField = F13;
    const COFACTOR: &'static [u64] = &[2];
    const COFACTOR_INV: F13 = MontFp!("7");
}
impl SWCurveConfig for Sw8 {
    const COEFF_A: F17 = MontFp!("3");
    const COEFF_B: F17 = MontFp!("0");
    const GENERATOR: sw::Affine<Self> = sw::Affine::new_unchecked(MontFp!("1"), MontFp!("2"));
}

// sw19_am3_prime: 19 points, r = 19, cofactor 1
#[derive(Clone, Default, PartialEq, Eq)]
pub struct Sw9;
impl CurveConfig for Sw9 {
    type BaseField = F19;
    type ScalarField = F19;
    const COFACTOR: &'static [u64] = &[1];
    const COFACTOR_INV: F19 = MontFp!("1");
}
impl SWCurveConfig for Sw9 {
    const COEFF_A: F19 = MontFp!("16");
    const COEFF_B: F19 = MontFp!("12");
    const GENERATOR: sw::Affine<Self> = sw::Affine::new_unchecked(MontFp!("3"), MontFp!("7"));
}

#[derive(MontConfig)]
#[modulus = "101"]
#[generator = "2"]
pub struct F101Config;
pub type F101 = Fp64<MontBackend<F101Config, 1>>;

#[derive(MontConfig)]
#[modulus = "109"]
#[generator = "6"]
pub struct F109Config;
pub type F109 = Fp64<MontBackend<F109Config, 1>>;

// sw101_am3_prime: 109 points, r = 109, cofactor 1
#[derive(Clone, Default, PartialEq, Eq)]
pub struct Sw10;
impl CurveConfig for Sw10 {
    type BaseField = F101;
    type ScalarField = F109;
    const COFACTOR: &'static [u64] = &[1];
    const COFACTOR_INV: F109 = MontFp!("1");
}
impl SWCurveConfig for Sw10 {
    const COEFF_A: F101 = MontFp!("98");
    const COEFF_B: F101 = MontFp!("6");
    const GENERATOR: sw::Affine<Self> = sw::Affine::new_unchecked(MontFp!("0"), MontFp!("39"));
}

#[derive(MontConfig)]
#[modulus = "103"]
#[generator = "5"]
pub struct F103Config;
pub type F103 = Fp64<MontBackend<F103Config, 1>>;

#[derive(MontConfig)]
#[modulus = "31"]
#[generator = "3"]
pub struct F31Config;
pub type F31 = Fp64<MontBackend<F31Config, 1>>;

// sw103_a0_h4: 124 points, r = 31, cofactor 4
#[derive(Clone, Default, PartialEq, Eq)]
pub struct Sw11;
impl CurveConfig for Sw11 {
    type BaseField = F103;
    type ScalarField = F31;
    const COFACTOR: &'static [u64] = &[4];
    const COFACTOR_INV: F31 = MontFp!("8");
}
impl SWCurveConfig for Sw11 {
    const COEFF_A: F103 = MontFp!("0");
    const COEFF_B: F103 = MontFp!("3");
    const GENERATOR: sw::Affine<Self> = sw::Affine::new_unchecked(MontFp!("5"), MontFp!("5"));
}

// sw103_a1_h4: 92 points, r = 23, cofactor 4
#[derive(Clone, Default, PartialEq, Eq)]
pub struct Sw12;
impl CurveConfig for Sw12 {
    type BaseField = F103;
    type ScalarField = F23;
    const COFACTOR: &'static [u64] = &[4];
    const COFACTOR_INV: F23 = MontFp!("6");
}
impl SWCurveConfig for Sw12 {
    const COEFF_A: F103 = MontFp!("1");
    const COEFF_B: F103 = MontFp!("7");
    const GENERATOR: sw::Affine<Self> = sw::Affine::new_unchecked(MontFp!("1"), MontFp!("3"));
}

// sw121_a0: 100 points, r = 5, cofactor 20
#[derive(Clone, Default, PartialEq, Eq)]
pub struct Sw13;
impl CurveConfig for Sw13 {
    type BaseField = F11_2;
    type ScalarField = F5;
    const COFACTOR: &'static [u64] = &[20];
    const COFACTOR_INV: F5 = MontFp!("1");
}
impl SWCurveConfig for Sw13 {
    const COEFF_A: F11_2 = F11_2::new(MontFp!("0"), MontFp!("0"));
    const COEFF_B: F11_2 = F11_2::new(MontFp!("1"), MontFp!("1"));
    const GENERATOR: sw::Affine<Self> = sw::Affine::new_unchecked(F11_2::new(MontFp!("1"), MontFp!("0")), F11_2::new(MontFp!("6"), MontFp!("1")));
}

// sw121_a: 132 points, r = 11, cofactor 12
#[derive(Clone, Default, PartialEq, Eq)]
pub struct Sw14;
impl CurveConfig for Sw14 {
    type BaseField = F11_2;
    type ScalarField = F11;
    const COFACTOR: &'static [u64] = &[12];
    const COFACTOR_INV: F11 = MontFp!("1");
}
impl SWCurveConfig for Sw14 {
    const COEFF_A: F11_2 = F11_2::new(MontFp!("3"), MontFp!("1"));
    const COEFF_B: F11_2 = F11_2::new(MontFp!("2"), MontFp!("2"));
    const GENERATOR: sw::Affine<Self> = sw::Affine::new_unchecked(F11_2::new(MontFp!("10"), MontFp!("0")), F11_2::new(MontFp!("10"), MontFp!("5")));
}

#[derive(MontConfig)]
#[modulus = "127"]
#[generator = "3"]
pub struct F127Config;
pub type F127 = Fp64<MontBackend<F127Config, 1>>;

// sw343_a0: 381 points, r = 127, cofactor 3
#[derive(Clone, Default, PartialEq, Eq)]
pub struct Sw15;
impl CurveConfig for Sw15 {
    type BaseField = F7_3;
    type ScalarField = F127;
    const COFACTOR: &'static [u64] = &[3];
    const COFACTOR_INV: F127 = MontFp!("85");
}
impl SWCurveConfig for Sw15 {
    const COEFF_A: F7_3 = F7_3::new(MontFp!("0"), MontFp!("0"), MontFp!("0"));
    const COEFF_B: F7_3 = F7_3::new(MontFp!("0"), MontFp!("1"), MontFp!("0"));
    const GENERATOR: sw::Affine<Self> = sw::Affine::new_unchecked(F7_3::new(MontFp!("3"), MontFp!("0"), MontFp!("0")), F7_3::new(MontFp!("3"), MontFp!("1"), MontFp!("1")));
}

// te13_m1_complete: 20 points, r = 5, cofactor 4
#[derive(Clone, Default, PartialEq, Eq)]
pub struct Te1;
impl CurveConfig for Te1 {
    type BaseField = F13;
    type ScalarField = F5;
    const COFACTOR: &'static [u64] = &[4];
    const COFACTOR_INV: F5 = MontFp!("4");
}
impl TECurveConfig for Te1 {
    const COEFF_A: F13 = MontFp!("12");
    const COEFF_D: F13 = MontFp!("6");
    const GENERATOR: te::Affine<Self> = te::Affine::new_unchecked(MontFp!("3"), MontFp!("9"));
    type MontCurveConfig = Te1;
}
impl MontCurveConfig for Te1 {
    const COEFF_A: F13 = MontFp!("6");
    const COEFF_B: F13 = MontFp!("5");
    type TECurveConfig = Te1;
}

// te17_1_complete: 20 points, r = 5, cofactor 4
#[derive(Clone, Default, PartialEq, Eq)]
pub struct Te2;
impl CurveConfig for Te2 {
    type BaseField = F17;
    type ScalarField = F5;
    const COFACTOR: &'static [u64] = &[4];
    const COFACTOR_INV: F5 = MontFp!("4");
}
impl TECurveConfig for Te2 {
    const COEFF_A: F17 = MontFp!("1");
    const COEFF_D: F17 = MontFp!("7");
    const GENERATOR: te::Affine<Self> = te::Affine::new_unchecked(MontFp!("4"), MontFp!("8"));
    type MontCurveConfig = Te2;
}
impl MontCurveConfig for Te2 {
    const COEFF_A: F17 = MontFp!("3");
    const COEFF_B: F17 = MontFp!("5");
    type TECurveConfig = Te2;
}

// te19_a5_complete: 28 points, r = 7, cofactor 4
#[derive(Clone, Default, PartialEq, Eq)]
pub struct Te3;
impl CurveConfig for Te3 {
    type BaseField = F19;
    type ScalarField = F7;
    const COFACTOR: &'static [u64] = &[4];
    const COFACTOR_INV: F7 = MontFp!("2");
}
impl TECurveConfig for Te3 {
    const COEFF_A: F19 = MontFp!("5");
    const COEFF_D: F19 = MontFp!("2");
    const GENERATOR: te::Affine<Self> = te::Affine::new_unchecked(MontFp!("4"), MontFp!("9"));
    type MontCurveConfig = Te3;
}
impl MontCurveConfig for Te3 {
    const COEFF_A: F19 = MontFp!("11");
    const COEFF_B: F19 = MontFp!("14");
    type TECurveConfig = Te3;
}

// te19_m1_incomplete: 26 points, r = 7, cofactor 4
#[derive(Clone, Default, PartialEq, Eq)]
pub struct Te4;
impl CurveConfig for Te4 {
    type BaseField = F19;
    type ScalarField = F7;
    const COFACTOR: &'static [u64] = &[4];
    const COFACTOR_INV: F7 = MontFp!("2");
}
impl TECurveConfig for Te4 {
    const COEFF_A: F19 = MontFp!("18");
    const COEFF_D: F19 = MontFp!("7");
    const GENERATOR: te::Affine<Self> = te::Affine::new_unchecked(MontFp!("2"), MontFp!("15"));
    type MontCurveConfig = Te4;
}
impl MontCurveConfig for Te4 {
    const COEFF_A: F19 = MontFp!("8");
    const COEFF_B: F19 = MontFp!("9");
    type TECurveConfig = Te4;
}

// te17_a3_incomplete: 18 points, r = 5, cofactor 4
#[derive(Clone, Default, PartialEq, Eq)]
pub struct Te5;
impl CurveConfig for Te5 {
    type BaseField = F17;
    type ScalarField = F5;
    const COFACTOR: &'static [u64] = &[4];
    const COFACTOR_INV: F5 = MontFp!("4");
}
impl TECurveConfig for Te5 {
    const COEFF_A: F17 = MontFp!("3");
    const COEFF_D: F17 = MontFp!("5");
    const GENERATOR: te::Affine<Self> = te::Affine::new_unchecked(MontFp!("1"), MontFp!("3"));
    type MontCurveConfig = Te5;
}
impl MontCurveConfig for Te5 {
    const COEFF_A: F17 = MontFp!("9");
    const COEFF_B: F17 = MontFp!("15");
    type TECurveConfig = Te5;
}

// te23_m1_incomplete: 26 points, r = 7, cofactor 4
#[derive(Clone, Default, PartialEq, Eq)]
pub struct Te6;
impl CurveConfig for Te6 {
    type BaseField = F23;
    type ScalarField = F7;
    const COFACTOR: &'static [u64] = &[4];
    const COFACTOR_INV: F7 = MontFp!("2");
}
impl TECurveConfig for Te6 {
    const COEFF_A: F23 = MontFp!("22");
    const COEFF_D: F23 = MontFp!("6");
    const GENERATOR: te::Affine<Self> = te::Affine::new_unchecked(MontFp!("1"), MontFp!("15"));
    type MontCurveConfig = Te6;
}
impl MontCurveConfig for Te6 {
    const COEFF_A: F23 = MontFp!("15");
    const COEFF_B: F23 = MontFp!("6");
    type TECurveConfig = Te6;
}

#[derive(MontConfig)]
#[modulus = "29"]
#[generator = "2"]
pub struct F29Config;
pub type F29 = Fp64<MontBackend<F29Config, 1>>;

// te101_a5_complete: 116 points, r = 29, cofactor 4
#[derive(Clone, Default, PartialEq, Eq)]
pub struct Te7;
impl CurveConfig for Te7 {
    type BaseField = F101;
    type ScalarField = F29;
    const COFACTOR: &'static [u64] = &[4];
    const COFACTOR_INV: F29 = MontFp!("22");
}
impl TECurveConfig for Te7 {
    const COEFF_A: F101 = MontFp!("5");
    const COEFF_D: F101 = MontFp!("2");
    const GENERATOR: te::Affine<Self> = te::Affine::new_unchecked(MontFp!("1"), MontFp!("2"));
    type MontCurveConfig = Te7;
}
impl MontCurveConfig for Te7 {
    const COEFF_A: F101 = MontFp!("72");
    const COEFF_B: F101 = MontFp!("35");
    type TECurveConfig = Te7;
}

// te103_m1_incomplete: 90 points, r = 23, cofactor 4
#[derive(Clone, Default, PartialEq, Eq)]
pub struct Te8;
impl CurveConfig for Te8 {
    type BaseField = F103;
    type ScalarField = F23;
    const COFACTOR: &'static [u64] = &[4];
    const COFACTOR_INV: F23 = MontFp!("6");
}
impl TECurveConfig for Te8 {
    const COEFF_A: F103 = MontFp!("102");
    const COEFF_D: F103 = MontFp!("2");
    const GENERATOR: te::Affine<Self> = te::Affine::new_unchecked(MontFp!("4"), MontFp!("97"));
    type MontCurveConfig = Te8;
}
impl MontCurveConfig for Te8 {
    const COEFF_A: F103 = MontFp!("68");
    const COEFF_B: F103 = MontFp!("33");
    type TECurveConfig = Te8;
}

// te19_1_dsq_incomplete: 20 points, r = 3, cofactor 4
#[derive(Clone, Default, PartialEq, Eq)]
pub struct Te10;
impl CurveConfig for Te10 {
    type BaseField = F19;
    type ScalarField = F7;
    const COFACTOR: &'static [u64] = &[4];
    const COFACTOR_INV: F7 = MontFp!("2");
}
impl TECurveConfig for Te10 {
    const COEFF_A: F19 = MontFp!("1");
    const COEFF_D: F19 = MontFp!("6");
    const GENERATOR: te::Affine<Self> = te::Affine::new_unchecked(MontFp!("3"), MontFp!("6"));
    type MontCurveConfig = Te10;
}
impl MontCurveConfig for Te10 {
    const COEFF_A: F19 = MontFp!("1");
    const COEFF_B: F19 = MontFp!("3");
    type TECurveConfig = Te10;
}

// te121_complete: 104 points, r = 13, cofactor 8
#[derive(Clone, Default, PartialEq, Eq)]
pub struct Te9;
impl CurveConfig for Te9 {
    type BaseField = F11_2;
    type ScalarField = F13;
    const COFACTOR: &'static [u64] = &[8];
    const COFACTOR_INV: F13 = MontFp!("5");
}
impl TECurveConfig for Te9 {
    const COEFF_A: F11_2 = F11_2::new(MontFp!("1"), MontFp!("0"));
    const COEFF_D: F11_2 = F11_2::new(MontFp!("1"), MontFp!("1"));
    const GENERATOR: te::Affine<Self> = te::Affine::new_unchecked(F11_2::new(MontFp!("0"), MontFp!("1")), F11_2::new(MontFp!("9"), MontFp!("10")));
    type MontCurveConfig = Te9;
}
impl MontCurveConfig for Te9 {
    const COEFF_A: F11_2 = F11_2::new(MontFp!("9"), MontFp!("4"));
    const COEFF_B: F11_2 = F11_2::new(MontFp!("0"), MontFp!("4"));
    type TECurveConfig = Te9;
}

// END TOY CONFIGS (copied)

// ---- GLV parameters for toy curves (computed in props/C04: beta^3 = 1 in F_p, lambda^3 = 1 in
// F_r, (beta x, y) = lambda (x, y) on the generator, rows of the basis in the lattice
// {(a, b) : a + lambda b = 0 mod r}, determinant r) ----
// sw13_a0_prime (y^2 = x^3 + 2 over F_13, r = 19): beta = 9, lambda = 7, basis (5, 2), (-2, 3)
impl GLVConfig for Sw1 {
    const ENDO_COEFFS: &'static [F13] = &[MontFp!("9")];
    const LAMBDA: F19 = MontFp!("7");
    const SCALAR_DECOMP_COEFFS: [(bool, <F19 as PrimeField>::BigInt); 4] =
        [(true, BigInt::new([5])), (true, BigInt::new([2])), (false, BigInt::new([2])), (true, BigInt::new([3]))];
    fn endomorphism(p: &sw::Projective<Self>) -> sw::Projective<Self> {
        let mut res = *p;
        res.x *= Self::ENDO_COEFFS[0];
        res
    }
    fn endomorphism_affine(p: &sw::Affine<Self>) -> sw::Affine<Self> {
        let mut res = *p;
        res.x *= Self::ENDO_COEFFS[0];
        res
    }
}
// sw103_a0_h4 (y^2 = x^3 + 3 over F_103, r = 31, cofactor 4): beta = 56, lambda = 5,
// basis (5, -1), (1, 6)
impl GLVConfig for Sw11 {
    const ENDO_COEFFS: &'static [F103] = &[MontFp!("56")];
    const LAMBDA: F31 = MontFp!("5");
    const SCALAR_DECOMP_COEFFS: [(bool, <F31 as PrimeField>::BigInt); 4] =
        [(true, BigInt::new([5])), (false, BigInt::new([1])), (true, BigInt::new([1])), (true, BigInt::new([6]))];
    fn endomorphism(p: &sw::Projective<Self>) -> sw::Projective<Self> {
        let mut res = *p;
        res.x *= Self::ENDO_COEFFS[0];
        res
    }
    fn endomorphism_affine(p: &sw::Affine<Self>) -> sw::Affine<Self> {
        let mut res = *p;
        res.x *= Self::ENDO_COEFFS[0];
        res
    }
}
// the same curve as Sw1 with the curve-crate pattern: mul_projective overridden by GLV
#[derive(Clone, Default, PartialEq, Eq)]
pub struct Sw1o;
impl CurveConfig for Sw1o {
    type BaseField = F13;
    type ScalarField = F19;
    const COFACTOR: &'static [u64] = &[1];
    const COFACTOR_INV: F19 = MontFp!("1");
}
impl SWCurveConfig for Sw1o {
    const COEFF_A: F13 = MontFp!("0");
    const COEFF_B: F13 = MontFp!("2");
    const GENERATOR: sw::Affine<Self> = sw::Affine::new_unchecked(MontFp!("1"), MontFp!("4"));
    fn mul_projective(p: &sw::Projective<Self>, scalar: &[u64]) -> sw::Projective<Self> {
        // same shape as the shipped overrides after fix b95ee89 (long slices take the generic path)
        if scalar.len() > <F19 as PrimeField>::MODULUS.0.len() {
            return ark_ec::scalar_mul::sw_double_and_add_projective(p, scalar);
        }
        let s = Self::ScalarField::from_sign_and_limbs(true, scalar);
        GLVConfig::glv_mul_projective(*p, s)
    }
}
impl GLVConfig for Sw1o {
    const ENDO_COEFFS: &'static [F13] = &[MontFp!("9")];
    const LAMBDA: F19 = MontFp!("7");
    const SCALAR_DECOMP_COEFFS: [(bool, <F19 as PrimeField>::BigInt); 4] =
        [(true, BigInt::new([5])), (true, BigInt::new([2])), (false, BigInt::new([2])), (true, BigInt::new([3]))];
    fn endomorphism(p: &sw::Projective<Self>) -> sw::Projective<Self> {
        let mut res = *p;
        res.x *= Self::ENDO_COEFFS[0];
        res
    }
    fn endomorphism_affine(p: &sw::Affine<Self>) -> sw::Affine<Self> {
        let mut res = *p;
        res.x *= Self::ENDO_COEFFS[0];
        res
    }
}
}

// ---------- field elements on the wire: base-prime-field coordinate lists ----------
fn deg<F: Field>() -> usize {
    F::extension_degree() as usize
}
fn fe<F: Field>(a: &[SInt]) -> F {
    F::from_base_prime_field_elems(a.iter().map(|v| F::BasePrimeField::from(u(v)))).expect("harness: coordinate count")
}
/// i-th field element of a flat coordinate list
fn el<F: Field>(a: &Arg, i: usize) -> F {
    let d = deg::<F>();
    fe::<F>(&a[i * d..(i + 1) * d])
}
fn fe_out<F: Field>(x: &F) -> Arg {
    x.to_base_prime_field_elements()
        .map(|c| {
            let b: BigUint = c.into_bigint().into();
            from_biguint(&b)
        })
        .collect()
}
fn cat(parts: &[Arg]) -> Arg {
    parts.iter().flat_map(|p| p.iter().cloned()).collect()
}
fn modulus<F: Field>() -> Arg {
    let m: BigUint = <F::BasePrimeField as PrimeField>::MODULUS.into();
    vec![from_biguint(&m), from_u64(deg::<F>() as u64)]
}
fn probe<F: Field>() -> Vec<Arg> {
    let mut c = vec![SInt::from(0); deg::<F>()];
    c[0] = SInt::from(2);
    if c.len() > 1 {
        c[1] = SInt::from(1);
    }
    let e = fe::<F>(&c);
    vec![fe_out(&(e * e)), fe_out(&(e * e * e))]
}
/// [r, N, MODULUS_BIT_SIZE] of a scalar field
fn scalar_info<S: PrimeField>() -> Arg {
    let r: BigUint = S::MODULUS.into();
    vec![
        from_biguint(&r),
        from_u64(S::MODULUS.as_ref().len() as u64),
        from_u64(S::MODULUS_BIT_SIZE as u64),
    ]
}
fn sc<S: PrimeField>(v: &SInt) -> S {
    S::from(u(v))
}

// ---------- points on the wire ----------
trait Pt: CurveGroup + ScalarMul<MulBase = <Self as CurveGroup>::Affine> {
    fn parse(a: &Arg) -> Self;
    fn outa(p: &Self::Affine) -> Arg;
}
impl<P: SWCurveConfig> Pt for sw::Projective<P> {
    fn parse(a: &Arg) -> Self {
        sw::Projective::<P>::new_unchecked(el(a, 0), el(a, 1), el(a, 2))
    }
    fn outa(p: &sw::Affine<P>) -> Arg {
        cat(&[fe_out(&p.x), fe_out(&p.y), vec![from_bool(p.infinity)]])
    }
}
impl<P: TECurveConfig> Pt for te::Projective<P> {
    fn parse(a: &Arg) -> Self {
        te::Projective::<P>::new_unchecked(el(a, 0), el(a, 1), el(a, 2), el(a, 3))
    }
    fn outa(p: &te::Affine<P>) -> Arg {
        cat(&[fe_out(&p.x), fe_out(&p.y)])
    }
}
fn outp<G: Pt>(p: &G) -> Arg {
    G::outa(&p.into_affine())
}

/// the paths every curve group offers
fn run_grp<G: Pt>(op: &str, a: &[Arg]) -> Vec<Arg> {
    match op {
        "mul_scalar" => {
            let k: G::ScalarField = sc(&a[7][0]);
            let p = G::parse(&a[8]);
            let aff = p.into_affine();
            let r1 = p * k;
            let mut q = p;
            q *= k;
            assert!(q == r1 && p * &k == r1, "harness: *, *= and * & differ");
            let r2: G = aff * k;
            // R and the API expression 2R - R (a second arithmetic step on the product)
            ok(vec![outp(&r1), outp(&(r1.double() - r1)), outp(&r2), outp(&(r2.double() - r2))])
        },
        "mul_bigint" => {
            let limbs = arg_limbs(&a[7]);
            let p = G::parse(&a[8]);
            let aff = p.into_affine();
            let r1 = p.mul_bigint(&limbs);
            let r2: G = aff.mul_bigint(&limbs);
            ok(vec![outp(&r1), outp(&(r1.double() - r1)), outp(&r2), outp(&(r2.double() - r2))])
        },
        "mul_bits_be" => {
            let bits: Vec<bool> = a[7].iter().map(|x| !x.is_zero()).collect();
            let p = G::parse(&a[8]);
            ok(vec![outp(&p.mul_bits_be(bits.into_iter()))])
        },
        "wnaf_table" => {
            let ctx = WnafContext::new(to_usize(&a[7][0]));
            ok(ctx.table(G::parse(&a[8])).iter().map(outp).collect())
        },
        "wnaf_mul" => {
            let ctx = WnafContext::new(to_usize(&a[7][0]));
            let k: G::ScalarField = sc(&a[8][0]);
            ok(vec![outp(&ctx.mul(G::parse(&a[9]), &k))])
        },
        "wnaf_mul_with_table" => {
            let (w, wt, drop) = (to_usize(&a[7][0]), to_usize(&a[7][1]), to_usize(&a[7][2]));
            let k: G::ScalarField = sc(&a[8][0]);
            let mut table = WnafContext::new(wt).table(G::parse(&a[9]));
            table.truncate(table.len().saturating_sub(drop));
            match WnafContext::new(w).mul_with_table(&table, &k) {
                Some(r) => ok(vec![vec![from_u64(1)], outp(&r)]),
                None => ok(vec![vec![from_u64(0)], vec![]]),
            }
        },
        "fixed_base" => {
            let (ns, mss, use_new) = (to_usize(&a[7][0]), to_usize(&a[7][1]), !a[7][2].is_zero());
            let v: Vec<G::ScalarField> = a[8].iter().map(sc).collect();
            let p = G::parse(&a[9]);
            let t = if use_new {
                BatchMulPreprocessing::new(p, ns)
            } else {
                BatchMulPreprocessing::with_num_scalars_and_scalar_size(p, ns, mss)
            };
            let res = t.batch_mul(&v);
            assert!(res == G::batch_mul_with_preprocessing(&t, &v), "harness: batch_mul variants differ");
            let mut out = vec![vec![
                from_u64(t.window as u64),
                from_u64(t.max_scalar_size as u64),
                from_u64(t.table.len() as u64),
            ]];
            out.extend(res.iter().map(G::outa));
            ok(out)
        },
        "fixed_base_table" => {
            let (ns, mss) = (to_usize(&a[7][0]), to_usize(&a[7][1]));
            let t = BatchMulPreprocessing::with_num_scalars_and_scalar_size(G::parse(&a[8]), ns, mss);
            let mut out = vec![vec![from_u64(t.window as u64), from_u64(t.max_scalar_size as u64)]];
            for row in t.table.iter() {
                out.push(cat(&row.iter().map(G::outa).collect::<Vec<_>>()));
            }
            ok(out)
        },
        "batch_mul" => {
            let v: Vec<G::ScalarField> = a[7].iter().map(sc).collect();
            ok(G::parse(&a[8]).batch_mul(&v).iter().map(G::outa).collect())
        },
        _ => unsupported(),
    }
}

fn run_sw<P: SWCurveConfig>(op: &str, a: &[Arg]) -> Vec<Arg> {
    match op {
        "params" => {
            let mut r = vec![modulus::<P::BaseField>(), fe_out(&P::COEFF_A), fe_out(&P::COEFF_B)];
            r.extend(probe::<P::BaseField>());
            r.push(scalar_info::<P::ScalarField>());
            ok(r)
        },
        _ => run_grp::<sw::Projective<P>>(op, a),
    }
}
fn run_te<P: TECurveConfig>(op: &str, a: &[Arg]) -> Vec<Arg> {
    match op {
        "params" => {
            let mut r = vec![modulus::<P::BaseField>(), fe_out(&P::COEFF_A), fe_out(&P::COEFF_D)];
            r.extend(probe::<P::BaseField>());
            r.push(scalar_info::<P::ScalarField>());
            ok(r)
        },
        _ => run_grp::<te::Projective<P>>(op, a),
    }
}

fn signed<B: BigInteger>(c: &(bool, B)) -> SInt {
    let m: BigUint = c.1.into();
    let v = from_biguint(&m);
    if c.0 {
        v
    } else {
        -v
    }
}
fn glv_consts<P: GLVConfig>() -> (Arg, Arg) {
    let l: BigUint = P::LAMBDA.into_bigint().into();
    let mut g = vec![from_biguint(&l)];
    g.extend(P::SCALAR_DECOMP_COEFFS.iter().map(signed));
    assert!(P::ENDO_COEFFS.len() == 1, "harness: one endomorphism coefficient expected");
    (g, fe_out(&P::ENDO_COEFFS[0]))
}
/// GLV ops; `ovr` = the configuration overrides mul_projective with glv_mul_projective
fn run_glv<P: GLVConfig>(op: &str, a: &[Arg], ovr: bool) -> Vec<Arg> {
    match op {
        "glv_params" => {
            let (g, beta) = glv_consts::<P>();
            ok(vec![g, beta, vec![from_bool(ovr)]])
        },
        "glv_decomp" => {
            let ((s1, k1), (s2, k2)) = P::scalar_decomposition(sc(&a[7][0]));
            let b1: BigUint = k1.into_bigint().into();
            let b2: BigUint = k2.into_bigint().into();
            ok(vec![vec![from_bool(s1), from_biguint(&b1), from_bool(s2), from_biguint(&b2)]])
        },
        "glv_mul" => {
            let k: P::ScalarField = sc(&a[7][0]);
            let p = sw::Projective::<P>::parse(&a[8]);
            let aff = p.into_affine();
            // the endomorphism itself is observed through both entry points
            let r1 = P::glv_mul_projective(p, k);
            let r2 = P::glv_mul_affine(aff, k);
            ok(vec![outp(&r1), sw::Projective::<P>::outa(&r2)])
        },
        _ => run_sw::<P>(op, a),
    }
}

// (id, name, type) tables.  `ovr` configurations override mul_projective with GLV.
macro_rules! cfg_sw_plain {
    ($m:ident) => {
        $m!(2, "sw19_a0_h4", toy::Sw2);
        $m!(4, "sw11_a1_prime", toy::Sw4);
        $m!(5, "sw17_a1_h2", toy::Sw5);
        $m!(8, "sw17_a3_b0", toy::Sw8);
        $m!(10, "sw101_am3_prime", toy::Sw10);
        $m!(12, "sw103_a1_h4", toy::Sw12);
        $m!(14, "sw121_a", toy::Sw14);
        $m!(15, "sw343_a0", toy::Sw15);
        $m!(102, "tc_bls12_381_g2", ark_test_curves::bls12_381::g2::Config);
        $m!(105, "secp256k1", ark_secp256k1::Config);
        $m!(106, "tc_secp256k1", ark_test_curves::secp256k1::Config);
    };
}
macro_rules! cfg_sw_glv {
    ($m:ident) => {
        $m!(1, "sw13_a0_prime", toy::Sw1, false);
        $m!(11, "sw103_a0_h4", toy::Sw11, false);
        $m!(16, "sw13_a0_prime_ovr", toy::Sw1o, true);
        $m!(111, "bls12_381_g1", ark_bls12_381::g1::Config, true);
        $m!(112, "bls12_381_g2", ark_bls12_381::g2::Config, false);
        $m!(113, "tc_bls12_381_g1", ark_test_curves::bls12_381::g1::Config, true);
        $m!(114, "bn254_g1", ark_bn254::g1::Config, true);
        $m!(115, "bn254_g2", ark_bn254::g2::Config, false);
        $m!(116, "pallas", ark_pallas::PallasConfig, false);
        $m!(117, "vesta", ark_vesta::VestaConfig, false);
        $m!(118, "bls12_377_g1", ark_bls12_377::g1::Config, true);
        $m!(119, "bls12_377_g2", ark_bls12_377::g2::Config, false);
        $m!(120, "bw6_761_g1", ark_bw6_761::g1::Config, false);
        $m!(121, "bw6_761_g2", ark_bw6_761::g2::Config, false);
    };
}
macro_rules! cfg_te {
    ($m:ident) => {
        $m!(1, "te13_m1_complete", toy::Te1);
        $m!(2, "te17_1_complete", toy::Te2);
        $m!(3, "te19_a5_complete", toy::Te3);
        $m!(4, "te19_m1_incomplete", toy::Te4);
        $m!(7, "te101_a5_complete", toy::Te7);
        $m!(9, "te121_complete", toy::Te9);
        $m!(201, "ed_on_bls12_381", ark_ed_on_bls12_381::JubjubConfig);
        $m!(202, "ed25519", ark_ed25519::EdwardsConfig);
        $m!(203, "bandersnatch", ark_ed_on_bls12_381_bandersnatch::BandersnatchConfig);
        $m!(204, "tc_ed_on_bls12_381", ark_test_curves::ed_on_bls12_381::EdwardsConfig);
    };
}

fn dispatch_sw(cfg: u64, op: &str, a: &[Arg]) -> Vec<Arg> {
    macro_rules! plain {
        ($id:expr, $n:expr, $t:ty) => {
            if cfg == $id {
                return run_sw::<$t>(op, a);
            }
        };
    }
    macro_rules! glv {
        ($id:expr, $n:expr, $t:ty, $o:expr) => {
            if cfg == $id {
                return run_glv::<$t>(op, a, $o);
            }
        };
    }
    cfg_sw_plain!(plain);
    cfg_sw_glv!(glv);
    unsupported()
}
fn dispatch_te(cfg: u64, op: &str, a: &[Arg]) -> Vec<Arg> {
    macro_rules! arm {
        ($id:expr, $n:expr, $t:ty) => {
            if cfg == $id {
                return run_te::<$t>(op, a);
            }
        };
    }
    cfg_te!(arm);
    unsupported()
}

fn s(a: &Arg) -> String {
    format!("[{}]", a.iter().map(|x| format!("\"{}\"", x)).collect::<Vec<_>>().join(","))
}
fn nr_of<F: Field>() -> Arg {
    // u^deg for the adjoined generator u (deg > 1); 0 for a prime field
    let d = deg::<F>();
    if d == 1 {
        return vec![from_u64(0)];
    }
    let mut c = vec![SInt::from(0); d];
    c[1] = SInt::from(1);
    let uu = fe::<F>(&c);
    let mut r = F::ONE;
    for _ in 0..d {
        r *= uu;
    }
    vec![fe_out(&r)[0].clone()]
}
fn limbs_to_big(l: &[u64]) -> BigUint {
    let mut r = BigUint::from(0u32);
    for x in l.iter().rev() {
        r = (r << 64) + BigUint::from(*x);
    }
    r
}
fn dump() {
    macro_rules! common {
        ($kind:expr, $id:expr, $n:expr, $t:ty, $ca:expr, $c3:expr, $g:expr, $glv:expr) => {{
            type B = <$t as CurveConfig>::BaseField;
            type S = <$t as CurveConfig>::ScalarField;
            let g = $g;
            println!(
                "{{\"kind\":\"{}\",\"id\":{},\"name\":\"{}\",\"field\":{},\"nr\":{},\"a\":{},\"c3\":{},\"gx\":{},\"gy\":{},\"scalar\":{},\"h\":\"{}\",\"glv\":{}}}",
                $kind, $id, $n, s(&modulus::<B>()), s(&nr_of::<B>()), s(&fe_out(&$ca)), s(&fe_out(&$c3)),
                s(&fe_out(&g.x)), s(&fe_out(&g.y)), s(&scalar_info::<S>()),
                limbs_to_big(<$t as CurveConfig>::COFACTOR), $glv
            );
        }};
    }
    macro_rules! d_plain {
        ($id:expr, $n:expr, $t:ty) => {
            if $id >= 100 {
                common!("sw", $id, $n, $t, <$t as SWCurveConfig>::COEFF_A, <$t as SWCurveConfig>::COEFF_B, <$t as SWCurveConfig>::GENERATOR, "null")
            }
        };
    }
    macro_rules! d_glv {
        ($id:expr, $n:expr, $t:ty, $o:expr) => {
            if $id >= 100 {
                let (g, beta) = glv_consts::<$t>();
                let j = format!("{{\"ovr\":{},\"consts\":{},\"beta\":{}}}", $o, s(&g), s(&beta));
                common!("sw", $id, $n, $t, <$t as SWCurveConfig>::COEFF_A, <$t as SWCurveConfig>::COEFF_B, <$t as SWCurveConfig>::GENERATOR, j)
            }
        };
    }
    macro_rules! d_te {
        ($id:expr, $n:expr, $t:ty) => {
            if $id >= 100 {
                common!("te", $id, $n, $t, <$t as TECurveConfig>::COEFF_A, <$t as TECurveConfig>::COEFF_D, <$t as TECurveConfig>::GENERATOR, "null")
            }
        };
    }
    cfg_sw_plain!(d_plain);
    cfg_sw_glv!(d_glv);
    cfg_te!(d_te);
}

fn main() {
    if std::env::args().nth(1).as_deref() == Some("dump") {
        dump();
        return;
    }
    main_loop(|op, a| {
        let cfg = to_u64(&a[0][0]);
        if let Some(o) = op.strip_prefix("sw_") {
            dispatch_sw(cfg, o, a)
        } else if let Some(o) = op.strip_prefix("te_") {
            dispatch_te(cfg, o, a)
        } else {
            unsupported()
        }
    });
}
