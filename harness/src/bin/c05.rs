//! C05 case interpreter: multi-scalar multiplication (`VariableBaseMSM`, the private bucket
//! methods through `verif_hooks`, `make_digits`, `ChunkedPippenger`, `HashMapPippenger`).
//! Built with RUSTFLAGS="--cfg arkworks_rs_algebra_verif".
//! Argument layout of every case (see coq/C05/Run.v):
//!   a[0] = [cfg_id, kind], a[1] = [p], a[2] = [coeff a], a[3] = [coeff b | d],
//!   a[4] = [r, MODULUS_BIT_SIZE, N], a[5] = op parameters, a[6] = scalars, a[7] = bases (flat affine).
//! Pairing target groups (`PairingOutput<E>`, kind 2 = Fp12, kind 3 = Fp4): a[2] = [nr2], a[3] = [nr6 c0, c1],
//!   a[7] = bases, `extension_degree` base-prime-field coordinates per element; result = coordinates of one element.
//! Only a[0], a[5..] are used here; a[1..4] describe the configuration to the Coq model and are
//! compared with the real constants by the `params` op.  No oracle logic: each op calls the API
//! and prints the returned group element in affine coordinates.
#![allow(non_camel_case_types)]
use ark_ec::{
    models::CurveConfig,
    pairing::{Pairing, PairingOutput},
    scalar_mul::variable_base::{verif_hooks, ChunkedPippenger, HashMapPippenger},
    short_weierstrass::{self as sw, SWCurveConfig},
    twisted_edwards::{self as te, TECurveConfig},
    CurveGroup, PrimeGroup, ScalarMul, VariableBaseMSM,
};
use ark_ff::{BigInt, BigInteger, CyclotomicMultSubgroup, Field, PrimeField, Zero};
use num_bigint::BigUint;
use vharness::*;

mod toy {
    use ark_ec::{
        models::CurveConfig,
        short_weierstrass::{self as sw, SWCurveConfig},
        twisted_edwards::{self as te, MontCurveConfig, TECurveConfig},
    };
    use ark_ff::fields::{Fp64, MontBackend, MontConfig};
    use ark_ff::MontFp;

    macro_rules! prime_field {
        ($cfg:ident, $name:ident, $m:literal, $g:literal) => {
            #[derive(MontConfig)]
            #[modulus = $m]
            #[generator = $g]
            pub struct $cfg;
            pub type $name = Fp64<MontBackend<$cfg, 1>>;
        };
    }
    prime_field!(F7Config, F7, "7", "3");
    prime_field!(F13Config, F13, "13", "2");
    prime_field!(F17Config, F17, "17", "3");
    prime_field!(F19Config, F19, "19", "2");
    prime_field!(F29Config, F29, "29", "2");
    prime_field!(F101Config, F101, "101", "2");
    prime_field!(F109Config, F109, "109", "6");

    // cfg 1: y^2 = x^3 + x + 4 over F_17: 14 points, r = 7 (3 bits: a single digit window), cofactor 2
    #[derive(Clone, Default, PartialEq, Eq)]
    pub struct Sw1;
    impl CurveConfig for Sw1 {
        type BaseField = F17;
        type ScalarField = F7;
        const COFACTOR: &'static [u64] = &[2];
        const COFACTOR_INV: F7 = MontFp!("4");
    }
    impl SWCurveConfig for Sw1 {
        const COEFF_A: F17 = MontFp!("1");
        const COEFF_B: F17 = MontFp!("4");
        const GENERATOR: sw::Affine<Self> = sw::Affine::new_unchecked(MontFp!("4"), MontFp!("2"));
    }
    // cfg 2: y^2 = x^3 + 2 over F_13: 19 points, r = 19 (5 bits), cofactor 1, a = 0
    #[derive(Clone, Default, PartialEq, Eq)]
    pub struct Sw2;
    impl CurveConfig for Sw2 {
        type BaseField = F13;
        type ScalarField = F19;
        const COFACTOR: &'static [u64] = &[1];
        const COFACTOR_INV: F19 = MontFp!("1");
    }
    impl SWCurveConfig for Sw2 {
        const COEFF_A: F13 = MontFp!("0");
        const COEFF_B: F13 = MontFp!("2");
        const GENERATOR: sw::Affine<Self> = sw::Affine::new_unchecked(MontFp!("1"), MontFp!("4"));
    }
    // cfg 3: y^2 = x^3 - 3x + 6 over F_101: 109 points, r = 109 (7 bits), cofactor 1
    #[derive(Clone, Default, PartialEq, Eq)]
    pub struct Sw3;
    impl CurveConfig for Sw3 {
        type BaseField = F101;
        type ScalarField = F109;
        const COFACTOR: &'static [u64] = &[1];
        const COFACTOR_INV: F109 = MontFp!("1");
    }
    impl SWCurveConfig for Sw3 {
        const COEFF_A: F101 = MontFp!("98");
        const COEFF_B: F101 = MontFp!("6");
        const GENERATOR: sw::Affine<Self> = sw::Affine::new_unchecked(MontFp!("0"), MontFp!("39"));
    }
    // cfg 4: 5x^2 + y^2 = 1 + 2x^2y^2 over F_19 (complete): 28 points, r = 7, cofactor 4
    #[derive(Clone, Default, PartialEq, Eq)]
    pub struct Te1;
    impl CurveConfig for Te1 {
        type BaseField = F19;
        type ScalarField = F7;
        const COFACTOR: &'static [u64] = &[4];
        const COFACTOR_INV: F7 = MontFp!("2");
    }
    impl TECurveConfig for Te1 {
        const COEFF_A: F19 = MontFp!("5");
        const COEFF_D: F19 = MontFp!("2");
        const GENERATOR: te::Affine<Self> = te::Affine::new_unchecked(MontFp!("4"), MontFp!("9"));
        type MontCurveConfig = Te1;
    }
    impl MontCurveConfig for Te1 {
        const COEFF_A: F19 = MontFp!("11");
        const COEFF_B: F19 = MontFp!("14");
        type TECurveConfig = Te1;
    }
    // cfg 5: 5x^2 + y^2 = 1 + 2x^2y^2 over F_101 (complete): 116 points, r = 29 (5 bits), cofactor 4
    #[derive(Clone, Default, PartialEq, Eq)]
    pub struct Te2;
    impl CurveConfig for Te2 {
        type BaseField = F101;
        type ScalarField = F29;
        const COFACTOR: &'static [u64] = &[4];
        const COFACTOR_INV: F29 = MontFp!("22");
    }
    impl TECurveConfig for Te2 {
        const COEFF_A: F101 = MontFp!("5");
        const COEFF_D: F101 = MontFp!("2");
        const GENERATOR: te::Affine<Self> = te::Affine::new_unchecked(MontFp!("1"), MontFp!("2"));
        type MontCurveConfig = Te2;
    }
    impl MontCurveConfig for Te2 {
        const COEFF_A: F101 = MontFp!("72");
        const COEFF_B: F101 = MontFp!("35");
        type TECurveConfig = Te2;
    }
}

// ---------- wire helpers (prime base fields only) ----------
fn fe<F: PrimeField>(v: &num_bigint::BigInt) -> F {
    F::from(u(v))
}
fn fe_out<F: PrimeField>(x: &F) -> num_bigint::BigInt {
    let b: BigUint = x.into_bigint().into();
    from_biguint(&b)
}
fn modulus<F: PrimeField>() -> num_bigint::BigInt {
    let m: BigUint = F::MODULUS.into();
    from_biguint(&m)
}

/// the ops that only need the `VariableBaseMSM` interface
fn run_group<G: VariableBaseMSM>(op: &str, a: &[Arg], bases: Vec<G::MulBase>, out: &dyn Fn(&G) -> Vec<Arg>) -> Vec<Arg> {
    let ks: Vec<BigUint> = a[6].iter().map(u).collect();
    // field-element scalars (From<BigUint> reduces mod r; the generator only produces k < r here)
    let fks = || ks.iter().map(|k| G::ScalarField::from(k.clone())).collect::<Vec<_>>();
    // big-integer scalars
    let bks = || {
        ks.iter()
            .map(|k| <G::ScalarField as PrimeField>::BigInt::try_from(k.clone()).ok().expect("harness: bigint out of range"))
            .collect::<Vec<_>>()
    };
    match op {
        "msm" => match G::msm(&bases, &fks()) {
            Ok(g) => out(&g),
            Err(n) => vec![vec![from_u64(1), from_u64(1)], vec![from_u64(n as u64)]],
        },
        "msm_unchecked" => out(&G::msm_unchecked(&bases, &fks())),
        "msm_bigint" => out(&G::msm_bigint(&bases, &bks())),
        "msm_signed" => out(&verif_hooks::msm_bigint_signed::<G>(&bases, &bks())),
        "msm_plain" => out(&verif_hooks::msm_bigint_plain::<G>(&bases, &bks())),
        "msm_chunks" => {
            let f = fks();
            out(&G::msm_chunks(&bases.as_slice(), &f.as_slice()))
        },
        "msm_chunks_long" => {
            // a stream longer than the hard-coded chunk size, given intensionally: base i = pool[i mod |pool|],
            // scalar i = 0 except at the listed (index, value) pairs (flat list a[6] = [i0, v0, i1, v1, ...])
            let n = to_usize(&a[5][0]);
            let f = fks();
            let mut sc = vec![G::ScalarField::from(0u64); n];
            for (j, v) in f.iter().enumerate() {
                // index j of the sparse list is a[5][2 + j] (a plain integer, not a field element)
                if 2 + j < a[5].len() {
                    let idx = to_usize(&a[5][2 + j]);
                    if idx < n && sc[idx] == G::ScalarField::from(0u64) { sc[idx] = *v; }
                }
            }
            let extra = if a[5].len() > 1 { to_usize(&a[5][1]) } else { 0 };
            let bl: Vec<_> = (0..n + extra).map(|i| bases[i % bases.len()]).collect();
            out(&G::msm_chunks(&bl.as_slice(), &sc.as_slice()))
        },
        "chunked" => {
            let size = to_usize(&a[5][0]);
            let mut cp = if to_u64(&a[5][1]) == 0 {
                ChunkedPippenger::<G>::new(size)
            } else {
                ChunkedPippenger::<G>::with_size(size)
            };
            for (b, s) in bases.iter().zip(bks().iter()) {
                cp.add(b, s);
            }
            out(&cp.finalize())
        },
        "hashmap" => {
            let size = to_usize(&a[5][0]);
            let mut hp = HashMapPippenger::<G>::new(size);
            for (b, s) in bases.iter().zip(fks().iter()) {
                hp.add(b, s);
            }
            out(&hp.finalize())
        },
        _ => unsupported(),
    }
}

fn digits_n<const N: usize>(a: &[Arg]) -> Vec<Arg> {
    let l = arg_limbs(&a[6]);
    let mut r = [0u64; N];
    r.copy_from_slice(&l);
    let d = verif_hooks::make_digits_vec(&BigInt::<N>(r), to_usize(&a[5][0]), to_usize(&a[5][1]));
    ok(vec![d.into_iter().map(from_i64).collect()])
}
fn run_digits(a: &[Arg]) -> Vec<Arg> {
    match a[6].len() {
        1 => digits_n::<1>(a),
        2 => digits_n::<2>(a),
        3 => digits_n::<3>(a),
        4 => digits_n::<4>(a),
        5 => digits_n::<5>(a),
        6 => digits_n::<6>(a),
        _ => unsupported(),
    }
}

fn scalar_params<F: PrimeField>() -> Arg {
    vec![modulus::<F>(), from_u64(F::MODULUS_BIT_SIZE as u64), from_u64(F::BigInt::NUM_LIMBS as u64)]
}

fn run_sw<P: SWCurveConfig>(op: &str, a: &[Arg]) -> Vec<Arg>
where
    P::BaseField: PrimeField,
{
    if op == "params" {
        return ok(vec![
            vec![modulus::<P::BaseField>()],
            vec![fe_out(&P::COEFF_A)],
            vec![fe_out(&P::COEFF_B)],
            scalar_params::<P::ScalarField>(),
            vec![from_bool(<sw::Projective<P> as ScalarMul>::NEGATION_IS_CHEAP)],
        ]);
    }
    let bases: Vec<sw::Affine<P>> = a[7]
        .chunks(3)
        .map(|c| {
            if to_u64(&c[2]) != 0 {
                sw::Affine::<P>::identity()
            } else {
                sw::Affine::<P>::new_unchecked(fe(&c[0]), fe(&c[1]))
            }
        })
        .collect();
    run_group::<sw::Projective<P>>(op, a, bases, &|g| {
        let p = g.into_affine();
        ok(vec![vec![fe_out(&p.x), fe_out(&p.y), from_bool(p.infinity)]])
    })
}

fn run_te<P: TECurveConfig>(op: &str, a: &[Arg]) -> Vec<Arg>
where
    P::BaseField: PrimeField,
{
    if op == "params" {
        return ok(vec![
            vec![modulus::<P::BaseField>()],
            vec![fe_out(&P::COEFF_A)],
            vec![fe_out(&P::COEFF_D)],
            scalar_params::<P::ScalarField>(),
            vec![from_bool(<te::Projective<P> as ScalarMul>::NEGATION_IS_CHEAP)],
        ]);
    }
    let bases: Vec<te::Affine<P>> = a[7].chunks(2).map(|c| te::Affine::<P>::new_unchecked(fe(&c[0]), fe(&c[1]))).collect();
    run_group::<te::Projective<P>>(op, a, bases, &|g| {
        let p = g.into_affine();
        ok(vec![vec![fe_out(&p.x), fe_out(&p.y)]])
    })
}

/// base-prime-field coordinates of an extension-field element
fn coords<F: Field>(x: &F) -> Arg {
    x.to_base_prime_field_elements().map(|c| fe_out(&c)).collect()
}

/// the pairing target group `PairingOutput<E>` (MulBase = Self; zero = 1, + = field product)
fn run_gt<E: Pairing>(op: &str, a: &[Arg]) -> Vec<Arg> {
    type Tf<E> = <E as Pairing>::TargetField;
    type Bp<E> = <Tf<E> as Field>::BasePrimeField;
    let d = <Tf<E> as Field>::extension_degree() as usize;
    if op == "params" {
        let unit = |i: usize| -> Tf<E> {
            let mut c = vec![<Bp<E> as Zero>::zero(); d];
            c[i] = <Bp<E> as Field>::ONE;
            <Tf<E> as Field>::from_base_prime_field_elems(c).unwrap()
        };
        let (uu, v, w) = (unit(1), unit(2), unit(d / 2));
        let g = <PairingOutput<E> as PrimeGroup>::generator();
        return ok(vec![
            vec![modulus::<Bp<E>>()],
            coords(&(uu * uu)),
            coords(&(v * v)),
            coords(&(v * v * v)),
            coords(&(w * w)),
            scalar_params::<E::ScalarField>(),
            vec![from_bool(<PairingOutput<E> as ScalarMul>::NEGATION_IS_CHEAP)],
            coords(&g.0),
            coords(&(g.0 * g.0.cyclotomic_inverse().unwrap())),
        ]);
    }
    let bases: Vec<PairingOutput<E>> = a[7]
        .chunks(d)
        .map(|c| PairingOutput::<E>(<Tf<E> as Field>::from_base_prime_field_elems(c.iter().map(fe::<Bp<E>>)).unwrap()))
        .collect();
    run_group::<PairingOutput<E>>(op, a, bases, &|g| ok(vec![coords(&g.0)]))
}

fn run(op: &str, a: &[Arg]) -> Vec<Arg> {
    if op == "make_digits" {
        return run_digits(a);
    }
    match to_u64(&a[0][0]) {
        1 => run_sw::<toy::Sw1>(op, a),
        2 => run_sw::<toy::Sw2>(op, a),
        3 => run_sw::<toy::Sw3>(op, a),
        4 => run_te::<toy::Te1>(op, a),
        5 => run_te::<toy::Te2>(op, a),
        10 => run_sw::<ark_test_curves::bls12_381::g1::Config>(op, a),
        11 => run_te::<ark_test_curves::ed_on_bls12_381::EdwardsConfig>(op, a),
        12 => run_sw::<ark_test_curves::secp256k1::Config>(op, a),
        20 => run_gt::<ark_test_curves::bls12_381::Bls12_381>(op, a),
        21 => run_gt::<ark_bls12_381::Bls12_381>(op, a),
        22 => run_gt::<ark_mnt4_298::MNT4_298>(op, a),
        _ => unsupported(),
    }
}

fn main() {
    let _ = <toy::Sw1 as CurveConfig>::COFACTOR;
    main_loop(run);
}
