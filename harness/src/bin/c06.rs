//! C06 case interpreter: pairings of the five model families.
//! args: a[0] = [engine, tower_cid, family], then (model ops) a[1] = tower parameters,
//! a[2] = family constants, a[3] = X limbs, a[4] = loop-count digits (all four ignored
//! here: they are what `dump` printed, the Coq model consumes them), a[5] = [mode],
//! a[6].. = operands.  Law ops: a[1].. = scalars.
//! `dump` prints, per family, the four lists a[1..4] the Coq model consumes (layout: coq/C06/Run.v).
//! No oracle logic: every op calls the public pairing API and prints what it returns
//! (target-field elements as base-prime-field coordinates, or the truth value of a
//! relation evaluated with the public operators of `PairingOutput`).
#![allow(clippy::type_complexity)]
use ark_ec::{
    bls12::{Bls12Config, G2Prepared as BlsG2Prepared},
    bn::{BnConfig, G2Prepared as BnG2Prepared},
    bw6::{BW6Config, G2Prepared as Bw6G2Prepared},
    mnt4::{G1Prepared as Mnt4G1Prepared, G2Prepared as Mnt4G2Prepared, MNT4Config},
    mnt6::{G1Prepared as Mnt6G1Prepared, G2Prepared as Mnt6G2Prepared, MNT6Config},
    pairing::{prepare_g1, prepare_g2, MillerLoopOutput, Pairing, PairingOutput},
    short_weierstrass::{Affine, Projective, SWCurveConfig},
    AffineRepr, CurveGroup, PrimeGroup,
};
use ark_ff::{Field, One, PrimeField, Zero};
use num_bigint::BigUint;
use vharness::*;

type BPF<F> = <F as Field>::BasePrimeField;

fn fp<F: PrimeField>(v: &num_bigint::BigInt) -> F {
    F::from(u(v))
}
fn el_slice<F: Field>(a: &[num_bigint::BigInt]) -> F {
    F::from_base_prime_field_elems(a.iter().map(|c| fp::<BPF<F>>(c))).expect("harness: wrong coordinate count")
}
fn co<F: Field>(x: &F) -> Arg {
    x.to_base_prime_field_elements()
        .map(|c| {
            let b: BigUint = c.into_bigint().into();
            from_biguint(&b)
        })
        .collect()
}
fn cos<F: Field>(v: &[F]) -> Arg {
    v.iter().flat_map(|x| co(x)).collect()
}
fn modulus<F: PrimeField>() -> BigUint {
    F::MODULUS.into()
}
fn deg<F: Field>() -> usize {
    F::extension_degree() as usize
}
fn bi<B: Into<BigUint>>(b: B) -> num_bigint::BigInt {
    from_biguint(&b.into())
}

/// affine point from [inf, coords of x, coords of y]
fn aff<C: SWCurveConfig>(a: &[num_bigint::BigInt]) -> Affine<C> {
    let d = deg::<C::BaseField>();
    if to_u64(&a[0]) == 1 {
        Affine::<C>::identity()
    } else {
        Affine::<C>::new_unchecked(el_slice(&a[1..1 + d]), el_slice(&a[1 + d..1 + 2 * d]))
    }
}
fn aff_out<C: SWCurveConfig>(p: &Affine<C>) -> Arg {
    let d = deg::<C::BaseField>();
    match p.xy() {
        None => {
            let mut r = vec![from_u64(1)];
            r.extend((0..2 * d).map(|_| from_u64(0)));
            r
        },
        Some((x, y)) => {
            let mut r = vec![from_u64(0)];
            r.extend(co(&x));
            r.extend(co(&y));
            r
        },
    }
}
/// a projective representative with Z != 1 of the same point
fn proj<C: SWCurveConfig>(p: &Affine<C>) -> Projective<C> {
    let g = p.into_group();
    (g + g) - g
}

// ---------------------------------------------------------------- model-level ops
fn model_ops<E, C1, C2>(op: &str, a: &[Arg]) -> Option<Vec<Arg>>
where
    C1: SWCurveConfig,
    C2: SWCurveConfig,
    E: Pairing<G1Affine = Affine<C1>, G2Affine = Affine<C2>, G1 = Projective<C1>, G2 = Projective<C2>>,
{
    let d1 = deg::<C1::BaseField>();
    Some(match op {
        // pairs a[6..]: [inf1, x, y, inf2, x', y']; mode a[5]
        "multi_pairing" => {
            let mode = to_u64(&a[5][0]);
            let ps: Vec<Affine<C1>> = a[6..].iter().map(|q| aff::<C1>(&q[0..1 + 2 * d1])).collect();
            let qs: Vec<Affine<C2>> = a[6..].iter().map(|q| aff::<C2>(&q[1 + 2 * d1..])).collect();
            let (ml, mp): (MillerLoopOutput<E>, PairingOutput<E>) = match mode {
                0 => (E::multi_miller_loop(ps.clone(), qs.clone()), E::multi_pairing(ps.clone(), qs.clone())),
                1 => {
                    let pp: Vec<Projective<C1>> = ps.iter().map(proj).collect();
                    let qq: Vec<Projective<C2>> = qs.iter().map(proj).collect();
                    (E::multi_miller_loop(pp.clone(), qq.clone()), E::multi_pairing(pp, qq))
                },
                2 => {
                    let pp: Vec<E::G1Prepared> = ps.iter().map(|p| E::G1Prepared::from(*p)).collect();
                    let qq: Vec<E::G2Prepared> = qs.iter().map(|p| E::G2Prepared::from(*p)).collect();
                    (E::multi_miller_loop(pp.clone(), qq.clone()), E::multi_pairing(pp, qq))
                },
                _ => {
                    let pp: Vec<E::G1Prepared> = ps.iter().map(|p| prepare_g1::<E>(*p)).collect();
                    let qq: Vec<E::G2Prepared> = qs.iter().map(|p| prepare_g2::<E>(*p)).collect();
                    (E::multi_miller_loop(pp.clone(), qq.clone()), E::multi_pairing(pp, qq))
                },
            };
            let fe = E::final_exponentiation(ml).expect("final_exponentiation returned None");
            ok(vec![co(&ml.0), co(&fe.0), co(&mp.0)])
        },
        // raw multi Miller loop only
        "multi_miller_loop" => {
            let ps: Vec<Affine<C1>> = a[6..].iter().map(|q| aff::<C1>(&q[0..1 + 2 * d1])).collect();
            let qs: Vec<Affine<C2>> = a[6..].iter().map(|q| aff::<C2>(&q[1 + 2 * d1..])).collect();
            ok(vec![co(&E::multi_miller_loop(ps, qs).0)])
        },
        // final exponentiation of an arbitrary target-field element a[6]
        "final_exp" => {
            let f: E::TargetField = el_slice(&a[6]);
            match E::final_exponentiation(MillerLoopOutput(f)) {
                Some(r) => ok(vec![vec![from_u64(1)], co(&r.0)]),
                None => ok(vec![vec![from_u64(0)]]),
            }
        },
        _ => return None,
    })
}

// ---------------------------------------------------------------- law-level ops
fn sc<E: Pairing>(v: &num_bigint::BigInt) -> E::ScalarField {
    E::ScalarField::from(u(v))
}
fn g1m<E: Pairing>(v: &num_bigint::BigInt) -> E::G1 {
    E::G1::generator() * sc::<E>(v)
}
fn g2m<E: Pairing>(v: &num_bigint::BigInt) -> E::G2 {
    E::G2::generator() * sc::<E>(v)
}
fn b(x: bool) -> Arg {
    vec![from_bool(x)]
}

fn law_ops<E: Pairing>(op: &str, a: &[Arg]) -> Option<Vec<Arg>> {
    Some(match op {
        // [s, t, x, y]: P = s G1, Q = t G2: e(xP, yQ) == e(P, Q)^(xy), e(xP, Q) == e(P, xQ)
        "bilinearity_check" => {
            let (s, t, x, y) = (&a[1][0], &a[1][1], sc::<E>(&a[1][2]), sc::<E>(&a[1][3]));
            let (p, q) = (g1m::<E>(s), g2m::<E>(t));
            let lhs = E::pairing(p * x, q * y);
            let base = E::pairing(p, q);
            let rhs = base * (x * y);
            let l2 = E::pairing(p * x, q);
            let r2 = E::pairing(p, q * x);
            ok(vec![b(lhs == rhs), b(l2 == r2)])
        },
        // [s, s', t, t']
        "additivity_check" => {
            let (p, p2, q, q2) = (g1m::<E>(&a[1][0]), g1m::<E>(&a[1][1]), g2m::<E>(&a[1][2]), g2m::<E>(&a[1][3]));
            let left = E::pairing(p + p2, q) == E::pairing(p, q) + E::pairing(p2, q);
            let right = E::pairing(p, q + q2) == E::pairing(p, q) + E::pairing(p, q2);
            ok(vec![b(left), b(right)])
        },
        // a[1] = [mode], a[2] = scalars s_i, a[3] = scalars t_i (0 = identity)
        "multi_pairing_vs_product" => {
            let mode = to_u64(&a[1][0]);
            let ps: Vec<E::G1> = a[2].iter().map(|s| g1m::<E>(s)).collect();
            let qs: Vec<E::G2> = a[3].iter().map(|s| g2m::<E>(s)).collect();
            let multi = if mode == 0 {
                E::multi_pairing(ps.clone(), qs.clone())
            } else {
                let pp: Vec<E::G1Prepared> = ps.iter().map(|p| E::G1Prepared::from(*p)).collect();
                let qq: Vec<E::G2Prepared> = qs.iter().map(|p| E::G2Prepared::from(*p)).collect();
                E::multi_pairing(pp, qq)
            };
            let mut prod = PairingOutput::<E>::zero();
            for (p, q) in ps.iter().zip(qs.iter()) {
                prod += E::pairing(*p, *q);
            }
            ok(vec![b(multi == prod)])
        },
        // [s, t] with s = 0 or t = 0
        "pairing_with_identity_is_one" => {
            let e = E::pairing(g1m::<E>(&a[1][0]), g2m::<E>(&a[1][1]));
            ok(vec![b(e.is_zero()), b(e.0.is_one())])
        },
        // [s, t] , junk bytes: the identity of G1 / G2 obtained by DESERIALIZING an uncompressed encoding whose infinity
        // flag is set over non-blank coordinate bytes (a rarely produced form of a public function's output): whatever is
        // returned as Ok and is_zero() must pair to one and vanish from a multi-pairing
        "pairing_with_decoded_identity" => {
            use ark_serialize::{CanonicalDeserialize, CanonicalSerialize, Compress, Validate};
            let (p, q) = (g1m::<E>(&a[1][0]).into_affine(), g2m::<E>(&a[1][1]).into_affine());
            let junk: Vec<u8> = a[2].iter().map(|v| to_u64(v) as u8).collect();
            fn forge<A: CanonicalSerialize + CanonicalDeserialize + ark_ec::AffineRepr>(junk: &[u8], v: Validate) -> Option<A> {
                let mut bytes = vec![];
                A::zero().serialize_with_mode(&mut bytes, Compress::No).ok()?;
                let n = bytes.len();
                let half = n / 2;
                for i in 0..n {
                    // keep the top byte of each coordinate (x: stays below p; y: carries the flags) untouched
                    if i != half - 1 && i != n - 1 {
                        bytes[i] |= junk[i % junk.len().max(1)];
                    }
                }
                A::deserialize_with_mode(&bytes[..], Compress::No, v).ok()
            }
            let mut res = vec![];
            for v in [Validate::Yes, Validate::No] {
                let o1: Option<E::G1Affine> = forge(&junk, v);
                let o2: Option<E::G2Affine> = forge(&junk, v);
                let ok1 = match o1 {
                    Some(z) if z.is_zero() => {
                        E::pairing(z, q).is_zero() && E::multi_pairing([z, p], [q, q]) == E::pairing(p, q)
                    },
                    _ => true,
                };
                let ok2 = match o2 {
                    Some(z) if z.is_zero() => {
                        E::pairing(p, z).is_zero() && E::multi_pairing([p, p], [z, q]) == E::pairing(p, q)
                    },
                    _ => true,
                };
                res.push(b(ok1));
                res.push(b(ok2));
            }
            ok(res)
        },
        // [s, t]: e(sG1, tG2)^r == 1
        "output_order_divides_r" => {
            let e = E::pairing(g1m::<E>(&a[1][0]), g2m::<E>(&a[1][1]));
            let r = <E::ScalarField as PrimeField>::MODULUS;
            ok(vec![b(e.0.pow(r).is_one())])
        },
        "generators_nondegenerate" => {
            let e = E::pairing(E::G1::generator(), E::G2::generator());
            let g = PairingOutput::<E>::generator();
            ok(vec![b(!e.is_zero()), b(g == e)])
        },
        // [s, t]: affine, projective, explicitly prepared and prepare_g1/g2 inputs agree
        "prepared_vs_unprepared" => {
            let (p, q) = (g1m::<E>(&a[1][0]), g2m::<E>(&a[1][1]));
            let (pa, qa) = (p.into_affine(), q.into_affine());
            let e0 = E::pairing(pa, qa);
            let e1 = E::pairing(p, q);
            let e2 = E::pairing(E::G1Prepared::from(pa), E::G2Prepared::from(qa));
            let e3 = E::pairing(prepare_g1::<E>(p), prepare_g2::<E>(q));
            let e4 = E::multi_pairing([E::G1Prepared::from(p)], [E::G2Prepared::from(q)]);
            ok(vec![b(e0 == e1), b(e0 == e2), b(e0 == e3), b(e0 == e4)])
        },
        _ => return None,
    })
}

// ---------------------------------------------------------------- dumps
fn dump_curve<E, C1, C2>() -> Vec<Arg>
where
    C1: SWCurveConfig,
    C2: SWCurveConfig,
    E: Pairing<G1Affine = Affine<C1>, G2Affine = Affine<C2>, G1 = Projective<C1>, G2 = Projective<C2>>,
{
    vec![
        vec![bi(modulus::<E::BaseField>()), bi(modulus::<E::ScalarField>())],
        aff_out(&Affine::<C1>::generator()),
        aff_out(&Affine::<C2>::generator()),
        cos(&[C1::COEFF_A, C1::COEFF_B]),
        cos(&[C2::COEFF_A, C2::COEFF_B]),
    ]
}
type C6<P12> = <P12 as ark_ff::Fp12Config>::Fp6Config;
type C2of<P12> = <C6<P12> as ark_ff::Fp6Config>::Fp2Config;
type F0<P12> = <C2of<P12> as ark_ff::Fp2Config>::Fp;
fn tower12<P12: ark_ff::Fp12Config>() -> Arg {
    use ark_ff::{Fp2Config, Fp6Config};
    let mut r: Arg = vec![bi(modulus::<F0<P12>>())];
    r.extend(co(&<C2of<P12> as Fp2Config>::NONRESIDUE));
    r.extend(cos(<C2of<P12> as Fp2Config>::FROBENIUS_COEFF_FP2_C1));
    r.extend(co(&<C6<P12> as Fp6Config>::NONRESIDUE));
    r.extend(cos(<C6<P12> as Fp6Config>::FROBENIUS_COEFF_FP6_C1));
    r.extend(cos(<C6<P12> as Fp6Config>::FROBENIUS_COEFF_FP6_C2));
    r.extend(co(&P12::NONRESIDUE));
    r.extend(cos(P12::FROBENIUS_COEFF_FP12_C1));
    r
}
fn i8s(v: &[i8]) -> Arg {
    v.iter().map(|x| from_i64(*x as i64)).collect()
}
fn dump_bls<P: Bls12Config>() -> Vec<Arg> {
    let tw = matches!(P::TWIST_TYPE, ark_ec::bls12::TwistType::D) as u64;
    let mut fam = vec![from_u64(tw), from_bool(P::X_IS_NEGATIVE)];
    fam.extend(co(&<P::G2Config as SWCurveConfig>::COEFF_B));
    vec![tower12::<P::Fp12Config>(), fam, limbs_arg(P::X), vec![]]
}
fn dump_bn<P: BnConfig>() -> Vec<Arg> {
    let tw = matches!(P::TWIST_TYPE, ark_ec::bn::TwistType::D) as u64;
    let mut fam = vec![from_u64(tw), from_bool(P::X_IS_NEGATIVE)];
    fam.extend(co(&<P::G2Config as SWCurveConfig>::COEFF_B));
    fam.extend(co(&P::TWIST_MUL_BY_Q_X));
    fam.extend(co(&P::TWIST_MUL_BY_Q_Y));
    vec![tower12::<P::Fp12Config>(), fam, limbs_arg(P::X), i8s(P::ATE_LOOP_COUNT)]
}
fn coeffs3<F: Field>(v: &[(F, F, F)]) -> Arg {
    v.iter().flat_map(|c| cos(&[c.0, c.1, c.2])).collect()
}
fn bls_prepare<P: Bls12Config>(a: &[Arg]) -> Vec<Arg> {
    let q = aff::<P::G2Config>(&a[6]);
    let pr = BlsG2Prepared::<P>::from(q);
    ok(vec![b(pr.infinity), vec![from_u64(pr.ell_coeffs.len() as u64)], coeffs3(&pr.ell_coeffs)])
}
fn bn_prepare<P: BnConfig>(a: &[Arg]) -> Vec<Arg> {
    let q = aff::<P::G2Config>(&a[6]);
    let pr = BnG2Prepared::<P>::from(q);
    ok(vec![b(pr.infinity), vec![from_u64(pr.ell_coeffs.len() as u64)], coeffs3(&pr.ell_coeffs)])
}

// ---------------------------------------------------------------- MNT4 / MNT6 / BW6
fn tower4<P4: ark_ff::Fp4Config>() -> Arg {
    use ark_ff::Fp2Config;
    let mut r: Arg = vec![bi(modulus::<<P4::Fp2Config as Fp2Config>::Fp>())];
    r.extend(co(&<P4::Fp2Config as Fp2Config>::NONRESIDUE));
    r.extend(cos(<P4::Fp2Config as Fp2Config>::FROBENIUS_COEFF_FP2_C1));
    r.extend(co(&P4::NONRESIDUE));
    r.extend(cos(P4::FROBENIUS_COEFF_FP4_C1));
    r
}
fn tower6b<P6: ark_ff::fp6_2over3::Fp6Config>() -> Arg {
    use ark_ff::Fp3Config;
    let mut r: Arg = vec![bi(modulus::<<P6::Fp3Config as Fp3Config>::Fp>())];
    r.extend(co(&<P6::Fp3Config as Fp3Config>::NONRESIDUE));
    r.extend(cos(<P6::Fp3Config as Fp3Config>::FROBENIUS_COEFF_FP3_C1));
    r.extend(cos(<P6::Fp3Config as Fp3Config>::FROBENIUS_COEFF_FP3_C2));
    r.extend(co(&P6::NONRESIDUE));
    r.extend(cos(P6::FROBENIUS_COEFF_FP6_C1));
    r
}
fn dump_mnt4<P: MNT4Config>() -> Vec<Arg> {
    let mut fam = vec![from_bool(P::ATE_IS_LOOP_COUNT_NEG), from_bool(P::FINAL_EXPONENT_LAST_CHUNK_W0_IS_NEG)];
    fam.extend(co(&P::TWIST));
    fam.extend(co(&P::TWIST_COEFF_A));
    let mut w = limbs_arg(P::FINAL_EXPONENT_LAST_CHUNK_1.as_ref());
    w.extend(limbs_arg(P::FINAL_EXPONENT_LAST_CHUNK_ABS_OF_W0.as_ref()));
    vec![tower4::<P::Fp4Config>(), fam, w, i8s(P::ATE_LOOP_COUNT)]
}
fn dump_mnt6<P: MNT6Config>() -> Vec<Arg> {
    let mut fam = vec![from_bool(P::ATE_IS_LOOP_COUNT_NEG), from_bool(P::FINAL_EXPONENT_LAST_CHUNK_W0_IS_NEG)];
    fam.extend(co(&P::TWIST));
    fam.extend(co(&P::TWIST_COEFF_A));
    let mut w = limbs_arg(P::FINAL_EXPONENT_LAST_CHUNK_1.as_ref());
    w.extend(limbs_arg(P::FINAL_EXPONENT_LAST_CHUNK_ABS_OF_W0.as_ref()));
    vec![tower6b::<P::Fp6Config>(), fam, w, i8s(P::ATE_LOOP_COUNT)]
}
fn dump_bw6<P: BW6Config>() -> Vec<Arg> {
    let tw = matches!(P::TWIST_TYPE, ark_ec::bw6::TwistType::D) as u64;
    let mut fam = vec![
        from_u64(tw),
        from_bool(P::X_IS_NEGATIVE),
        from_bool(P::ATE_LOOP_COUNT_1_IS_NEGATIVE),
        from_bool(P::ATE_LOOP_COUNT_2_IS_NEGATIVE),
        from_bool(P::T_MOD_R_IS_ZERO),
        from_i64(P::H_T),
        from_i64(P::H_Y),
    ];
    fam.extend(co(&<P::G2Config as SWCurveConfig>::COEFF_B));
    let x = limbs_arg(P::X.as_ref());
    let mut xs = vec![from_u64(x.len() as u64)];
    xs.extend(x);
    xs.extend(limbs_arg(P::X_MINUS_1_DIV_3.as_ref()));
    xs.extend(limbs_arg(P::ATE_LOOP_COUNT_1));
    vec![tower6b::<P::Fp6Config>(), fam, xs, i8s(P::ATE_LOOP_COUNT_2)]
}
fn lens(a: usize, b: usize) -> Arg {
    vec![from_u64(a as u64), from_u64(b as u64)]
}
fn mnt4_prepare<P: MNT4Config>(a: &[Arg]) -> Vec<Arg> {
    let pr = Mnt4G2Prepared::<P>::from(aff::<P::G2Config>(&a[6]));
    let dc: Arg = pr.double_coefficients.iter().flat_map(|c| cos(&[c.c_h, c.c_4c, c.c_j, c.c_l])).collect();
    let ac: Arg = pr.addition_coefficients.iter().flat_map(|c| cos(&[c.c_l1, c.c_rz])).collect();
    ok(vec![
        cos(&[pr.x, pr.y, pr.x_over_twist, pr.y_over_twist]),
        lens(pr.double_coefficients.len(), pr.addition_coefficients.len()),
        dc,
        ac,
    ])
}
fn mnt6_prepare<P: MNT6Config>(a: &[Arg]) -> Vec<Arg> {
    let pr = Mnt6G2Prepared::<P>::from(aff::<P::G2Config>(&a[6]));
    let dc: Arg = pr.double_coefficients.iter().flat_map(|c| cos(&[c.c_h, c.c_4c, c.c_j, c.c_l])).collect();
    let ac: Arg = pr.addition_coefficients.iter().flat_map(|c| cos(&[c.c_l1, c.c_rz])).collect();
    ok(vec![
        cos(&[pr.x, pr.y, pr.x_over_twist, pr.y_over_twist]),
        lens(pr.double_coefficients.len(), pr.addition_coefficients.len()),
        dc,
        ac,
    ])
}
fn mnt4_g1_prepare<P: MNT4Config>(a: &[Arg]) -> Vec<Arg> {
    let pr = Mnt4G1Prepared::<P>::from(aff::<P::G1Config>(&a[6]));
    let mut r = cos(&[pr.x, pr.y]);
    r.extend(cos(&[pr.x_twist, pr.y_twist]));
    ok(vec![r])
}
fn mnt6_g1_prepare<P: MNT6Config>(a: &[Arg]) -> Vec<Arg> {
    let pr = Mnt6G1Prepared::<P>::from(aff::<P::G1Config>(&a[6]));
    let mut r = cos(&[pr.x, pr.y]);
    r.extend(cos(&[pr.x_twist, pr.y_twist]));
    ok(vec![r])
}
fn bw6_prepare<P: BW6Config>(a: &[Arg]) -> Vec<Arg> {
    let pr = Bw6G2Prepared::<P>::from(aff::<P::G2Config>(&a[6]));
    ok(vec![
        b(pr.infinity),
        lens(pr.ell_coeffs_1.len(), pr.ell_coeffs_2.len()),
        coeffs3(&pr.ell_coeffs_1),
        coeffs3(&pr.ell_coeffs_2),
    ])
}

macro_rules! engine {
    ($op:expr, $a:expr, $E:ty, $C1:ty, $C2:ty, $fam:ident, $P:ty) => {{
        if let Some(r) = law_ops::<$E>($op, $a) {
            return r;
        }
        if let Some(r) = model_ops::<$E, $C1, $C2>($op, $a) {
            return r;
        }
        match ($op, stringify!($fam)) {
            ("dump", _) => {
                let mut v = dump_curve::<$E, $C1, $C2>();
                v.extend(engine!(@famdump $fam, $P));
                ok(v)
            },
            ("g2_prepare", _) => engine!(@prep $fam, $P, $a),
            ("g1_prepare", _) => engine!(@prep1 $fam, $P, $a),
            _ => unsupported(),
        }
    }};
    (@famdump bls, $P:ty) => { dump_bls::<$P>() };
    (@famdump bn, $P:ty) => { dump_bn::<$P>() };
    (@famdump mnt4, $P:ty) => { dump_mnt4::<$P>() };
    (@famdump mnt6, $P:ty) => { dump_mnt6::<$P>() };
    (@famdump bw6, $P:ty) => { dump_bw6::<$P>() };
    (@prep bls, $P:ty, $a:expr) => { bls_prepare::<$P>($a) };
    (@prep bn, $P:ty, $a:expr) => { bn_prepare::<$P>($a) };
    (@prep mnt4, $P:ty, $a:expr) => { mnt4_prepare::<$P>($a) };
    (@prep mnt6, $P:ty, $a:expr) => { mnt6_prepare::<$P>($a) };
    (@prep bw6, $P:ty, $a:expr) => { bw6_prepare::<$P>($a) };
    (@prep1 mnt4, $P:ty, $a:expr) => { mnt4_g1_prepare::<$P>($a) };
    (@prep1 mnt6, $P:ty, $a:expr) => { mnt6_g1_prepare::<$P>($a) };
    (@prep1 $other:ident, $P:ty, $a:expr) => { unsupported() };
}

fn run(op: &str, a: &[Arg]) -> Vec<Arg> {
    let engine = to_u64(&a[0][0]);
    match engine {
        0 => engine!(op, a, ark_bls12_381::Bls12_381, ark_bls12_381::g1::Config, ark_bls12_381::g2::Config, bls, ark_bls12_381::Config),
        1 => engine!(op, a, ark_bls12_377::Bls12_377, ark_bls12_377::g1::Config, ark_bls12_377::g2::Config, bls, ark_bls12_377::Config),
        2 => engine!(op, a, ark_bn254::Bn254, ark_bn254::g1::Config, ark_bn254::g2::Config, bn, ark_bn254::Config),
        3 => engine!(op, a, ark_mnt4_298::MNT4_298, ark_mnt4_298::g1::Config, ark_mnt4_298::g2::Config, mnt4, ark_mnt4_298::Config),
        4 => engine!(op, a, ark_mnt4_753::MNT4_753, ark_mnt4_753::g1::Config, ark_mnt4_753::g2::Config, mnt4, ark_mnt4_753::Config),
        5 => engine!(op, a, ark_mnt6_298::MNT6_298, ark_mnt6_298::g1::Config, ark_mnt6_298::g2::Config, mnt6, ark_mnt6_298::Config),
        6 => engine!(op, a, ark_mnt6_753::MNT6_753, ark_mnt6_753::g1::Config, ark_mnt6_753::g2::Config, mnt6, ark_mnt6_753::Config),
        7 => engine!(op, a, ark_bw6_761::BW6_761, ark_bw6_761::g1::Config, ark_bw6_761::g2::Config, bw6, ark_bw6_761::Config),
        8 => engine!(op, a, ark_bw6_767::BW6_767, ark_bw6_767::g1::Config, ark_bw6_767::g2::Config, bw6, ark_bw6_767::Config),
        10 => engine!(
            op,
            a,
            ark_test_curves::bls12_381::Bls12_381,
            ark_test_curves::bls12_381::g1::Config,
            ark_test_curves::bls12_381::g2::Config,
            bls,
            ark_test_curves::bls12_381::Config
        ),
        _ => unsupported(),
    }
}

fn main() {
    main_loop(run);
}
