//! C07 case interpreter: evaluation domains and FFTs of ark-poly.
//! args: a0 = [cfg_id], a1 = [p] (sanity check only), a2 = FftField constants (ignored here,
//! printed by `consts`), a3 = [kind, num_coeffs] (kind 0 = Radix2EvaluationDomain,
//! 1 = MixedRadixEvaluationDomain, 2 = GeneralEvaluationDomain), a4 = [] | [offset],
//! a5 = op-specific data.  No oracle logic here: call the API, print what it returns.
// the derive macro expands to `cfg!(feature = "asm")`, a feature this crate does not declare
#![allow(unexpected_cfgs)]
use ark_ff::fields::{Fp64, MontBackend, MontConfig};
use ark_ff::{FftField, PrimeField};
use ark_poly::{
    univariate::DensePolynomial, DenseUVPolynomial, EvaluationDomain, Evaluations,
    GeneralEvaluationDomain, MixedRadixEvaluationDomain, Polynomial, Radix2EvaluationDomain,
};
use ark_std::rand::{rngs::StdRng, SeedableRng};
use num_bigint::BigUint;
use vharness::*;

// toy FFT-friendly fields
#[derive(MontConfig)]
#[modulus = "97"]
#[generator = "5"]
pub struct F97Config;
pub type F97 = Fp64<MontBackend<F97Config, 1>>;

#[derive(MontConfig)]
#[modulus = "193"]
#[generator = "5"]
pub struct F193Config;
pub type F193 = Fp64<MontBackend<F193Config, 1>>;

#[derive(MontConfig)]
#[modulus = "257"]
#[generator = "3"]
pub struct F257Config;
pub type F257 = Fp64<MontBackend<F257Config, 1>>;

#[derive(MontConfig)]
#[modulus = "7681"]
#[generator = "17"]
pub struct F7681Config;
pub type F7681 = Fp64<MontBackend<F7681Config, 1>>;

// p = 2^7 * 3^4 + 1, subgroup of order 2^7 * 3^3 declared
#[derive(MontConfig)]
#[modulus = "10369"]
#[generator = "13"]
#[small_subgroup_base = "3"]
#[small_subgroup_power = "3"]
pub struct M3Config;
pub type M3 = Fp64<MontBackend<M3Config, 1>>;

// p = 2^5 * 5^3 + 1
#[derive(MontConfig)]
#[modulus = "4001"]
#[generator = "3"]
#[small_subgroup_base = "5"]
#[small_subgroup_power = "3"]
pub struct M5Config;
pub type M5 = Fp64<MontBackend<M5Config, 1>>;

// p = 2^5 * 7^2 * 5 + 1
#[derive(MontConfig)]
#[modulus = "7841"]
#[generator = "12"]
#[small_subgroup_base = "7"]
#[small_subgroup_power = "2"]
pub struct M7Config;
pub type M7 = Fp64<MontBackend<M7Config, 1>>;

// p = 2^4 * 3^3 + 1, only 3^2 declared (as bn384_small_two_adicity does: power below the full adicity)
#[derive(MontConfig)]
#[modulus = "433"]
#[generator = "5"]
#[small_subgroup_base = "3"]
#[small_subgroup_power = "2"]
pub struct M433Config;
pub type M433 = Fp64<MontBackend<M433Config, 1>>;

// p = 2^12 * 3 + 1
#[derive(MontConfig)]
#[modulus = "12289"]
#[generator = "11"]
pub struct F12289Config;
pub type F12289 = Fp64<MontBackend<F12289Config, 1>>;

trait Dom<F: FftField>: EvaluationDomain<F> {
    fn is_mixed(&self) -> bool;
}
impl<F: FftField> Dom<F> for Radix2EvaluationDomain<F> {
    fn is_mixed(&self) -> bool {
        false
    }
}
impl<F: FftField> Dom<F> for MixedRadixEvaluationDomain<F> {
    fn is_mixed(&self) -> bool {
        true
    }
}
impl<F: FftField> Dom<F> for GeneralEvaluationDomain<F> {
    fn is_mixed(&self) -> bool {
        matches!(self, GeneralEvaluationDomain::MixedRadix(_))
    }
}

fn fe<F: PrimeField>(x: &num_bigint::BigInt) -> F {
    F::from(u(x))
}
fn out<F: PrimeField>(x: &F) -> num_bigint::BigInt {
    let b: BigUint = x.into_bigint().into();
    from_biguint(&b)
}
fn outv<F: PrimeField>(v: &[F]) -> Arg {
    v.iter().map(out).collect()
}

fn run_d<F: PrimeField + FftField, D: Dom<F>>(op: &str, a: &[Arg]) -> Vec<Arg> {
    let num = to_usize(&a[3][1]);
    if op == "compute_size" {
        return match D::compute_size_of_domain(num) {
            Some(s) => ok(vec![vec![from_u64(s as u64)]]),
            None => err(0),
        };
    }
    let d = match D::new(num) {
        Some(d) => d,
        None => return err(0),
    };
    let d = if a[4].is_empty() {
        d
    } else {
        let h: F = fe(&a[4][0]);
        let c = d.get_coset(h);
        // new_coset is the same composition
        assert!(D::new_coset(num, h) == c, "harness: new_coset differs from new + get_coset");
        let mut c = match c {
            Some(c) => c,
            None => return err(1),
        };
        // a chain of get_coset calls: new(n).get_coset(h1).get_coset(h2)...
        for hv in a[4].iter().skip(1) {
            c = match c.get_coset(fe(hv)) {
                Some(c2) => c2,
                None => return err(1),
            };
        }
        c
    };
    let data: Vec<F> = a.get(5).map(|v| v.iter().map(fe).collect()).unwrap_or_default();
    match op {
        "new" => ok(vec![vec![
            from_bool(d.is_mixed()),
            from_u64(d.size() as u64),
            from_u64(d.log_size_of_group()),
            out(&d.size_as_field_element()),
            out(&d.size_inv()),
            out(&d.group_gen()),
            out(&d.group_gen_inv()),
            out(&d.coset_offset()),
            out(&d.coset_offset_inv()),
            out(&d.coset_offset_pow_size()),
        ]]),
        "fft" | "fft_naive" => {
            let r = d.fft(&data);
            let mut v = data.clone();
            d.fft_in_place(&mut v);
            assert!(r == v, "harness: fft and fft_in_place differ");
            ok(vec![outv(&r)])
        },
        "ifft" => {
            let r = d.ifft(&data);
            ok(vec![outv(&r)])
        },
        "element" => ok(vec![vec![out(&d.element(to_usize(&a[5][0])))]]),
        "elements" => {
            let v: Vec<F> = d.elements().collect();
            ok(vec![outv(&v)])
        },
        "vanishing" => {
            let z = d.evaluate_vanishing_polynomial(data[0]);
            let sp = d.vanishing_polynomial();
            let mut flat = vec![];
            for (e, c) in sp.iter() {
                flat.push(from_u64(*e as u64));
                flat.push(out(c));
            }
            ok(vec![vec![out(&z)], flat])
        },
        "lagrange" => ok(vec![outv(&d.evaluate_all_lagrange_coefficients(data[0]))]),
        "interpolate" => {
            let e = Evaluations::<F, D>::from_vec_and_domain(data.clone(), d);
            let p1: DensePolynomial<F> = e.interpolate_by_ref();
            let p2: DensePolynomial<F> = e.interpolate();
            assert!(p1 == p2, "harness: interpolate and interpolate_by_ref differ");
            ok(vec![outv(p2.coeffs())])
        },
        // a5 = [num_coeffs of the subdomain, index...] (no index = every index of the domain);
        // the subdomain gets the same coset offset as the domain
        "reindex" => {
            let s = match D::new(to_usize(&a[5][0])) {
                Some(s) => s,
                None => return err(2),
            };
            let s = if a[4].is_empty() {
                s
            } else {
                match s.get_coset(fe(&a[4][0])) {
                    Some(s) => s,
                    None => return err(3),
                }
            };
            let idx: Vec<usize> = if a[5].len() == 1 {
                (0..d.size()).collect()
            } else {
                a[5][1..].iter().map(to_usize).collect()
            };
            let r: Vec<usize> = idx.iter().map(|&i| d.reindex_by_subdomain(s, i)).collect();
            let low: Vec<usize> = idx.iter().copied().filter(|&i| i < s.size()).collect();
            let ge: Vec<F> = low.iter().map(|&i| d.element(d.reindex_by_subdomain(s, i))).collect();
            let se: Vec<F> = low.iter().map(|&i| s.element(i)).collect();
            ok(vec![r.iter().map(|&j| from_u64(j as u64)).collect(), outv(&ge), outv(&se)])
        },
        // a5 = [num_coeffs of the subdomain, offset of the subdomain, tau]
        "filter" => {
            let s = match D::new(to_usize(&a[5][0])) {
                Some(s) => s,
                None => return err(2),
            };
            let s = match s.get_coset(fe(&a[5][1])) {
                Some(s) => s,
                None => return err(3),
            };
            let tau: F = fe(&a[5][2]);
            let fp = d.filter_polynomial(&s);
            let v = d.evaluate_filter_polynomial(&s, tau);
            ok(vec![vec![out(&v)], outv(fp.coeffs()), vec![out(&fp.evaluate(&tau))]])
        },
        // a5 = x ++ y (two evaluation vectors of the same length)
        "mul_evals" => {
            let h = data.len() / 2;
            ok(vec![outv(&d.mul_polynomials_in_evaluation_domain(&data[..h], &data[h..]))])
        },
        // a5 = [seed, candidates (model only)...]: only the predicate "the result is outside" is compared
        "sample_outside" => {
            let mut rng = StdRng::seed_from_u64(to_u64(&a[5][0]));
            let t = d.sample_element_outside_domain(&mut rng);
            ok(vec![vec![
                from_bool(d.elements().any(|e| e == t)),
                from_bool(d.evaluate_vanishing_polynomial(t) == F::zero()),
            ]])
        },
        // a5 = [g, c, coeffs...]
        "distribute" => {
            let mut v1 = data[2..].to_vec();
            D::distribute_powers(&mut v1, data[0]);
            let mut v2 = data[2..].to_vec();
            D::distribute_powers_and_mul_by_const(&mut v2, data[0], data[1]);
            ok(vec![outv(&v1), outv(&v2)])
        },
        _ => unsupported(),
    }
}

fn run_f<F: PrimeField + FftField>(op: &str, a: &[Arg]) -> Vec<Arg> {
    let p: BigUint = F::MODULUS.into();
    assert_eq!(u(&a[1][0]), p, "harness: modulus of the case differs from the field's");
    match op {
        "consts" => {
            let none = num_bigint::BigInt::from(0);
            return ok(vec![
                vec![from_biguint(&p)],
                vec![
                    from_u64(F::TWO_ADICITY as u64),
                    out(&F::TWO_ADIC_ROOT_OF_UNITY),
                    F::SMALL_SUBGROUP_BASE.map(|q| from_u64(q as u64)).unwrap_or(none.clone()),
                    F::SMALL_SUBGROUP_BASE_ADICITY.map(|q| from_u64(q as u64)).unwrap_or(none.clone()),
                    F::LARGE_SUBGROUP_ROOT_OF_UNITY.map(|w| out(&w)).unwrap_or(none),
                ],
            ]);
        },
        "get_root_of_unity" => {
            return match F::get_root_of_unity(to_u64(&a[3][0])) {
                Some(w) => ok(vec![vec![out(&w)]]),
                None => err(0),
            };
        },
        // a5 = [width, data...] with data.len() = 2^width
        "bitrev_perm" => {
            let mut v: Vec<F> = a[5][1..].iter().map(fe).collect();
            ark_poly::domain::radix2::bitreverse_permutation_in_place(&mut v, to_u64(&a[5][0]) as u32);
            return ok(vec![outv(&v)]);
        },
        _ => {},
    }
    match to_u64(&a[3][0]) {
        0 => run_d::<F, Radix2EvaluationDomain<F>>(op, a),
        1 => run_d::<F, MixedRadixEvaluationDomain<F>>(op, a),
        2 => run_d::<F, GeneralEvaluationDomain<F>>(op, a),
        _ => unsupported(),
    }
}

fn run(op: &str, a: &[Arg]) -> Vec<Arg> {
    match to_u64(&a[0][0]) {
        0 => run_f::<ark_test_curves::bls12_381::Fr>(op, a),
        1 => run_f::<ark_test_curves::bn384_small_two_adicity::Fq>(op, a),
        2 => run_f::<ark_test_curves::bn384_small_two_adicity::Fr>(op, a),
        3 => run_f::<ark_test_curves::secp256k1::Fr>(op, a),
        4 => run_f::<ark_test_curves::mnt4_753::Fr>(op, a),
        5 => run_f::<F97>(op, a),
        6 => run_f::<F193>(op, a),
        7 => run_f::<F257>(op, a),
        8 => run_f::<F7681>(op, a),
        9 => run_f::<M3>(op, a),
        10 => run_f::<M5>(op, a),
        11 => run_f::<M7>(op, a),
        12 => run_f::<M433>(op, a),
        13 => run_f::<F12289>(op, a),
        _ => unsupported(),
    }
}

fn main() {
    main_loop(run);
}
