//! C08 case interpreter: univariate polynomial arithmetic of ark-poly (dense, sparse,
//! DenseOrSparse division, vanishing-polynomial helpers, evaluation over (coset) domains,
//! interpolation, pointwise operators on `Evaluations`).
//!
//! Case arguments: `a[0] = [modulus]`; dense polynomials are coefficient lists, sparse
//! polynomials flat lists `d0,c0,d1,c1,...`; a domain is `[n, h, g]` (size, coset offset,
//! expected group generator).  Operands are built with `from_coefficients_vec` (the
//! generator only emits canonical operands, except for the `*_from_vec` ops which test
//! that constructor itself).  Output: status, raw `coeffs` of every result polynomial,
//! then what `degree()` returns on it.  No oracle logic here.
use ark_ff::{BigInteger, FftField, Fp64, MontBackend, MontConfig, PrimeField};
use ark_poly::{
    univariate::{DenseOrSparsePolynomial, DensePolynomial, SparsePolynomial},
    DenseUVPolynomial, EvaluationDomain, Evaluations, Polynomial, Radix2EvaluationDomain,
};
use num_bigint::BigUint;
use vharness::*;

#[derive(MontConfig)]
#[modulus = "5"]
#[generator = "2"]
pub struct F5Config;
type F5 = Fp64<MontBackend<F5Config, 1>>;

#[derive(MontConfig)]
#[modulus = "7"]
#[generator = "3"]
pub struct F7Config;
type F7 = Fp64<MontBackend<F7Config, 1>>;

#[derive(MontConfig)]
#[modulus = "97"]
#[generator = "5"]
pub struct F97Config;
type F97 = Fp64<MontBackend<F97Config, 1>>;

type Fr = ark_test_curves::bls12_381::Fr;

fn fe<F: PrimeField>(v: &num_bigint::BigInt) -> F {
    F::from(u(v))
}
fn fout<F: PrimeField>(x: &F) -> num_bigint::BigInt {
    from_biguint(&BigUint::from_bytes_le(&x.into_bigint().to_bytes_le()))
}
fn fvec<F: PrimeField>(a: &Arg) -> Vec<F> {
    a.iter().map(fe::<F>).collect()
}
fn fvout<F: PrimeField>(v: &[F]) -> Arg {
    v.iter().map(fout).collect()
}
fn dense<F: PrimeField>(a: &Arg) -> DensePolynomial<F> {
    DensePolynomial::from_coefficients_vec(fvec(a))
}
fn pairs<F: PrimeField>(a: &Arg) -> Vec<(usize, F)> {
    assert!(a.len() % 2 == 0, "harness: odd sparse list");
    a.chunks(2).map(|c| (to_usize(&c[0]), fe::<F>(&c[1]))).collect()
}
fn sparse<F: PrimeField>(a: &Arg) -> SparsePolynomial<F> {
    SparsePolynomial::from_coefficients_vec(pairs(a))
}
/// raw coefficients + degree()
fn dout<F: PrimeField>(p: &DensePolynomial<F>) -> Vec<Arg> {
    vec![fvout(&p.coeffs), vec![from_u64(p.degree() as u64)]]
}
fn sout<F: PrimeField>(p: &SparsePolynomial<F>) -> Vec<Arg> {
    let mut flat = Vec::new();
    for (d, c) in p.iter() {
        flat.push(from_u64(*d as u64));
        flat.push(fout(c));
    }
    vec![flat, vec![from_u64(p.degree() as u64)]]
}
fn qrout<F: PrimeField>(q: &DensePolynomial<F>, r: &DensePolynomial<F>) -> Vec<Arg> {
    vec![
        fvout(&q.coeffs),
        fvout(&r.coeffs),
        vec![from_u64(q.degree() as u64), from_u64(r.degree() as u64)],
    ]
}
/// `[n, h, g]` -> the radix-2 (coset) domain; None if the case's expectation about the
/// domain (size, generator) does not hold for this field (a generator error, not a finding)
fn domain<F: PrimeField + FftField>(a: &Arg) -> Option<Radix2EvaluationDomain<F>> {
    let n = to_usize(&a[0]);
    let h: F = fe(&a[1]);
    let g: F = fe(&a[2]);
    let d = Radix2EvaluationDomain::<F>::new(n)?;
    if d.size() != n || d.group_gen() != g {
        return None;
    }
    let d = if h == F::one() { d } else { d.get_coset(h)? };
    if d.coset_offset() != h {
        return None;
    }
    Some(d)
}

fn run_f<F: PrimeField + FftField>(op: &str, a: &[Arg]) -> Vec<Arg> {
    match op {
        // ---------------- dense ----------------
        "d_from_vec" => {
            let p = DensePolynomial::<F>::from_coefficients_vec(fvec(&a[1]));
            let p2 = DensePolynomial::<F>::from_coefficients_slice(&fvec::<F>(&a[1]));
            assert!(p.coeffs == p2.coeffs, "harness: from_coefficients_vec/slice differ");
            ok(dout(&p))
        },
        "d_evaluate" => {
            let p = dense::<F>(&a[1]);
            ok(vec![vec![fout(&p.evaluate(&fe(&a[2][0])))]])
        },
        "d_add" => ok(dout(&(&dense::<F>(&a[1]) + &dense::<F>(&a[2])))),
        "d_add_assign" => {
            let mut p = dense::<F>(&a[1]);
            p += &dense::<F>(&a[2]);
            ok(dout(&p))
        },
        "d_add_assign_scaled" => {
            let mut p = dense::<F>(&a[1]);
            p += (fe::<F>(&a[2][0]), &dense::<F>(&a[3]));
            ok(dout(&p))
        },
        "d_neg" => ok(dout(&(-dense::<F>(&a[1])))),
        "d_sub" => ok(dout(&(&dense::<F>(&a[1]) - &dense::<F>(&a[2])))),
        "d_sub_assign" => {
            let mut p = dense::<F>(&a[1]);
            p -= &dense::<F>(&a[2]);
            ok(dout(&p))
        },
        "d_scale" => ok(dout(&(&dense::<F>(&a[1]) * fe::<F>(&a[2][0])))),
        "d_naive_mul" => ok(dout(&dense::<F>(&a[1]).naive_mul(&dense::<F>(&a[2])))),
        "d_mul" => ok(dout(&(&dense::<F>(&a[1]) * &dense::<F>(&a[2])))),
        "d_div" => ok(dout(&(&dense::<F>(&a[1]) / &dense::<F>(&a[2])))),
        // ---------------- sparse ----------------
        "s_from_vec" => {
            let p = SparsePolynomial::<F>::from_coefficients_vec(pairs(&a[1]));
            let p2 = SparsePolynomial::<F>::from_coefficients_slice(&pairs::<F>(&a[1]));
            assert!(p == p2, "harness: sparse from_coefficients_vec/slice differ");
            ok(sout(&p))
        },
        "s_evaluate" => {
            let p = sparse::<F>(&a[1]);
            ok(vec![vec![fout(&p.evaluate(&fe(&a[2][0])))]])
        },
        "s_add" => ok(sout(&(&sparse::<F>(&a[1]) + &sparse::<F>(&a[2])))),
        "s_add_owned" => ok(sout(&(sparse::<F>(&a[1]) + sparse::<F>(&a[2])))),
        "s_add_assign" => {
            let mut p = sparse::<F>(&a[1]);
            p += &sparse::<F>(&a[2]);
            ok(sout(&p))
        },
        "s_add_assign_scaled" => {
            let mut p = sparse::<F>(&a[1]);
            p += (fe::<F>(&a[2][0]), &sparse::<F>(&a[3]));
            ok(sout(&p))
        },
        "s_neg" => ok(sout(&(-sparse::<F>(&a[1])))),
        "s_sub_assign" => {
            let mut p = sparse::<F>(&a[1]);
            p -= &sparse::<F>(&a[2]);
            ok(sout(&p))
        },
        "s_scale" => ok(sout(&(&sparse::<F>(&a[1]) * fe::<F>(&a[2][0])))),
        "s_mul" => ok(sout(&sparse::<F>(&a[1]).mul(&sparse::<F>(&a[2])))),
        "s_to_dense" => {
            let d: DensePolynomial<F> = sparse::<F>(&a[1]).into();
            let d2: DensePolynomial<F> = DenseOrSparsePolynomial::from(sparse::<F>(&a[1])).into();
            assert!(d.coeffs == d2.coeffs, "harness: sparse->dense conversions differ");
            ok(dout(&d))
        },
        "d_to_sparse" => {
            let s: SparsePolynomial<F> = dense::<F>(&a[1]).into();
            ok(sout(&s))
        },
        // ---------------- dense (op) sparse ----------------
        "d_add_sparse" => ok(dout(&(&dense::<F>(&a[1]) + &sparse::<F>(&a[2])))),
        "d_add_assign_sparse" => {
            let mut p = dense::<F>(&a[1]);
            p += &sparse::<F>(&a[2]);
            ok(dout(&p))
        },
        "d_sub_sparse" => ok(dout(&(&dense::<F>(&a[1]) - &sparse::<F>(&a[2])))),
        "d_sub_assign_sparse" => {
            let mut p = dense::<F>(&a[1]);
            p -= &sparse::<F>(&a[2]);
            ok(dout(&p))
        },
        // ---------------- division ----------------
        "divide_dd" | "divide_ds" | "divide_sd" | "divide_ss" => {
            let dp;
            let sp;
            let dq;
            let sq;
            let x: DenseOrSparsePolynomial<'_, F> = if op.as_bytes()[7] == b'd' {
                dp = dense::<F>(&a[1]);
                (&dp).into()
            } else {
                sp = sparse::<F>(&a[1]);
                (&sp).into()
            };
            let y: DenseOrSparsePolynomial<'_, F> = if op.as_bytes()[8] == b'd' {
                dq = dense::<F>(&a[2]);
                (&dq).into()
            } else {
                sq = sparse::<F>(&a[2]);
                (&sq).into()
            };
            match x.divide_with_q_and_r(&y) {
                Some((q, r)) => ok(qrout(&q, &r)),
                None => err(0),
            }
        },
        // ---------------- vanishing polynomial ----------------
        "mul_by_vanishing" => match domain::<F>(&a[2]) {
            Some(d) => ok(dout(&dense::<F>(&a[1]).mul_by_vanishing_poly(d))),
            None => unsupported(),
        },
        "divide_by_vanishing" => match domain::<F>(&a[2]) {
            Some(d) => {
                let (q, r) = dense::<F>(&a[1]).divide_by_vanishing_poly(d);
                ok(qrout(&q, &r))
            },
            None => unsupported(),
        },
        // ---------------- evaluation domains ----------------
        "d_eval_domain_ref" => match domain::<F>(&a[2]) {
            Some(d) => ok(vec![fvout(&dense::<F>(&a[1]).evaluate_over_domain_by_ref(d).evals)]),
            None => unsupported(),
        },
        "d_eval_domain_owned" => match domain::<F>(&a[2]) {
            Some(d) => ok(vec![fvout(&dense::<F>(&a[1]).evaluate_over_domain(d).evals)]),
            None => unsupported(),
        },
        "s_eval_domain" => match domain::<F>(&a[2]) {
            Some(d) => {
                let e1 = sparse::<F>(&a[1]).evaluate_over_domain_by_ref(d).evals;
                let e2 = sparse::<F>(&a[1]).evaluate_over_domain(d).evals;
                assert!(e1 == e2, "harness: sparse evaluate_over_domain ref/owned differ");
                ok(vec![fvout(&e1)])
            },
            None => unsupported(),
        },
        "interpolate" => match domain::<F>(&a[2]) {
            Some(d) => ok(dout(&Evaluations::from_vec_and_domain(fvec::<F>(&a[1]), d).interpolate())),
            None => unsupported(),
        },
        "interpolate_by_ref" => match domain::<F>(&a[2]) {
            Some(d) => ok(dout(
                &Evaluations::from_vec_and_domain(fvec::<F>(&a[1]), d).interpolate_by_ref(),
            )),
            None => unsupported(),
        },
        "roundtrip" => match domain::<F>(&a[2]) {
            Some(d) => ok(dout(&dense::<F>(&a[1]).evaluate_over_domain(d).interpolate())),
            None => unsupported(),
        },
        "ev_add" | "ev_sub" | "ev_mul" | "ev_div" => match domain::<F>(&a[3]) {
            Some(d) => {
                let x = Evaluations::from_vec_and_domain(fvec::<F>(&a[1]), d);
                let y = Evaluations::from_vec_and_domain(fvec::<F>(&a[2]), d);
                let (r, mut x2) = (
                    match op {
                        "ev_add" => &x + &y,
                        "ev_sub" => &x - &y,
                        "ev_mul" => &x * &y,
                        _ => &x / &y,
                    },
                    x.clone(),
                );
                match op {
                    "ev_add" => x2 += &y,
                    "ev_sub" => x2 -= &y,
                    "ev_mul" => x2 *= &y,
                    _ => x2 /= &y,
                }
                assert!(r == x2, "harness: Evaluations op and op-assign differ");
                ok(vec![fvout(&r.evals)])
            },
            None => unsupported(),
        },
        "ev_scale" => match domain::<F>(&a[3]) {
            Some(d) => {
                let x = Evaluations::from_vec_and_domain(fvec::<F>(&a[1]), d);
                ok(vec![fvout(&(&x * fe::<F>(&a[2][0])).evals)])
            },
            None => unsupported(),
        },
        _ => unsupported(),
    }
}

fn run(op: &str, a: &[Arg]) -> Vec<Arg> {
    let p = u(&a[0][0]);
    if p == BigUint::from(5u32) {
        run_f::<F5>(op, a)
    } else if p == BigUint::from(7u32) {
        run_f::<F7>(op, a)
    } else if p == BigUint::from(97u32) {
        run_f::<F97>(op, a)
    } else if p == BigUint::from(<Fr as PrimeField>::MODULUS) {
        run_f::<Fr>(op, a)
    } else {
        unsupported()
    }
}

fn main() {
    main_loop(run);
}
