//! C09 case interpreter: canonical (de)serialization of field elements and curve points.
//! No oracle logic: build the value from the case, call the public
//! CanonicalSerialize / CanonicalDeserialize (+WithFlags) API, print what it returns.
//!
//! Field cases (f_ser_flags, f_ser_plain, f_de_flags, f_de_plain):
//!   a[0] = [cfg_id, N, flag_type, flag_code | compress, validate]
//!   a[1] = [p]   a[2] = [tower]   a[3] = coordinates | bytes
//!   every op that serialises returns BOTH the bytes written and the size advertised by `serialized_size*`
//!   (f_ser_*: [bytes, size]; f_de_*: [.., consumed, re-encoding, size of the decoded value]; sw_ser/te_ser: [bytes, size])
//! Point cases (sw_ser, sw_de, te_ser, te_de):
//!   a[0] = [curve_id, N, compress, validate, projective]
//!   a[1] = [p, deg]  a[2] = [nr]  a[3] = COEFF_A  a[4] = COEFF_B|COEFF_D  a[5] = [r]  a[6..] operands
//! Ordering cases (f_cmp): a[0..2] as for field cases, a[3] = x, a[4] = y (coordinates); returns
//!   [Ord::cmp], [PartialOrd::partial_cmp], [x < y, x <= y, x > y, x >= y]  (0 Less, 1 Equal, 2 Greater) --
//!   the sign flag of a compressed point is exactly `y <= -y` / `x <= -x`, the root order `y < -y`.
//! The configuration constants of a case are compared with the compiled ones (a
//! difference is a harness panic, hence a reported mismatch).
// the derive macro expands to `cfg!(feature = "asm")`, a feature this crate does not declare
#![allow(unexpected_cfgs)]
use ark_ec::short_weierstrass::{self as sw, SWCurveConfig, SWFlags};
use ark_ec::twisted_edwards::{self as te, MontCurveConfig, TECurveConfig, TEFlags};
use ark_ec::CurveConfig;
use ark_ff::fields::fp6_2over3::{Fp6 as Fp6b, Fp6Config as Fp6bConfig};
use ark_ff::fields::fp6_3over2::{Fp6, Fp6Config};
use ark_ff::fields::{Fp128, Fp192, Fp2, Fp256, Fp2Config, Fp3, Fp3Config, Fp4, Fp4Config, Fp64, MontBackend, MontConfig};
use ark_ff::{Field, MontFp, PrimeField, Zero};
use core::cmp::Ordering;
use ark_serialize::{
    CanonicalDeserialize, CanonicalSerialize, Compress, EmptyFlags, SerializationError, Validate,
};
use num_bigint::BigUint;
use vharness::*;

fn bytes_of(a: &Arg) -> Vec<u8> {
    a.iter()
        .map(|c| {
            let v = to_u64(c);
            assert!(v < 256, "harness: byte expected");
            v as u8
        })
        .collect()
}
fn bytes_arg(b: &[u8]) -> Arg {
    b.iter().map(|x| from_u64(*x as u64)).collect()
}
fn num(n: usize) -> Arg {
    vec![from_u64(n as u64)]
}
fn kind(e: &SerializationError) -> u32 {
    match e {
        SerializationError::NotEnoughSpace => 1,
        SerializationError::InvalidData => 2,
        SerializationError::UnexpectedFlags => 3,
        SerializationError::IoError(_) => 4,
    }
}
fn compress_of(v: u64) -> Compress {
    if v != 0 {
        Compress::Yes
    } else {
        Compress::No
    }
}
fn validate_of(v: u64) -> Validate {
    if v != 0 {
        Validate::Yes
    } else {
        Validate::No
    }
}

fn prime<F: PrimeField>(v: &num_bigint::BigInt) -> F {
    let b = u(v);
    let m: BigUint = F::MODULUS.into();
    assert!(b < m, "harness: coordinate not reduced");
    F::from(b)
}
fn elem<F: Field>(a: &Arg) -> F {
    assert_eq!(a.len(), F::extension_degree() as usize, "harness: wrong coordinate count");
    F::from_base_prime_field_elems(a.iter().map(prime::<F::BasePrimeField>)).unwrap()
}
fn coords<F: Field>(x: &F) -> Arg {
    x.to_base_prime_field_elements()
        .map(|c| from_biguint(&c.into_bigint().into()))
        .collect()
}
fn check_modulus<F: Field>(a: &[Arg]) {
    let m: BigUint = <F::BasePrimeField as PrimeField>::MODULUS.into();
    assert_eq!(u(&a[1][0]), m, "harness: modulus differs from the configuration's");
    let n = <F::BasePrimeField as PrimeField>::MODULUS.as_ref().len();
    assert_eq!(to_usize(&a[0][1]), n, "harness: limb count differs");
}

fn sw_flag(c: u64) -> SWFlags {
    match c {
        0 => SWFlags::YIsPositive,
        1 => SWFlags::PointAtInfinity,
        2 => SWFlags::YIsNegative,
        _ => panic!("harness: bad flag code"),
    }
}
fn sw_code(f: SWFlags) -> u64 {
    match f {
        SWFlags::YIsPositive => 0,
        SWFlags::PointAtInfinity => 1,
        SWFlags::YIsNegative => 2,
    }
}
fn te_flag(c: u64) -> TEFlags {
    match c {
        0 => TEFlags::XIsPositive,
        1 => TEFlags::XIsNegative,
        _ => panic!("harness: bad flag code"),
    }
}
fn te_code(f: TEFlags) -> u64 {
    match f {
        TEFlags::XIsPositive => 0,
        TEFlags::XIsNegative => 1,
    }
}

fn ser_flags<F: Field, FL: ark_serialize::Flags>(x: &F, f: FL) -> Vec<Arg> {
    let mut v = Vec::new();
    match x.serialize_with_flags(&mut v, f) {
        Ok(()) => ok(vec![bytes_arg(&v), num(x.serialized_size_with_flags::<FL>())]),
        Err(e) => err(kind(&e)),
    }
}
fn de_flags<F: Field, FL: ark_serialize::Flags>(bytes: &[u8], code: fn(FL) -> u64) -> Vec<Arg> {
    let mut rd = bytes;
    match F::deserialize_with_flags::<_, FL>(&mut rd) {
        Ok((x, f)) => {
            let consumed = bytes.len() - rd.len();
            let mut re = Vec::new();
            x.serialize_with_flags(&mut re, f).unwrap();
            ok(vec![
                coords(&x),
                vec![from_u64(code(f))],
                num(consumed),
                bytes_arg(&re),
                num(x.serialized_size_with_flags::<FL>()),
            ])
        },
        Err(e) => err(kind(&e)),
    }
}

fn run_field<F: Field>(op: &str, a: &[Arg]) -> Vec<Arg> {
    if op == "f_dump" {
        let m: BigUint = <F::BasePrimeField as PrimeField>::MODULUS.into();
        let n = <F::BasePrimeField as PrimeField>::MODULUS.as_ref().len();
        return ok(vec![vec![from_biguint(&m), from_u64(n as u64), from_u64(F::extension_degree())]]);
    }
    check_modulus::<F>(a);
    let ft = to_u64(&a[0][2]);
    let fc = to_u64(&a[0][3]);
    match op {
        "f_ser_flags" => {
            let x: F = elem(&a[3]);
            match ft {
                0 => ser_flags(&x, EmptyFlags),
                1 => ser_flags(&x, sw_flag(fc)),
                2 => ser_flags(&x, te_flag(fc)),
                _ => unsupported(),
            }
        },
        "f_ser_plain" => {
            let x: F = elem(&a[3]);
            let c = compress_of(fc);
            let mut v = Vec::new();
            match x.serialize_with_mode(&mut v, c) {
                Ok(()) => ok(vec![bytes_arg(&v), num(x.serialized_size(c))]),
                Err(e) => err(kind(&e)),
            }
        },
        "f_de_flags" => {
            let bytes = bytes_of(&a[3]);
            match ft {
                0 => de_flags::<F, EmptyFlags>(&bytes, |_| 0),
                1 => de_flags::<F, SWFlags>(&bytes, sw_code),
                2 => de_flags::<F, TEFlags>(&bytes, te_code),
                _ => unsupported(),
            }
        },
        "f_cmp" => {
            let x: F = elem(&a[3]);
            let y: F = elem(&a[4]);
            let code = |o: Ordering| match o {
                Ordering::Less => 0u64,
                Ordering::Equal => 1,
                Ordering::Greater => 2,
            };
            let pc = match x.partial_cmp(&y) {
                Some(o) => code(o),
                None => 3,
            };
            ok(vec![
                vec![from_u64(code(x.cmp(&y)))],
                vec![from_u64(pc)],
                vec![from_bool(x < y), from_bool(x <= y), from_bool(x > y), from_bool(x >= y)],
            ])
        },
        "f_de_plain" => {
            let bytes = bytes_of(&a[3]);
            let c = compress_of(fc);
            let v = validate_of(to_u64(&a[0][4]));
            let mut rd = &bytes[..];
            match F::deserialize_with_mode(&mut rd, c, v) {
                Ok(x) => {
                    let consumed = bytes.len() - rd.len();
                    let mut re = Vec::new();
                    x.serialize_with_mode(&mut re, c).unwrap();
                    ok(vec![coords(&x), num(consumed), bytes_arg(&re), num(x.serialized_size(c))])
                },
                Err(e) => err(kind(&e)),
            }
        },
        _ => unsupported(),
    }
}

fn check_curve<B: Field, S: PrimeField>(a: &[Arg], ca: &B, cb: &B) {
    check_modulus::<B>(a);
    assert_eq!(to_u64(&a[1][1]), B::extension_degree(), "harness: extension degree differs");
    assert_eq!(a[3], coords(ca), "harness: first curve coefficient differs");
    assert_eq!(a[4], coords(cb), "harness: second curve coefficient differs");
    let r: BigUint = S::MODULUS.into();
    assert_eq!(u(&a[5][0]), r, "harness: subgroup order differs");
}


/// configuration constants of a curve, as compiled (used once to write props/C09/curves.json)
fn dump_curve<B: Field, S: PrimeField>(ca: &B, cb: &B, gx: &B, gy: &B, cof: &[u64]) -> Vec<Arg> {
    let m: BigUint = <B::BasePrimeField as PrimeField>::MODULUS.into();
    let n = <B::BasePrimeField as PrimeField>::MODULUS.as_ref().len();
    let d = B::extension_degree() as usize;
    let nr = if d == 2 {
        let mut c = vec![<B::BasePrimeField as Zero>::zero(); 2];
        c[1] = <B::BasePrimeField as Field>::ONE;
        let uu: B = B::from_base_prime_field_elems(c).unwrap();
        vec![coords(&(uu * uu))[0].clone()]
    } else if d == 3 {
        let mut c = vec![<B::BasePrimeField as Zero>::zero(); 3];
        c[1] = <B::BasePrimeField as Field>::ONE;
        let uu: B = B::from_base_prime_field_elems(c).unwrap();
        vec![coords(&(uu * uu * uu))[0].clone()]
    } else {
        vec![]
    };
    let r: BigUint = S::MODULUS.into();
    let mut h = BigUint::from(0u32);
    for l in cof.iter().rev() {
        h = (h << 64) + BigUint::from(*l);
    }
    ok(vec![
        vec![from_biguint(&m), from_u64(d as u64), from_u64(n as u64)],
        nr,
        coords(ca),
        coords(cb),
        vec![from_biguint(&r)],
        coords(gx),
        coords(gy),
        vec![from_biguint(&h)],
    ])
}

fn run_sw<P: SWCurveConfig>(op: &str, a: &[Arg]) -> Vec<Arg> {
    if op == "dump" {
        let g = P::GENERATOR;
        return dump_curve::<P::BaseField, <P as CurveConfig>::ScalarField>(
            &P::COEFF_A, &P::COEFF_B, &g.x, &g.y, P::COFACTOR);
    }
    check_curve::<P::BaseField, <P as CurveConfig>::ScalarField>(a, &P::COEFF_A, &P::COEFF_B);
    let c = compress_of(to_u64(&a[0][2]));
    let v = validate_of(to_u64(&a[0][3]));
    let proj = to_u64(&a[0][4]) != 0;
    match op {
        "sw_ser" => {
            let x: P::BaseField = elem(&a[6]);
            let y: P::BaseField = elem(&a[7]);
            let mut out = Vec::new();
            let (r, size) = if proj {
                let z: P::BaseField = elem(&a[8]);
                let pt = sw::Projective::<P>::new_unchecked(x, y, z);
                (pt.serialize_with_mode(&mut out, c), pt.serialized_size(c))
            } else {
                let pt = if to_u64(&a[8][0]) != 0 {
                    assert!(x.is_zero() && y.is_zero(), "harness: identity has zero coordinates");
                    sw::Affine::<P>::identity()
                } else {
                    sw::Affine::<P>::new_unchecked(x, y)
                };
                (pt.serialize_with_mode(&mut out, c), pt.serialized_size(c))
            };
            match r {
                Ok(()) => ok(vec![bytes_arg(&out), num(size)]),
                Err(e) => err(kind(&e)),
            }
        },
        "sw_de" => {
            let bytes = bytes_of(&a[6]);
            let mut rd = &bytes[..];
            if proj {
                match sw::Projective::<P>::deserialize_with_mode(&mut rd, c, v) {
                    Ok(p) => ok(vec![
                        coords(&p.x),
                        coords(&p.y),
                        coords(&p.z),
                        num(bytes.len() - rd.len()),
                    ]),
                    Err(e) => err(kind(&e)),
                }
            } else {
                match sw::Affine::<P>::deserialize_with_mode(&mut rd, c, v) {
                    Ok(p) => ok(vec![
                        coords(&p.x),
                        coords(&p.y),
                        vec![from_bool(p.infinity)],
                        num(bytes.len() - rd.len()),
                    ]),
                    Err(e) => err(kind(&e)),
                }
            }
        },
        _ => unsupported(),
    }
}

fn run_te<P: TECurveConfig>(op: &str, a: &[Arg]) -> Vec<Arg> {
    if op == "dump" {
        let g = P::GENERATOR;
        return dump_curve::<P::BaseField, <P as CurveConfig>::ScalarField>(
            &P::COEFF_A, &P::COEFF_D, &g.x, &g.y, P::COFACTOR);
    }
    check_curve::<P::BaseField, <P as CurveConfig>::ScalarField>(a, &P::COEFF_A, &P::COEFF_D);
    let c = compress_of(to_u64(&a[0][2]));
    let v = validate_of(to_u64(&a[0][3]));
    let proj = to_u64(&a[0][4]) != 0;
    match op {
        "te_ser" => {
            let x: P::BaseField = elem(&a[6]);
            let y: P::BaseField = elem(&a[7]);
            let mut out = Vec::new();
            let (r, size) = if proj {
                let t: P::BaseField = elem(&a[8]);
                let z: P::BaseField = elem(&a[9]);
                let pt = te::Projective::<P>::new_unchecked(x, y, t, z);
                (pt.serialize_with_mode(&mut out, c), pt.serialized_size(c))
            } else {
                let pt = te::Affine::<P>::new_unchecked(x, y);
                (pt.serialize_with_mode(&mut out, c), pt.serialized_size(c))
            };
            match r {
                Ok(()) => ok(vec![bytes_arg(&out), num(size)]),
                Err(e) => err(kind(&e)),
            }
        },
        "te_de" => {
            let bytes = bytes_of(&a[6]);
            let mut rd = &bytes[..];
            if proj {
                match te::Projective::<P>::deserialize_with_mode(&mut rd, c, v) {
                    Ok(p) => ok(vec![
                        coords(&p.x),
                        coords(&p.y),
                        coords(&p.t),
                        coords(&p.z),
                        num(bytes.len() - rd.len()),
                    ]),
                    Err(e) => err(kind(&e)),
                }
            } else {
                match te::Affine::<P>::deserialize_with_mode(&mut rd, c, v) {
                    Ok(p) => ok(vec![coords(&p.x), coords(&p.y), num(bytes.len() - rd.len())]),
                    Err(e) => err(kind(&e)),
                }
            }
        },
        _ => unsupported(),
    }
}

// ---- toy / medium prime fields: every residue of MODULUS_BIT_SIZE mod 8, and bits = 64 N ----
macro_rules! toy {
    ($cfg:ident, $ty:ident, $fp:ident, $n:tt, $m:tt) => {
        toy!($cfg, $ty, $fp, $n, $m, "2");
    };
    ($cfg:ident, $ty:ident, $fp:ident, $n:tt, $m:tt, $g:tt) => {
        #[derive(MontConfig)]
        #[modulus = $m]
        #[generator = $g]
        pub struct $cfg;
        pub type $ty = $fp<MontBackend<$cfg, $n>>;
    };
}
toy!(C8, F8, Fp64, 1, "251");
toy!(C15, F15, Fp64, 1, "32749");
// 65521 = 1 mod 8, so 2 is a square: Field::sqrt (Tonelli-Shanks, used by the T16 curve below) needs a
// genuine generator for TWO_ADIC_ROOT_OF_UNITY; 17 is a primitive root
toy!(C16, F16, Fp64, 1, "65521", "17");
toy!(C17, F17, Fp64, 1, "131071");
toy!(C61, F61, Fp64, 1, "2305843009213693951");
toy!(C63, F63, Fp64, 1, "9223372036854775783");
toy!(C64, F64, Fp64, 1, "18446744073709551557");
toy!(C127, F127, Fp128, 2, "170141183460469231731687303715884105727");
toy!(C128, F128, Fp128, 2, "340282366920938463463374607431768211297");
toy!(C192, F192, Fp192, 3, "6277101735386680763835789423207666416083908700390324961279");
toy!(C12b, F12b, Fp64, 1, "4093");
toy!(C13b, F13b, Fp64, 1, "8191");
toy!(C14b, F14b, Fp64, 1, "16381");
toy!(C62, F62, Fp64, 1, "2849647038907036733");
toy!(C11b, F11b, Fp64, 1, "2039");


// ---- twisted-Edwards curves over base fields with MODULUS_BIT_SIZE % 8 == 0 (no spare bit for the x-sign
// flag in the top byte of y).  Constants derived by props/C09/mkte.py; all curves are complete (a square,
// d non-square).  T8/T16/T64/T128/T256b: #E = 4 r with r prime (ScalarField = F_r).  T256 (secp256k1 base
// field): #E = p + 1 is not factored, ScalarField/COFACTOR are formal (r*P = O only for the identity).
toy!(C128e, F128e, Fp128, 2, "340282366920938463463374607431768103891");
toy!(C256e, F256e, Fp256, 4, "115792089237316195423570985008687907853269984665640564039457584007913129601683");
toy!(CR8, R8, Fp64, 1, "59");
toy!(CR16, R16, Fp64, 1, "16267");
toy!(CR64, R64, Fp64, 1, "4611686018532695467");
toy!(CR128, R128, Fp128, 2, "85070591730234615865843651857942025973");
toy!(CR256, R256, Fp256, 4, "28948022309329048855892746252171976963317496166410141009864396001978282400421");
macro_rules! te_curve {
    ($cfg:ident, $fq:ty, $fr:ty, $a:tt, $d:tt, $gx:tt, $gy:tt, $h:tt, $hinv:tt, $ma:tt, $mb:tt) => {
        #[derive(Clone, Default, PartialEq, Eq)]
        pub struct $cfg;
        impl CurveConfig for $cfg {
            type BaseField = $fq;
            type ScalarField = $fr;
            const COFACTOR: &'static [u64] = &[$h];
            const COFACTOR_INV: $fr = MontFp!($hinv);
        }
        impl TECurveConfig for $cfg {
            const COEFF_A: $fq = MontFp!($a);
            const COEFF_D: $fq = MontFp!($d);
            const GENERATOR: te::Affine<Self> = te::Affine::<Self>::new_unchecked(MontFp!($gx), MontFp!($gy));
            type MontCurveConfig = $cfg;
        }
        impl MontCurveConfig for $cfg {
            const COEFF_A: $fq = MontFp!($ma);
            const COEFF_B: $fq = MontFp!($mb);
            type TECurveConfig = $cfg;
        }
    };
}
te_curve!(T8, F8, R8, "196", "76", "216", "133", 4, "15", "38", "159");
te_curve!(T16, F16, R16, "21579", "8730", "50373", "8715", 4, "4067", "14859", "56689");
te_curve!(T64, F64, R64, "2651949017411421161", "1597271433543068309", "16842461655196175986",
    "914657001459729111", 4, "1152921504633173867", "18404380091693933318", "15721454427847257864");
te_curve!(T128, F128e, R128, "1", "-1", "243696223229155385388154514777379684370",
    "237433905823834147221889066192371689789", 4, "63802943797675961899382738893456519480", "0", "2");
te_curve!(T256, ark_test_curves::secp256k1::Fq, ark_test_curves::secp256k1::Fr, "1", "-1",
    "68322748304924919175438803325720074731664608905715187791460726261469339981870",
    "7593545717158916129939939954992389902636280197373203680797167759953178065820", 1, "1", "0", "2");
te_curve!(T256b, F256e, R256, "1", "-1",
    "57026472402377723564442318405386017885664877206296213894583325893179282240723",
    "53322614531946817034109513010072318691192807935685121481147686512563804750650", 4,
    "21711016731996786641919559689128982722488122124807605757398297001483711800316", "0", "2");

// ---- extension towers over base fields whose top byte cannot hold the flags (bits = 0 / 7 mod 8), and curves over
// them.  Constants derived by props/C09/mkext.py, which rewrites the block between the markers.
macro_rules! sw_curve {
    ($cfg:ident, $fq:ty, $fr:ty, $a:expr, $b:expr, $gx:expr, $gy:expr, $h:expr, $hinv:tt) => {
        #[derive(Clone, Default, PartialEq, Eq)]
        pub struct $cfg;
        impl CurveConfig for $cfg {
            type BaseField = $fq;
            type ScalarField = $fr;
            const COFACTOR: &'static [u64] = $h;
            const COFACTOR_INV: $fr = MontFp!($hinv);
        }
        impl SWCurveConfig for $cfg {
            const COEFF_A: $fq = $a;
            const COEFF_B: $fq = $b;
            const GENERATOR: sw::Affine<Self> = sw::Affine::<Self>::new_unchecked($gx, $gy);
        }
    };
}
macro_rules! te_curve_x {
    ($cfg:ident, $fq:ty, $fr:ty, $a:expr, $d:expr, $gx:expr, $gy:expr, $h:expr, $hinv:tt, $ma:expr, $mb:expr) => {
        #[derive(Clone, Default, PartialEq, Eq)]
        pub struct $cfg;
        impl CurveConfig for $cfg {
            type BaseField = $fq;
            type ScalarField = $fr;
            const COFACTOR: &'static [u64] = $h;
            const COFACTOR_INV: $fr = MontFp!($hinv);
        }
        impl TECurveConfig for $cfg {
            const COEFF_A: $fq = $a;
            const COEFF_D: $fq = $d;
            const GENERATOR: te::Affine<Self> = te::Affine::<Self>::new_unchecked($gx, $gy);
            type MontCurveConfig = $cfg;
        }
        impl MontCurveConfig for $cfg {
            const COEFF_A: $fq = $ma;
            const COEFF_B: $fq = $mb;
            type TECurveConfig = $cfg;
        }
    };
}
// ---- BEGIN generated by props/C09/mkext.py (do not edit by hand) ----
pub struct CQ2f0;
impl Fp2Config for CQ2f0 {
    type Fp = F8;
    const NONRESIDUE: F8 = MontFp!("-1");
    const FROBENIUS_COEFF_FP2_C1: &'static [F8] = &[MontFp!("1"), MontFp!("-1")];
}
pub type Q2f0 = Fp2<CQ2f0>;
#[derive(Clone, Copy)]
pub struct CQ6f0;
impl Fp6Config for CQ6f0 {
    type Fp2Config = CQ2f0;
    const NONRESIDUE: Q2f0 = Q2f0::new(MontFp!("2"), MontFp!("1"));
    const FROBENIUS_COEFF_FP6_C1: &'static [Q2f0] = &[Q2f0::new(MontFp!("1"), MontFp!("0")), Q2f0::new(MontFp!("61"), MontFp!("102")), Q2f0::new(MontFp!("125"), MontFp!("213")), Q2f0::new(MontFp!("235"), MontFp!("8")), Q2f0::new(MontFp!("125"), MontFp!("38")), Q2f0::new(MontFp!("206"), MontFp!("141"))];
    const FROBENIUS_COEFF_FP6_C2: &'static [Q2f0] = &[Q2f0::new(MontFp!("1"), MontFp!("0")), Q2f0::new(MontFp!("94"), MontFp!("145")), Q2f0::new(MontFp!("125"), MontFp!("38")), Q2f0::new(MontFp!("192"), MontFp!("246")), Q2f0::new(MontFp!("125"), MontFp!("213")), Q2f0::new(MontFp!("216"), MontFp!("111"))];
}
pub type Q6f0 = Fp6<CQ6f0>;
pub struct CQ2f1;
impl Fp2Config for CQ2f1 {
    type Fp = F15;
    const NONRESIDUE: F15 = MontFp!("2");
    const FROBENIUS_COEFF_FP2_C1: &'static [F15] = &[MontFp!("1"), MontFp!("-1")];
}
pub type Q2f1 = Fp2<CQ2f1>;
pub struct CQ2f2;
impl Fp2Config for CQ2f2 {
    type Fp = F16;
    const NONRESIDUE: F16 = MontFp!("17");
    const FROBENIUS_COEFF_FP2_C1: &'static [F16] = &[MontFp!("1"), MontFp!("-1")];
}
pub type Q2f2 = Fp2<CQ2f2>;
pub struct CQ3f2;
impl Fp3Config for CQ3f2 {
    type Fp = F16;
    const NONRESIDUE: F16 = MontFp!("17");
    const TWO_ADICITY: u32 = 4;
    const TRACE_MINUS_ONE_DIV_TWO: &'static [u64] = &[0x7fe98151796];
    const QUADRATIC_NONRESIDUE_TO_T: Fp3<CQ3f2> = Fp3::<CQ3f2>::new(MontFp!("61640"), MontFp!("0"), MontFp!("0"));
    const FROBENIUS_COEFF_FP3_C1: &'static [F16] = &[MontFp!("1"), MontFp!("16673"), MontFp!("48847")];
    const FROBENIUS_COEFF_FP3_C2: &'static [F16] = &[MontFp!("1"), MontFp!("48847"), MontFp!("16673")];
}
pub type Q3f2 = Fp3<CQ3f2>;
pub struct CQ4f2;
impl Fp4Config for CQ4f2 {
    type Fp2Config = CQ2f2;
    const NONRESIDUE: Q2f2 = Q2f2::new(MontFp!("0"), MontFp!("1"));
    const FROBENIUS_COEFF_FP4_C1: &'static [F16] = &[MontFp!("1"), MontFp!("41224"), MontFp!("65520"), MontFp!("24297")];
}
pub type Q4f2 = Fp4<CQ4f2>;
#[derive(Clone, Copy)]
pub struct CQ6f2;
impl Fp6Config for CQ6f2 {
    type Fp2Config = CQ2f2;
    const NONRESIDUE: Q2f2 = Q2f2::new(MontFp!("0"), MontFp!("1"));
    const FROBENIUS_COEFF_FP6_C1: &'static [Q2f2] = &[Q2f2::new(MontFp!("1"), MontFp!("0")), Q2f2::new(MontFp!("16674"), MontFp!("0")), Q2f2::new(MontFp!("16673"), MontFp!("0")), Q2f2::new(MontFp!("65520"), MontFp!("0")), Q2f2::new(MontFp!("48847"), MontFp!("0")), Q2f2::new(MontFp!("48848"), MontFp!("0"))];
    const FROBENIUS_COEFF_FP6_C2: &'static [Q2f2] = &[Q2f2::new(MontFp!("1"), MontFp!("0")), Q2f2::new(MontFp!("16673"), MontFp!("0")), Q2f2::new(MontFp!("48847"), MontFp!("0")), Q2f2::new(MontFp!("1"), MontFp!("0")), Q2f2::new(MontFp!("16673"), MontFp!("0")), Q2f2::new(MontFp!("48847"), MontFp!("0"))];
}
pub type Q6f2 = Fp6<CQ6f2>;
pub struct CQ32f2;
impl Fp6bConfig for CQ32f2 {
    type Fp3Config = CQ3f2;
    const NONRESIDUE: Q3f2 = Q3f2::new(MontFp!("0"), MontFp!("1"), MontFp!("0"));
    const FROBENIUS_COEFF_FP6_C1: &'static [F16] = &[MontFp!("1"), MontFp!("16674"), MontFp!("16673"), MontFp!("65520"), MontFp!("48847"), MontFp!("48848")];
}
pub type Q32f2 = Fp6b<CQ32f2>;
pub struct CQ2f5;
impl Fp2Config for CQ2f5 {
    type Fp = F63;
    const NONRESIDUE: F63 = MontFp!("-1");
    const FROBENIUS_COEFF_FP2_C1: &'static [F63] = &[MontFp!("1"), MontFp!("-1")];
}
pub type Q2f5 = Fp2<CQ2f5>;
pub struct CQ3f5;
impl Fp3Config for CQ3f5 {
    type Fp = F63;
    const NONRESIDUE: F63 = MontFp!("3");
    const TWO_ADICITY: u32 = 1;
    const TRACE_MINUS_ONE_DIV_TWO: &'static [u64] = &[0x5ffffffffffff0bd, 0x50000000000000ea, 0x7fffffffffffffb];
    const QUADRATIC_NONRESIDUE_TO_T: Fp3<CQ3f5> = Fp3::<CQ3f5>::new(MontFp!("9223372036854775782"), MontFp!("0"), MontFp!("0"));
    const FROBENIUS_COEFF_FP3_C1: &'static [F63] = &[MontFp!("1"), MontFp!("8755078512587387851"), MontFp!("468293524267387931")];
    const FROBENIUS_COEFF_FP3_C2: &'static [F63] = &[MontFp!("1"), MontFp!("468293524267387931"), MontFp!("8755078512587387851")];
}
pub type Q3f5 = Fp3<CQ3f5>;
pub struct CQ2f6;
impl Fp2Config for CQ2f6 {
    type Fp = F64;
    const NONRESIDUE: F64 = MontFp!("2");
    const FROBENIUS_COEFF_FP2_C1: &'static [F64] = &[MontFp!("1"), MontFp!("-1")];
}
pub type Q2f6 = Fp2<CQ2f6>;
pub struct CQ4f6;
impl Fp4Config for CQ4f6 {
    type Fp2Config = CQ2f6;
    const NONRESIDUE: Q2f6 = Q2f6::new(MontFp!("0"), MontFp!("1"));
    const FROBENIUS_COEFF_FP4_C1: &'static [F64] = &[MontFp!("1"), MontFp!("2296021864060584341"), MontFp!("18446744073709551556"), MontFp!("16150722209648967216")];
}
pub type Q4f6 = Fp4<CQ4f6>;
#[derive(Clone, Copy)]
pub struct CQ6f6;
impl Fp6Config for CQ6f6 {
    type Fp2Config = CQ2f6;
    const NONRESIDUE: Q2f6 = Q2f6::new(MontFp!("3"), MontFp!("1"));
    const FROBENIUS_COEFF_FP6_C1: &'static [Q2f6] = &[Q2f6::new(MontFp!("1"), MontFp!("0")), Q2f6::new(MontFp!("14572795668663777349"), MontFp!("11281842183482911252")), Q2f6::new(MontFp!("9223372036854775778"), MontFp!("4817326349724003083")), Q2f6::new(MontFp!("9068024800713694517"), MontFp!("3126239757665285680")), Q2f6::new(MontFp!("9223372036854775778"), MontFp!("13629417723985548474")), Q2f6::new(MontFp!("13252667678041631248"), MontFp!("4038662132561354625"))];
    const FROBENIUS_COEFF_FP6_C2: &'static [Q2f6] = &[Q2f6::new(MontFp!("1"), MontFp!("0")), Q2f6::new(MontFp!("11969781182274619192"), MontFp!("16732009246408191431")), Q2f6::new(MontFp!("9223372036854775778"), MontFp!("13629417723985548474")), Q2f6::new(MontFp!("7345062193897001336"), MontFp!("17794299981349287475")), Q2f6::new(MontFp!("9223372036854775778"), MontFp!("4817326349724003083")), Q2f6::new(MontFp!("17578644771247482586"), MontFp!("2367178919661624208"))];
}
pub type Q6f6 = Fp6<CQ6f6>;
pub struct CQ2f7;
impl Fp2Config for CQ2f7 {
    type Fp = F127;
    const NONRESIDUE: F127 = MontFp!("-1");
    const FROBENIUS_COEFF_FP2_C1: &'static [F127] = &[MontFp!("1"), MontFp!("-1")];
}
pub type Q2f7 = Fp2<CQ2f7>;
pub struct CQ3f7;
impl Fp3Config for CQ3f7 {
    type Fp = F127;
    const NONRESIDUE: F127 = MontFp!("5");
    const TWO_ADICITY: u32 = 1;
    const TRACE_MINUS_ONE_DIV_TWO: &'static [u64] = &[0xffffffffffffffff, 0x5fffffffffffffff, 0x0, 0xd000000000000000, 0xffffffffffffffff, 0x7ffffffffffffff];
    const QUADRATIC_NONRESIDUE_TO_T: Fp3<CQ3f7> = Fp3::<CQ3f7>::new(MontFp!("170141183460469231731687303715884105726"), MontFp!("0"), MontFp!("0"));
    const FROBENIUS_COEFF_FP3_C1: &'static [F127] = &[MontFp!("1"), MontFp!("45732286665397639494243842614078445557"), MontFp!("124408896795071592237443461101805660169")];
    const FROBENIUS_COEFF_FP3_C2: &'static [F127] = &[MontFp!("1"), MontFp!("124408896795071592237443461101805660169"), MontFp!("45732286665397639494243842614078445557")];
}
pub type Q3f7 = Fp3<CQ3f7>;
pub struct CQ2f8;
impl Fp2Config for CQ2f8 {
    type Fp = F128;
    const NONRESIDUE: F128 = MontFp!("5");
    const FROBENIUS_COEFF_FP2_C1: &'static [F128] = &[MontFp!("1"), MontFp!("-1")];
}
pub type Q2f8 = Fp2<CQ2f8>;
pub struct CQ3f8;
impl Fp3Config for CQ3f8 {
    type Fp = F128;
    const NONRESIDUE: F128 = MontFp!("5");
    const TWO_ADICITY: u32 = 5;
    const TRACE_MINUS_ONE_DIV_TWO: &'static [u64] = &[0xffffffffffff0aa8, 0xbffffffffffffff, 0x4a1, 0x8c00000000000000, 0xfffffffffffffff8, 0x3ffffffffffffff];
    const QUADRATIC_NONRESIDUE_TO_T: Fp3<CQ3f8> = Fp3::<CQ3f8>::new(MontFp!("130276414335768855879836975821154048968"), MontFp!("0"), MontFp!("0"));
    const FROBENIUS_COEFF_FP3_C1: &'static [F128] = &[MontFp!("1"), MontFp!("242472609493756488329140963943819063794"), MontFp!("97809757427181975134233643487949147502")];
    const FROBENIUS_COEFF_FP3_C2: &'static [F128] = &[MontFp!("1"), MontFp!("97809757427181975134233643487949147502"), MontFp!("242472609493756488329140963943819063794")];
}
pub type Q3f8 = Fp3<CQ3f8>;
pub struct CQ4f8;
impl Fp4Config for CQ4f8 {
    type Fp2Config = CQ2f8;
    const NONRESIDUE: Q2f8 = Q2f8::new(MontFp!("0"), MontFp!("1"));
    const FROBENIUS_COEFF_FP4_C1: &'static [F128] = &[MontFp!("1"), MontFp!("223634181723936656043527912098592160685"), MontFp!("340282366920938463463374607431768211296"), MontFp!("116648185197001807419846695333176050612")];
}
pub type Q4f8 = Fp4<CQ4f8>;
pub struct CQ32f8;
impl Fp6bConfig for CQ32f8 {
    type Fp3Config = CQ3f8;
    const NONRESIDUE: Q3f8 = Q3f8::new(MontFp!("0"), MontFp!("1"), MontFp!("0"));
    const FROBENIUS_COEFF_FP6_C1: &'static [F128] = &[MontFp!("1"), MontFp!("242472609493756488329140963943819063795"), MontFp!("242472609493756488329140963943819063794"), MontFp!("340282366920938463463374607431768211296"), MontFp!("97809757427181975134233643487949147502"), MontFp!("97809757427181975134233643487949147503")];
}
pub type Q32f8 = Fp6b<CQ32f8>;
pub struct CQ2f9;
impl Fp2Config for CQ2f9 {
    type Fp = ark_ed25519::Fq;
    const NONRESIDUE: ark_ed25519::Fq = MontFp!("2");
    const FROBENIUS_COEFF_FP2_C1: &'static [ark_ed25519::Fq] = &[MontFp!("1"), MontFp!("-1")];
}
pub type Q2f9 = Fp2<CQ2f9>;
pub struct CQ3f9;
impl Fp3Config for CQ3f9 {
    type Fp = ark_ed25519::Fq;
    const NONRESIDUE: ark_ed25519::Fq = MontFp!("2");
    const TWO_ADICITY: u32 = 2;
    const TRACE_MINUS_ONE_DIV_TWO: &'static [u64] = &[0xfffffffffffffca6, 0xffffffffffffffff, 0xffffffffffffffff, 0xafffffffffffffff, 0x43, 0x0, 0x0, 0x3800000000000000, 0xfffffffffffffffe, 0xffffffffffffffff, 0xffffffffffffffff, 0x3ffffffffffffff];
    const QUADRATIC_NONRESIDUE_TO_T: Fp3<CQ3f9> = Fp3::<CQ3f9>::new(MontFp!("19681161376707505956807079304988542015446066515923890162744021073123829784752"), MontFp!("0"), MontFp!("0"));
    const FROBENIUS_COEFF_FP3_C1: &'static [ark_ed25519::Fq] = &[MontFp!("1"), MontFp!("25380276437079137597092236364571181010632177832931468165172742469126098314552"), MontFp!("32515768181578960114693256139772772916002814499888813854556049534830466505396")];
    const FROBENIUS_COEFF_FP3_C2: &'static [ark_ed25519::Fq] = &[MontFp!("1"), MontFp!("32515768181578960114693256139772772916002814499888813854556049534830466505396"), MontFp!("25380276437079137597092236364571181010632177832931468165172742469126098314552")];
}
pub type Q3f9 = Fp3<CQ3f9>;
pub struct CQ4f9;
impl Fp4Config for CQ4f9 {
    type Fp2Config = CQ2f9;
    const NONRESIDUE: Q2f9 = Q2f9::new(MontFp!("0"), MontFp!("1"));
    const FROBENIUS_COEFF_FP4_C1: &'static [ark_ed25519::Fq] = &[MontFp!("1"), MontFp!("19681161376707505956807079304988542015446066515923890162744021073123829784752"), MontFp!("57896044618658097711785492504343953926634992332820282019728792003956564819948"), MontFp!("38214883241950591754978413199355411911188925816896391856984770930832735035197")];
}
pub type Q4f9 = Fp4<CQ4f9>;
pub struct CQ2f10;
impl Fp2Config for CQ2f10 {
    type Fp = ark_secp256k1::Fq;
    const NONRESIDUE: ark_secp256k1::Fq = MontFp!("-1");
    const FROBENIUS_COEFF_FP2_C1: &'static [ark_secp256k1::Fq] = &[MontFp!("1"), MontFp!("-1")];
}
pub type Q2f10 = Fp2<CQ2f10>;
pub struct CQ3f10;
impl Fp3Config for CQ3f10 {
    type Fp = ark_secp256k1::Fq;
    const NONRESIDUE: ark_secp256k1::Fq = MontFp!("3");
    const TWO_ADICITY: u32 = 1;
    const TRACE_MINUS_ONE_DIV_TWO: &'static [u64] = &[0x3ff51387321a8263, 0xffffffffbffffd23, 0xffffffffffffffff, 0xbfffffffffffffff, 0xc00005b9800aec78, 0x0, 0x0, 0x4000000000000000, 0xffffffff3ffffd23, 0xffffffffffffffff, 0xffffffffffffffff, 0x3fffffffffffffff];
    const QUADRATIC_NONRESIDUE_TO_T: Fp3<CQ3f10> = Fp3::<CQ3f10>::new(MontFp!("115792089237316195423570985008687907853269984665640564039457584007908834671662"), MontFp!("0"), MontFp!("0"));
    const FROBENIUS_COEFF_FP3_C1: &'static [ark_secp256k1::Fq] = &[MontFp!("1"), MontFp!("60197513588986302554485582024885075108884032450952339817679072026166228089408"), MontFp!("55594575648329892869085402983802832744385952214688224221778511981742606582254")];
    const FROBENIUS_COEFF_FP3_C2: &'static [ark_secp256k1::Fq] = &[MontFp!("1"), MontFp!("55594575648329892869085402983802832744385952214688224221778511981742606582254"), MontFp!("60197513588986302554485582024885075108884032450952339817679072026166228089408")];
}
pub type Q3f10 = Fp3<CQ3f10>;
#[derive(Clone, Copy)]
pub struct CQ6f10;
impl Fp6Config for CQ6f10 {
    type Fp2Config = CQ2f10;
    const NONRESIDUE: Q2f10 = Q2f10::new(MontFp!("1"), MontFp!("1"));
    const FROBENIUS_COEFF_FP6_C1: &'static [Q2f10] = &[Q2f10::new(MontFp!("1"), MontFp!("0")), Q2f10::new(MontFp!("0"), MontFp!("60197513588986302554485582024885075108884032450952339817679072026166228089408")), Q2f10::new(MontFp!("55594575648329892869085402983802832744385952214688224221778511981742606582254"), MontFp!("0")), Q2f10::new(MontFp!("0"), MontFp!("1")), Q2f10::new(MontFp!("60197513588986302554485582024885075108884032450952339817679072026166228089408"), MontFp!("0")), Q2f10::new(MontFp!("0"), MontFp!("55594575648329892869085402983802832744385952214688224221778511981742606582254"))];
    const FROBENIUS_COEFF_FP6_C2: &'static [Q2f10] = &[Q2f10::new(MontFp!("1"), MontFp!("0")), Q2f10::new(MontFp!("60197513588986302554485582024885075108884032450952339817679072026166228089409"), MontFp!("0")), Q2f10::new(MontFp!("60197513588986302554485582024885075108884032450952339817679072026166228089408"), MontFp!("0")), Q2f10::new(MontFp!("115792089237316195423570985008687907853269984665640564039457584007908834671662"), MontFp!("0")), Q2f10::new(MontFp!("55594575648329892869085402983802832744385952214688224221778511981742606582254"), MontFp!("0")), Q2f10::new(MontFp!("55594575648329892869085402983802832744385952214688224221778511981742606582255"), MontFp!("0"))];
}
pub type Q6f10 = Fp6<CQ6f10>;
pub struct CQ2f15;
impl Fp2Config for CQ2f15 {
    type Fp = ark_pallas::Fq;
    const NONRESIDUE: ark_pallas::Fq = MontFp!("5");
    const FROBENIUS_COEFF_FP2_C1: &'static [ark_pallas::Fq] = &[MontFp!("1"), MontFp!("-1")];
}
pub type Q2f15 = Fp2<CQ2f15>;
pub struct CQ2f16;
impl Fp2Config for CQ2f16 {
    type Fp = ark_ed_on_bls12_381::Fq;
    const NONRESIDUE: ark_ed_on_bls12_381::Fq = MontFp!("5");
    const FROBENIUS_COEFF_FP2_C1: &'static [ark_ed_on_bls12_381::Fq] = &[MontFp!("1"), MontFp!("-1")];
}
pub type Q2f16 = Fp2<CQ2f16>;
pub struct CQ2f17;
impl Fp2Config for CQ2f17 {
    type Fp = F192;
    const NONRESIDUE: F192 = MontFp!("-1");
    const FROBENIUS_COEFF_FP2_C1: &'static [F192] = &[MontFp!("1"), MontFp!("-1")];
}
pub type Q2f17 = Fp2<CQ2f17>;
#[derive(Clone, Copy)]
pub struct CQ6f17;
impl Fp6Config for CQ6f17 {
    type Fp2Config = CQ2f17;
    const NONRESIDUE: Q2f17 = Q2f17::new(MontFp!("2"), MontFp!("1"));
    const FROBENIUS_COEFF_FP6_C1: &'static [Q2f17] = &[Q2f17::new(MontFp!("1"), MontFp!("0")), Q2f17::new(MontFp!("3260182393688131836202038755124880483605510970407121149090"), MontFp!("4933377789865787240513951942080473331659580888242670471183")), Q2f17::new(MontFp!("3138550867693340381917894711603833208041954350195162480639"), MontFp!("1163148613673840140040163735776822270977968611581881917951")), Q2f17::new(MontFp!("1241251096146291160022215314747636457992410638098872522914"), MontFp!("5656476187313535183824681765833848187087703381340888699822")), Q2f17::new(MontFp!("3138550867693340381917894711603833208041954350195162480639"), MontFp!("5113953121712840623795625687430844145105940088808443043328")), Q2f17::new(MontFp!("1775668245552257767611535353335149474485987091884331289275"), MontFp!("1964349493594039103332945138501011313420533131197090751553"))];
    const FROBENIUS_COEFF_FP6_C2: &'static [Q2f17] = &[Q2f17::new(MontFp!("1"), MontFp!("0")), Q2f17::new(MontFp!("2949227085134731896599811191228340934353838840016188687141"), MontFp!("4256831923747819490716834161436432223568976357761867917919")), Q2f17::new(MontFp!("3138550867693340381917894711603833208041954350195162480639"), MontFp!("5113953121712840623795625687430844145105940088808443043328")), Q2f17::new(MontFp!("3971787700824637589963749352721022715038304122764641334070"), MontFp!("5166119291211617819774649901718080406755442336964353156705")), Q2f17::new(MontFp!("3138550867693340381917894711603833208041954350195162480639"), MontFp!("1163148613673840140040163735776822270977968611581881917951")), Q2f17::new(MontFp!("5633188684813992041108018302465969182775674437999819901347"), MontFp!("3131252255813924217180094783260820201843398706054428847934"))];
}
pub type Q6f17 = Fp6<CQ6f17>;
pub struct CQ2f23;
impl Fp2Config for CQ2f23 {
    type Fp = ark_secp256k1::Fr;
    const NONRESIDUE: ark_secp256k1::Fr = MontFp!("5");
    const FROBENIUS_COEFF_FP2_C1: &'static [ark_secp256k1::Fr] = &[MontFp!("1"), MontFp!("-1")];
}
pub type Q2f23 = Fp2<CQ2f23>;
pub struct CQ2f25;
impl Fp2Config for CQ2f25 {
    type Fp = F128e;
    const NONRESIDUE: F128e = MontFp!("-1");
    const FROBENIUS_COEFF_FP2_C1: &'static [F128e] = &[MontFp!("1"), MontFp!("-1")];
}
pub type Q2f25 = Fp2<CQ2f25>;
pub struct CQ2f26;
impl Fp2Config for CQ2f26 {
    type Fp = F256e;
    const NONRESIDUE: F256e = MontFp!("-1");
    const FROBENIUS_COEFF_FP2_C1: &'static [F256e] = &[MontFp!("1"), MontFp!("-1")];
}
pub type Q2f26 = Fp2<CQ2f26>;
toy!(CRS15, RS15, Fp64, 1, "979486728119");
toy!(CRS16, RS16, Fp64, 1, "31627");
toy!(CRT30, RT30, Fp64, 1, "15727");
toy!(CRT31, RT31, Fp64, 1, "1073263993");
// 12: SW form of T64 over the 64-bit prime field: #E = 4 r
sw_curve!(S12, F64, R64, MontFp!("6594532564949727552"), MontFp!("767306787390521121"), MontFp!("8854841911062261342"), MontFp!("5728687875437866288"), &[0x4], "1152921504633173867");
// 13: curve 12 over Fp2(F64), twisted by u: #E = 4 r n2
sw_curve!(S13, Q2f6, R64, Q2f6::new(MontFp!("118291618487242760"), MontFp!("15800980694590448384")), Q2f6::new(MontFp!("10332811394717772612"), MontFp!("14615025112997946636")), Q2f6::new(MontFp!("2999658358918742079"), MontFp!("2569429547904413070")), Q2f6::new(MontFp!("10086669668417126048"), MontFp!("18335613861039378436")), &[0xffffffff9b922380, 0x3], "982797710356822887");
// 14: supersingular y^2 = x^3 + u^4 x over Fp2(F256e): #E = (p+1)^2 = 16 r^2, subgroup = E[r], COFACTOR_INV formal
sw_curve!(S14, Q2f26, R256, Q2f26::new(MontFp!("112352719008411388368218752515099994529058187004458022263120467823481862182650"), MontFp!("46518076413068889877831571417778182606457868166727865468550423274792709081337")), Q2f26::new(MontFp!("0"), MontFp!("0")), Q2f26::new(MontFp!("104250964500557567811527549420777360661323416620734453110644088570658429666168"), MontFp!("61069431901727884911287149166668884420664229318461499153921286184138942741743")), Q2f26::new(MontFp!("40826863240601168905100508985041944181076138005000503473137350270900373058080"), MontFp!("80030721872134776938994265657520746691694786334036883120081337384726766265976")), &[0xfffffffffffdaa50, 0xffffffffffffffff, 0xffffffffffffffff, 0xffffffffffffffff, 0x3], "1");
// 15: supersingular y^2 = x^3 + u^4 x over Fp2(F63): #E = (p+1)^2, p+1 = 2*2*2*1177067*979486728119, subgroup = E[r]
sw_curve!(S15, Q2f5, RS15, Q2f5::new(MontFp!("4200343962582694632"), MontFp!("6820854830109028325")), Q2f5::new(MontFp!("0"), MontFp!("0")), Q2f5::new(MontFp!("30017665123178985"), MontFp!("7709646272809653112")), Q2f5::new(MontFp!("5039081629836621501"), MontFp!("5670576075002188596")), &[0xfffffffff2878fc0, 0x47d7ab], "1");
// 16: generic curve over Fp2(F_251): #E = 63254 = 2*31627 (BSGS, re-counted by enumeration)
sw_curve!(S16, Q2f0, RS16, Q2f0::new(MontFp!("217"), MontFp!("200")), Q2f0::new(MontFp!("192"), MontFp!("75")), Q2f0::new(MontFp!("79"), MontFp!("21")), Q2f0::new(MontFp!("123"), MontFp!("152")), &[0x2], "15814");
// 17: pallas over Fp2(pallas Fq), twisted by u: y^2 = x^3 + 5 u^6, #E = r n2
sw_curve!(S17, Q2f15, ark_pallas::Fr, Q2f15::new(MontFp!("0"), MontFp!("0")), Q2f15::new(MontFp!("5789471714244453242666084193083132502131506042058568940266726367145216012675"), MontFp!("16223924570967883207905225696566457036918427045838581433868373584551116996985")), Q2f15::new(MontFp!("19060687767427221682969534071949639258128307553171889008585245031289309053360"), MontFp!("28389317585174057437405389148207837711678578679811627104968138026107860680764")), Q2f15::new(MontFp!("28343455738156744130799969843781103717018283305686279161934191618570072890840"), MontFp!("5412714928069958187206710072481820100310690583725545909894460121016177476798")), &[0xa61376b900000003, 0x224698fc09054959, 0x0, 0x4000000000000000], "2113149854652541481574186457838098831844657241456137385471197706491174964772");
// 30: complete TE curve over Fp2(F8): #E = 62908 = 4 r
te_curve_x!(T30x, Q2f0, RT30, Q2f0::new(MontFp!("148"), MontFp!("214")), Q2f0::new(MontFp!("91"), MontFp!("32")), Q2f0::new(MontFp!("214"), MontFp!("119")), Q2f0::new(MontFp!("138"), MontFp!("115")), &[0x4], "3932", Q2f0::new(MontFp!("8"), MontFp!("124")), Q2f0::new(MontFp!("195"), MontFp!("170")));
// 31: complete TE curve over Fp2(F16): #E = 4293055972 = 4 r
te_curve_x!(T31x, Q2f2, RT31, Q2f2::new(MontFp!("39242"), MontFp!("13872")), Q2f2::new(MontFp!("45403"), MontFp!("50668")), Q2f2::new(MontFp!("7441"), MontFp!("36426")), Q2f2::new(MontFp!("56466"), MontFp!("19080")), &[0x4], "804947995", Q2f2::new(MontFp!("23736"), MontFp!("47326")), Q2f2::new(MontFp!("28406"), MontFp!("40417")));
// 32: complete TE curve over Fp2(F256e), generic a, d; order unknown: ScalarField / COFACTOR formal
te_curve_x!(T32x, Q2f26, R256, Q2f26::new(MontFp!("85075378295828268756617753011799253075099281936794374884316479243019846503022"), MontFp!("90345077531669108185465591064262568919444963886649291013851481013045688725490")), Q2f26::new(MontFp!("32725252011017419160028428526460506747948292586213117443305406671596404581410"), MontFp!("74666665191670300669292694087957332771233898068000113525454565935051217413503")), Q2f26::new(MontFp!("20048887643966754611938498389535024132613680147659304329761838511703467629681"), MontFp!("30438317616392520691459719416113986952994992461145562512124716716337352462385")), Q2f26::new(MontFp!("69290696774328136999812825182313252248631416468761637742060550473861526677089"), MontFp!("21445767680539573657429381154572660044308796317206654727626974941739016416408")), &[1], "1", Q2f26::new(MontFp!("13747634587404274087083167111192843644525057650019915689096753503886889926203"), MontFp!("56953558170844623649413189468120352026106208799646301511795926605968186701162")), Q2f26::new(MontFp!("66721023796206789131099663221155880218543016880702456839650163520662861036534"), MontFp!("109427908962457475659498589606803362934088050663191884558802335193071551708715")));
// 33: T64 over Fp2(F64), twisted by s: a s^2, d s^2 (not complete over Fp2), #E = 4 r n2
te_curve_x!(T33x, Q2f6, R64, Q2f6::new(MontFp!("7713767517319013542"), MontFp!("7640650891544792246")), Q2f6::new(MontFp!("7808843223605531958"), MontFp!("2648238855668208013")), Q2f6::new(MontFp!("16582540643452273436"), MontFp!("14118274095253418163")), Q2f6::new(MontFp!("914657001459729111"), MontFp!("0")), &[0xffffffff9b922380, 0x3], "982797710356822887", Q2f6::new(MontFp!("18404380091693933318"), MontFp!("0")), Q2f6::new(MontFp!("3745808365357727553"), MontFp!("2193828081125471128")));
fn dispatch_ext_field(id: u64, tower: u64, op: &str, a: &[Arg]) -> Vec<Arg> {
    match (id, tower) {
        (0, 2) => run_field::<Q2f0>(op, a),
        (0, 6) => run_field::<Q6f0>(op, a),
        (1, 2) => run_field::<Q2f1>(op, a),
        (2, 2) => run_field::<Q2f2>(op, a),
        (2, 3) => run_field::<Q3f2>(op, a),
        (2, 4) => run_field::<Q4f2>(op, a),
        (2, 6) => run_field::<Q6f2>(op, a),
        (2, 32) => run_field::<Q32f2>(op, a),
        (5, 2) => run_field::<Q2f5>(op, a),
        (5, 3) => run_field::<Q3f5>(op, a),
        (6, 2) => run_field::<Q2f6>(op, a),
        (6, 4) => run_field::<Q4f6>(op, a),
        (6, 6) => run_field::<Q6f6>(op, a),
        (7, 2) => run_field::<Q2f7>(op, a),
        (7, 3) => run_field::<Q3f7>(op, a),
        (8, 2) => run_field::<Q2f8>(op, a),
        (8, 3) => run_field::<Q3f8>(op, a),
        (8, 4) => run_field::<Q4f8>(op, a),
        (8, 32) => run_field::<Q32f8>(op, a),
        (9, 2) => run_field::<Q2f9>(op, a),
        (9, 3) => run_field::<Q3f9>(op, a),
        (9, 4) => run_field::<Q4f9>(op, a),
        (10, 2) => run_field::<Q2f10>(op, a),
        (10, 3) => run_field::<Q3f10>(op, a),
        (10, 6) => run_field::<Q6f10>(op, a),
        (15, 2) => run_field::<Q2f15>(op, a),
        (16, 2) => run_field::<Q2f16>(op, a),
        (17, 2) => run_field::<Q2f17>(op, a),
        (17, 6) => run_field::<Q6f17>(op, a),
        (23, 2) => run_field::<Q2f23>(op, a),
        (25, 2) => run_field::<Q2f25>(op, a),
        (26, 2) => run_field::<Q2f26>(op, a),
        _ => unsupported(),
    }
}
fn dispatch_ext_curve(id: u64, op: &str, a: &[Arg]) -> Vec<Arg> {
    match id {
        12 => run_sw::<S12>(op, a),
        13 => run_sw::<S13>(op, a),
        14 => run_sw::<S14>(op, a),
        15 => run_sw::<S15>(op, a),
        16 => run_sw::<S16>(op, a),
        17 => run_sw::<S17>(op, a),
        30 => run_te::<T30x>(op, a),
        31 => run_te::<T31x>(op, a),
        32 => run_te::<T32x>(op, a),
        33 => run_te::<T33x>(op, a),
        _ => unsupported(),
    }
}
// ---- END generated by props/C09/mkext.py ----

fn dispatch(op: &str, a: &[Arg]) -> Vec<Arg> {
    let id = to_u64(&a[0][0]);
    if op.starts_with("f_") {
        let tower = to_u64(&a[2][0]);
        use ark_test_curves::bls12_381 as tb;
        return match (id, tower) {
            (0, 1) => run_field::<F8>(op, a),
            (1, 1) => run_field::<F15>(op, a),
            (2, 1) => run_field::<F16>(op, a),
            (3, 1) => run_field::<F17>(op, a),
            (4, 1) => run_field::<F61>(op, a),
            (5, 1) => run_field::<F63>(op, a),
            (6, 1) => run_field::<F64>(op, a),
            (7, 1) => run_field::<F127>(op, a),
            (8, 1) => run_field::<F128>(op, a),
            (9, 1) => run_field::<ark_ed25519::Fq>(op, a),
            (10, 1) => run_field::<ark_secp256k1::Fq>(op, a),
            (11, 1) => run_field::<tb::Fq>(op, a),
            (11, 2) => run_field::<tb::Fq2>(op, a),
            (11, 6) => run_field::<tb::Fq6>(op, a),
            (11, 12) => run_field::<tb::Fq12>(op, a),
            (12, 1) => run_field::<ark_test_curves::mnt6_753::Fq>(op, a),
            (12, 3) => run_field::<ark_test_curves::mnt6_753::Fq3>(op, a),
            (13, 1) => run_field::<ark_bn254::Fq>(op, a),
            (13, 2) => run_field::<ark_bn254::Fq2>(op, a),
            (13, 6) => run_field::<ark_bn254::Fq6>(op, a),
            (13, 12) => run_field::<ark_bn254::Fq12>(op, a),
            (14, 1) => run_field::<ark_mnt4_298::Fq>(op, a),
            (14, 2) => run_field::<ark_mnt4_298::Fq2>(op, a),
            (14, 4) => run_field::<ark_mnt4_298::Fq4>(op, a),
            (15, 1) => run_field::<ark_pallas::Fq>(op, a),
            (16, 1) => run_field::<ark_ed_on_bls12_381::Fq>(op, a),
            (17, 1) => run_field::<F192>(op, a),
            (18, 1) => run_field::<ark_mnt6_298::Fq>(op, a),
            (18, 3) => run_field::<ark_mnt6_298::Fq3>(op, a),
            (18, 32) => run_field::<ark_mnt6_298::Fq6>(op, a),
            (19, 1) => run_field::<F12b>(op, a),
            (20, 1) => run_field::<F13b>(op, a),
            (21, 1) => run_field::<F14b>(op, a),
            (22, 1) => run_field::<F62>(op, a),
            (23, 1) => run_field::<ark_secp256k1::Fr>(op, a),
            (24, 1) => run_field::<F11b>(op, a),
            (25, 1) => run_field::<F128e>(op, a),
            (26, 1) => run_field::<F256e>(op, a),
            _ => dispatch_ext_field(id, tower, op, a),
        };
    }
    match id {
        0 => run_sw::<ark_test_curves::bls12_381::g1::Config>(op, a),
        1 => run_sw::<ark_test_curves::bls12_381::g2::Config>(op, a),
        2 => run_sw::<ark_secp256k1::Config>(op, a),
        3 => run_sw::<ark_bn254::g1::Config>(op, a),
        4 => run_sw::<ark_bn254::g2::Config>(op, a),
        5 => run_sw::<ark_mnt4_298::g1::Config>(op, a),
        6 => run_sw::<ark_mnt4_298::g2::Config>(op, a),
        7 => run_sw::<ark_pallas::PallasConfig>(op, a),
        8 => run_sw::<ark_ed_on_bls12_381_bandersnatch::BandersnatchConfig>(op, a),
        9 => run_sw::<ark_ed_on_bls12_381::JubjubConfig>(op, a),
        10 => run_sw::<ark_mnt6_298::g2::Config>(op, a),
        11 => run_sw::<ark_bls12_377::g2::Config>(op, a),
        20 => run_te::<ark_ed_on_bls12_381::JubjubConfig>(op, a),
        21 => run_te::<ark_ed25519::EdwardsConfig>(op, a),
        22 => run_te::<ark_ed_on_bls12_381_bandersnatch::BandersnatchConfig>(op, a),
        23 => run_te::<ark_test_curves::ed_on_bls12_381::EdwardsConfig>(op, a),
        24 => run_te::<T8>(op, a),
        25 => run_te::<T16>(op, a),
        26 => run_te::<T64>(op, a),
        27 => run_te::<T128>(op, a),
        28 => run_te::<T256>(op, a),
        29 => run_te::<T256b>(op, a),
        _ => dispatch_ext_curve(id, op, a),
    }
}

fn main() {
    main_loop(dispatch);
}
