//! C09 case interpreter: canonical (de)serialization of field elements and curve points.
//! No oracle logic: build the value from the case, call the public
//! CanonicalSerialize / CanonicalDeserialize (+WithFlags) API, print what it returns.
//!
//! Field cases (f_ser_flags, f_ser_plain, f_de_flags, f_de_plain):
//!   a[0] = [cfg_id, N, flag_type, flag_code | compress, validate]
//!   a[1] = [p]   a[2] = [tower]   a[3] = coordinates | bytes
//! Point cases (sw_ser, sw_de, te_ser, te_de):
//!   a[0] = [curve_id, N, compress, validate, projective]
//!   a[1] = [p, deg]  a[2] = [nr]  a[3] = COEFF_A  a[4] = COEFF_B|COEFF_D  a[5] = [r]  a[6..] operands
//! Ordering cases (f_cmp): a[0..2] as for field cases, a[3] = x, a[4] = y (coordinates); returns
//!   [Ord::cmp], [PartialOrd::partial_cmp], [x < y, x <= y, x > y, x >= y]  (0 Less, 1 Equal, 2 Greater) --
//!   the sign flag of a compressed point is exactly `y <= -y` / `x <= -x`, the root order `y < -y`.
//! The configuration constants of a case are compared with the compiled ones (a
//! difference is a harness panic, hence a reported mismatch).
// the derive macro expands to `cfg!(feature = "asm")`, a feature this crate does not declare
#![allow(unexpected_cfgs)]
use ark_ec::short_weierstrass::{self as sw, SWCurveConfig, SWFlags};
use ark_ec::twisted_edwards::{self as te, MontCurveConfig, TECurveConfig, TEFlags};
use ark_ec::CurveConfig;
use ark_ff::fields::fp6_2over3::{Fp6 as Fp6b, Fp6Config as Fp6bConfig};
use ark_ff::fields::fp6_3over2::{Fp6, Fp6Config};
use ark_ff::fields::{Fp128, Fp192, Fp2, Fp256, Fp2Config, Fp3, Fp3Config, Fp4, Fp4Config, Fp64, MontBackend, MontConfig};
use ark_ff::{Field, MontFp, PrimeField, Zero};
use core::cmp::Ordering;
use ark_serialize::{
    CanonicalDeserialize, CanonicalSerialize, Compress, EmptyFlags, SerializationError, Validate,
};
use num_bigint::BigUint;
use vharness::*;

fn bytes_of(a: &Arg) -> Vec<u8> {
    a.iter()
        .map(|c| {
            let v = to_u64(c);
            assert!(v < 256, "harness: byte expected");
            v as u8
        })
        .collect()
}
fn bytes_arg(b: &[u8]) -> Arg {
    b.iter().map(|x| from_u64(*x as u64)).collect()
}
fn num(n: usize) -> Arg {
    vec![from_u64(n as u64)]
}
fn kind(e: &SerializationError) -> u32 {
    match e {
        SerializationError::NotEnoughSpace => 1,
        SerializationError::InvalidData => 2,
        SerializationError::UnexpectedFlags => 3,
        SerializationError::IoError(_) => 4,
    }
}
fn compress_of(v: u64) -> Compress {
    if v != 0 {
        Compress::Yes
    } else {
        Compress::No
    }
}
fn validate_of(v: u64) -> Validate {
    if v != 0 {
        Validate::Yes
    } else {
        Validate::No
    }
}

fn prime<F: PrimeField>(v: &num_bigint::BigInt) -> F {
    let b = u(v);
    let m: BigUint = F::MODULUS.into();
    assert!(b < m, "harness: coordinate not reduced");
    F::from(b)
}
fn elem<F: Field>(a: &Arg) -> F {
    assert_eq!(a.len(), F::extension_degree() as usize, "harness: wrong coordinate count");
    F::from_base_prime_field_elems(a.iter().map(prime::<F::BasePrimeField>)).unwrap()
}
fn coords<F: Field>(x: &F) -> Arg {
    x.to_base_prime_field_elements()
        .map(|c| from_biguint(&c.into_bigint().into()))
        .collect()
}
fn check_modulus<F: Field>(a: &[Arg]) {
    let m: BigUint = <F::BasePrimeField as PrimeField>::MODULUS.into();
    assert_eq!(u(&a[1][0]), m, "harness: modulus differs from the configuration's");
    let n = <F::BasePrimeField as PrimeField>::MODULUS.as_ref().len();
    assert_eq!(to_usize(&a[0][1]), n, "harness: limb count differs");
}

fn sw_flag(c: u64) -> SWFlags {
    match c {
        0 => SWFlags::YIsPositive,
        1 => SWFlags::PointAtInfinity,
        2 => SWFlags::YIsNegative,
        _ => panic!("harness: bad flag code"),
    }
}
fn sw_code(f: SWFlags) -> u64 {
    match f {
        SWFlags::YIsPositive => 0,
        SWFlags::PointAtInfinity => 1,
        SWFlags::YIsNegative => 2,
    }
}
fn te_flag(c: u64) -> TEFlags {
    match c {
        0 => TEFlags::XIsPositive,
        1 => TEFlags::XIsNegative,
        _ => panic!("harness: bad flag code"),
    }
}
fn te_code(f: TEFlags) -> u64 {
    match f {
        TEFlags::XIsPositive => 0,
        TEFlags::XIsNegative => 1,
    }
}

fn ser_flags<F: Field, FL: ark_serialize::Flags>(x: &F, f: FL) -> Vec<Arg> {
    let mut v = Vec::new();
    match x.serialize_with_flags(&mut v, f) {
        Ok(()) => ok(vec![bytes_arg(&v), num(x.serialized_size_with_flags::<FL>())]),
        Err(e) => err(kind(&e)),
    }
}
fn de_flags<F: Field, FL: ark_serialize::Flags>(bytes: &[u8], code: fn(FL) -> u64) -> Vec<Arg> {
    let mut rd = bytes;
    match F::deserialize_with_flags::<_, FL>(&mut rd) {
        Ok((x, f)) => {
            let consumed = bytes.len() - rd.len();
            let mut re = Vec::new();
            x.serialize_with_flags(&mut re, f).unwrap();
            ok(vec![
                coords(&x),
                vec![from_u64(code(f))],
                num(consumed),
                bytes_arg(&re),
                num(x.serialized_size_with_flags::<FL>()),
            ])
        },
        Err(e) => err(kind(&e)),
    }
}

fn run_field<F: Field>(op: &str, a: &[Arg]) -> Vec<Arg> {
    if op == "f_dump" {
        let m: BigUint = <F::BasePrimeField as PrimeField>::MODULUS.into();
        let n = <F::BasePrimeField as PrimeField>::MODULUS.as_ref().len();
        return ok(vec![vec![from_biguint(&m), from_u64(n as u64), from_u64(F::extension_degree())]]);
    }
    check_modulus::<F>(a);
    let ft = to_u64(&a[0][2]);
    let fc = to_u64(&a[0][3]);
    match op {
        "f_ser_flags" => {
            let x: F = elem(&a[3]);
            match ft {
                0 => ser_flags(&x, EmptyFlags),
                1 => ser_flags(&x, sw_flag(fc)),
                2 => ser_flags(&x, te_flag(fc)),
                _ => unsupported(),
            }
        },
        "f_ser_plain" => {
            let x: F = elem(&a[3]);
            let c = compress_of(fc);
            let mut v = Vec::new();
            match x.serialize_with_mode(&mut v, c) {
                Ok(()) => ok(vec![bytes_arg(&v), num(x.serialized_size(c))]),
                Err(e) => err(kind(&e)),
            }
        },
        "f_de_flags" => {
            let bytes = bytes_of(&a[3]);
            match ft {
                0 => de_flags::<F, EmptyFlags>(&bytes, |_| 0),
                1 => de_flags::<F, SWFlags>(&bytes, sw_code),
                2 => de_flags::<F, TEFlags>(&bytes, te_code),
                _ => unsupported(),
            }
        },
        "f_cmp" => {
            let x: F = elem(&a[3]);
            let y: F = elem(&a[4]);
            let code = |o: Ordering| match o {
                Ordering::Less => 0u64,
                Ordering::Equal => 1,
                Ordering::Greater => 2,
            };
            let pc = match x.partial_cmp(&y) {
                Some(o) => code(o),
                None => 3,
            };
            ok(vec![
                vec![from_u64(code(x.cmp(&y)))],
                vec![from_u64(pc)],
                vec![from_bool(x < y), from_bool(x <= y), from_bool(x > y), from_bool(x >= y)],
            ])
        },
        "f_de_plain" => {
            let bytes = bytes_of(&a[3]);
            let c = compress_of(fc);
            let v = validate_of(to_u64(&a[0][4]));
            let mut rd = &bytes[..];
            match F::deserialize_with_mode(&mut rd, c, v) {
                Ok(x) => {
                    let consumed = bytes.len() - rd.len();
                    let mut re = Vec::new();
                    x.serialize_with_mode(&mut re, c).unwrap();
                    ok(vec![coords(&x), num(consumed), bytes_arg(&re), num(x.serialized_size(c))])
                },
                Err(e) => err(kind(&e)),
            }
        },
        _ => unsupported(),
    }
}

fn check_curve<B: Field, S: PrimeField>(a: &[Arg], ca: &B, cb: &B) {
    check_modulus::<B>(a);
    assert_eq!(to_u64(&a[1][1]), B::extension_degree(), "harness: extension degree differs");
    assert_eq!(a[3], coords(ca), "harness: first curve coefficient differs");
    assert_eq!(a[4], coords(cb), "harness: second curve coefficient differs");
    let r: BigUint = S::MODULUS.into();
    assert_eq!(u(&a[5][0]), r, "harness: subgroup order differs");
}


/// configuration constants of a curve, as compiled (used once to write props/C09/curves.json)
fn dump_curve<B: Field, S: PrimeField>(ca: &B, cb: &B, gx: &B, gy: &B, cof: &[u64]) -> Vec<Arg> {
    let m: BigUint = <B::BasePrimeField as PrimeField>::MODULUS.into();
    let n = <B::BasePrimeField as PrimeField>::MODULUS.as_ref().len();
    let d = B::extension_degree() as usize;
    let nr = if d == 2 {
        let mut c = vec![<B::BasePrimeField as Zero>::zero(); 2];
        c[1] = <B::BasePrimeField as Field>::ONE;
        let uu: B = B::from_base_prime_field_elems(c).unwrap();
        vec![coords(&(uu * uu))[0].clone()]
    } else if d == 3 {
        let mut c = vec![<B::BasePrimeField as Zero>::zero(); 3];
        c[1] = <B::BasePrimeField as Field>::ONE;
        let uu: B = B::from_base_prime_field_elems(c).unwrap();
        vec![coords(&(uu * uu * uu))[0].clone()]
    } else {
        vec![]
    };
    let r: BigUint = S::MODULUS.into();
    let mut h = BigUint::from(0u32);
    for l in cof.iter().rev() {
        h = (h << 64) + BigUint::from(*l);
    }
    ok(vec![
        vec![from_biguint(&m), from_u64(d as u64), from_u64(n as u64)],
        nr,
        coords(ca),
        coords(cb),
        vec![from_biguint(&r)],
        coords(gx),
        coords(gy),
        vec![from_biguint(&h)],
    ])
}

fn run_sw<P: SWCurveConfig>(op: &str, a: &[Arg]) -> Vec<Arg> {
    if op == "dump" {
        let g = P::GENERATOR;
        return dump_curve::<P::BaseField, <P as CurveConfig>::ScalarField>(
            &P::COEFF_A, &P::COEFF_B, &g.x, &g.y, P::COFACTOR);
    }
    check_curve::<P::BaseField, <P as CurveConfig>::ScalarField>(a, &P::COEFF_A, &P::COEFF_B);
    let c = compress_of(to_u64(&a[0][2]));
    let v = validate_of(to_u64(&a[0][3]));
    let proj = to_u64(&a[0][4]) != 0;
    match op {
        "sw_ser" => {
            let x: P::BaseField = elem(&a[6]);
            let y: P::BaseField = elem(&a[7]);
            let mut out = Vec::new();
            let (r, size) = if proj {
                let z: P::BaseField = elem(&a[8]);
                let pt = sw::Projective::<P>::new_unchecked(x, y, z);
                (pt.serialize_with_mode(&mut out, c), pt.serialized_size(c))
            } else {
                let pt = if to_u64(&a[8][0]) != 0 {
                    assert!(x.is_zero() && y.is_zero(), "harness: identity has zero coordinates");
                    sw::Affine::<P>::identity()
                } else {
                    sw::Affine::<P>::new_unchecked(x, y)
                };
                (pt.serialize_with_mode(&mut out, c), pt.serialized_size(c))
            };
            match r {
                Ok(()) => ok(vec![bytes_arg(&out), num(size)]),
                Err(e) => err(kind(&e)),
            }
        },
        "sw_de" => {
            let bytes = bytes_of(&a[6]);
            let mut rd = &bytes[..];
            if proj {
                match sw::Projective::<P>::deserialize_with_mode(&mut rd, c, v) {
                    Ok(p) => ok(vec![
                        coords(&p.x),
                        coords(&p.y),
                        coords(&p.z),
                        num(bytes.len() - rd.len()),
                    ]),
                    Err(e) => err(kind(&e)),
                }
            } else {
                match sw::Affine::<P>::deserialize_with_mode(&mut rd, c, v) {
                    Ok(p) => ok(vec![
                        coords(&p.x),
                        coords(&p.y),
                        vec![from_bool(p.infinity)],
                        num(bytes.len() - rd.len()),
                    ]),
                    Err(e) => err(kind(&e)),
                }
            }
        },
        _ => unsupported(),
    }
}

fn run_te<P: TECurveConfig>(op: &str, a: &[Arg]) -> Vec<Arg> {
    if op == "dump" {
        let g = P::GENERATOR;
        return dump_curve::<P::BaseField, <P as CurveConfig>::ScalarField>(
            &P::COEFF_A, &P::COEFF_D, &g.x, &g.y, P::COFACTOR);
    }
    check_curve::<P::BaseField, <P as CurveConfig>::ScalarField>(a, &P::COEFF_A, &P::COEFF_D);
    let c = compress_of(to_u64(&a[0][2]));
    let v = validate_of(to_u64(&a[0][3]));
    let proj = to_u64(&a[0][4]) != 0;
    match op {
        "te_ser" => {
            let x: P::BaseField = elem(&a[6]);
            let y: P::BaseField = elem(&a[7]);
            let mut out = Vec::new();
            let (r, size) = if proj {
                let t: P::BaseField = elem(&a[8]);
                let z: P::BaseField = elem(&a[9]);
                let pt = te::Projective::<P>::new_unchecked(x, y, t, z);
                (pt.serialize_with_mode(&mut out, c), pt.serialized_size(c))
            } else {
                let pt = te::Affine::<P>::new_unchecked(x, y);
                (pt.serialize_with_mode(&mut out, c), pt.serialized_size(c))
            };
            match r {
                Ok(()) => ok(vec![bytes_arg(&out), num(size)]),
                Err(e) => err(kind(&e)),
            }
        },
        "te_de" => {
            let bytes = bytes_of(&a[6]);
            let mut rd = &bytes[..];
            if proj {
                match te::Projective::<P>::deserialize_with_mode(&mut rd, c, v) {
                    Ok(p) => ok(vec![
                        coords(&p.x),
                        coords(&p.y),
                        coords(&p.t),
                        coords(&p.z),
                        num(bytes.len() - rd.len()),
                    ]),
                    Err(e) => err(kind(&e)),
                }
            } else {
                match te::Affine::<P>::deserialize_with_mode(&mut rd, c, v) {
                    Ok(p) => ok(vec![coords(&p.x), coords(&p.y), num(bytes.len() - rd.len())]),
                    Err(e) => err(kind(&e)),
                }
            }
        },
        _ => unsupported(),
    }
}

// ---- toy / medium prime fields: every residue of MODULUS_BIT_SIZE mod 8, and bits = 64 N ----
macro_rules! toy {
    ($cfg:ident, $ty:ident, $fp:ident, $n:tt, $m:tt) => {
        toy!($cfg, $ty, $fp, $n, $m, "2");
    };
    ($cfg:ident, $ty:ident, $fp:ident, $n:tt, $m:tt, $g:tt) => {
        #[derive(MontConfig)]
        #[modulus = $m]
        #[generator = $g]
        pub struct $cfg;
        pub type $ty = $fp<MontBackend<$cfg, $n>>;
    };
}
toy!(C8, F8, Fp64, 1, "251");
toy!(C15, F15, Fp64, 1, "32749");
// 65521 = 1 mod 8, so 2 is a square: Field::sqrt (Tonelli-Shanks, used by the T16 curve below) needs a
// genuine generator for TWO_ADIC_ROOT_OF_UNITY; 17 is a primitive root
toy!(C16, F16, Fp64, 1, "65521", "17");
toy!(C17, F17, Fp64, 1, "131071");
toy!(C61, F61, Fp64, 1, "2305843009213693951");
toy!(C63, F63, Fp64, 1, "9223372036854775783");
toy!(C64, F64, Fp64, 1, "18446744073709551557");
toy!(C127, F127, Fp128, 2, "170141183460469231731687303715884105727");
toy!(C128, F128, Fp128, 2, "340282366920938463463374607431768211297");
toy!(C192, F192, Fp192, 3, "6277101735386680763835789423207666416083908700390324961279");
toy!(C12b, F12b, Fp64, 1, "4093");
toy!(C13b, F13b, Fp64, 1, "8191");
toy!(C14b, F14b, Fp64, 1, "16381");
toy!(C62, F62, Fp64, 1, "2849647038907036733");
toy!(C11b, F11b, Fp64, 1, "2039");


// ---- twisted-Edwards curves over base fields with MODULUS_BIT_SIZE % 8 == 0 (no spare bit for the x-sign
// flag in the top byte of y).  Constants derived by props/C09/mkte.py; all curves are complete (a square,
// d non-square).  T8/T16/T64/T128/T256b: #E = 4 r with r prime (ScalarField = F_r).  T256 (secp256k1 base
// field): #E = p + 1 is not factored, ScalarField/COFACTOR are formal (r*P = O only for the identity).
toy!(C128e, F128e, Fp128, 2, "340282366920938463463374607431768103891");
toy!(C256e, F256e, Fp256, 4, "115792089237316195423570985008687907853269984665640564039457584007913129601683");
toy!(CR8, R8, Fp64, 1, "59");
toy!(CR16, R16, Fp64, 1, "16267");
toy!(CR64, R64, Fp64, 1, "4611686018532695467");
toy!(CR128, R128, Fp128, 2, "85070591730234615865843651857942025973");
toy!(CR256, R256, Fp256, 4, "28948022309329048855892746252171976963317496166410141009864396001978282400421");
macro_rules! te_curve {
    ($cfg:ident, $fq:ty, $fr:ty, $a:tt, $d:tt, $gx:tt, $gy:tt, $h:tt, $hinv:tt, $ma:tt, $mb:tt) => {
        #[derive(Clone, Default, PartialEq, Eq)]
        pub struct $cfg;
        impl CurveConfig for $cfg {
            type BaseField = $fq;
            type ScalarField = $fr;
            const COFACTOR: &'static [u64] = &[$h];
            const COFACTOR_INV: $fr = MontFp!($hinv);
        }
        impl TECurveConfig for $cfg {
            const COEFF_A: $fq = MontFp!($a);
            const COEFF_D: $fq = MontFp!($d);
            const GENERATOR: te::Affine<Self> = te::Affine::<Self>::new_unchecked(MontFp!($gx), MontFp!($gy));
            type MontCurveConfig = $cfg;
        }
        impl MontCurveConfig for $cfg {
            const COEFF_A: $fq = MontFp!($ma);
            const COEFF_B: $fq = MontFp!($mb);
            type TECurveConfig = $cfg;
        }
    };
}
te_curve!(T8, F8, R8, "196", "76", "216", "133", 4, "15", "38", "159");
te_curve!(T16, F16, R16, "21579", "8730", "50373", "8715", 4, "4067", "14859", "56689");
te_curve!(T64, F64, R64, "2651949017411421161", "1597271433543068309", "16842461655196175986",
    "914657001459729111", 4, "1152921504633173867", "18404380091693933318", "15721454427847257864");
te_curve!(T128, F128e, R128, "1", "-1", "243696223229155385388154514777379684370",
    "237433905823834147221889066192371689789", 4, "63802943797675961899382738893456519480", "0", "2");
te_curve!(T256, ark_test_curves::secp256k1::Fq, ark_test_curves::secp256k1::Fr, "1", "-1",
    "68322748304924919175438803325720074731664608905715187791460726261469339981870",
    "7593545717158916129939939954992389902636280197373203680797167759953178065820", 1, "1", "0", "2");
te_curve!(T256b, F256e, R256, "1", "-1",
    "57026472402377723564442318405386017885664877206296213894583325893179282240723",
    "53322614531946817034109513010072318691192807935685121481147686512563804750650", 4,
    "21711016731996786641919559689128982722488122124807605757398297001483711800316", "0", "2");

// ---- extension towers over base fields whose top byte cannot hold the flags (bits = 0 / 7 mod 8), and curves over
// them.  Constants derived by props/C09/mkext.py, which rewrites the block between the markers.
macro_rules! sw_curve {
    ($cfg:ident, $fq:ty, $fr:ty, $a:expr, $b:expr, $gx:expr, $gy:expr, $h:expr, $hinv:tt) => {
        #[derive(Clone, Default, PartialEq, Eq)]
        pub struct $cfg;
        impl CurveConfig for $cfg {
            type BaseField = $fq;
            type ScalarField = $fr;
            const COFACTOR: &'static [u64] = $h;
            const COFACTOR_INV: $fr = MontFp!($hinv);
        }
        impl SWCurveConfig for $cfg {
            const COEFF_A: $fq = $a;
            const COEFF_B: $fq = $b;
            const GENERATOR: sw::Affine<Self> = sw::Affine::<Self>::new_unchecked($gx, $gy);
        }
    };
}
macro_rules! te_curve_x {
    ($cfg:ident, $fq:ty, $fr:ty, $a:expr, $d:expr, $gx:expr, $gy:expr, $h:expr, $hinv:tt, $ma:expr, $mb:expr) => {
        #[derive(Clone, Default, PartialEq, Eq)]
        pub struct $cfg;
        impl CurveConfig for $cfg {
            type BaseField = $fq;
            type ScalarField = $fr;
            const COFACTOR: &'static [u64] = $h;
            const COFACTOR_INV: $fr = MontFp!($hinv);
        }
        impl TECurveConfig for $cfg {
            const COEFF_A: $fq = $a;
            const COEFF_D: $fq = $d;
            const GENERATOR: te::Affine<Self> = te::Affine::<Self>::new_unchecked($gx, $gy);
            type MontCurveConfig = $cfg;
        }
        impl MontCurveConfig for $cfg {
            const COEFF_A: $fq = $ma;
            const COEFF_B: $fq = $mb;
            type TECurveConfig = $cfg;
        }
    };
}
// ---- BEGIN generated by props/C09/mkext.py (do not edit by hand) ----
// ---- END generated by props/C09/mkext.py ----

fn dispatch(op: &str, a: &[Arg]) -> Vec<Arg> {
    let id = to_u64(&a[0][0]);
    if op.starts_with("f_") {
        let tower = to_u64(&a[2][0]);
        use ark_test_curves::bls12_381 as tb;
        return match (id, tower) {
            (0, 1) => run_field::<F8>(op, a),
            (1, 1) => run_field::<F15>(op, a),
            (2, 1) => run_field::<F16>(op, a),
            (3, 1) => run_field::<F17>(op, a),
            (4, 1) => run_field::<F61>(op, a),
            (5, 1) => run_field::<F63>(op, a),
            (6, 1) => run_field::<F64>(op, a),
            (7, 1) => run_field::<F127>(op, a),
            (8, 1) => run_field::<F128>(op, a),
            (9, 1) => run_field::<ark_ed25519::Fq>(op, a),
            (10, 1) => run_field::<ark_secp256k1::Fq>(op, a),
            (11, 1) => run_field::<tb::Fq>(op, a),
            (11, 2) => run_field::<tb::Fq2>(op, a),
            (11, 6) => run_field::<tb::Fq6>(op, a),
            (11, 12) => run_field::<tb::Fq12>(op, a),
            (12, 1) => run_field::<ark_test_curves::mnt6_753::Fq>(op, a),
            (12, 3) => run_field::<ark_test_curves::mnt6_753::Fq3>(op, a),
            (13, 1) => run_field::<ark_bn254::Fq>(op, a),
            (13, 2) => run_field::<ark_bn254::Fq2>(op, a),
            (13, 6) => run_field::<ark_bn254::Fq6>(op, a),
            (13, 12) => run_field::<ark_bn254::Fq12>(op, a),
            (14, 1) => run_field::<ark_mnt4_298::Fq>(op, a),
            (14, 2) => run_field::<ark_mnt4_298::Fq2>(op, a),
            (14, 4) => run_field::<ark_mnt4_298::Fq4>(op, a),
            (15, 1) => run_field::<ark_pallas::Fq>(op, a),
            (16, 1) => run_field::<ark_ed_on_bls12_381::Fq>(op, a),
            (17, 1) => run_field::<F192>(op, a),
            (18, 1) => run_field::<ark_mnt6_298::Fq>(op, a),
            (18, 3) => run_field::<ark_mnt6_298::Fq3>(op, a),
            (18, 32) => run_field::<ark_mnt6_298::Fq6>(op, a),
            (19, 1) => run_field::<F12b>(op, a),
            (20, 1) => run_field::<F13b>(op, a),
            (21, 1) => run_field::<F14b>(op, a),
            (22, 1) => run_field::<F62>(op, a),
            (23, 1) => run_field::<ark_secp256k1::Fr>(op, a),
            (24, 1) => run_field::<F11b>(op, a),
            (25, 1) => run_field::<F128e>(op, a),
            (26, 1) => run_field::<F256e>(op, a),
            _ => dispatch_ext_field(id, tower, op, a),
        };
    }
    match id {
        0 => run_sw::<ark_test_curves::bls12_381::g1::Config>(op, a),
        1 => run_sw::<ark_test_curves::bls12_381::g2::Config>(op, a),
        2 => run_sw::<ark_secp256k1::Config>(op, a),
        3 => run_sw::<ark_bn254::g1::Config>(op, a),
        4 => run_sw::<ark_bn254::g2::Config>(op, a),
        5 => run_sw::<ark_mnt4_298::g1::Config>(op, a),
        6 => run_sw::<ark_mnt4_298::g2::Config>(op, a),
        7 => run_sw::<ark_pallas::PallasConfig>(op, a),
        8 => run_sw::<ark_ed_on_bls12_381_bandersnatch::BandersnatchConfig>(op, a),
        9 => run_sw::<ark_ed_on_bls12_381::JubjubConfig>(op, a),
        10 => run_sw::<ark_mnt6_298::g2::Config>(op, a),
        11 => run_sw::<ark_bls12_377::g2::Config>(op, a),
        20 => run_te::<ark_ed_on_bls12_381::JubjubConfig>(op, a),
        21 => run_te::<ark_ed25519::EdwardsConfig>(op, a),
        22 => run_te::<ark_ed_on_bls12_381_bandersnatch::BandersnatchConfig>(op, a),
        23 => run_te::<ark_test_curves::ed_on_bls12_381::EdwardsConfig>(op, a),
        24 => run_te::<T8>(op, a),
        25 => run_te::<T16>(op, a),
        26 => run_te::<T64>(op, a),
        27 => run_te::<T128>(op, a),
        28 => run_te::<T256>(op, a),
        29 => run_te::<T256b>(op, a),
        _ => dispatch_ext_curve(id, op, a),
    }
}

fn main() {
    main_loop(dispatch);
}
