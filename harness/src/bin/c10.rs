//! C10 case interpreter: checked deserialization of field elements, curve points and pairing
//! outputs; Valid::check / batch_check.  No oracle logic: build the input from the case, call the
//! public CanonicalDeserialize / Valid API, print what it returns (value, bytes consumed).
//!
//! f_de:   a[0] = [cfg_id, N, 0, compress, validate]  a[1] = [p]  a[2] = [tower]  a[3] = bytes
//! po_de:  a[0] = [cfg_id, N, compress, validate]  a[1] = [p]  a[2] = [tower]  a[3] = [nr2, nr6_c0, nr6_c1]
//!         a[4] = [r]  a[5] = bytes
//!         tower = 4 | 12 (extension degree), or 32 = "2 over 3": Fp6 = Fp3[v]/(v^2 - u), Fp3 = Fp[u]/(u^3 - nr3),
//!         a[3] = [nr3] (CP6-782, BW6-767, BW6-761, MNT6-298)
//! point ops (sw_de, te_de, zc_de, sw_check, te_check):
//!   a[0] = [curve_id, N, compress, validate, projective]
//!   a[1] = [p, deg]  a[2] = [nr]  a[3] = COEFF_A  a[4] = COEFF_B|COEFF_D  a[5] = [r]  a[6] = COFACTOR limbs
//!   de: a[7] = bytes;   check: a[7] = [batch], a[8..] = points
//! The configuration constants of a case are compared with the compiled ones (a difference is a
//! harness panic, hence a reported mismatch).
#![allow(unexpected_cfgs)]
use ark_ec::pairing::{Pairing, PairingOutput};
use ark_ec::short_weierstrass::{self as sw, SWCurveConfig};
use ark_ec::twisted_edwards::{self as te, TECurveConfig};
use ark_ec::CurveConfig;
use ark_ff::fields::{Fp128, Fp64, MontBackend, MontConfig};
use ark_ff::{Field, MontFp, PrimeField, Zero};
use ark_serialize::{CanonicalDeserialize, Compress, SerializationError, Valid, Validate};
use num_bigint::BigUint;
use vharness::*;

fn bytes_of(a: &Arg) -> Vec<u8> {
    a.iter()
        .map(|c| {
            let v = to_u64(c);
            assert!(v < 256, "harness: byte expected");
            v as u8
        })
        .collect()
}
fn bytes_arg(b: &[u8]) -> Arg {
    b.iter().map(|x| from_u64(*x as u64)).collect()
}
fn num(n: usize) -> Arg {
    vec![from_u64(n as u64)]
}
fn kind(e: &SerializationError) -> u32 {
    match e {
        SerializationError::NotEnoughSpace => 1,
        SerializationError::InvalidData => 2,
        SerializationError::UnexpectedFlags => 3,
        SerializationError::IoError(_) => 4,
    }
}
fn compress_of(v: u64) -> Compress {
    if v != 0 {
        Compress::Yes
    } else {
        Compress::No
    }
}
fn validate_of(v: u64) -> Validate {
    if v != 0 {
        Validate::Yes
    } else {
        Validate::No
    }
}
fn prime<F: PrimeField>(v: &num_bigint::BigInt) -> F {
    let b = u(v);
    let m: BigUint = F::MODULUS.into();
    assert!(b < m, "harness: coordinate not reduced");
    F::from(b)
}
fn elem_of<F: Field>(a: &[num_bigint::BigInt]) -> F {
    assert_eq!(a.len(), F::extension_degree() as usize, "harness: wrong coordinate count");
    F::from_base_prime_field_elems(a.iter().map(prime::<F::BasePrimeField>)).unwrap()
}
fn coords<F: Field>(x: &F) -> Arg {
    x.to_base_prime_field_elements()
        .map(|c| from_biguint(&c.into_bigint().into()))
        .collect()
}
fn check_modulus<F: Field>(a: &[Arg]) {
    let m: BigUint = <F::BasePrimeField as PrimeField>::MODULUS.into();
    assert_eq!(u(&a[1][0]), m, "harness: modulus differs from the configuration's");
    let n = <F::BasePrimeField as PrimeField>::MODULUS.as_ref().len();
    assert_eq!(to_usize(&a[0][1]), n, "harness: limb count differs");
}
fn limbs_value(l: &[u64]) -> BigUint {
    let mut h = BigUint::from(0u32);
    for x in l.iter().rev() {
        h = (h << 64) + BigUint::from(*x);
    }
    h
}
fn res_unit(r: Result<(), SerializationError>) -> Vec<Arg> {
    match r {
        Ok(()) => ok(vec![]),
        Err(e) => err(kind(&e)),
    }
}

fn run_field<F: Field>(op: &str, a: &[Arg]) -> Vec<Arg> {
    check_modulus::<F>(a);
    match op {
        "f_de" => {
            let bytes = bytes_of(&a[3]);
            let c = compress_of(to_u64(&a[0][3]));
            let v = validate_of(to_u64(&a[0][4]));
            let mut rd = &bytes[..];
            match F::deserialize_with_mode(&mut rd, c, v) {
                Ok(x) => {
                    let consumed = bytes.len() - rd.len();
                    let mut re = Vec::new();
                    x.serialize_with_mode(&mut re, c).unwrap();
                    ok(vec![coords(&x), num(consumed), bytes_arg(&re)])
                },
                Err(e) => err(kind(&e)),
            }
        },
        _ => unsupported(),
    }
}

/// PairingOutput<E>; `po_dump` prints the tower constants the case format carries
fn run_po<E: Pairing>(op: &str, a: &[Arg]) -> Vec<Arg> {
    type Tf<E> = <E as Pairing>::TargetField;
    let d = <Tf<E> as Field>::extension_degree() as usize;
    let unit = |i: usize| -> Tf<E> {
        let mut c = vec![<<Tf<E> as Field>::BasePrimeField as Zero>::zero(); d];
        c[i] = <<Tf<E> as Field>::BasePrimeField as Field>::ONE;
        <Tf<E> as Field>::from_base_prime_field_elems(c).unwrap()
    };
    if op == "po_dump" {
        let m: BigUint = <<Tf<E> as Field>::BasePrimeField as PrimeField>::MODULUS.into();
        let n = <<Tf<E> as Field>::BasePrimeField as PrimeField>::MODULUS.as_ref().len();
        let r: BigUint = <E::ScalarField as PrimeField>::MODULUS.into();
        let uu = unit(1);
        let v = unit(2);
        let w = unit(d / 2);
        return ok(vec![
            vec![from_biguint(&m), from_u64(n as u64), from_u64(d as u64)],
            vec![from_biguint(&r)],
            coords(&(uu * uu)),
            coords(&(v * v)),
            coords(&(v * v * v)),
            coords(&(w * w)),
            coords(&(uu * uu * uu)),
        ]);
    }
    check_modulus::<Tf<E>>(a);
    let tw = to_usize(&a[2][0]);
    assert_eq!(if tw == 32 { 6 } else { tw }, d, "harness: tower degree differs");
    let r: BigUint = <E::ScalarField as PrimeField>::MODULUS.into();
    assert_eq!(u(&a[4][0]), r, "harness: r differs");
    match op {
        "po_de" => {
            let bytes = bytes_of(&a[5]);
            let c = compress_of(to_u64(&a[0][2]));
            let v = validate_of(to_u64(&a[0][3]));
            let mut rd = &bytes[..];
            match PairingOutput::<E>::deserialize_with_mode(&mut rd, c, v) {
                Ok(x) => ok(vec![coords(&x.0), num(bytes.len() - rd.len())]),
                Err(e) => err(kind(&e)),
            }
        },
        _ => unsupported(),
    }
}

fn check_curve<B: Field, S: PrimeField>(a: &[Arg], ca: &B, cb: &B, cof: &[u64]) {
    check_modulus::<B>(a);
    assert_eq!(to_u64(&a[1][1]), B::extension_degree(), "harness: extension degree differs");
    assert_eq!(a[3], coords(ca), "harness: first curve coefficient differs");
    assert_eq!(a[4], coords(cb), "harness: second curve coefficient differs");
    let r: BigUint = S::MODULUS.into();
    assert_eq!(u(&a[5][0]), r, "harness: subgroup order differs");
    assert_eq!(limbs_value(&arg_limbs(&a[6])), limbs_value(cof), "harness: cofactor differs");
    assert_eq!(&arg_limbs(&a[6])[..], cof, "harness: cofactor limbs differ");
}

fn dump_curve<B: Field, S: PrimeField>(ca: &B, cb: &B, gx: &B, gy: &B, cof: &[u64]) -> Vec<Arg> {
    let m: BigUint = <B::BasePrimeField as PrimeField>::MODULUS.into();
    let n = <B::BasePrimeField as PrimeField>::MODULUS.as_ref().len();
    let d = B::extension_degree() as usize;
    let nr = if d == 2 {
        let mut c = vec![<B::BasePrimeField as Zero>::zero(); 2];
        c[1] = <B::BasePrimeField as Field>::ONE;
        let uu: B = B::from_base_prime_field_elems(c).unwrap();
        vec![coords(&(uu * uu))[0].clone()]
    } else if d == 3 {
        // Fp3 = Fp[u]/(u^3 - nr)
        let mut c = vec![<B::BasePrimeField as Zero>::zero(); 3];
        c[1] = <B::BasePrimeField as Field>::ONE;
        let uu: B = B::from_base_prime_field_elems(c).unwrap();
        let cube = coords(&(uu * uu * uu));
        assert!(cube[1] == from_u64(0) && cube[2] == from_u64(0), "harness: u^3 is not in Fp");
        vec![cube[0].clone()]
    } else {
        vec![]
    };
    let r: BigUint = S::MODULUS.into();
    ok(vec![
        vec![from_biguint(&m), from_u64(d as u64), from_u64(n as u64)],
        nr,
        coords(ca),
        coords(cb),
        vec![from_biguint(&r)],
        coords(gx),
        coords(gy),
        limbs_arg(cof),
    ])
}

fn sw_affine<P: SWCurveConfig>(l: &Arg) -> sw::Affine<P> {
    let d = P::BaseField::extension_degree() as usize;
    assert_eq!(l.len(), 2 * d + 1, "harness: affine point = x, y, infinity");
    let x: P::BaseField = elem_of(&l[0..d]);
    let y: P::BaseField = elem_of(&l[d..2 * d]);
    if to_u64(&l[2 * d]) != 0 {
        assert!(x.is_zero() && y.is_zero(), "harness: identity has zero coordinates");
        sw::Affine::<P>::identity()
    } else {
        sw::Affine::<P>::new_unchecked(x, y)
    }
}
fn sw_proj<P: SWCurveConfig>(l: &Arg) -> sw::Projective<P> {
    let d = P::BaseField::extension_degree() as usize;
    assert_eq!(l.len(), 3 * d, "harness: projective point = X, Y, Z");
    sw::Projective::<P>::new_unchecked(elem_of(&l[0..d]), elem_of(&l[d..2 * d]), elem_of(&l[2 * d..3 * d]))
}
fn te_affine<P: TECurveConfig>(l: &Arg) -> te::Affine<P> {
    let d = P::BaseField::extension_degree() as usize;
    assert_eq!(l.len(), 2 * d, "harness: affine point = x, y");
    te::Affine::<P>::new_unchecked(elem_of(&l[0..d]), elem_of(&l[d..2 * d]))
}
fn te_proj<P: TECurveConfig>(l: &Arg) -> te::Projective<P> {
    let d = P::BaseField::extension_degree() as usize;
    assert_eq!(l.len(), 4 * d, "harness: projective point = X, Y, T, Z");
    te::Projective::<P>::new_unchecked(
        elem_of(&l[0..d]),
        elem_of(&l[d..2 * d]),
        elem_of(&l[2 * d..3 * d]),
        elem_of(&l[3 * d..4 * d]),
    )
}

fn run_sw<P: SWCurveConfig>(op: &str, a: &[Arg]) -> Vec<Arg> {
    if op == "dump" {
        let g = P::GENERATOR;
        return dump_curve::<P::BaseField, <P as CurveConfig>::ScalarField>(
            &P::COEFF_A, &P::COEFF_B, &g.x, &g.y, P::COFACTOR);
    }
    check_curve::<P::BaseField, <P as CurveConfig>::ScalarField>(a, &P::COEFF_A, &P::COEFF_B, P::COFACTOR);
    let c = compress_of(to_u64(&a[0][2]));
    let v = validate_of(to_u64(&a[0][3]));
    let proj = to_u64(&a[0][4]) != 0;
    match op {
        // zc_de is the same call: the ZCash encoding is what the bls12_381 crate's Config overrides
        "sw_de" | "zc_de" => {
            let bytes = bytes_of(&a[7]);
            let mut rd = &bytes[..];
            if proj {
                match sw::Projective::<P>::deserialize_with_mode(&mut rd, c, v) {
                    Ok(p) => ok(vec![coords(&p.x), coords(&p.y), coords(&p.z), num(bytes.len() - rd.len())]),
                    Err(e) => err(kind(&e)),
                }
            } else {
                match sw::Affine::<P>::deserialize_with_mode(&mut rd, c, v) {
                    Ok(p) => ok(vec![
                        coords(&p.x),
                        coords(&p.y),
                        vec![from_bool(p.infinity)],
                        num(bytes.len() - rd.len()),
                    ]),
                    Err(e) => err(kind(&e)),
                }
            }
        },
        "sw_check" => {
            let batch = to_u64(&a[7][0]) != 0;
            if proj {
                let pts: Vec<sw::Projective<P>> = a[8..].iter().map(sw_proj::<P>).collect();
                if batch {
                    res_unit(sw::Projective::<P>::batch_check(pts.iter()))
                } else {
                    res_unit(pts[0].check())
                }
            } else {
                let pts: Vec<sw::Affine<P>> = a[8..].iter().map(sw_affine::<P>).collect();
                if batch {
                    res_unit(sw::Affine::<P>::batch_check(pts.iter()))
                } else {
                    res_unit(pts[0].check())
                }
            }
        },
        _ => unsupported(),
    }
}

fn run_te<P: TECurveConfig>(op: &str, a: &[Arg]) -> Vec<Arg> {
    if op == "dump" {
        let g = P::GENERATOR;
        return dump_curve::<P::BaseField, <P as CurveConfig>::ScalarField>(
            &P::COEFF_A, &P::COEFF_D, &g.x, &g.y, P::COFACTOR);
    }
    check_curve::<P::BaseField, <P as CurveConfig>::ScalarField>(a, &P::COEFF_A, &P::COEFF_D, P::COFACTOR);
    let c = compress_of(to_u64(&a[0][2]));
    let v = validate_of(to_u64(&a[0][3]));
    let proj = to_u64(&a[0][4]) != 0;
    match op {
        "te_de" => {
            let bytes = bytes_of(&a[7]);
            let mut rd = &bytes[..];
            if proj {
                match te::Projective::<P>::deserialize_with_mode(&mut rd, c, v) {
                    Ok(p) => ok(vec![
                        coords(&p.x),
                        coords(&p.y),
                        coords(&p.t),
                        coords(&p.z),
                        num(bytes.len() - rd.len()),
                    ]),
                    Err(e) => err(kind(&e)),
                }
            } else {
                match te::Affine::<P>::deserialize_with_mode(&mut rd, c, v) {
                    Ok(p) => ok(vec![coords(&p.x), coords(&p.y), num(bytes.len() - rd.len())]),
                    Err(e) => err(kind(&e)),
                }
            }
        },
        "te_check" => {
            let batch = to_u64(&a[7][0]) != 0;
            if proj {
                let pts: Vec<te::Projective<P>> = a[8..].iter().map(te_proj::<P>).collect();
                if batch {
                    res_unit(te::Projective::<P>::batch_check(pts.iter()))
                } else {
                    res_unit(pts[0].check())
                }
            } else {
                let pts: Vec<te::Affine<P>> = a[8..].iter().map(te_affine::<P>).collect();
                if batch {
                    res_unit(te::Affine::<P>::batch_check(pts.iter()))
                } else {
                    res_unit(pts[0].check())
                }
            }
        },
        _ => unsupported(),
    }
}

// ---- toy curves: one- and two-byte encodings, cofactors 1, 2, 4, 8 ----
mod toy {
    use super::*;
    macro_rules! toyf {
        ($cfg:ident, $ty:ident, $m:tt, $g:tt) => {
            #[derive(MontConfig)]
            #[modulus = $m]
            #[generator = $g]
            pub struct $cfg;
            pub type $ty = Fp64<MontBackend<$cfg, 1>>;
        };
    }
    toyf!(C59, F59, "59", "2");
    toyf!(C61, F61, "61", "2");
    toyf!(C43, F43, "43", "3");
    toyf!(C127, F127, "127", "3");
    toyf!(C113, F113, "113", "3");
    toyf!(C29, F29, "29", "2");
    toyf!(C19, F19, "19", "2");
    toyf!(C31, F31, "31", "3");
    toyf!(C13, F13, "13", "2");
    // a 71-bit prime (two limbs), p = 1 mod 3
    #[derive(MontConfig)]
    #[modulus = "1715547198828749693287"]
    #[generator = "3"]
    pub struct C71;
    pub type F71 = Fp128<MontBackend<C71, 2>>;

    macro_rules! toysw {
        ($nm:ident, $fq:ident, $fr:ident, $h:expr, $hinv:tt, $a:tt, $b:tt, $gx:tt, $gy:tt) => {
            #[derive(Clone, Default, PartialEq, Eq)]
            pub struct $nm;
            impl CurveConfig for $nm {
                type BaseField = $fq;
                type ScalarField = $fr;
                const COFACTOR: &'static [u64] = &$h;
                const COFACTOR_INV: $fr = MontFp!($hinv);
            }
            impl SWCurveConfig for $nm {
                const COEFF_A: $fq = MontFp!($a);
                const COEFF_B: $fq = MontFp!($b);
                const GENERATOR: sw::Affine<Self> = sw::Affine::new_unchecked(MontFp!($gx), MontFp!($gy));
            }
        };
    }
    macro_rules! toyte {
        ($nm:ident, $fq:ident, $fr:ident, $h:expr, $hinv:tt, $a:tt, $d:tt, $gx:tt, $gy:tt) => {
            #[derive(Clone, Default, PartialEq, Eq)]
            pub struct $nm;
            impl CurveConfig for $nm {
                type BaseField = $fq;
                type ScalarField = $fr;
                const COFACTOR: &'static [u64] = &$h;
                const COFACTOR_INV: $fr = MontFp!($hinv);
            }
            impl TECurveConfig for $nm {
                const COEFF_A: $fq = MontFp!($a);
                const COEFF_D: $fq = MontFp!($d);
                const GENERATOR: te::Affine<Self> = te::Affine::new_unchecked(MontFp!($gx), MontFp!($gy));
                type MontCurveConfig = $nm;
            }
            impl ark_ec::twisted_edwards::MontCurveConfig for $nm {
                const COEFF_A: $fq = MontFp!("0");
                const COEFF_B: $fq = MontFp!("1");
                type TECurveConfig = $nm;
            }
        };
    }
    // y^2 = x^3 + x + 17 over F_59: 58 points, r = 29, h = 2
    toysw!(Sw100, F59, F29, [2], "15", "1", "17", "46", "7");
    // y^2 = x^3 + 8 over F_61: 76 points, r = 19, h = 4 (COEFF_A = 0 branch; p = 1 mod 4)
    toysw!(Sw101, F61, F19, [4], "5", "0", "8", "50", "18");
    // y^2 = x^3 + 7 over F_43: 31 points, h = 1 (cofactor-one shortcut)
    toysw!(Sw102, F43, F31, [1], "1", "0", "7", "2", "12");
    // the same three curves with the COFACTOR constant written with several limbs (zero-padded): cofactor_is_one()
    // has to look at every limb (2 -> [2, 0]; 4 -> [4, 0, 0]; 1 -> [1, 0] and [1, 0, 0, 0] are still "one")
    toysw!(Sw103, F59, F29, [2, 0], "15", "1", "17", "46", "7");
    toysw!(Sw104, F61, F19, [4, 0, 0], "5", "0", "8", "50", "18");
    toysw!(Sw105, F43, F31, [1, 0], "1", "0", "7", "2", "12");
    toysw!(Sw106, F43, F31, [1, 0, 0, 0], "1", "0", "7", "2", "12");
    // y^2 = x^3 + 3 over the 71-bit field (CM discriminant -3): 31 * (3 * 2^64 + 1) points, r = 31, and the cofactor
    // 3 * 2^64 + 1 = [1, 3] has low limb 1 and a non-zero high limb (the shape of BLS12-377 G2's cofactor)
    toysw!(Sw107, F71, F31, [1, 3], "19", "0", "3", "1279837686152009351912", "1466067233445974373867");
    // x^2 + y^2 = 1 + 10 x^2 y^2 over F_127: 124 points, r = 31, h = 4
    toyte!(Te120, F127, F31, [4], "8", "1", "10", "65", "90");
    // -x^2 + y^2 = 1 + 40 x^2 y^2 over F_113: 104 points, r = 13, h = 8
    toyte!(Te121, F113, F13, [8], "5", "112", "40", "108", "50");
    toyte!(Te122, F127, F31, [4, 0], "8", "1", "10", "65", "90");
}

fn dispatch(op: &str, a: &[Arg]) -> Vec<Arg> {
    let id = to_u64(&a[0][0]);
    if op == "f_de" {
        let tower = to_u64(&a[2][0]);
        use ark_test_curves::bls12_381 as tb;
        return match (id, tower) {
            (9, 1) => run_field::<ark_ed25519::Fq>(op, a),
            (10, 1) => run_field::<ark_secp256k1::Fq>(op, a),
            (11, 1) => run_field::<tb::Fq>(op, a),
            (11, 2) => run_field::<tb::Fq2>(op, a),
            (11, 6) => run_field::<tb::Fq6>(op, a),
            (11, 12) => run_field::<tb::Fq12>(op, a),
            (13, 1) => run_field::<ark_bn254::Fq>(op, a),
            (13, 2) => run_field::<ark_bn254::Fq2>(op, a),
            (13, 12) => run_field::<ark_bn254::Fq12>(op, a),
            (14, 1) => run_field::<ark_mnt4_298::Fq>(op, a),
            (14, 2) => run_field::<ark_mnt4_298::Fq2>(op, a),
            (14, 4) => run_field::<ark_mnt4_298::Fq4>(op, a),
            (30, 1) => run_field::<ark_bls12_381::Fq>(op, a),
            (30, 2) => run_field::<ark_bls12_381::Fq2>(op, a),
            (30, 12) => run_field::<ark_bls12_381::Fq12>(op, a),
            (40, 1) => run_field::<toy::F59>(op, a),
            (41, 1) => run_field::<toy::F61>(op, a),
            (42, 1) => run_field::<toy::F127>(op, a),
            _ => unsupported(),
        };
    }
    if op.starts_with("po_") {
        return match id {
            0 => run_po::<ark_bls12_381::Bls12_381>(op, a),
            1 => run_po::<ark_bn254::Bn254>(op, a),
            2 => run_po::<ark_mnt4_298::MNT4_298>(op, a),
            3 => run_po::<ark_test_curves::bls12_381::Bls12_381>(op, a),
            // target field Fp6 = 2 over 3 (cyclotomic square = plain squaring)
            4 => run_po::<ark_cp6_782::CP6_782>(op, a),
            5 => run_po::<ark_bw6_767::BW6_767>(op, a),
            6 => run_po::<ark_bw6_761::BW6_761>(op, a),
            7 => run_po::<ark_mnt6_298::MNT6_298>(op, a),
            _ => unsupported(),
        };
    }
    if op == "zc_de" || op == "zc_dump" {
        let op2 = if op == "zc_dump" { "dump" } else { op };
        return match id {
            0 => run_sw::<ark_bls12_381::g1::Config>(op2, a),
            1 => run_sw::<ark_bls12_381::g2::Config>(op2, a),
            _ => unsupported(),
        };
    }
    match id {
        0 => run_sw::<ark_test_curves::bls12_381::g1::Config>(op, a),
        1 => run_sw::<ark_test_curves::bls12_381::g2::Config>(op, a),
        2 => run_sw::<ark_secp256k1::Config>(op, a),
        3 => run_sw::<ark_bn254::g1::Config>(op, a),
        4 => run_sw::<ark_bn254::g2::Config>(op, a),
        6 => run_sw::<ark_mnt4_298::g2::Config>(op, a),
        8 => run_sw::<ark_ed_on_bls12_381_bandersnatch::BandersnatchConfig>(op, a),
        // every other shipped short-Weierstrass group with cofactor > 1 (default subgroup test)
        9 => run_sw::<ark_bls12_377::g1::Config>(op, a),
        10 => run_sw::<ark_bls12_377::g2::Config>(op, a),
        11 => run_sw::<ark_bw6_761::g1::Config>(op, a),
        12 => run_sw::<ark_bw6_761::g2::Config>(op, a),
        13 => run_sw::<ark_bw6_767::g1::Config>(op, a),
        14 => run_sw::<ark_bw6_767::g2::Config>(op, a),
        15 => run_sw::<ark_cp6_782::g1::Config>(op, a),
        16 => run_sw::<ark_ed_on_bls12_381::JubjubConfig>(op, a),
        17 => run_sw::<ark_mnt4_753::g2::Config>(op, a),
        // base field Fq3
        40 => run_sw::<ark_mnt6_298::g2::Config>(op, a),
        41 => run_sw::<ark_mnt6_753::g2::Config>(op, a),
        42 => run_sw::<ark_cp6_782::g2::Config>(op, a),
        20 => run_te::<ark_ed_on_bls12_381::JubjubConfig>(op, a),
        21 => run_te::<ark_ed25519::EdwardsConfig>(op, a),
        22 => run_te::<ark_ed_on_bls12_381_bandersnatch::BandersnatchConfig>(op, a),
        23 => run_te::<ark_test_curves::ed_on_bls12_381::EdwardsConfig>(op, a),
        24 => run_te::<ark_bls12_377::g1::Config>(op, a),
        25 => run_te::<ark_curve25519::Curve25519Config>(op, a),
        26 => run_te::<ark_ed_on_bls12_377::EdwardsConfig>(op, a),
        27 => run_te::<ark_ed_on_bn254::EdwardsConfig>(op, a),
        28 => run_te::<ark_ed_on_cp6_782::EdwardsConfig>(op, a),
        29 => run_te::<ark_ed_on_mnt4_298::EdwardsConfig>(op, a),
        30 => run_te::<ark_ed_on_mnt4_753::EdwardsConfig>(op, a),
        31 => run_te::<ark_ed_on_bw6_761::EdwardsConfig>(op, a),
        100 => run_sw::<toy::Sw100>(op, a),
        101 => run_sw::<toy::Sw101>(op, a),
        102 => run_sw::<toy::Sw102>(op, a),
        103 => run_sw::<toy::Sw103>(op, a),
        104 => run_sw::<toy::Sw104>(op, a),
        105 => run_sw::<toy::Sw105>(op, a),
        106 => run_sw::<toy::Sw106>(op, a),
        107 => run_sw::<toy::Sw107>(op, a),
        120 => run_te::<toy::Te120>(op, a),
        121 => run_te::<toy::Te121>(op, a),
        122 => run_te::<toy::Te122>(op, a),
        _ => unsupported(),
    }
}

fn main() {
    main_loop(dispatch);
}
