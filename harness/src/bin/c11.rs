//! C11 case interpreter: square roots, Legendre symbols, curve-coordinate recovery.
//! Case layout: a0 = [cfg_id]; a1..a3 = field parameters for the Coq model (ignored here,
//! the Rust type is selected by cfg_id); a4.. = operands as base-prime-field coordinate lists.
//! Ops: sqrt, legendre, sqrt_with (explicit SqrtPrecomputation built from a2, prime fields),
//!      sw_ys (get_ys_from_x_unchecked), te_xs (get_xs_from_y_unchecked), params (dump constants),
//!      precomp_ok (prime fields: the live sqrt-related constants of the compiled configuration).
#![allow(dead_code)]
use ark_ec::{
    models::CurveConfig,
    short_weierstrass::{self as sw, SWCurveConfig},
    twisted_edwards::{self as te, MontCurveConfig, TECurveConfig},
};
use ark_ff::{
    fields::{Fp, Fp2, Fp2Config, Fp3, Fp3Config, Fp64, MontBackend, MontConfig},
    Field, LegendreSymbol, MontFp, PrimeField, SqrtPrecomputation,
};
use num_bigint::BigUint;
use vharness::*;

// ---------------------------------------------------------------- toy fields (props/C11/gen_toy.py)
#[derive(MontConfig)]
#[modulus = "5"]
#[generator = "2"]
pub struct F5Config;
pub type F5 = Fp64<MontBackend<F5Config, 1>>;

#[derive(MontConfig)]
#[modulus = "7"]
#[generator = "3"]
pub struct F7Config;
pub type F7 = Fp64<MontBackend<F7Config, 1>>;

#[derive(MontConfig)]
#[modulus = "11"]
#[generator = "2"]
pub struct F11Config;
pub type F11 = Fp64<MontBackend<F11Config, 1>>;

#[derive(MontConfig)]
#[modulus = "13"]
#[generator = "2"]
pub struct F13Config;
pub type F13 = Fp64<MontBackend<F13Config, 1>>;

#[derive(MontConfig)]
#[modulus = "17"]
#[generator = "3"]
pub struct F17Config;
pub type F17 = Fp64<MontBackend<F17Config, 1>>;

#[derive(MontConfig)]
#[modulus = "19"]
#[generator = "2"]
pub struct F19Config;
pub type F19 = Fp64<MontBackend<F19Config, 1>>;

#[derive(MontConfig)]
#[modulus = "23"]
#[generator = "5"]
pub struct F23Config;
pub type F23 = Fp64<MontBackend<F23Config, 1>>;

#[derive(MontConfig)]
#[modulus = "31"]
#[generator = "3"]
pub struct F31Config;
pub type F31 = Fp64<MontBackend<F31Config, 1>>;

#[derive(MontConfig)]
#[modulus = "37"]
#[generator = "2"]
pub struct F37Config;
pub type F37 = Fp64<MontBackend<F37Config, 1>>;

#[derive(MontConfig)]
#[modulus = "41"]
#[generator = "6"]
pub struct F41Config;
pub type F41 = Fp64<MontBackend<F41Config, 1>>;

#[derive(MontConfig)]
#[modulus = "73"]
#[generator = "5"]
pub struct F73Config;
pub type F73 = Fp64<MontBackend<F73Config, 1>>;

#[derive(MontConfig)]
#[modulus = "97"]
#[generator = "5"]
pub struct F97Config;
pub type F97 = Fp64<MontBackend<F97Config, 1>>;

#[derive(MontConfig)]
#[modulus = "193"]
#[generator = "5"]
pub struct F193Config;
pub type F193 = Fp64<MontBackend<F193Config, 1>>;

#[derive(MontConfig)]
#[modulus = "257"]
#[generator = "3"]
pub struct F257Config;
pub type F257 = Fp64<MontBackend<F257Config, 1>>;

#[derive(MontConfig)]
#[modulus = "641"]
#[generator = "3"]
pub struct F641Config;
pub type F641 = Fp64<MontBackend<F641Config, 1>>;

#[derive(MontConfig)]
#[modulus = "769"]
#[generator = "11"]
pub struct F769Config;
pub type F769 = Fp64<MontBackend<F769Config, 1>>;

// ---------------------------------------------------------------- derived prime fields with adversarial limb patterns
// (props/C11/prop.py DERIVED_FP; generators = least quadratic non-residues, computed in Python).  They exercise the
// compile-time constant computation of MontConfig (const_add_with_carry / divide_by_2_round_down / two_adic_*):
// all-ones limbs (carry chain of MODULUS + 1 through several limbs), no spare bit, two-adicity 32 / 66 / 192.
// 11001: limbs (low first) ffffffffffffffff ffffffffffffffff ffffffffffffffff ffffffffffffffff ffffffffffffffff ffffffffffffffff ffffffffffffffff ffffffffffffffff 00000000000001ff
#[derive(MontConfig)]
#[modulus = "6864797660130609714981900799081393217269435300143305409394463459185543183397656052122559640661454554977296311391480858037121987999716643812574028291115057151"]
#[generator = "3"]
pub struct DP521Config;
pub type DP521 = Fp<MontBackend<DP521Config, 9>, 9>;

// 11002: limbs (low first) ffffffffffffffff ffffffffffffffff ffffffffffffffff fffffffeffffffff ffffffffffffffff ffffffffffffffff ffffffffffffffff
#[derive(MontConfig)]
#[modulus = "726838724295606890549323807888004534353641360687318060281490199180612328166730772686396383698676545930088884461843637361053498018365439"]
#[generator = "7"]
pub struct DEd448Config;
pub type DEd448 = Fp<MontBackend<DEd448Config, 7>, 7>;

// 11003: limbs (low first) ffffffffffffffff 7fffffffffffffff
#[derive(MontConfig)]
#[modulus = "170141183460469231731687303715884105727"]
#[generator = "3"]
pub struct DM127Config;
pub type DM127 = Fp<MontBackend<DM127Config, 2>, 2>;

// 11004: limbs (low first) ffffffffffffffed ffffffffffffffff ffffffffffffffff 7fffffffffffffff
#[derive(MontConfig)]
#[modulus = "57896044618658097711785492504343953926634992332820282019728792003956564819949"]
#[generator = "2"]
pub struct DC25519Config;
pub type DC25519 = Fp<MontBackend<DC25519Config, 4>, 4>;

// 11005: limbs (low first) ffffffffffffffff fffffffffffffffe ffffffffffffffff
#[derive(MontConfig)]
#[modulus = "6277101735386680763835789423207666416083908700390324961279"]
#[generator = "11"]
pub struct DP192Config;
pub type DP192 = Fp<MontBackend<DP192Config, 3>, 3>;

// 11006: limbs (low first) 00000000ffffffff ffffffff00000000 fffffffffffffffe ffffffffffffffff ffffffffffffffff ffffffffffffffff
#[derive(MontConfig)]
#[modulus = "39402006196394479212279040100143613805079739270465446667948293404245721771496870329047266088258938001861606973112319"]
#[generator = "19"]
pub struct DP384Config;
pub type DP384 = Fp<MontBackend<DP384Config, 6>, 6>;

// 11007: limbs (low first) ffffffffffffffff 00000000ffffffff 0000000000000000 ffffffff00000001
#[derive(MontConfig)]
#[modulus = "115792089210356248762697446949407573530086143415290314195533631308867097853951"]
#[generator = "3"]
pub struct DP256Config;
pub type DP256 = Fp<MontBackend<DP256Config, 4>, 4>;

// 11008: limbs (low first) ffffffff00000001
#[derive(MontConfig)]
#[modulus = "18446744069414584321"]
#[generator = "7"]
pub struct DGoldilocksConfig;
pub type DGoldilocks = Fp<MontBackend<DGoldilocksConfig, 1>, 1>;

// 11009: limbs (low first) 0000000000000001 0000000000000000 0000000000000000 0800000000000011
#[derive(MontConfig)]
#[modulus = "3618502788666131213697322783095070105623107215331596699973092056135872020481"]
#[generator = "3"]
pub struct DStark252Config;
pub type DStark252 = Fp<MontBackend<DStark252Config, 4>, 4>;

// 11010: limbs (low first) 0000000000000001 ffffffffffffffe4
#[derive(MontConfig)]
#[modulus = "340282366920938462946865773367900766209"]
#[generator = "7"]
pub struct DTa66Config;
pub type DTa66 = Fp<MontBackend<DTa66Config, 2>, 2>;

// 11011: limbs (low first) ffffffffffffffff 39fbbc55f6fa5db8
#[derive(MontConfig)]
#[modulus = "77073082175067733180471659262336040959"]
#[generator = "3"]
pub struct DLow1Config;
pub type DLow1 = Fp<MontBackend<DLow1Config, 2>, 2>;

// 11012: limbs (low first) ffffffffffffffff ffffffffffffffff 39526095d64be5f0
#[derive(MontConfig)]
#[modulus = "1405526109768027937364271859346875960389480045257108226047"]
#[generator = "5"]
pub struct DLow2Config;
pub type DLow2 = Fp<MontBackend<DLow2Config, 3>, 3>;

// 11013: limbs (low first) ffffffffffffffff e7b4b57e83cb86df ffffffffffffffff
#[derive(MontConfig)]
#[modulus = "6277101735386680763803497017887255111159706379304115896319"]
#[generator = "13"]
pub struct DLow1TopConfig;
pub type DLow1Top = Fp<MontBackend<DLow1TopConfig, 3>, 3>;

// 11014: limbs (low first) ffffffffffffffff ffffffffffffffff ffffffffffffffff 0c63009a840cab34
#[derive(MontConfig)]
#[modulus = "5602676208150477583320637278658960735318874063533280938057934193582636269567"]
#[generator = "5"]
pub struct DLow3Config;
pub type DLow3 = Fp<MontBackend<DLow3Config, 4>, 4>;

pub struct F7x2Config;
impl Fp2Config for F7x2Config {
    type Fp = F7;
    const NONRESIDUE: F7 = MontFp!("6");
    const FROBENIUS_COEFF_FP2_C1: &'static [F7] = &[MontFp!("1"), MontFp!("6")];
}
pub type F7x2 = Fp2<F7x2Config>;

pub struct F13x2Config;
impl Fp2Config for F13x2Config {
    type Fp = F13;
    const NONRESIDUE: F13 = MontFp!("2");
    const FROBENIUS_COEFF_FP2_C1: &'static [F13] = &[MontFp!("1"), MontFp!("12")];
}
pub type F13x2 = Fp2<F13x2Config>;

pub struct F17x2Config;
impl Fp2Config for F17x2Config {
    type Fp = F17;
    const NONRESIDUE: F17 = MontFp!("3");
    const FROBENIUS_COEFF_FP2_C1: &'static [F17] = &[MontFp!("1"), MontFp!("16")];
}
pub type F17x2 = Fp2<F17x2Config>;

pub struct F23x2Config;
impl Fp2Config for F23x2Config {
    type Fp = F23;
    const NONRESIDUE: F23 = MontFp!("22");
    const FROBENIUS_COEFF_FP2_C1: &'static [F23] = &[MontFp!("1"), MontFp!("22")];
}
pub type F23x2 = Fp2<F23x2Config>;

pub struct F41x2Config;
impl Fp2Config for F41x2Config {
    type Fp = F41;
    const NONRESIDUE: F41 = MontFp!("3");
    const FROBENIUS_COEFF_FP2_C1: &'static [F41] = &[MontFp!("1"), MontFp!("40")];
}
pub type F41x2 = Fp2<F41x2Config>;

pub struct F97x2Config;
impl Fp2Config for F97x2Config {
    type Fp = F97;
    const NONRESIDUE: F97 = MontFp!("5");
    const FROBENIUS_COEFF_FP2_C1: &'static [F97] = &[MontFp!("1"), MontFp!("96")];
}
pub type F97x2 = Fp2<F97x2Config>;

pub struct F193x2Config;
impl Fp2Config for F193x2Config {
    type Fp = F193;
    const NONRESIDUE: F193 = MontFp!("5");
    const FROBENIUS_COEFF_FP2_C1: &'static [F193] = &[MontFp!("1"), MontFp!("192")];
}
pub type F193x2 = Fp2<F193x2Config>;

pub struct F7x3Config;
impl Fp3Config for F7x3Config {
    type Fp = F7;
    const NONRESIDUE: F7 = MontFp!("2");
    const TWO_ADICITY: u32 = 1;
    const TRACE_MINUS_ONE_DIV_TWO: &'static [u64] = &[85];
    const QUADRATIC_NONRESIDUE_TO_T: Fp3<Self> = Fp3::new(MontFp!("6"), MontFp!("0"), MontFp!("0"));
    const FROBENIUS_COEFF_FP3_C1: &'static [F7] = &[MontFp!("1"), MontFp!("4"), MontFp!("2")];
    const FROBENIUS_COEFF_FP3_C2: &'static [F7] = &[MontFp!("1"), MontFp!("2"), MontFp!("4")];
}
pub type F7x3 = Fp3<F7x3Config>;

pub struct F13x3Config;
impl Fp3Config for F13x3Config {
    type Fp = F13;
    const NONRESIDUE: F13 = MontFp!("2");
    const TWO_ADICITY: u32 = 2;
    const TRACE_MINUS_ONE_DIV_TWO: &'static [u64] = &[274];
    const QUADRATIC_NONRESIDUE_TO_T: Fp3<Self> = Fp3::new(MontFp!("5"), MontFp!("0"), MontFp!("0"));
    const FROBENIUS_COEFF_FP3_C1: &'static [F13] = &[MontFp!("1"), MontFp!("3"), MontFp!("9")];
    const FROBENIUS_COEFF_FP3_C2: &'static [F13] = &[MontFp!("1"), MontFp!("9"), MontFp!("3")];
}
pub type F13x3 = Fp3<F13x3Config>;

pub struct F19x3Config;
impl Fp3Config for F19x3Config {
    type Fp = F19;
    const NONRESIDUE: F19 = MontFp!("2");
    const TWO_ADICITY: u32 = 1;
    const TRACE_MINUS_ONE_DIV_TWO: &'static [u64] = &[1714];
    const QUADRATIC_NONRESIDUE_TO_T: Fp3<Self> = Fp3::new(MontFp!("18"), MontFp!("0"), MontFp!("0"));
    const FROBENIUS_COEFF_FP3_C1: &'static [F19] = &[MontFp!("1"), MontFp!("7"), MontFp!("11")];
    const FROBENIUS_COEFF_FP3_C2: &'static [F19] = &[MontFp!("1"), MontFp!("11"), MontFp!("7")];
}
pub type F19x3 = Fp3<F19x3Config>;

pub struct F31x3Config;
impl Fp3Config for F31x3Config {
    type Fp = F31;
    const NONRESIDUE: F31 = MontFp!("3");
    const TWO_ADICITY: u32 = 1;
    const TRACE_MINUS_ONE_DIV_TWO: &'static [u64] = &[7447];
    const QUADRATIC_NONRESIDUE_TO_T: Fp3<Self> = Fp3::new(MontFp!("30"), MontFp!("0"), MontFp!("0"));
    const FROBENIUS_COEFF_FP3_C1: &'static [F31] = &[MontFp!("1"), MontFp!("25"), MontFp!("5")];
    const FROBENIUS_COEFF_FP3_C2: &'static [F31] = &[MontFp!("1"), MontFp!("5"), MontFp!("25")];
}
pub type F31x3 = Fp3<F31x3Config>;

pub struct F37x3Config;
impl Fp3Config for F37x3Config {
    type Fp = F37;
    const NONRESIDUE: F37 = MontFp!("2");
    const TWO_ADICITY: u32 = 2;
    const TRACE_MINUS_ONE_DIV_TWO: &'static [u64] = &[6331];
    const QUADRATIC_NONRESIDUE_TO_T: Fp3<Self> = Fp3::new(MontFp!("6"), MontFp!("0"), MontFp!("0"));
    const FROBENIUS_COEFF_FP3_C1: &'static [F37] = &[MontFp!("1"), MontFp!("26"), MontFp!("10")];
    const FROBENIUS_COEFF_FP3_C2: &'static [F37] = &[MontFp!("1"), MontFp!("10"), MontFp!("26")];
}
pub type F37x3 = Fp3<F37x3Config>;

pub struct F73x3Config;
impl Fp3Config for F73x3Config {
    type Fp = F73;
    const NONRESIDUE: F73 = MontFp!("2");
    const TWO_ADICITY: u32 = 3;
    const TRACE_MINUS_ONE_DIV_TWO: &'static [u64] = &[24313];
    const QUADRATIC_NONRESIDUE_TO_T: Fp3<Self> = Fp3::new(MontFp!("51"), MontFp!("0"), MontFp!("0"));
    const FROBENIUS_COEFF_FP3_C1: &'static [F73] = &[MontFp!("1"), MontFp!("64"), MontFp!("8")];
    const FROBENIUS_COEFF_FP3_C2: &'static [F73] = &[MontFp!("1"), MontFp!("8"), MontFp!("64")];
}
pub type F73x3 = Fp3<F73x3Config>;

pub struct F97x3Config;
impl Fp3Config for F97x3Config {
    type Fp = F97;
    const NONRESIDUE: F97 = MontFp!("2");
    const TWO_ADICITY: u32 = 5;
    const TRACE_MINUS_ONE_DIV_TWO: &'static [u64] = &[14260];
    const QUADRATIC_NONRESIDUE_TO_T: Fp3<Self> = Fp3::new(MontFp!("30"), MontFp!("0"), MontFp!("0"));
    const FROBENIUS_COEFF_FP3_C1: &'static [F97] = &[MontFp!("1"), MontFp!("35"), MontFp!("61")];
    const FROBENIUS_COEFF_FP3_C2: &'static [F97] = &[MontFp!("1"), MontFp!("61"), MontFp!("35")];
}
pub type F97x3 = Fp3<F97x3Config>;


// ---------------------------------------------------------------- toy curves (unchecked helpers only:
// scalar field, cofactor and generator are never used by get_ys_from_x_unchecked / get_xs_from_y_unchecked)
macro_rules! toy_sw {
    ($name:ident, $f:ty, $a:expr, $b:expr) => {
        pub struct $name;
        impl CurveConfig for $name {
            type BaseField = $f;
            type ScalarField = F7;
            const COFACTOR: &'static [u64] = &[1];
            const COFACTOR_INV: F7 = MontFp!("1");
        }
        impl SWCurveConfig for $name {
            const COEFF_A: $f = $a;
            const COEFF_B: $f = $b;
            const GENERATOR: sw::Affine<Self> = sw::Affine::new_unchecked($b, $b);
        }
    };
}
macro_rules! toy_te {
    ($name:ident, $f:ty, $a:expr, $d:expr) => {
        pub struct $name;
        impl CurveConfig for $name {
            type BaseField = $f;
            type ScalarField = F7;
            const COFACTOR: &'static [u64] = &[1];
            const COFACTOR_INV: F7 = MontFp!("1");
        }
        impl TECurveConfig for $name {
            const COEFF_A: $f = $a;
            const COEFF_D: $f = $d;
            const GENERATOR: te::Affine<Self> = te::Affine::new_unchecked($d, $d);
            type MontCurveConfig = $name;
        }
        impl MontCurveConfig for $name {
            const COEFF_A: $f = $a;
            const COEFF_B: $f = $d;
            type TECurveConfig = $name;
        }
    };
}
toy_sw!(Sw13, F13, MontFp!("0"), MontFp!("3"));
toy_sw!(Sw17, F17, MontFp!("2"), MontFp!("5"));
toy_sw!(Sw97, F97, MontFp!("0"), MontFp!("7"));
toy_sw!(Sw257, F257, MontFp!("3"), MontFp!("1"));
toy_sw!(Sw23, F23, MontFp!("22"), MontFp!("0"));
toy_sw!(Sw7x2, F7x2, Fp2::new(MontFp!("0"), MontFp!("0")), Fp2::new(MontFp!("1"), MontFp!("1")));
toy_sw!(Sw13x2, F13x2, Fp2::new(MontFp!("1"), MontFp!("2")), Fp2::new(MontFp!("3"), MontFp!("0")));
toy_sw!(Sw7x3, F7x3, Fp3::new(MontFp!("0"), MontFp!("1"), MontFp!("0")), Fp3::new(MontFp!("2"), MontFp!("0"), MontFp!("1")));
toy_sw!(Sw13x3, F13x3, Fp3::new(MontFp!("0"), MontFp!("0"), MontFp!("0")), Fp3::new(MontFp!("1"), MontFp!("1"), MontFp!("1")));
toy_te!(Te13, F13, MontFp!("1"), MontFp!("4"));      // a/d = 1/4 is a square: the denominator vanishes at y = +-1/2
toy_te!(Te17, F17, MontFp!("16"), MontFp!("3"));
toy_te!(Te97, F97, MontFp!("1"), MontFp!("5"));
toy_te!(Te257, F257, MontFp!("256"), MontFp!("3"));
toy_te!(Te23, F23, MontFp!("2"), MontFp!("8"));      // a/d = 1/4 square
toy_te!(Te13x2, F13x2, Fp2::new(MontFp!("1"), MontFp!("0")), Fp2::new(MontFp!("0"), MontFp!("1")));
toy_te!(Te7x3, F7x3, Fp3::new(MontFp!("6"), MontFp!("0"), MontFp!("0")), Fp3::new(MontFp!("0"), MontFp!("1"), MontFp!("0")));

// ---------------------------------------------------------------- conversions
fn elem<F: Field>(a: &Arg) -> F {
    assert_eq!(a.len() as u64, F::extension_degree(), "harness: wrong coordinate count");
    F::from_base_prime_field_elems(a.iter().map(|v| F::BasePrimeField::from(u(v)))).unwrap()
}
fn big<F: PrimeField>(x: &F) -> SIntT {
    from_biguint(&x.into_bigint().into())
}
type SIntT = num_bigint::BigInt;
fn coords<F: Field>(x: &F) -> Arg {
    x.to_base_prime_field_elements().map(|c| big(&c)).collect()
}
fn limbs_to_int(l: &[u64]) -> SIntT {
    let mut v = BigUint::from(0u8);
    for (i, x) in l.iter().enumerate() {
        v += BigUint::from(*x) << (64 * i);
    }
    from_biguint(&v)
}
fn opt_out<F: Field>(r: Option<F>) -> Vec<Arg> {
    match r {
        Some(y) => ok(vec![vec![from_u64(1)], coords(&y)]),
        None => ok(vec![vec![from_u64(0)]]),
    }
}
fn pair_out<F: Field>(r: Option<(F, F)>) -> Vec<Arg> {
    match r {
        Some((y1, y2)) => ok(vec![vec![from_u64(1)], coords(&y1), coords(&y2)]),
        None => ok(vec![vec![from_u64(0)]]),
    }
}
fn leg(l: LegendreSymbol) -> i64 {
    match l {
        LegendreSymbol::Zero => 0,
        LegendreSymbol::QuadraticResidue => 1,
        LegendreSymbol::QuadraticNonResidue => -1,
    }
}

// ---------------------------------------------------------------- field ops
fn field_op<F: Field>(op: &str, a: &[Arg]) -> Vec<Arg> {
    match op {
        // the configuration claims its sqrt constants are valid; the model re-derives that claim
        "precomp_ok" => ok(vec![vec![from_u64(1)]]),
        "sqrt" => {
            let x = elem::<F>(&a[4]);
            let r = x.sqrt();
            // sqrt_in_place must agree with sqrt (it is defined through it)
            let mut y = x;
            let r2 = y.sqrt_in_place().map(|v| *v);
            assert!(r == r2, "harness: sqrt and sqrt_in_place differ");
            opt_out(r)
        },
        "legendre" => {
            // the symbol and the three predicates of LegendreSymbol (they must partition the cases)
            let s1 = elem::<F>(&a[4]).legendre();
            let (z, qr, qnr) = (s1.is_zero(), s1.is_qr(), s1.is_qnr());
            ok(vec![vec![from_i64(leg(s1)), from_u64(z as u64), from_u64(qr as u64), from_u64(qnr as u64)]])
        },
        _ => unsupported(),
    }
}
fn prime_op<F: PrimeField>(op: &str, a: &[Arg]) -> Vec<Arg> {
    match op {
        // the constants the compiled configuration really holds (the model computes the same list from the modulus
        // and GENERATOR alone): SQRT_PRECOMP, [TWO_ADICITY, TRACE, TRACE_MINUS_ONE_DIV_TWO, MODULUS_MINUS_ONE_DIV_TWO,
        // MODULUS_BIT_SIZE], [GENERATOR, TWO_ADIC_ROOT_OF_UNITY]
        "precomp_ok" => ok(vec![
            vec![from_u64(1)],
            precomp_arg::<F>(),
            vec![
                from_u64(F::TWO_ADICITY as u64),
                from_biguint(&F::TRACE.into()),
                from_biguint(&F::TRACE_MINUS_ONE_DIV_TWO.into()),
                from_biguint(&F::MODULUS_MINUS_ONE_DIV_TWO.into()),
                from_u64(F::MODULUS_BIT_SIZE as u64),
            ],
            vec![big(&F::GENERATOR), big(&F::TWO_ADIC_ROOT_OF_UNITY)],
        ]),
        "sqrt_with" => {
            let x = elem::<F>(&a[4]);
            let pc = &a[2];
            let kind = to_u64(&pc[0]);
            let pre: SqrtPrecomputation<F> = if kind == 1 {
                let e: &'static [u64] = Box::leak(u(&pc[1]).to_u64_digits().into_boxed_slice());
                SqrtPrecomputation::Case3Mod4 { modulus_plus_one_div_four: e }
            } else if kind == 2 {
                let t: &'static [u64] = Box::leak(u(&pc[3]).to_u64_digits().into_boxed_slice());
                SqrtPrecomputation::TonelliShanks {
                    two_adicity: to_u64(&pc[1]) as u32,
                    quadratic_nonresidue_to_trace: F::from(u(&pc[2])),
                    trace_of_modulus_minus_one_div_two: t,
                }
            } else {
                return unsupported();
            };
            opt_out(pre.sqrt(&x))
        },
        _ => field_op::<F>(op, a),
    }
}

fn precomp_arg<F: PrimeField>() -> Arg {
    match F::SQRT_PRECOMP {
        None => vec![from_u64(0)],
        Some(SqrtPrecomputation::Case3Mod4 { modulus_plus_one_div_four }) => {
            vec![from_u64(1), limbs_to_int(modulus_plus_one_div_four)]
        },
        Some(SqrtPrecomputation::TonelliShanks {
            two_adicity,
            quadratic_nonresidue_to_trace,
            trace_of_modulus_minus_one_div_two,
        }) => vec![
            from_u64(2),
            from_u64(two_adicity as u64),
            big(&quadratic_nonresidue_to_trace),
            limbs_to_int(trace_of_modulus_minus_one_div_two),
        ],
        #[allow(unreachable_patterns)]
        _ => vec![from_u64(9)],
    }
}
fn modulus<F: PrimeField>() -> SIntT {
    from_biguint(&F::MODULUS.into())
}
fn fp_params<F: PrimeField>() -> Vec<Arg> {
    ok(vec![vec![from_u64(1), modulus::<F>()], precomp_arg::<F>(), vec![big(&F::GENERATOR)]])
}
fn fp2_params<P: Fp2Config>() -> Vec<Arg> {
    ok(vec![vec![from_u64(2), modulus::<P::Fp>(), big(&P::NONRESIDUE)], precomp_arg::<P::Fp>(), vec![]])
}
fn fp3_params<P: Fp3Config>() -> Vec<Arg> {
    let mut d = vec![from_u64(P::TWO_ADICITY as u64), limbs_to_int(P::TRACE_MINUS_ONE_DIV_TWO)];
    d.extend(coords(&P::QUADRATIC_NONRESIDUE_TO_T));
    d.extend(P::FROBENIUS_COEFF_FP3_C1.iter().map(big));
    d.extend(P::FROBENIUS_COEFF_FP3_C2.iter().map(big));
    // what Field::SQRT_PRECOMP of the Fp3 actually holds must be these constants
    match <Fp3<P> as Field>::SQRT_PRECOMP {
        Some(SqrtPrecomputation::TonelliShanks {
            two_adicity,
            quadratic_nonresidue_to_trace,
            trace_of_modulus_minus_one_div_two,
        }) => {
            assert_eq!(two_adicity, P::TWO_ADICITY);
            assert!(quadratic_nonresidue_to_trace == P::QUADRATIC_NONRESIDUE_TO_T);
            assert_eq!(trace_of_modulus_minus_one_div_two, P::TRACE_MINUS_ONE_DIV_TWO);
        },
        _ => panic!("harness: Fp3 SQRT_PRECOMP is not TonelliShanks"),
    }
    ok(vec![vec![from_u64(3), modulus::<P::Fp>(), big(&P::NONRESIDUE)], precomp_arg::<P::Fp>(), d])
}

// ---------------------------------------------------------------- curve ops
fn sw_op<P: SWCurveConfig>(field_id: u64, op: &str, a: &[Arg]) -> Vec<Arg> {
    match op {
        "params" => ok(vec![vec![from_u64(field_id)], coords(&P::COEFF_A), coords(&P::COEFF_B)]),
        "sw_ys" => {
            let x = elem::<P::BaseField>(&a[6]);
            let r = sw::Affine::<P>::get_ys_from_x_unchecked(x);
            // get_point_from_x_unchecked selects from the same pair
            if let Some((s, l)) = r {
                let ps = sw::Affine::<P>::get_point_from_x_unchecked(x, false).unwrap();
                let pl = sw::Affine::<P>::get_point_from_x_unchecked(x, true).unwrap();
                assert!(ps.x == x && ps.y == s && pl.x == x && pl.y == l, "harness: get_point_from_x_unchecked");
            } else {
                assert!(sw::Affine::<P>::get_point_from_x_unchecked(x, false).is_none());
            }
            pair_out(r)
        },
        _ => unsupported(),
    }
}
fn te_op<P: TECurveConfig>(field_id: u64, op: &str, a: &[Arg]) -> Vec<Arg> {
    match op {
        "params" => ok(vec![vec![from_u64(field_id)], coords(&<P as TECurveConfig>::COEFF_A), coords(&P::COEFF_D)]),
        "te_xs" => {
            let y = elem::<P::BaseField>(&a[6]);
            let r = te::Affine::<P>::get_xs_from_y_unchecked(y);
            if let Some((s, l)) = r {
                let ps = te::Affine::<P>::get_point_from_y_unchecked(y, false).unwrap();
                let pl = te::Affine::<P>::get_point_from_y_unchecked(y, true).unwrap();
                assert!(ps.y == y && ps.x == s && pl.y == y && pl.x == l, "harness: get_point_from_y_unchecked");
            } else {
                assert!(te::Affine::<P>::get_point_from_y_unchecked(y, false).is_none());
            }
            pair_out(r)
        },
        _ => unsupported(),
    }
}

macro_rules! prime {
    ($t:ty, $op:expr, $a:expr) => {
        if $op == "params" { fp_params::<$t>() } else { prime_op::<$t>($op, $a) }
    };
}
macro_rules! quad {
    ($c:ty, $op:expr, $a:expr) => {
        if $op == "params" { fp2_params::<$c>() } else { field_op::<Fp2<$c>>($op, $a) }
    };
}
macro_rules! cubic {
    ($c:ty, $op:expr, $a:expr) => {
        if $op == "params" { fp3_params::<$c>() } else { field_op::<Fp3<$c>>($op, $a) }
    };
}

fn run(op: &str, a: &[Arg]) -> Vec<Arg> {
    let id = to_u64(&a[0][0]);
    match id {
        5 => prime!(F5, op, a),
        7 => prime!(F7, op, a),
        11 => prime!(F11, op, a),
        13 => prime!(F13, op, a),
        17 => prime!(F17, op, a),
        19 => prime!(F19, op, a),
        23 => prime!(F23, op, a),
        31 => prime!(F31, op, a),
        37 => prime!(F37, op, a),
        41 => prime!(F41, op, a),
        73 => prime!(F73, op, a),
        97 => prime!(F97, op, a),
        193 => prime!(F193, op, a),
        257 => prime!(F257, op, a),
        641 => prime!(F641, op, a),
        769 => prime!(F769, op, a),
        2007 => quad!(F7x2Config, op, a),
        2013 => quad!(F13x2Config, op, a),
        2017 => quad!(F17x2Config, op, a),
        2023 => quad!(F23x2Config, op, a),
        2041 => quad!(F41x2Config, op, a),
        2097 => quad!(F97x2Config, op, a),
        2193 => quad!(F193x2Config, op, a),
        3007 => cubic!(F7x3Config, op, a),
        3013 => cubic!(F13x3Config, op, a),
        3019 => cubic!(F19x3Config, op, a),
        3031 => cubic!(F31x3Config, op, a),
        3037 => cubic!(F37x3Config, op, a),
        3073 => cubic!(F73x3Config, op, a),
        3097 => cubic!(F97x3Config, op, a),
        // shipped prime fields
        10001 => prime!(ark_bls12_381::Fq, op, a),
        10002 => prime!(ark_bls12_381::Fr, op, a),
        10003 => prime!(ark_bn254::Fq, op, a),
        10004 => prime!(ark_bn254::Fr, op, a),
        10005 => prime!(ark_secp256k1::Fq, op, a),
        10006 => prime!(ark_ed25519::Fq, op, a),
        10007 => prime!(ark_bls12_377::Fr, op, a),
        10008 => prime!(ark_bls12_377::Fq, op, a),
        10009 => prime!(ark_pallas::Fq, op, a),
        10010 => prime!(ark_mnt6_298::Fq, op, a),
        10011 => prime!(ark_test_curves::mnt6_753::Fq, op, a),
        10012 => prime!(ark_test_curves::bls12_381::Fq, op, a),
        10013 => prime!(ark_test_curves::secp256k1::Fq, op, a),
        10014 => prime!(ark_secp256k1::Fr, op, a),
        10015 => prime!(ark_vesta::Fq, op, a),
        10016 => prime!(ark_ed_on_bn254::Fq, op, a),
        // derived prime fields with adversarial limb patterns
        11001 => prime!(DP521, op, a),
        11002 => prime!(DEd448, op, a),
        11003 => prime!(DM127, op, a),
        11004 => prime!(DC25519, op, a),
        11005 => prime!(DP192, op, a),
        11006 => prime!(DP384, op, a),
        11007 => prime!(DP256, op, a),
        11008 => prime!(DGoldilocks, op, a),
        11009 => prime!(DStark252, op, a),
        11010 => prime!(DTa66, op, a),
        11011 => prime!(DLow1, op, a),
        11012 => prime!(DLow2, op, a),
        11013 => prime!(DLow1Top, op, a),
        11014 => prime!(DLow3, op, a),
        // shipped extensions
        12001 => quad!(ark_bls12_381::Fq2Config, op, a),
        12002 => quad!(ark_bn254::Fq2Config, op, a),
        12003 => quad!(ark_bls12_377::Fq2Config, op, a),
        12004 => quad!(ark_test_curves::bls12_381::Fq2Config, op, a),
        13001 => cubic!(ark_mnt6_298::Fq3Config, op, a),
        13002 => cubic!(ark_test_curves::mnt6_753::Fq3Config, op, a),
        // short Weierstrass curves: (field cfg id)
        20001 => sw_op::<ark_bls12_381::g1::Config>(10001, op, a),
        20002 => sw_op::<ark_bls12_381::g2::Config>(12001, op, a),
        20003 => sw_op::<ark_secp256k1::Config>(10005, op, a),
        20004 => sw_op::<ark_mnt6_298::g1::Config>(10010, op, a),
        20005 => sw_op::<ark_mnt6_298::g2::Config>(13001, op, a),
        20006 => sw_op::<ark_bn254::g1::Config>(10003, op, a),
        20007 => sw_op::<ark_bn254::g2::Config>(12002, op, a),
        20008 => sw_op::<ark_ed_on_bls12_381::SWConfig>(10002, op, a),
        21013 => sw_op::<Sw13>(13, op, a),
        21017 => sw_op::<Sw17>(17, op, a),
        21097 => sw_op::<Sw97>(97, op, a),
        21257 => sw_op::<Sw257>(257, op, a),
        21023 => sw_op::<Sw23>(23, op, a),
        22007 => sw_op::<Sw7x2>(2007, op, a),
        22013 => sw_op::<Sw13x2>(2013, op, a),
        23007 => sw_op::<Sw7x3>(3007, op, a),
        23013 => sw_op::<Sw13x3>(3013, op, a),
        // twisted Edwards curves
        30001 => te_op::<ark_ed25519::EdwardsConfig>(10006, op, a),
        30002 => te_op::<ark_ed_on_bls12_381::EdwardsConfig>(10002, op, a),
        30003 => te_op::<ark_ed_on_bls12_381_bandersnatch::EdwardsConfig>(10002, op, a),
        30004 => te_op::<ark_ed_on_bn254::EdwardsConfig>(10004, op, a),
        31013 => te_op::<Te13>(13, op, a),
        31017 => te_op::<Te17>(17, op, a),
        31097 => te_op::<Te97>(97, op, a),
        31257 => te_op::<Te257>(257, op, a),
        31023 => te_op::<Te23>(23, op, a),
        32013 => te_op::<Te13x2>(2013, op, a),
        33007 => te_op::<Te7x3>(3007, op, a),
        _ => unsupported(),
    }
}

fn main() {
    main_loop(run);
}
