//! C12 case interpreter: subgroup membership tests and cofactor clearing.
//! Argument layout of every case (see coq/C12/Run.v):
//!   a[0] = [cfg_id], a[1..7] describe the configuration to the Coq model (field, curve
//!   coefficients, r, COFACTOR_INV, h_eff, COFACTOR limbs, override kind and constants),
//!   a[8..] operands (affine points by raw coordinates, `new_unchecked`).
//! Only a[0] and the operands are used here.  The interpreter calls the public API
//! (`is_in_correct_subgroup_assuming_on_curve`, `clear_cofactor`, `mul_by_cofactor`,
//! `mul_by_cofactor_to_group`, `mul_by_cofactor_inv`, `get_point_from_x/y_unchecked`)
//! and prints what it returns; a value the model computes in two ways (as coded / by the
//! definition) is printed twice.
//! `c12 params` prints the constants of every configuration as JSON lines (stored by
//! props/C12/prop.py `pre` in props/C12/params.json).
#![allow(non_camel_case_types)]
use ark_ec::{
    bls12::Bls12Config,
    models::CurveConfig,
    scalar_mul::glv::GLVConfig,
    short_weierstrass::{self as sw, SWCurveConfig},
    twisted_edwards::{self as te, TECurveConfig},
    AffineRepr, CurveGroup,
};
use ark_ff::{Field, PrimeField, UniformRand, Zero};
use ark_std::rand::{rngs::StdRng, SeedableRng};
use num_bigint::BigUint;
use vharness::*;

mod toy {
    use ark_ec::{
        models::CurveConfig,
        short_weierstrass::{self as sw, SWCurveConfig},
        twisted_edwards::{self as te, MontCurveConfig, TECurveConfig},
    };
    use ark_ff::fields::{Fp2, Fp2Config, Fp64, MontBackend, MontConfig};
    use ark_ff::MontFp;
// BEGIN GENERATED TOY CONFIGS
#[derive(MontConfig)]
#[modulus = "11"]
#[generator = "2"]
pub struct F11Config;
pub type F11 = Fp64<MontBackend<F11Config, 1>>;

pub struct F11_2Config;
impl Fp2Config for F11_2Config {
    type Fp = F11;
    const NONRESIDUE: F11 = MontFp!("10");
    const FROBENIUS_COEFF_FP2_C1: &'static [F11] = &[MontFp!("1"), MontFp!("10")];
}
pub type F11_2 = Fp2<F11_2Config>;

#[derive(MontConfig)]
#[modulus = "13"]
#[generator = "2"]
pub struct F13Config;
pub type F13 = Fp64<MontBackend<F13Config, 1>>;

#[derive(MontConfig)]
#[modulus = "19"]
#[generator = "2"]
pub struct F19Config;
pub type F19 = Fp64<MontBackend<F19Config, 1>>;

// sw13_a0_h1: 19 points, r = 19, cofactor 1
#[derive(Clone, Default, PartialEq, Eq)]
pub struct Sw1;
impl CurveConfig for Sw1 {
    type BaseField = F13;
    type ScalarField = F19;
    const COFACTOR: &'static [u64] = &[1];
    const COFACTOR_INV: F19 = MontFp!("1");
}
impl SWCurveConfig for Sw1 {
    const COEFF_A: F13 = MontFp!("0");
    const COEFF_B: F13 = MontFp!("2");
    const GENERATOR: sw::Affine<Self> = sw::Affine::new_unchecked(MontFp!("1"), MontFp!("4"));
}

// sw13_a10_h1: 19 points, r = 19, cofactor 1
#[derive(Clone, Default, PartialEq, Eq)]
pub struct Sw2;
impl CurveConfig for Sw2 {
    type BaseField = F13;
    type ScalarField = F19;
    const COFACTOR: &'static [u64] = &[1];
    const COFACTOR_INV: F19 = MontFp!("1");
}
impl SWCurveConfig for Sw2 {
    const COEFF_A: F13 = MontFp!("10");
    const COEFF_B: F13 = MontFp!("1");
    const GENERATOR: sw::Affine<Self> = sw::Affine::new_unchecked(MontFp!("0"), MontFp!("1"));
}

#[derive(MontConfig)]
#[modulus = "7"]
#[generator = "3"]
pub struct F7Config;
pub type F7 = Fp64<MontBackend<F7Config, 1>>;

// sw13_a1_h2: 14 points, r = 7, cofactor 2
#[derive(Clone, Default, PartialEq, Eq)]
pub struct Sw3;
impl CurveConfig for Sw3 {
    type BaseField = F13;
    type ScalarField = F7;
    const COFACTOR: &'static [u64] = &[2];
    const COFACTOR_INV: F7 = MontFp!("4");
}
impl SWCurveConfig for Sw3 {
    const COEFF_A: F13 = MontFp!("1");
    const COEFF_B: F13 = MontFp!("4");
    const GENERATOR: sw::Affine<Self> = sw::Affine::new_unchecked(MontFp!("9"), MontFp!("12"));
}

// sw13_a0_h3: 21 points, r = 7, cofactor 3
#[derive(Clone, Default, PartialEq, Eq)]
pub struct Sw4;
impl CurveConfig for Sw4 {
    type BaseField = F13;
    type ScalarField = F7;
    const COFACTOR: &'static [u64] = &[3];
    const COFACTOR_INV: F7 = MontFp!("5");
}
impl SWCurveConfig for Sw4 {
    const COEFF_A: F13 = MontFp!("0");
    const COEFF_B: F13 = MontFp!("4");
    const GENERATOR: sw::Affine<Self> = sw::Affine::new_unchecked(MontFp!("8"), MontFp!("3"));
}

#[derive(MontConfig)]
#[modulus = "17"]
#[generator = "3"]
pub struct F17Config;
pub type F17 = Fp64<MontBackend<F17Config, 1>>;

#[derive(MontConfig)]
#[modulus = "5"]
#[generator = "2"]
pub struct F5Config;
pub type F5 = Fp64<MontBackend<F5Config, 1>>;

// sw17_a1_h4_cyclic: 20 points, r = 5, cofactor 4
#[derive(Clone, Default, PartialEq, Eq)]
pub struct Sw5;
impl CurveConfig for Sw5 {
    type BaseField = F17;
    type ScalarField = F5;
    const COFACTOR: &'static [u64] = &[4];
    const COFACTOR_INV: F5 = MontFp!("4");
}
impl SWCurveConfig for Sw5 {
    const COEFF_A: F17 = MontFp!("1");
    const COEFF_B: F17 = MontFp!("6");
    const GENERATOR: sw::Affine<Self> = sw::Affine::new_unchecked(MontFp!("1"), MontFp!("12"));
}

// sw17_a14_h4_full: 20 points, r = 5, cofactor 4
#[derive(Clone, Default, PartialEq, Eq)]
pub struct Sw6;
impl CurveConfig for Sw6 {
    type BaseField = F17;
    type ScalarField = F5;
    const COFACTOR: &'static [u64] = &[4];
    const COFACTOR_INV: F5 = MontFp!("4");
}
impl SWCurveConfig for Sw6 {
    const COEFF_A: F17 = MontFp!("14");
    const COEFF_B: F17 = MontFp!("1");
    const GENERATOR: sw::Affine<Self> = sw::Affine::new_unchecked(MontFp!("5"), MontFp!("14"));
}

// sw19_a0_h4: 28 points, r = 7, cofactor 4
#[derive(Clone, Default, PartialEq, Eq)]
pub struct Sw7;
impl CurveConfig for Sw7 {
    type BaseField = F19;
    type ScalarField = F7;
    const COFACTOR: &'static [u64] = &[4];
    const COFACTOR_INV: F7 = MontFp!("2");
}
impl SWCurveConfig for Sw7 {
    const COEFF_A: F19 = MontFp!("0");
    const COEFF_B: F19 = MontFp!("8");
    const GENERATOR: sw::Affine<Self> = sw::Affine::new_unchecked(MontFp!("14"), MontFp!("15"));
}

#[derive(MontConfig)]
#[modulus = "29"]
#[generator = "2"]
pub struct F29Config;
pub type F29 = Fp64<MontBackend<F29Config, 1>>;

// sw29_h8: 40 points, r = 5, cofactor 8
#[derive(Clone, Default, PartialEq, Eq)]
pub struct Sw8;
impl CurveConfig for Sw8 {
    type BaseField = F29;
    type ScalarField = F5;
    const COFACTOR: &'static [u64] = &[8];
    const COFACTOR_INV: F5 = MontFp!("2");
}
impl SWCurveConfig for Sw8 {
    const COEFF_A: F29 = MontFp!("26");
    const COEFF_B: F29 = MontFp!("11");
    const GENERATOR: sw::Affine<Self> = sw::Affine::new_unchecked(MontFp!("2"), MontFp!("10"));
}

#[derive(MontConfig)]
#[modulus = "37"]
#[generator = "2"]
pub struct F37Config;
pub type F37 = Fp64<MontBackend<F37Config, 1>>;

// sw37_h8_full: 40 points, r = 5, cofactor 8
#[derive(Clone, Default, PartialEq, Eq)]
pub struct Sw9;
impl CurveConfig for Sw9 {
    type BaseField = F37;
    type ScalarField = F5;
    const COFACTOR: &'static [u64] = &[8];
    const COFACTOR_INV: F5 = MontFp!("2");
}
impl SWCurveConfig for Sw9 {
    const COEFF_A: F37 = MontFp!("1");
    const COEFF_B: F37 = MontFp!("2");
    const GENERATOR: sw::Affine<Self> = sw::Affine::new_unchecked(MontFp!("8"), MontFp!("2"));
}

// sw37_h9: 45 points, r = 5, cofactor 9
#[derive(Clone, Default, PartialEq, Eq)]
pub struct Sw10;
impl CurveConfig for Sw10 {
    type BaseField = F37;
    type ScalarField = F5;
    const COFACTOR: &'static [u64] = &[9];
    const COFACTOR_INV: F5 = MontFp!("4");
}
impl SWCurveConfig for Sw10 {
    const COEFF_A: F37 = MontFp!("2");
    const COEFF_B: F37 = MontFp!("14");
    const GENERATOR: sw::Affine<Self> = sw::Affine::new_unchecked(MontFp!("24"), MontFp!("14"));
}

#[derive(MontConfig)]
#[modulus = "23"]
#[generator = "5"]
pub struct F23Config;
pub type F23 = Fp64<MontBackend<F23Config, 1>>;

// sw23_h6: 30 points, r = 5, cofactor 6
#[derive(Clone, Default, PartialEq, Eq)]
pub struct Sw11;
impl CurveConfig for Sw11 {
    type BaseField = F23;
    type ScalarField = F5;
    const COFACTOR: &'static [u64] = &[6];
    const COFACTOR_INV: F5 = MontFp!("1");
}
impl SWCurveConfig for Sw11 {
    const COEFF_A: F23 = MontFp!("1");
    const COEFF_B: F23 = MontFp!("16");
    const GENERATOR: sw::Affine<Self> = sw::Affine::new_unchecked(MontFp!("15"), MontFp!("5"));
}

// sw121_a0_h3: 111 points, r = 37, cofactor 3
#[derive(Clone, Default, PartialEq, Eq)]
pub struct Sw12;
impl CurveConfig for Sw12 {
    type BaseField = F11_2;
    type ScalarField = F37;
    const COFACTOR: &'static [u64] = &[3];
    const COFACTOR_INV: F37 = MontFp!("25");
}
impl SWCurveConfig for Sw12 {
    const COEFF_A: F11_2 = F11_2::new(MontFp!("0"), MontFp!("0"));
    const COEFF_B: F11_2 = F11_2::new(MontFp!("1"), MontFp!("2"));
    const GENERATOR: sw::Affine<Self> = sw::Affine::new_unchecked(F11_2::new(MontFp!("10"), MontFp!("1")), F11_2::new(MontFp!("2"), MontFp!("1")));
}

// te13_m1_h4: 20 points, r = 5, cofactor 4
#[derive(Clone, Default, PartialEq, Eq)]
pub struct Te1;
impl CurveConfig for Te1 {
    type BaseField = F13;
    type ScalarField = F5;
    const COFACTOR: &'static [u64] = &[4];
    const COFACTOR_INV: F5 = MontFp!("4");
}
impl TECurveConfig for Te1 {
    const COEFF_A: F13 = MontFp!("12");
    const COEFF_D: F13 = MontFp!("6");
    const GENERATOR: te::Affine<Self> = te::Affine::new_unchecked(MontFp!("4"), MontFp!("8"));
    type MontCurveConfig = Te1;
}
impl MontCurveConfig for Te1 {
    const COEFF_A: F13 = MontFp!("0");
    const COEFF_B: F13 = MontFp!("1");
    type TECurveConfig = Te1;
}

// te13_1_h4: 20 points, r = 5, cofactor 4
#[derive(Clone, Default, PartialEq, Eq)]
pub struct Te2;
impl CurveConfig for Te2 {
    type BaseField = F13;
    type ScalarField = F5;
    const COFACTOR: &'static [u64] = &[4];
    const COFACTOR_INV: F5 = MontFp!("4");
}
impl TECurveConfig for Te2 {
    const COEFF_A: F13 = MontFp!("1");
    const COEFF_D: F13 = MontFp!("7");
    const GENERATOR: te::Affine<Self> = te::Affine::new_unchecked(MontFp!("2"), MontFp!("9"));
    type MontCurveConfig = Te2;
}
impl MontCurveConfig for Te2 {
    const COEFF_A: F13 = MontFp!("0");
    const COEFF_B: F13 = MontFp!("1");
    type TECurveConfig = Te2;
}

// te19_a5_h4: 28 points, r = 7, cofactor 4
#[derive(Clone, Default, PartialEq, Eq)]
pub struct Te3;
impl CurveConfig for Te3 {
    type BaseField = F19;
    type ScalarField = F7;
    const COFACTOR: &'static [u64] = &[4];
    const COFACTOR_INV: F7 = MontFp!("2");
}
impl TECurveConfig for Te3 {
    const COEFF_A: F19 = MontFp!("5");
    const COEFF_D: F19 = MontFp!("2");
    const GENERATOR: te::Affine<Self> = te::Affine::new_unchecked(MontFp!("13"), MontFp!("14"));
    type MontCurveConfig = Te3;
}
impl MontCurveConfig for Te3 {
    const COEFF_A: F19 = MontFp!("0");
    const COEFF_B: F19 = MontFp!("1");
    type TECurveConfig = Te3;
}

// te29_m1_h8: 40 points, r = 5, cofactor 8
#[derive(Clone, Default, PartialEq, Eq)]
pub struct Te4;
impl CurveConfig for Te4 {
    type BaseField = F29;
    type ScalarField = F5;
    const COFACTOR: &'static [u64] = &[8];
    const COFACTOR_INV: F5 = MontFp!("2");
}
impl TECurveConfig for Te4 {
    const COEFF_A: F29 = MontFp!("28");
    const COEFF_D: F29 = MontFp!("27");
    const GENERATOR: te::Affine<Self> = te::Affine::new_unchecked(MontFp!("8"), MontFp!("18"));
    type MontCurveConfig = Te4;
}
impl MontCurveConfig for Te4 {
    const COEFF_A: F29 = MontFp!("0");
    const COEFF_B: F29 = MontFp!("1");
    type TECurveConfig = Te4;
}

// te29_1_h8: 40 points, r = 5, cofactor 8
#[derive(Clone, Default, PartialEq, Eq)]
pub struct Te5;
impl CurveConfig for Te5 {
    type BaseField = F29;
    type ScalarField = F5;
    const COFACTOR: &'static [u64] = &[8];
    const COFACTOR_INV: F5 = MontFp!("2");
}
impl TECurveConfig for Te5 {
    const COEFF_A: F29 = MontFp!("1");
    const COEFF_D: F29 = MontFp!("2");
    const GENERATOR: te::Affine<Self> = te::Affine::new_unchecked(MontFp!("5"), MontFp!("23"));
    type MontCurveConfig = Te5;
}
impl MontCurveConfig for Te5 {
    const COEFF_A: F29 = MontFp!("0");
    const COEFF_B: F29 = MontFp!("1");
    type TECurveConfig = Te5;
}

#[derive(MontConfig)]
#[modulus = "47"]
#[generator = "5"]
pub struct F47Config;
pub type F47 = Fp64<MontBackend<F47Config, 1>>;

// te47_1_h12: 60 points, r = 5, cofactor 12
#[derive(Clone, Default, PartialEq, Eq)]
pub struct Te6;
impl CurveConfig for Te6 {
    type BaseField = F47;
    type ScalarField = F5;
    const COFACTOR: &'static [u64] = &[12];
    const COFACTOR_INV: F5 = MontFp!("3");
}
impl TECurveConfig for Te6 {
    const COEFF_A: F47 = MontFp!("1");
    const COEFF_D: F47 = MontFp!("22");
    const GENERATOR: te::Affine<Self> = te::Affine::new_unchecked(MontFp!("6"), MontFp!("42"));
    type MontCurveConfig = Te6;
}
impl MontCurveConfig for Te6 {
    const COEFF_A: F47 = MontFp!("0");
    const COEFF_B: F47 = MontFp!("1");
    type TECurveConfig = Te6;
}

// te17_a3_incomplete: 20 points, r = 5, cofactor 4
#[derive(Clone, Default, PartialEq, Eq)]
pub struct Te7;
impl CurveConfig for Te7 {
    type BaseField = F17;
    type ScalarField = F5;
    const COFACTOR: &'static [u64] = &[4];
    const COFACTOR_INV: F5 = MontFp!("4");
}
impl TECurveConfig for Te7 {
    const COEFF_A: F17 = MontFp!("3");
    const COEFF_D: F17 = MontFp!("5");
    const GENERATOR: te::Affine<Self> = te::Affine::new_unchecked(MontFp!("16"), MontFp!("3"));
    type MontCurveConfig = Te7;
}
impl MontCurveConfig for Te7 {
    const COEFF_A: F17 = MontFp!("0");
    const COEFF_B: F17 = MontFp!("1");
    type TECurveConfig = Te7;
}

// END GENERATED TOY CONFIGS
}

// ---------- field elements on the wire: base-prime-field coordinate lists ----------
fn deg<F: Field>() -> usize {
    F::extension_degree() as usize
}
fn fe<F: Field>(a: &[num_bigint::BigInt]) -> F {
    F::from_base_prime_field_elems(a.iter().map(|v| F::BasePrimeField::from(u(v)))).expect("harness: coordinate count")
}
fn el<F: Field>(a: &Arg, i: usize) -> F {
    let d = deg::<F>();
    fe::<F>(&a[i * d..(i + 1) * d])
}
fn fe_out<F: Field>(x: &F) -> Arg {
    x.to_base_prime_field_elements()
        .map(|c| {
            let b: BigUint = c.into_bigint().into();
            from_biguint(&b)
        })
        .collect()
}
fn cat(parts: &[Arg]) -> Arg {
    parts.iter().flat_map(|p| p.iter().cloned()).collect()
}
fn modulus<F: Field>() -> Arg {
    let m: BigUint = <F::BasePrimeField as PrimeField>::MODULUS.into();
    vec![from_biguint(&m), from_u64(deg::<F>() as u64)]
}
fn prime_out<S: PrimeField>(x: &S) -> num_bigint::BigInt {
    let b: BigUint = x.into_bigint().into();
    from_biguint(&b)
}
fn b(x: bool) -> Arg {
    vec![from_bool(x)]
}

// ---------- short Weierstrass ----------
fn sw_aff<P: SWCurveConfig>(a: &Arg) -> sw::Affine<P> {
    let d = deg::<P::BaseField>();
    if a[2 * d].is_zero() {
        sw::Affine::<P>::new_unchecked(el(a, 0), el(a, 1))
    } else {
        sw::Affine::<P>::identity()
    }
}
fn sw_out<P: SWCurveConfig>(p: &sw::Affine<P>) -> Arg {
    if p.infinity {
        // the identity is printed canonically whatever its coordinate fields hold
        let z = P::BaseField::zero();
        return cat(&[fe_out(&z), fe_out(&z), vec![from_bool(true)]]);
    }
    cat(&[fe_out(&p.x), fe_out(&p.y), vec![from_bool(false)]])
}

fn run_sw<P: SWCurveConfig>(op: &str, a: &[Arg]) -> Vec<Arg> {
    match op {
        "sw_sub" => {
            let p = sw_aff::<P>(&a[8]);
            let ans = p.is_in_correct_subgroup_assuming_on_curve();
            ok(vec![b(ans), b(ans), b(ans)])
        },
        "sw_clear" => {
            let p = sw_aff::<P>(&a[8]);
            let c = p.clear_cofactor();
            ok(vec![
                sw_out(&c),
                sw_out(&c),
                b(c.is_in_correct_subgroup_assuming_on_curve()),
                sw_out(&p.mul_by_cofactor()),
                sw_out(&p.mul_by_cofactor_to_group().into_affine()),
            ])
        },
        "sw_cofinv" => {
            let p = sw_aff::<P>(&a[8]);
            let r = p.mul_by_cofactor().mul_by_cofactor_inv();
            ok(vec![sw_out(&r), b(r == p), sw_out(&r)])
        },
        "sw_sample" => {
            let x: P::BaseField = el(&a[8], 0);
            let greatest = !a[9][0].is_zero();
            match sw::Affine::<P>::get_point_from_x_unchecked(x, greatest) {
                None => ok(vec![vec![from_u64(0)]]),
                Some(q) => {
                    let s = q.mul_by_cofactor();
                    ok(vec![
                        vec![from_u64(1)],
                        sw_out(&q),
                        sw_out(&s),
                        sw_out(&q.mul_by_cofactor_to_group().into_affine()),
                        b(s.is_in_correct_subgroup_assuming_on_curve()),
                        b(q.is_on_curve()),
                    ])
                },
            }
        },
        "sw_check" => {
            let p = sw_aff::<P>(&a[8]);
            ok(vec![b(p.is_on_curve()), b(p.is_in_correct_subgroup_assuming_on_curve())])
        },
        // Distribution<Affine> / Distribution<Projective> for Standard: a[8] = [seed, count]
        "sw_rand" => {
            let mut rng = StdRng::seed_from_u64(to_u64(&a[8][0]));
            let mut out = vec![];
            for _ in 0..to_usize(&a[8][1]) {
                out.push(sw_out(&sw::Affine::<P>::rand(&mut rng)));
                out.push(sw_out(&sw::Projective::<P>::rand(&mut rng).into_affine()));
            }
            ok(out)
        },
        "sw_params" => {
            let r: BigUint = <P::ScalarField as PrimeField>::MODULUS.into();
            ok(vec![
                modulus::<P::BaseField>(),
                fe_out(&P::COEFF_A),
                fe_out(&P::COEFF_B),
                vec![from_biguint(&r), prime_out(&P::COFACTOR_INV)],
                limbs_arg(P::COFACTOR),
                b(P::cofactor_is_one()),
            ])
        },
        _ => unsupported(),
    }
}

// ---------- twisted Edwards ----------
fn te_aff<P: TECurveConfig>(a: &Arg) -> te::Affine<P> {
    te::Affine::<P>::new_unchecked(el(a, 0), el(a, 1))
}
fn te_out<P: TECurveConfig>(p: &te::Affine<P>) -> Arg {
    cat(&[fe_out(&p.x), fe_out(&p.y)])
}

fn run_te<P: TECurveConfig>(op: &str, a: &[Arg]) -> Vec<Arg> {
    match op {
        "te_sub" => {
            let p = te_aff::<P>(&a[8]);
            let ans = p.is_in_correct_subgroup_assuming_on_curve();
            ok(vec![b(ans), b(ans), b(ans)])
        },
        "te_clear" => {
            let p = te_aff::<P>(&a[8]);
            let c = p.clear_cofactor();
            ok(vec![
                te_out(&c),
                te_out(&c),
                b(c.is_in_correct_subgroup_assuming_on_curve()),
                te_out(&p.mul_by_cofactor()),
                te_out(&p.mul_by_cofactor_to_group().into_affine()),
            ])
        },
        "te_cofinv" => {
            let p = te_aff::<P>(&a[8]);
            let r = p.mul_by_cofactor().mul_by_cofactor_inv();
            ok(vec![te_out(&r), b(r == p), te_out(&r)])
        },
        "te_sample" => {
            let y: P::BaseField = el(&a[8], 0);
            let greatest = !a[9][0].is_zero();
            match te::Affine::<P>::get_point_from_y_unchecked(y, greatest) {
                None => ok(vec![vec![from_u64(0)]]),
                Some(q) => {
                    let s = q.mul_by_cofactor();
                    ok(vec![
                        vec![from_u64(1)],
                        te_out(&q),
                        te_out(&s),
                        te_out(&q.mul_by_cofactor_to_group().into_affine()),
                        b(s.is_in_correct_subgroup_assuming_on_curve()),
                        b(q.is_on_curve()),
                    ])
                },
            }
        },
        "te_check" => {
            let p = te_aff::<P>(&a[8]);
            ok(vec![b(p.is_on_curve()), b(p.is_in_correct_subgroup_assuming_on_curve())])
        },
        "te_rand" => {
            let mut rng = StdRng::seed_from_u64(to_u64(&a[8][0]));
            let mut out = vec![];
            for _ in 0..to_usize(&a[8][1]) {
                out.push(te_out(&te::Affine::<P>::rand(&mut rng)));
                out.push(te_out(&te::Projective::<P>::rand(&mut rng).into_affine()));
            }
            ok(out)
        },
        "te_params" => {
            let r: BigUint = <P::ScalarField as PrimeField>::MODULUS.into();
            ok(vec![
                modulus::<P::BaseField>(),
                fe_out(&P::COEFF_A),
                fe_out(&P::COEFF_D),
                vec![from_biguint(&r), prime_out(&P::COFACTOR_INV)],
                limbs_arg(P::COFACTOR),
                b(P::cofactor_is_one()),
            ])
        },
        _ => unsupported(),
    }
}

macro_rules! shipped_sw {
    ($m:ident) => {
        $m!(101, "bls12_381_g1", ark_bls12_381::g1::Config);
        $m!(102, "bls12_381_g2", ark_bls12_381::g2::Config);
        $m!(103, "tc_bls12_381_g1", ark_test_curves::bls12_381::g1::Config);
        $m!(104, "tc_bls12_381_g2", ark_test_curves::bls12_381::g2::Config);
        $m!(105, "bls12_377_g1", ark_bls12_377::g1::Config);
        $m!(106, "bls12_377_g2", ark_bls12_377::g2::Config);
        $m!(107, "bn254_g1", ark_bn254::g1::Config);
        $m!(108, "bn254_g2", ark_bn254::g2::Config);
        $m!(109, "mnt4_298_g2", ark_mnt4_298::g2::Config);
        $m!(110, "mnt6_298_g2", ark_mnt6_298::g2::Config);
        $m!(111, "bw6_761_g1", ark_bw6_761::g1::Config);
        $m!(112, "bw6_761_g2", ark_bw6_761::g2::Config);
        $m!(113, "jubjub_sw", ark_ed_on_bls12_381::JubjubConfig);
        $m!(114, "bandersnatch_sw", ark_ed_on_bls12_381_bandersnatch::BandersnatchConfig);
        $m!(115, "secp256k1", ark_secp256k1::Config);
    };
}
macro_rules! shipped_te {
    ($m:ident) => {
        $m!(201, "ed_on_bls12_381", ark_ed_on_bls12_381::JubjubConfig);
        $m!(202, "ed25519", ark_ed25519::EdwardsConfig);
        $m!(203, "bandersnatch", ark_ed_on_bls12_381_bandersnatch::BandersnatchConfig);
        $m!(204, "ed_on_bn254", ark_ed_on_bn254::EdwardsConfig);
        $m!(205, "curve25519", ark_curve25519::Curve25519Config);
        $m!(206, "bls12_377_g1_te", ark_bls12_377::g1::Config);
    };
}

fn dispatch_sw(cfg: u64, op: &str, a: &[Arg]) -> Vec<Arg> {
    macro_rules! arm {
        ($id:expr, $n:expr, $t:ty) => {
            if cfg == $id {
                return run_sw::<$t>(op, a);
            }
        };
    }
    shipped_sw!(arm);
    match cfg {
// BEGIN GENERATED TOY SW DISPATCH
        1 => run_sw::<toy::Sw1>(op, a),
        2 => run_sw::<toy::Sw2>(op, a),
        3 => run_sw::<toy::Sw3>(op, a),
        4 => run_sw::<toy::Sw4>(op, a),
        5 => run_sw::<toy::Sw5>(op, a),
        6 => run_sw::<toy::Sw6>(op, a),
        7 => run_sw::<toy::Sw7>(op, a),
        8 => run_sw::<toy::Sw8>(op, a),
        9 => run_sw::<toy::Sw9>(op, a),
        10 => run_sw::<toy::Sw10>(op, a),
        11 => run_sw::<toy::Sw11>(op, a),
        12 => run_sw::<toy::Sw12>(op, a),
// END GENERATED TOY SW DISPATCH
        _ => unsupported(),
    }
}
fn dispatch_te(cfg: u64, op: &str, a: &[Arg]) -> Vec<Arg> {
    macro_rules! arm {
        ($id:expr, $n:expr, $t:ty) => {
            if cfg == $id {
                return run_te::<$t>(op, a);
            }
        };
    }
    shipped_te!(arm);
    match cfg {
// BEGIN GENERATED TOY TE DISPATCH
        1 => run_te::<toy::Te1>(op, a),
        2 => run_te::<toy::Te2>(op, a),
        3 => run_te::<toy::Te3>(op, a),
        4 => run_te::<toy::Te4>(op, a),
        5 => run_te::<toy::Te5>(op, a),
        6 => run_te::<toy::Te6>(op, a),
        7 => run_te::<toy::Te7>(op, a),
// END GENERATED TOY TE DISPATCH
        _ => unsupported(),
    }
}

// ---------- `c12 params`: constants of the shipped configurations as JSON lines ----------
fn s(a: &Arg) -> String {
    format!("[{}]", a.iter().map(|x| format!("\"{}\"", x)).collect::<Vec<_>>().join(","))
}
/// u^deg for the adjoined generator u (deg > 1); 0 for a prime field
fn nr_of<F: Field>() -> Arg {
    let d = deg::<F>();
    if d == 1 {
        return vec![from_u64(0)];
    }
    let mut c = vec![num_bigint::BigInt::from(0); d];
    c[1] = num_bigint::BigInt::from(1);
    let uu = fe::<F>(&c);
    let mut r = F::ONE;
    for _ in 0..d {
        r *= uu;
    }
    vec![fe_out(&r)[0].clone()]
}
/// the coordinate c with u^p = c u (FROBENIUS_COEFF_FP2_C1[1] for a quadratic extension); 0 for deg 1
fn frob_of<F: Field>() -> Arg {
    let d = deg::<F>();
    if d == 1 {
        return vec![from_u64(0)];
    }
    let mut c = vec![num_bigint::BigInt::from(0); d];
    c[1] = num_bigint::BigInt::from(1);
    let mut uu = fe::<F>(&c);
    uu.frobenius_map_in_place(1);
    vec![fe_out(&uu)[1].clone()]
}
fn limbs_s(l: &[u64]) -> String {
    s(&limbs_arg(l))
}
fn params() {
    macro_rules! d_sw {
        ($id:expr, $n:expr, $t:ty) => {{
            type B = <$t as CurveConfig>::BaseField;
            let g = <$t as SWCurveConfig>::GENERATOR;
            let r: BigUint = <<$t as CurveConfig>::ScalarField as PrimeField>::MODULUS.into();
            println!(
                "{{\"kind\":\"sw\",\"id\":{},\"name\":\"{}\",\"field\":{},\"nr\":{},\"frob\":{},\"a\":{},\"b\":{},\"gx\":{},\"gy\":{},\"r\":\"{}\",\"h\":{},\"cinv\":\"{}\"}}",
                $id, $n, s(&modulus::<B>()), s(&nr_of::<B>()), s(&frob_of::<B>()), s(&fe_out(&<$t as SWCurveConfig>::COEFF_A)),
                s(&fe_out(&<$t as SWCurveConfig>::COEFF_B)), s(&fe_out(&g.x)), s(&fe_out(&g.y)), r,
                limbs_s(<$t as CurveConfig>::COFACTOR), prime_out(&<$t as CurveConfig>::COFACTOR_INV)
            );
        }};
    }
    macro_rules! d_te {
        ($id:expr, $n:expr, $t:ty) => {{
            type B = <$t as CurveConfig>::BaseField;
            let g = <$t as TECurveConfig>::GENERATOR;
            let r: BigUint = <<$t as CurveConfig>::ScalarField as PrimeField>::MODULUS.into();
            println!(
                "{{\"kind\":\"te\",\"id\":{},\"name\":\"{}\",\"field\":{},\"nr\":{},\"frob\":{},\"a\":{},\"d\":{},\"gx\":{},\"gy\":{},\"r\":\"{}\",\"h\":{},\"cinv\":\"{}\"}}",
                $id, $n, s(&modulus::<B>()), s(&nr_of::<B>()), s(&frob_of::<B>()), s(&fe_out(&<$t as TECurveConfig>::COEFF_A)),
                s(&fe_out(&<$t as TECurveConfig>::COEFF_D)), s(&fe_out(&g.x)), s(&fe_out(&g.y)), r,
                limbs_s(<$t as CurveConfig>::COFACTOR), prime_out(&<$t as CurveConfig>::COFACTOR_INV)
            );
        }};
    }
    shipped_sw!(d_sw);
    shipped_te!(d_te);
    // the public constants the overrides use
    macro_rules! d_bls {
        ($n:expr, $t:ty) => {{
            println!(
                "{{\"kind\":\"bls\",\"name\":\"{}\",\"x\":{},\"x_is_negative\":{}}}",
                $n, limbs_s(<$t as Bls12Config>::X), <$t as Bls12Config>::X_IS_NEGATIVE
            );
        }};
    }
    d_bls!("bls12_381", ark_bls12_381::Config);
    d_bls!("tc_bls12_381", ark_test_curves::bls12_381::Config);
    d_bls!("bls12_377", ark_bls12_377::Config);
    macro_rules! d_glv {
        ($n:expr, $t:ty) => {{
            let c = <$t as GLVConfig>::SCALAR_DECOMP_COEFFS;
            let cs: Vec<String> = c
                .iter()
                .map(|(sgn, v)| {
                    let m: BigUint = (*v).into();
                    format!("\"{}{}\"", if *sgn { "" } else { "-" }, m)
                })
                .collect();
            println!(
                "{{\"kind\":\"glv\",\"name\":\"{}\",\"coeffs\":[{}],\"endo\":{},\"lambda\":\"{}\",\"nbits\":{}}}",
                $n, cs.join(","), s(&fe_out(&<$t as GLVConfig>::ENDO_COEFFS[0])), prime_out(&<$t as GLVConfig>::LAMBDA),
                64 * <<<$t as CurveConfig>::ScalarField as PrimeField>::BigInt as ark_ff::BigInteger>::NUM_LIMBS
            );
        }};
    }
    d_glv!("bls12_381_g1", ark_bls12_381::g1::Config);
    println!("{{\"kind\":\"beta\",\"name\":\"bls12_381_g1\",\"beta\":{}}}", s(&fe_out(&ark_bls12_381::g1::BETA)));
}

fn main() {
    if std::env::args().nth(1).as_deref() == Some("params") {
        params();
        return;
    }
    main_loop(|op, a| {
        let cfg = to_u64(&a[0][0]);
        if op.starts_with("sw_") {
            dispatch_sw(cfg, op, a)
        } else if op.starts_with("te_") {
            dispatch_te(cfg, op, a)
        } else {
            unsupported()
        }
    });
}
