//! C13 case interpreter: hash-to-field, map-to-curve (SWU, WB isogeny, Elligator 2), parity,
//! full hash-to-curve.  Case layout: a0 = [cfg_id, ...small ints]; the Rust type is selected by
//! cfg_id, every constant the Coq model needs travels in later arguments that this
//! interpreter ignores (they were dumped from the Rust configuration by the `params` op).
//!   h2f       a0 = [field_cfg, N, SEC_PARAM]   a1 = msg bytes  a2 = dst bytes
//!   parity    a0 = [field_cfg]                 a1 = element coordinates
//!   swu/wb/ell2   a0 = [curve_cfg]             a1 = u coordinates
//!   hash      a0 = [curve_cfg]                 a1 = msg bytes  a2 = dst bytes
//!   config_ok a0 = [curve_cfg]   (M2C::check_parameters() == Ok, debug assertions on)
//!   params    a0 = [cfg]
#![allow(dead_code)]
use ark_ec::{
    hashing::{
        curve_maps::{
            elligator2::{Elligator2Config, Elligator2Map},
            parity,
            swu::{SWUConfig, SWUMap},
            wb::{IsogenyMap, WBConfig, WBMap},
        },
        map_to_curve_hasher::{MapToCurve, MapToCurveBasedHasher},
        HashToCurve,
    },
    models::CurveConfig,
    short_weierstrass::{self as sw, SWCurveConfig},
    twisted_edwards::{self as te, MontCurveConfig, TECurveConfig},
    AffineRepr,
};
use ark_ff::{
    field_hashers::{DefaultFieldHasher, HashToField},
    fields::{Fp64, MontBackend, MontConfig},
    AdditiveGroup, Field, MontFp, PrimeField, SqrtPrecomputation,
};
use num_bigint::BigUint;
use sha2::Sha256;
use vharness::*;

type SIntT = num_bigint::BigInt;

// ---------------------------------------------------------------- toy configurations (those of the ec unit tests)
#[derive(MontConfig)]
#[modulus = "127"]
#[generator = "6"]
pub struct F127Config;
pub type F127 = Fp64<MontBackend<F127Config, 1>>;

#[derive(MontConfig)]
#[modulus = "101"]
#[generator = "2"]
pub struct F101Config;
pub type F101 = Fp64<MontBackend<F101Config, 1>>;

#[derive(MontConfig)]
#[modulus = "11"]
#[generator = "2"]
pub struct F11Config;
pub type F11 = Fp64<MontBackend<F11Config, 1>>;

// swu.rs test: y^2 = x^3 + x + 63 over F127, ZETA = -1
pub struct ToySwu;
impl CurveConfig for ToySwu {
    const COFACTOR: &'static [u64] = &[1];
    const COFACTOR_INV: F127 = MontFp!("1");
    type BaseField = F127;
    type ScalarField = F127;
}
impl SWCurveConfig for ToySwu {
    const COEFF_A: F127 = MontFp!("1");
    const COEFF_B: F127 = MontFp!("63");
    const GENERATOR: sw::Affine<Self> = sw::Affine::new_unchecked(MontFp!("62"), MontFp!("70"));
}
impl SWUConfig for ToySwu {
    const ZETA: F127 = MontFp!("-1");
}

// wb.rs test: E : y^2 = x^3 + 3, E_iso : y^2 = x^3 + 109 x + 124 over F127
pub struct ToyWb;
impl CurveConfig for ToyWb {
    const COFACTOR: &'static [u64] = &[1];
    const COFACTOR_INV: F127 = MontFp!("1");
    type BaseField = F127;
    type ScalarField = F127;
}
impl SWCurveConfig for ToyWb {
    const COEFF_A: F127 = MontFp!("0");
    const COEFF_B: F127 = MontFp!("3");
    const GENERATOR: sw::Affine<Self> = sw::Affine::new_unchecked(MontFp!("62"), MontFp!("70"));
}
pub struct ToyWbIso;
impl CurveConfig for ToyWbIso {
    const COFACTOR: &'static [u64] = &[1];
    const COFACTOR_INV: F127 = MontFp!("1");
    type BaseField = F127;
    type ScalarField = F127;
}
impl SWCurveConfig for ToyWbIso {
    const COEFF_A: F127 = MontFp!("109");
    const COEFF_B: F127 = MontFp!("124");
    const GENERATOR: sw::Affine<Self> = sw::Affine::new_unchecked(MontFp!("84"), MontFp!("2"));
}
impl SWUConfig for ToyWbIso {
    const ZETA: F127 = MontFp!("-1");
}
const TOY_ISO: IsogenyMap<'static, ToyWbIso, ToyWb> = IsogenyMap {
    x_map_numerator: &[
        MontFp!("4"), MontFp!("63"), MontFp!("23"), MontFp!("39"), MontFp!("-14"), MontFp!("23"), MontFp!("-32"),
        MontFp!("32"), MontFp!("-13"), MontFp!("40"), MontFp!("34"), MontFp!("10"), MontFp!("-21"), MontFp!("-57"),
    ],
    x_map_denominator: &[
        MontFp!("2"), MontFp!("31"), MontFp!("-10"), MontFp!("-20"), MontFp!("63"), MontFp!("-44"), MontFp!("34"),
        MontFp!("30"), MontFp!("-30"), MontFp!("-33"), MontFp!("11"), MontFp!("-13"), MontFp!("1"),
    ],
    y_map_numerator: &[
        MontFp!("-34"), MontFp!("-57"), MontFp!("30"), MontFp!("-18"), MontFp!("-60"), MontFp!("-43"), MontFp!("-63"),
        MontFp!("-18"), MontFp!("-49"), MontFp!("36"), MontFp!("12"), MontFp!("62"), MontFp!("5"), MontFp!("6"),
        MontFp!("-7"), MontFp!("48"), MontFp!("41"), MontFp!("59"), MontFp!("10"),
    ],
    y_map_denominator: &[
        MontFp!("32"), MontFp!("-18"), MontFp!("-24"), MontFp!("23"), MontFp!("18"), MontFp!("-55"), MontFp!("-16"),
        MontFp!("-61"), MontFp!("-46"), MontFp!("-13"), MontFp!("-42"), MontFp!("11"), MontFp!("-30"), MontFp!("38"),
        MontFp!("3"), MontFp!("52"), MontFp!("-63"), MontFp!("44"), MontFp!("1"),
    ],
};
impl WBConfig for ToyWb {
    type IsogenousCurve = ToyWbIso;
    const ISOGENY_MAP: IsogenyMap<'static, Self::IsogenousCurve, Self> = TOY_ISO;
}

// elligator2.rs test: -x^2 + y^2 = 1 + 12 x^2 y^2 over F101, Montgomery (76, 23), Z = 2
pub struct ToyEll;
impl CurveConfig for ToyEll {
    const COFACTOR: &'static [u64] = &[8];
    const COFACTOR_INV: F11 = MontFp!("7");
    type BaseField = F101;
    type ScalarField = F11;
}
impl TECurveConfig for ToyEll {
    const COEFF_A: F101 = MontFp!("-1");
    const COEFF_D: F101 = MontFp!("12");
    const GENERATOR: te::Affine<Self> = te::Affine::new_unchecked(MontFp!("23"), MontFp!("24"));
    type MontCurveConfig = Self;
}
impl MontCurveConfig for ToyEll {
    const COEFF_A: F101 = MontFp!("76");
    const COEFF_B: F101 = MontFp!("23");
    type TECurveConfig = Self;
}
impl Elligator2Config for ToyEll {
    const Z: F101 = MontFp!("2");
    const ONE_OVER_COEFF_B_SQUARE: F101 = MontFp!("80");
    const COEFF_A_OVER_COEFF_B: F101 = MontFp!("56");
}

// ---- Elligator 2 configurations over primes p = 3 (mod 4): there -1 is a non-square, so -1/Z is a square for every
// non-square Z and the exceptional denominator 1 + Z u^2 of the map HAS roots u = +-sqrt(-1/Z) (RFC 9380 6.7.1 step 2:
// "if x1 == 0, set x1 = -(J/K)").  Over the p = 1 (mod 4) fields of ToyEll / Bandersnatch that branch is dead code.
// Constants computed in Python (props/C13/NOTES.md "Elligator 2 configurations"): twisted Edwards x^2 + y^2 = 1 + d x^2 y^2,
// J = 2(1+d)/(1-d), K = 4/(1-d), group order = COFACTOR * r (exhaustive count for the toys, baby-step/giant-step over
// the Hasse interval for 2^61 - 1), generator = COFACTOR * (random point).
#[derive(MontConfig)]
#[modulus = "103"]
#[generator = "5"]
pub struct F103Config;
pub type F103 = Fp64<MontBackend<F103Config, 1>>;
#[derive(MontConfig)]
#[modulus = "13"]
#[generator = "2"]
pub struct F13Config;
pub type F13 = Fp64<MontBackend<F13Config, 1>>;
#[derive(MontConfig)]
#[modulus = "31"]
#[generator = "3"]
pub struct F31Config;
pub type F31 = Fp64<MontBackend<F31Config, 1>>;
#[derive(MontConfig)]
#[modulus = "2305843009213693951"]
#[generator = "37"]
pub struct FM61Config;
pub type FM61 = Fp64<MontBackend<FM61Config, 1>>;
#[derive(MontConfig)]
#[modulus = "288230376166843361"]
#[generator = "3"]
pub struct FrM61aConfig;
pub type FrM61a = Fp64<MontBackend<FrM61aConfig, 1>>;
#[derive(MontConfig)]
#[modulus = "576460752649155233"]
#[generator = "3"]
pub struct FrM61bConfig;
pub type FrM61b = Fp64<MontBackend<FrM61bConfig, 1>>;

macro_rules! ell2_config {
    ($name:ident, $fq:ty, $fr:ty, cof = $h:expr, cof_inv = $hi:expr, d = $d:expr, gen = ($gx:expr, $gy:expr),
     j = $j:expr, k = $k:expr, z = $z:expr, ksq_inv = $ki:expr, j_on_k = $jk:expr) => {
        pub struct $name;
        impl CurveConfig for $name {
            const COFACTOR: &'static [u64] = &[$h];
            const COFACTOR_INV: $fr = MontFp!($hi);
            type BaseField = $fq;
            type ScalarField = $fr;
        }
        impl TECurveConfig for $name {
            const COEFF_A: $fq = MontFp!("1");
            const COEFF_D: $fq = MontFp!($d);
            const GENERATOR: te::Affine<Self> = te::Affine::new_unchecked(MontFp!($gx), MontFp!($gy));
            type MontCurveConfig = Self;
        }
        impl MontCurveConfig for $name {
            const COEFF_A: $fq = MontFp!($j);
            const COEFF_B: $fq = MontFp!($k);
            type TECurveConfig = Self;
        }
        impl Elligator2Config for $name {
            const Z: $fq = MontFp!($z);
            const ONE_OVER_COEFF_B_SQUARE: $fq = MontFp!($ki);
            const COEFF_A_OVER_COEFF_B: $fq = MontFp!($jk);
        }
    };
}
// F_103, d = 43: order 8 * 13, Z = -1 (exceptional u = +-1), g(-J/K) a square: the exceptional input takes the x1 branch
ell2_config!(Toy103a, F103, F13, cof = 8, cof_inv = "5", d = "43", gen = ("30", "22"),
             j = "96", k = "98", z = "-1", ksq_inv = "33", j_on_k = "22");
// F_103, d = 12: order 8 * 13, Z = 5 (exceptional u = +-91), g(-J/K) a non-square: x2 = 0, the point (0,0) -> identity
ell2_config!(Toy103b, F103, F13, cof = 8, cof_inv = "5", d = "12", gen = ("54", "48"),
             j = "7", k = "9", z = "5", ksq_inv = "14", j_on_k = "58");
// F_127, d = 10: order 4 * 31, Z = 3 (exceptional u = +-13), g(-J/K) a non-square
ell2_config!(Toy127Ell, F127, F31, cof = 4, cof_inv = "8", d = "10", gen = ("78", "107"),
             j = "54", k = "56", z = "3", ksq_inv = "13", j_on_k = "69");
// F_(2^61 - 1), d = 29: order 8 * 288230376166843361, Z = -1, g(-J/K) a square
ell2_config!(M61a, FM61, FrM61a, cof = 8, cof_inv = "252201579145987941", d = "29",
             gen = ("1024162441322706899", "1953785824883159611"),
             j = "329406144173384848", k = "329406144173384850", z = "-1", ksq_inv = "49", j_on_k = "15");
// F_(2^61 - 1), d = 112: order 4 * 576460752649155233, Z = 3, g(-J/K) a non-square
ell2_config!(M61b, FM61, FrM61b, cof = 4, cof_inv = "432345564486866425", d = "112",
             gen = ("143050599322750292", "1520780196982311020"),
             j = "1703415556356062196", k = "1703415556356062198", z = "3",
             ksq_inv = "144115188075856642", j_on_k = "1152921504606847032");

// ---------------------------------------------------------------- conversions
fn elem<F: Field>(a: &Arg) -> F {
    assert_eq!(a.len() as u64, F::extension_degree(), "harness: wrong coordinate count");
    F::from_base_prime_field_elems(a.iter().map(|v| F::BasePrimeField::from(u(v)))).unwrap()
}
fn big<F: PrimeField>(x: &F) -> SIntT {
    from_biguint(&x.into_bigint().into())
}
fn coords<F: Field>(x: &F) -> Arg {
    x.to_base_prime_field_elements().map(|c| big(&c)).collect()
}
fn coords_list<F: Field>(l: &[F]) -> Arg {
    l.iter().flat_map(|x| coords(x)).collect()
}
fn limbs_to_int(l: &[u64]) -> SIntT {
    let mut v = BigUint::from(0u8);
    for (i, x) in l.iter().enumerate() {
        v += BigUint::from(*x) << (64 * i);
    }
    from_biguint(&v)
}
fn bytes(a: &Arg) -> Vec<u8> {
    a.iter().map(|v| to_u64(v) as u8).collect()
}
/// point, then the public predicates [is_on_curve, is_in_correct_subgroup_assuming_on_curve]
/// (the second only when `sub` is set: it is the claim of the full hash, not of a single map)
fn sw_out<P: SWCurveConfig>(p: &sw::Affine<P>, sub: bool) -> Vec<Arg> {
    let mut flags = vec![from_bool(p.is_on_curve())];
    if sub {
        flags.push(from_bool(p.is_in_correct_subgroup_assuming_on_curve()));
    }
    match p.xy() {
        Some((x, y)) => ok(vec![coords(&x), coords(&y), vec![from_u64(0)], flags]),
        None => ok(vec![
            coords(&P::BaseField::ZERO),
            coords(&P::BaseField::ZERO),
            vec![from_u64(1)],
            flags,
        ]),
    }
}
fn te_out<P: TECurveConfig>(p: &te::Affine<P>, sub: bool) -> Vec<Arg> {
    let mut flags = vec![from_bool(p.is_on_curve())];
    if sub {
        flags.push(from_bool(p.is_in_correct_subgroup_assuming_on_curve()));
    }
    ok(vec![coords(&p.x), coords(&p.y), flags])
}
fn precomp_arg<F: PrimeField>() -> Arg {
    match F::SQRT_PRECOMP {
        None => vec![from_u64(0)],
        Some(SqrtPrecomputation::Case3Mod4 { modulus_plus_one_div_four }) => {
            vec![from_u64(1), limbs_to_int(modulus_plus_one_div_four)]
        },
        Some(SqrtPrecomputation::TonelliShanks {
            two_adicity,
            quadratic_nonresidue_to_trace,
            trace_of_modulus_minus_one_div_two,
        }) => vec![
            from_u64(2),
            from_u64(two_adicity as u64),
            big(&quadratic_nonresidue_to_trace),
            limbs_to_int(trace_of_modulus_minus_one_div_two),
        ],
        #[allow(unreachable_patterns)]
        _ => vec![from_u64(9)],
    }
}
/// [deg, p, nr] : nr = the quadratic non-residue of the Fp2 tower (X^2 = nr), computed from the
/// field itself as (0,1)^2 so that no tower trait is needed
fn field_desc<F: Field>() -> Arg {
    let p: BigUint = <F::BasePrimeField as PrimeField>::MODULUS.into();
    let deg = F::extension_degree();
    if deg == 1 {
        vec![from_u64(1), from_biguint(&p)]
    } else {
        assert_eq!(deg, 2, "harness: only Fp and Fp2");
        let one = <F::BasePrimeField as Field>::ONE;
        let zero = <F::BasePrimeField as AdditiveGroup>::ZERO;
        let i = F::from_base_prime_field_elems([zero, one]).unwrap();
        let nr = coords(&(i * i));
        assert!(nr[1] == from_u64(0));
        vec![from_u64(2), from_biguint(&p), nr[0].clone()]
    }
}

// ---------------------------------------------------------------- hash_to_field
fn h2f_n<F: Field, const SEC: usize, const N: usize>(msg: &[u8], dst: &[u8]) -> Vec<Arg> {
    let h = <DefaultFieldHasher<Sha256, SEC> as HashToField<F>>::new(dst);
    let r: [F; N] = h.hash_to_field::<N>(msg);
    // determinism: a second hasher instance, same inputs
    let h2 = <DefaultFieldHasher<Sha256, SEC> as HashToField<F>>::new(dst);
    let r2: [F; N] = h2.hash_to_field::<N>(msg);
    assert!(r == r2, "harness: hash_to_field not deterministic");
    ok(r.iter().map(coords).collect())
}
fn h2f_sec<F: Field, const SEC: usize>(n: u64, msg: &[u8], dst: &[u8]) -> Vec<Arg> {
    match n {
        0 => h2f_n::<F, SEC, 0>(msg, dst),
        1 => h2f_n::<F, SEC, 1>(msg, dst),
        2 => h2f_n::<F, SEC, 2>(msg, dst),
        3 => h2f_n::<F, SEC, 3>(msg, dst),
        5 => h2f_n::<F, SEC, 5>(msg, dst),
        63 => h2f_n::<F, SEC, 63>(msg, dst),
        64 => h2f_n::<F, SEC, 64>(msg, dst),
        127 => h2f_n::<F, SEC, 127>(msg, dst),
        128 => h2f_n::<F, SEC, 128>(msg, dst),
        170 => h2f_n::<F, SEC, 170>(msg, dst),
        171 => h2f_n::<F, SEC, 171>(msg, dst),
        _ => unsupported(),
    }
}
fn h2f<F: Field>(a: &[Arg]) -> Vec<Arg> {
    let n = to_u64(&a[0][1]);
    let sec = to_u64(&a[0][2]);
    let (msg, dst) = (bytes(&a[1]), bytes(&a[2]));
    match sec {
        128 => h2f_sec::<F, 128>(n, &msg, &dst),
        0 => h2f_sec::<F, 0>(n, &msg, &dst),
        131 => h2f_sec::<F, 131>(n, &msg, &dst),
        132 => h2f_sec::<F, 132>(n, &msg, &dst),
        _ => unsupported(),
    }
}
fn field_op<F: Field>(op: &str, a: &[Arg]) -> Vec<Arg> {
    match op {
        "params" => ok(vec![
            field_desc::<F>(),
            precomp_arg::<F::BasePrimeField>(),
            vec![from_u64(<F::BasePrimeField as PrimeField>::MODULUS_BIT_SIZE as u64)],
        ]),
        "h2f" => h2f::<F>(a),
        "parity" => ok(vec![vec![from_bool(parity(&elem::<F>(&a[1])))]]),
        _ => unsupported(),
    }
}

// ---------------------------------------------------------------- curve maps
fn map_out<P: SWCurveConfig>(r: Result<sw::Affine<P>, ark_ec::hashing::HashToCurveError>, sub: bool) -> Vec<Arg> {
    match r {
        Ok(p) => sw_out(&p, sub),
        Err(_) => err(1),
    }
}
fn swu_op<P: SWUConfig>(op: &str, a: &[Arg]) -> Vec<Arg> {
    match op {
        "params" => ok(vec![
            field_desc::<P::BaseField>(),
            precomp_arg::<<P::BaseField as Field>::BasePrimeField>(),
            coords_list(&[P::COEFF_A, P::COEFF_B, P::ZETA]),
            vec![limbs_to_int(P::COFACTOR), from_biguint(&<P::ScalarField as PrimeField>::MODULUS.into())],
        ]),
        "swu" => map_out(SWUMap::<P>::map_to_curve(elem::<P::BaseField>(&a[1])), false),
        "config_ok" => ok(vec![vec![from_bool(SWUMap::<P>::check_parameters().is_ok())]]),
        "hash" => {
            let h = MapToCurveBasedHasher::<sw::Projective<P>, DefaultFieldHasher<Sha256, 128>, SWUMap<P>>::new(
                &bytes(&a[2]),
            );
            match h {
                Ok(h) => {
                    let r = h.hash(&bytes(&a[1]));
                    let r2 = h.hash(&bytes(&a[1]));
                    assert!(r.is_ok() == r2.is_ok() && (r.is_err() || r.as_ref().unwrap() == r2.as_ref().unwrap()));
                    map_out(r, true)
                },
                Err(_) => err(2),
            }
        },
        _ => unsupported(),
    }
}
fn wb_op<P: WBConfig>(op: &str, a: &[Arg]) -> Vec<Arg> {
    match op {
        "params" => {
            let m = &P::ISOGENY_MAP;
            ok(vec![
                field_desc::<P::BaseField>(),
                precomp_arg::<<P::BaseField as Field>::BasePrimeField>(),
                coords_list(&[
                    <P::IsogenousCurve as SWCurveConfig>::COEFF_A,
                    <P::IsogenousCurve as SWCurveConfig>::COEFF_B,
                    <P::IsogenousCurve as SWUConfig>::ZETA,
                ]),
                coords_list(&[P::COEFF_A, P::COEFF_B]),
                coords_list(m.x_map_numerator),
                coords_list(m.x_map_denominator),
                coords_list(m.y_map_numerator),
                coords_list(m.y_map_denominator),
                vec![limbs_to_int(P::COFACTOR), from_biguint(&<P::ScalarField as PrimeField>::MODULUS.into())],
            ])
        },
        "swu" => map_out(SWUMap::<P::IsogenousCurve>::map_to_curve(elem::<P::BaseField>(&a[1])), false),
        "wb" => map_out(WBMap::<P>::map_to_curve(elem::<P::BaseField>(&a[1])), false),
        "config_ok" => ok(vec![vec![from_bool(WBMap::<P>::check_parameters().is_ok())]]),
        "hash" => {
            let h = MapToCurveBasedHasher::<sw::Projective<P>, DefaultFieldHasher<Sha256, 128>, WBMap<P>>::new(
                &bytes(&a[2]),
            );
            match h {
                Ok(h) => {
                    let r = h.hash(&bytes(&a[1]));
                    let r2 = h.hash(&bytes(&a[1]));
                    assert!(r.is_ok() == r2.is_ok() && (r.is_err() || r.as_ref().unwrap() == r2.as_ref().unwrap()));
                    map_out(r, true)
                },
                Err(_) => err(2),
            }
        },
        _ => unsupported(),
    }
}
fn ell_op<P: Elligator2Config>(op: &str, a: &[Arg]) -> Vec<Arg> {
    match op {
        "params" => ok(vec![
            field_desc::<P::BaseField>(),
            precomp_arg::<<P::BaseField as Field>::BasePrimeField>(),
            coords_list(&[
                <P as MontCurveConfig>::COEFF_A,
                <P as MontCurveConfig>::COEFF_B,
                P::COEFF_A_OVER_COEFF_B,
                P::ONE_OVER_COEFF_B_SQUARE,
                P::Z,
                <P as TECurveConfig>::COEFF_A,
                <P as TECurveConfig>::COEFF_D,
            ]),
            vec![limbs_to_int(P::COFACTOR), from_biguint(&<P::ScalarField as PrimeField>::MODULUS.into())],
        ]),
        "ell2" => match Elligator2Map::<P>::map_to_curve(elem::<P::BaseField>(&a[1])) {
            Ok(p) => te_out(&p, false),
            Err(_) => err(1),
        },
        "config_ok" => ok(vec![vec![from_bool(Elligator2Map::<P>::check_parameters().is_ok())]]),
        "hash" => {
            let h =
                MapToCurveBasedHasher::<te::Projective<P>, DefaultFieldHasher<Sha256, 128>, Elligator2Map<P>>::new(
                    &bytes(&a[2]),
                );
            match h {
                Ok(h) => match h.hash(&bytes(&a[1])) {
                    Ok(p) => te_out(&p, true),
                    Err(_) => err(1),
                },
                Err(_) => err(2),
            }
        },
        _ => unsupported(),
    }
}

fn run(op: &str, a: &[Arg]) -> Vec<Arg> {
    let id = to_u64(&a[0][0]);
    match id {
        1 => field_op::<ark_test_curves::bls12_381::Fq>(op, a),
        2 => field_op::<ark_test_curves::bls12_381::Fq2>(op, a),
        3 => field_op::<ark_bls12_381::Fq>(op, a),
        4 => field_op::<ark_bls12_381::Fq2>(op, a),
        5 => field_op::<ark_bls12_377::Fq>(op, a),
        6 => field_op::<ark_bls12_377::Fq2>(op, a),
        7 => field_op::<ark_bls12_381::Fr>(op, a),
        8 => field_op::<ark_secp256k1::Fq>(op, a),
        9 => field_op::<F127>(op, a),
        10 => field_op::<F101>(op, a),
        12 => field_op::<F103>(op, a),
        13 => field_op::<FM61>(op, a),
        11 => field_op::<ark_mnt4_753::Fq>(op, a),
        21 => wb_op::<ark_test_curves::bls12_381::g1::Config>(op, a),
        22 => wb_op::<ark_test_curves::bls12_381::g2::Config>(op, a),
        23 => wb_op::<ark_bls12_381::g1::Config>(op, a),
        24 => wb_op::<ark_bls12_381::g2::Config>(op, a),
        25 => wb_op::<ark_bls12_377::g1::Config>(op, a),
        26 => wb_op::<ark_bls12_377::g2::Config>(op, a),
        27 => swu_op::<ToySwu>(op, a),
        28 => wb_op::<ToyWb>(op, a),
        31 => ell_op::<ark_ed_on_bls12_381_bandersnatch::BandersnatchConfig>(op, a),
        32 => ell_op::<ToyEll>(op, a),
        33 => ell_op::<Toy103a>(op, a),
        34 => ell_op::<Toy103b>(op, a),
        35 => ell_op::<Toy127Ell>(op, a),
        36 => ell_op::<M61a>(op, a),
        37 => ell_op::<M61b>(op, a),
        _ => unsupported(),
    }
}

fn main() {
    main_loop(run);
}
