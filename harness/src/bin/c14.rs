//! C14 case interpreter: operations that have a `parallel` code path, run with a given
//! number of rayon threads.
//!
//! Built twice from this one source: bin `c14` with `--features parallel` (the crates'
//! parallel code paths) and bin `c14s` (src/bin/c14s.rs = `include!` of this file) with the
//! default features (the serial code paths).  No oracle logic: call the API, print the result.
//!
//! Thread count.  The harness crate has no direct `rayon` dependency (Cargo.toml is not
//! ours to edit), so a pool of T threads is obtained the way an application gets it: the
//! global rayon pool is sized by `RAYON_NUM_THREADS=T` at first use.  The process started
//! by the engine is a *dispatcher*: it reads all case lines, groups them by T
//! (a0 = [cfg_id, T, rep]), runs one worker process (this same executable,
//! `C14_WORKER=1`, `RAYON_NUM_THREADS=T`) per distinct T and prints the results in input
//! order.  `rayon::current_num_threads()` inside the library then equals T.
//! In the serial build T is ignored and everything runs in-process.
//!
//! Case layout:  a0 = [cfg_id, T, rep]   a1 = [p, ...curve params] (model only; p is sanity-checked)
//!   a2 = FftField constants (model only)  a3 = small parameters  a4 = [] | [offset]  a5, a6 = data
//! `C14_FULL=1`: the pairing op additionally prints the raw Miller-loop and GT values
//! (used by prop.py `extra` to compare the parallel and the serial binary).
#![allow(unexpected_cfgs)]
use ark_ec::{
    pairing::Pairing, scalar_mul::BatchMulPreprocessing, short_weierstrass::Projective, AffineRepr,
    CurveGroup, ScalarMul, VariableBaseMSM,
};
use ark_ff::fields::{Fp64, MontBackend, MontConfig};
use ark_ff::{FftField, Field, PrimeField, Zero};
use ark_poly::{
    univariate::DensePolynomial, DenseUVPolynomial, EvaluationDomain, GeneralEvaluationDomain,
    MixedRadixEvaluationDomain, Polynomial, Radix2EvaluationDomain,
};
use ark_serialize::{CanonicalDeserialize, CanonicalSerialize};
use ark_test_curves::bls12_381 as bls;
use num_bigint::BigUint;
use vharness::*;

// p = 2^7 * 3^4 + 1, subgroup of order 2^7 * 3^3 declared
#[derive(MontConfig)]
#[modulus = "10369"]
#[generator = "13"]
#[small_subgroup_base = "3"]
#[small_subgroup_power = "3"]
pub struct M3Config;
pub type M3 = Fp64<MontBackend<M3Config, 1>>;

// p = 2^12 * 3 + 1
#[derive(MontConfig)]
#[modulus = "12289"]
#[generator = "11"]
pub struct F12289Config;
pub type F12289 = Fp64<MontBackend<F12289Config, 1>>;

// p = 2^16 + 1
#[derive(MontConfig)]
#[modulus = "65537"]
#[generator = "3"]
pub struct F65537Config;
pub type F65537 = Fp64<MontBackend<F65537Config, 1>>;

fn fe<F: PrimeField>(x: &num_bigint::BigInt) -> F {
    F::from(u(x))
}
fn out<F: PrimeField>(x: &F) -> num_bigint::BigInt {
    let b: BigUint = x.into_bigint().into();
    from_biguint(&b)
}
fn outv<F: PrimeField>(v: &[F]) -> Arg {
    v.iter().map(out).collect()
}
fn vecf<F: PrimeField>(a: Option<&Arg>) -> Vec<F> {
    a.map(|v| v.iter().map(fe).collect()).unwrap_or_default()
}

fn run_d<F: PrimeField + FftField, D: EvaluationDomain<F>>(op: &str, a: &[Arg]) -> Vec<Arg> {
    let num = to_usize(&a[3][1]);
    let d = match D::new(num) {
        Some(d) => d,
        None => return err(0),
    };
    let d = if a[4].is_empty() {
        d
    } else {
        match d.get_coset(fe(&a[4][0])) {
            Some(c) => c,
            None => return err(1),
        }
    };
    let data: Vec<F> = vecf(a.get(5));
    match op {
        "fft" => {
            let r = d.fft(&data);
            ok(vec![outv(&r)])
        },
        "ifft" => {
            let r = d.ifft(&data);
            ok(vec![outv(&r)])
        },
        _ => unsupported(),
    }
}

fn run_f<F: PrimeField + FftField>(op: &str, a: &[Arg]) -> Vec<Arg> {
    let p: BigUint = F::MODULUS.into();
    assert_eq!(u(&a[1][0]), p, "harness: modulus of the case differs from the field's");
    match op {
        "distribute" => {
            let mut v: Vec<F> = vecf(a.get(5));
            let g: F = fe(&a[3][0]);
            let c: F = fe(&a[3][1]);
            // trait-provided associated function; the implementing type is irrelevant
            Radix2EvaluationDomain::<F>::distribute_powers_and_mul_by_const(&mut v, g, c);
            ok(vec![outv(&v)])
        },
        "evaluate" => {
            let poly = DensePolynomial::<F>::from_coefficients_vec(vecf(a.get(5)));
            let x: F = fe(&a[3][0]);
            ok(vec![vec![out(&poly.evaluate(&x))]])
        },
        "batch_inv" => {
            let mut v: Vec<F> = vecf(a.get(5));
            let c: F = fe(&a[3][0]);
            ark_ff::batch_inversion_and_mul(&mut v, &c);
            ok(vec![outv(&v)])
        },
        "batch_inv1" => {
            let mut v: Vec<F> = vecf(a.get(5));
            ark_ff::batch_inversion(&mut v);
            ok(vec![outv(&v)])
        },
        "poly_mul" => {
            let f = DensePolynomial::<F>::from_coefficients_vec(vecf(a.get(5)));
            let g = DensePolynomial::<F>::from_coefficients_vec(vecf(a.get(6)));
            let h = &f * &g;
            ok(vec![outv(h.coeffs())])
        },
        "fft" | "ifft" => match to_u64(&a[3][0]) {
            0 => run_d::<F, Radix2EvaluationDomain<F>>(op, a),
            1 => run_d::<F, MixedRadixEvaluationDomain<F>>(op, a),
            2 => run_d::<F, GeneralEvaluationDomain<F>>(op, a),
            _ => unsupported(),
        },
        _ => unsupported(),
    }
}

// ---------------- bls12_381 (test-curves) group / pairing operations ----------------
type G1A = bls::G1Affine;
type G1P = bls::G1Projective;
type G2A = bls::G2Affine;
type Fq = bls::Fq;
type Fr = bls::Fr;

fn aff_in(a: &Arg) -> Vec<G1A> {
    a.chunks(3)
        .map(|c| {
            if to_u64(&c[2]) != 0 {
                G1A::identity()
            } else {
                G1A::new_unchecked(fe(&c[0]), fe(&c[1]))
            }
        })
        .collect()
}
fn aff_out(v: &[G1A]) -> Arg {
    let mut o = vec![];
    for p in v {
        match p.xy() {
            Some((x, y)) => {
                o.push(out::<Fq>(&x));
                o.push(out::<Fq>(&y));
                o.push(from_u64(0));
            },
            None => {
                o.push(from_u64(0));
                o.push(from_u64(0));
                o.push(from_u64(1));
            },
        }
    }
    o
}
fn fq12_out(f: &bls::Fq12) -> Arg {
    f.to_base_prime_field_elements().map(|x| out::<Fq>(&x)).collect()
}

fn run_ec(op: &str, a: &[Arg]) -> Vec<Arg> {
    let p: BigUint = Fq::MODULUS.into();
    assert_eq!(u(&a[1][0]), p, "harness: base-field modulus of the case differs");
    let empty = vec![];
    let d5 = a.get(5).unwrap_or(&empty);
    let d6 = a.get(6).unwrap_or(&empty);
    match op {
        "msm" => {
            let bases = aff_in(d5);
            let scalars: Vec<Fr> = d6.iter().map(fe).collect();
            match G1P::msm(&bases, &scalars) {
                Ok(r) => ok(vec![aff_out(&[r.into_affine()])]),
                Err(n) => vec![vec![from_u64(1), from_u64(n as u64)]],
            }
        },
        "batch_mul" => {
            let g: G1P = aff_in(d5)[0].into_group();
            let scalars: Vec<Fr> = d6.iter().map(fe).collect();
            let table = BatchMulPreprocessing::new(g, scalars.len());
            let r1 = table.batch_mul(&scalars);
            let r2 = g.batch_mul(&scalars);
            ok(vec![aff_out(&r1), aff_out(&r2)])
        },
        "normalize" => {
            let v: Vec<G1P> = d5
                .chunks(3)
                .map(|c| Projective::new_unchecked(fe(&c[0]), fe(&c[1]), fe(&c[2])))
                .collect();
            ok(vec![aff_out(&G1P::normalize_batch(&v))])
        },
        "batch_check" => {
            // unchecked points -> bytes -> checked deserialization of the whole Vec
            let v = aff_in(d5);
            let mut bytes = vec![];
            v.serialize_uncompressed(&mut bytes).unwrap();
            match Vec::<G1A>::deserialize_uncompressed(&bytes[..]) {
                Ok(w) => ok(vec![aff_out(&w)]),
                Err(ark_serialize::SerializationError::InvalidData) => err(1),
                Err(_) => err(2),
            }
        },
        "pairing" => {
            // P_i = a_i * G1, Q_i = b_i * G2  (input construction)
            let ps: Vec<G1A> = d5.iter().map(|s| (G1A::generator() * fe::<Fr>(s)).into_affine()).collect();
            let qs: Vec<G2A> = d6.iter().map(|s| (G2A::generator() * fe::<Fr>(s)).into_affine()).collect();
            let ml = bls::Bls12_381::multi_miller_loop(ps.iter().cloned(), qs.iter().cloned());
            let fx = bls::Bls12_381::final_exponentiation(ml);
            let mp = bls::Bls12_381::multi_pairing(ps.iter().cloned(), qs.iter().cloned());
            let f1 = fx.map(|g| g.is_zero());
            let mut r = vec![vec![
                from_bool(f1.is_some()),
                from_bool(f1.unwrap_or(false)),
                from_bool(mp.is_zero()),
            ]];
            if std::env::var("C14_FULL").is_ok() {
                r.push(fq12_out(&ml.0));
                r.push(fx.map(|g| fq12_out(&g.0)).unwrap_or_default());
                r.push(fq12_out(&mp.0));
            }
            ok(r)
        },
        _ => unsupported(),
    }
}

/// sanity probe of the thread-count mechanism: touch the global rayon pool through a
/// parallel library call, then report the number of OS threads of this process minus the
/// main thread (= the pool size).  Serial build: no pool, reports the requested T.
#[allow(unused_variables)]
fn probe_threads(a: &[Arg]) -> Vec<Arg> {
    let mut v: Vec<Fr> = (1..=64u64).map(Fr::from).collect();
    ark_ff::batch_inversion(&mut v);
    #[cfg(feature = "parallel")]
    {
        let st = std::fs::read_to_string("/proc/self/status").unwrap_or_default();
        for l in st.lines() {
            if let Some(r) = l.strip_prefix("Threads:") {
                let n: u64 = r.trim().parse().unwrap_or(0);
                return ok(vec![vec![from_u64(n.saturating_sub(1))]]);
            }
        }
        return err(9);
    }
    #[cfg(not(feature = "parallel"))]
    {
        ok(vec![vec![a[0][1].clone()]])
    }
}

fn run(op: &str, a: &[Arg]) -> Vec<Arg> {
    if op == "threads" {
        return probe_threads(a);
    }
    match to_u64(&a[0][0]) {
        0 => run_f::<ark_test_curves::bls12_381::Fr>(op, a),
        1 => run_f::<ark_test_curves::bn384_small_two_adicity::Fq>(op, a),
        2 => run_f::<M3>(op, a),
        3 => run_f::<F12289>(op, a),
        4 => run_f::<F65537>(op, a),
        10 => run_ec(op, a),
        _ => unsupported(),
    }
}

/// thread count of a case line: second entry of the first argument
#[cfg(feature = "parallel")]
fn threads_of(line: &str) -> String {
    let a0 = line.split(' ').nth(1).unwrap_or("0,1");
    let t = a0.split(',').nth(1).unwrap_or("1");
    let v = u64::from_str_radix(t, 16).unwrap_or(1).max(1);
    v.to_string()
}

#[cfg(feature = "parallel")]
fn dispatch() {
    use std::io::{BufRead, Read, Write};
    use std::process::{Command, Stdio};
    let stdin = std::io::stdin();
    let lines: Vec<String> =
        stdin.lock().lines().map(|l| l.unwrap()).filter(|l| !l.trim().is_empty()).collect();
    let mut groups: std::collections::BTreeMap<String, Vec<usize>> = Default::default();
    for (i, l) in lines.iter().enumerate() {
        groups.entry(threads_of(l)).or_default().push(i);
    }
    let mut results: Vec<Option<String>> = vec![None; lines.len()];
    let exe = std::env::current_exe().unwrap();
    for (t, idxs) in groups.iter() {
        let mut child = Command::new(&exe)
            .env("C14_WORKER", "1")
            .env("RAYON_NUM_THREADS", t)
            .stdin(Stdio::piped())
            .stdout(Stdio::piped())
            .stderr(Stdio::null())
            .spawn()
            .expect("harness: cannot start worker");
        let mut input = String::new();
        for &i in idxs {
            input.push_str(&lines[i]);
            input.push('\n');
        }
        let mut cin = child.stdin.take().unwrap();
        let writer = std::thread::spawn(move || {
            let _ = cin.write_all(input.as_bytes());
        });
        let mut outp = String::new();
        child.stdout.take().unwrap().read_to_string(&mut outp).unwrap();
        let _ = writer.join();
        let st = child.wait().unwrap();
        let ol: Vec<&str> = outp.lines().collect();
        if !st.success() || ol.len() != idxs.len() {
            // a worker died (abort / stack overflow): let the engine re-run line by line
            std::process::exit(3);
        }
        for (k, &i) in idxs.iter().enumerate() {
            results[i] = Some(ol[k].to_string());
        }
    }
    let so = std::io::stdout();
    let mut o = std::io::BufWriter::new(so.lock());
    for r in results {
        writeln!(o, "{}", r.unwrap()).unwrap();
    }
    o.flush().unwrap();
}

pub fn main() {
    #[cfg(feature = "parallel")]
    {
        if std::env::var("C14_WORKER").is_err() {
            dispatch();
            return;
        }
    }
    main_loop(run);
}
