//! C14 case interpreter, serial build (default features): same source as bin `c14`.
#[path = "c14.rs"]
mod c14;
fn main() {
    c14::main()
}
