//! C15 case interpreter: fixed-width big integers (`ark_ff::BigInt<N>`), N = 1..=13.
//! Every case's first argument is `[N]`.
#![allow(deprecated)]
use ark_ff::{
    biginteger::arithmetic::{find_naf, find_relaxed_naf},
    signed_mod_reduction, BigInt, BigInteger, BitIteratorBE, BitIteratorLE,
};
use num_bigint::BigUint;
use std::str::FromStr;
use vharness::*;

fn big<const N: usize>(a: &Arg) -> BigInt<N> {
    let l = arg_limbs(a);
    assert_eq!(l.len(), N, "harness: wrong limb count");
    let mut r = [0u64; N];
    r.copy_from_slice(&l);
    BigInt::<N>(r)
}
fn out<const N: usize>(b: &BigInt<N>) -> Arg {
    limbs_arg(&b.0)
}
fn bits(a: &Arg) -> Vec<bool> {
    a.iter().map(|x| to_u64(x) != 0).collect()
}
fn bits_arg<I: Iterator<Item = bool>>(i: I) -> Arg {
    i.map(from_bool).collect()
}
fn bytes_arg(b: &[u8]) -> Arg {
    b.iter().map(|x| from_u64(*x as u64)).collect()
}
fn ord(o: core::cmp::Ordering) -> Arg {
    vec![from_i64(o as i8 as i64)]
}

fn run_n<const N: usize>(op: &str, a: &[Arg]) -> Vec<Arg> {
    match op {
        "add_with_carry" => {
            let mut x = big::<N>(&a[1]);
            let c = x.add_with_carry(&big::<N>(&a[2]));
            ok(vec![out(&x), vec![from_bool(c)]])
        },
        "sub_with_borrow" => {
            let mut x = big::<N>(&a[1]);
            let c = x.sub_with_borrow(&big::<N>(&a[2]));
            ok(vec![out(&x), vec![from_bool(c)]])
        },
        "mul2" => {
            let mut x = big::<N>(&a[1]);
            let c = x.mul2();
            ok(vec![out(&x), vec![from_bool(c)]])
        },
        "div2" => {
            let mut x = big::<N>(&a[1]);
            x.div2();
            ok(vec![out(&x)])
        },
        "muln" => {
            let mut x = big::<N>(&a[1]);
            x.muln(to_u64(&a[2][0]) as u32);
            ok(vec![out(&x)])
        },
        "shl" => {
            let x = big::<N>(&a[1]) << (to_u64(&a[2][0]) as u32);
            let mut y = big::<N>(&a[1]);
            y <<= to_u64(&a[2][0]) as u32;
            assert_eq!(x, y, "harness: << and <<= differ");
            ok(vec![out(&x)])
        },
        "divn" => {
            let mut x = big::<N>(&a[1]);
            x.divn(to_u64(&a[2][0]) as u32);
            ok(vec![out(&x)])
        },
        "shr" => {
            let x = big::<N>(&a[1]) >> (to_u64(&a[2][0]) as u32);
            let mut y = big::<N>(&a[1]);
            y >>= to_u64(&a[2][0]) as u32;
            assert_eq!(x, y, "harness: >> and >>= differ");
            ok(vec![out(&x)])
        },
        "mul" => {
            let (lo, hi) = big::<N>(&a[1]).mul(&big::<N>(&a[2]));
            ok(vec![out(&lo), out(&hi)])
        },
        "mul_low" => ok(vec![out(&big::<N>(&a[1]).mul_low(&big::<N>(&a[2])))]),
        "mul_high" => ok(vec![out(&big::<N>(&a[1]).mul_high(&big::<N>(&a[2])))]),
        "cmp" => {
            let (x, y) = (big::<N>(&a[1]), big::<N>(&a[2]));
            ok(vec![
                ord(x.cmp(&y)),
                vec![from_bool(x == y), from_bool(x < y), from_bool(x <= y)],
            ])
        },
        "preds" => {
            let x = big::<N>(&a[1]);
            ok(vec![vec![
                from_bool(x.is_zero()),
                from_bool(x.is_odd()),
                from_bool(x.is_even()),
            ]])
        },
        "num_bits" => ok(vec![vec![from_u64(big::<N>(&a[1]).num_bits() as u64)]]),
        "get_bit" => ok(vec![vec![from_bool(
            big::<N>(&a[1]).get_bit(to_usize(&a[2][0])),
        )]]),
        "from_bits_le" => ok(vec![out(&BigInt::<N>::from_bits_le(&bits(&a[1])))]),
        "from_bits_be" => ok(vec![out(&BigInt::<N>::from_bits_be(&bits(&a[1])))]),
        "to_bits_le" => ok(vec![bits_arg(big::<N>(&a[1]).to_bits_le().into_iter())]),
        "to_bits_be" => ok(vec![bits_arg(big::<N>(&a[1]).to_bits_be().into_iter())]),
        "to_bytes_le" => ok(vec![bytes_arg(&big::<N>(&a[1]).to_bytes_le())]),
        "to_bytes_be" => ok(vec![bytes_arg(&big::<N>(&a[1]).to_bytes_be())]),
        "bits_be_nlz" => ok(vec![bits_arg(BitIteratorBE::without_leading_zeros(
            big::<N>(&a[1]),
        ))]),
        "bits_le_ntz" => ok(vec![bits_arg(BitIteratorLE::without_trailing_zeros(
            big::<N>(&a[1]),
        ))]),
        "from_str" => {
            let s: String = a[1].iter().map(|c| to_u64(c) as u8 as char).collect();
            match BigInt::<N>::from_str(&s) {
                Ok(v) => ok(vec![out(&v)]),
                Err(()) => err(0),
            }
        },
        "display" => {
            let s = format!("{}", big::<N>(&a[1]));
            ok(vec![bytes_arg(s.as_bytes())])
        },
        "try_from_biguint" => match BigInt::<N>::try_from(u(&a[1][0])) {
            Ok(v) => ok(vec![out(&v)]),
            Err(()) => err(0),
        },
        "to_biguint" => {
            let v: BigUint = big::<N>(&a[1]).into();
            ok(vec![vec![from_biguint(&v)]])
        },
        "bitops" => {
            let (x, y) = (big::<N>(&a[1]), big::<N>(&a[2]));
            ok(vec![out(&(x & y)), out(&(x | y)), out(&(x ^ y)), out(&!x)])
        },
        "from_u64" => ok(vec![out(&BigInt::<N>::from(to_u64(&a[1][0])))]),
        "find_wnaf" => match big::<N>(&a[1]).find_wnaf(to_usize(&a[2][0])) {
            Some(d) => ok(vec![vec![from_u64(1)], d.iter().map(|x| from_i64(*x)).collect()]),
            None => ok(vec![vec![from_u64(0)], vec![]]),
        },
        "const_shr" => ok(vec![out(&big::<N>(&a[1]).const_shr())]),
        "mod_4" => ok(vec![vec![from_u64(big::<N>(&a[1]).mod_4() as u64)]]),
        "two_adic" => {
            let x = big::<N>(&a[1]);
            ok(vec![
                vec![from_u64(x.two_adic_valuation() as u64)],
                out(&x.two_adic_coefficient()),
            ])
        },
        "div2_round_down" => ok(vec![out(&big::<N>(&a[1]).divide_by_2_round_down())]),
        "const_num_bits" => ok(vec![vec![from_u64(
            big::<N>(&a[1]).const_num_bits() as u64
        )]]),
        "montgomery_r" => {
            let x = big::<N>(&a[1]);
            ok(vec![out(&x.montgomery_r()), out(&x.montgomery_r2())])
        },
        _ => unsupported(),
    }
}

fn run(op: &str, a: &[Arg]) -> Vec<Arg> {
    match op {
        // slice-based free functions: no N
        "find_naf" => ok(vec![find_naf(&arg_limbs(&a[1]))
            .iter()
            .map(|x| from_i64(*x as i64))
            .collect()]),
        "find_relaxed_naf" => ok(vec![find_relaxed_naf(&arg_limbs(&a[1]))
            .iter()
            .map(|x| from_i64(*x as i64))
            .collect()]),
        "signed_mod_reduction" => ok(vec![vec![from_i64(signed_mod_reduction(
            to_u64(&a[1][0]),
            to_u64(&a[1][1]),
        ))]]),
        _ => {
            let n = to_usize(&a[0][0]);
            macro_rules! d { ($($k:literal),*) => { match n { $($k => run_n::<$k>(op, a),)* _ => unsupported() } } }
            d!(1, 2, 3, 4, 5, 6, 7, 8, 9, 10, 11, 12, 13)
        },
    }
}

fn main() {
    main_loop(run);
}
