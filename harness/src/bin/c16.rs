//! C16: every shipped field / curve configuration is internally consistent.
//!
//! `c16 dump` prints one JSON object per registered configuration (prime field, tower
//! level, curve group, GLV set, pairing parameter set) with every associated constant read
//! through the public traits of the freshly compiled crates, in standard (non-Montgomery)
//! form unless the key ends in `_RAW`.  No checking happens here: the equations live in
//! props/C16/prop.py (pre-filter, replay) and coq/C16/ConfigChecks.v (proof).
//!
//! Without arguments it is the usual case interpreter (a handful of ops that expose the
//! `const fn`s the constants are derived with).
#![allow(deprecated)]
use ark_ec::{
    bls12::Bls12Config,
    bn::BnConfig,
    bw6::BW6Config,
    hashing::curve_maps::{elligator2::Elligator2Config, swu::SWUConfig, wb::WBConfig},
    mnt4::MNT4Config,
    mnt6::MNT6Config,
    scalar_mul::glv::GLVConfig,
    short_weierstrass::SWCurveConfig,
    twisted_edwards::{MontCurveConfig, TECurveConfig},
    CurveConfig,
};
use ark_ff::{
    BigInt, BigInteger, CubicExtConfig, CubicExtField, FftField, Field, Fp, Fp2Config, Fp3Config,
    MontBackend, MontConfig, PrimeField, QuadExtConfig, QuadExtField, SqrtPrecomputation,
};
use num_bigint::{BigInt as SInt, BigUint};
use vharness::*;

// ---------------------------------------------------------------- tiny JSON value
enum V {
    I(SInt),
    L(Vec<V>),
    S(String),
    B(bool),
    Null,
}
fn js(v: &V) -> String {
    match v {
        V::I(i) => i.to_string(),
        V::L(l) => format!("[{}]", l.iter().map(js).collect::<Vec<_>>().join(",")),
        V::S(s) => format!("\"{}\"", s),
        V::B(b) => (if *b { "true" } else { "false" }).to_string(),
        V::Null => "null".to_string(),
    }
}
struct Rec(Vec<(String, V)>);
impl Rec {
    fn new(krate: &str, kind: &str, name: &str) -> Self {
        Rec(vec![
            ("crate".into(), V::S(krate.into())),
            ("kind".into(), V::S(kind.into())),
            ("name".into(), V::S(name.into())),
        ])
    }
    fn put(&mut self, k: &str, v: V) {
        self.0.push((k.to_string(), v));
    }
    fn print(&self) {
        let body: Vec<String> = self.0.iter().map(|(k, v)| format!("\"{}\":{}", k, js(v))).collect();
        println!("{{{}}}", body.join(","));
    }
}
fn vu(b: BigUint) -> V {
    V::I(SInt::from(b))
}
fn vu64(x: u64) -> V {
    V::I(SInt::from(x))
}
fn vi64(x: i64) -> V {
    V::I(SInt::from(x))
}
fn vlimbs(l: &[u64]) -> V {
    let mut b = BigUint::from(0u32);
    for (i, x) in l.iter().enumerate() {
        b += BigUint::from(*x) << (64 * i);
    }
    vu(b)
}
fn vbig<B: BigInteger>(b: B) -> V {
    vu(b.into())
}
/// prime-field element, standard form
fn vp<F: PrimeField>(x: &F) -> V {
    vbig(x.into_bigint())
}
/// any field element: list of base-prime-field coordinates, standard form
fn vf<F: Field>(x: &F) -> V {
    V::L(x.to_base_prime_field_elements().map(|c| vp(&c)).collect())
}
fn vfs<F: Field>(xs: &[F]) -> V {
    V::L(xs.iter().map(vf).collect())
}
fn vopt<T>(o: Option<T>, f: impl Fn(T) -> V) -> V {
    match o {
        Some(x) => f(x),
        None => V::Null,
    }
}
fn vi8s(l: &[i8]) -> V {
    V::L(l.iter().map(|x| vi64(*x as i64)).collect())
}

// ---------------------------------------------------------------- prime fields
trait PrimeDump {
    fn dump(krate: &str, name: &str);
    fn op(op: &str, a: &[Arg]) -> Vec<Arg>;
}
impl<T: MontConfig<N>, const N: usize> PrimeDump for Fp<MontBackend<T, N>, N> {
    fn dump(krate: &str, name: &str) {
        type F<T, const N: usize> = Fp<MontBackend<T, N>, N>;
        let mut r = Rec::new(krate, "prime", name);
        r.put("N", vu64(N as u64));
        r.put("MODULUS", vbig(T::MODULUS));
        r.put("MODULUS_PF", vbig(<F<T, N> as PrimeField>::MODULUS));
        r.put("R", vbig(T::R));
        r.put("R2", vbig(T::R2));
        r.put("INV", vu64(T::INV));
        r.put("R_LIMBS", V::L(T::R.0.iter().map(|x| vu64(*x)).collect()));
        r.put("R2_LIMBS", V::L(T::R2.0.iter().map(|x| vu64(*x)).collect()));
        r.put("ONE_RAW", vbig(<F<T, N> as Field>::ONE.0));
        r.put("GENERATOR", vp(&<F<T, N> as FftField>::GENERATOR));
        r.put("GENERATOR_RAW", vbig(<F<T, N> as FftField>::GENERATOR.0));
        r.put("GENERATOR_CFG", vp(&T::GENERATOR));
        r.put("TWO_ADICITY", vu64(<F<T, N> as FftField>::TWO_ADICITY as u64));
        r.put("TWO_ADIC_ROOT_OF_UNITY", vp(&<F<T, N> as FftField>::TWO_ADIC_ROOT_OF_UNITY));
        r.put("TWO_ADIC_ROOT_OF_UNITY_CFG", vp(&T::TWO_ADIC_ROOT_OF_UNITY));
        r.put("TRACE", vbig(<F<T, N> as PrimeField>::TRACE));
        r.put("TRACE_MINUS_ONE_DIV_TWO", vbig(<F<T, N> as PrimeField>::TRACE_MINUS_ONE_DIV_TWO));
        r.put("MODULUS_MINUS_ONE_DIV_TWO", vbig(<F<T, N> as PrimeField>::MODULUS_MINUS_ONE_DIV_TWO));
        r.put("MODULUS_BIT_SIZE", vu64(<F<T, N> as PrimeField>::MODULUS_BIT_SIZE as u64));
        r.put("MODULUS_PLUS_ONE_DIV_FOUR", vopt(T::MODULUS_PLUS_ONE_DIV_FOUR, vbig));
        r.put("SMALL_SUBGROUP_BASE", vopt(<F<T, N> as FftField>::SMALL_SUBGROUP_BASE, |x| vu64(x as u64)));
        r.put(
            "SMALL_SUBGROUP_BASE_ADICITY",
            vopt(<F<T, N> as FftField>::SMALL_SUBGROUP_BASE_ADICITY, |x| vu64(x as u64)),
        );
        r.put(
            "LARGE_SUBGROUP_ROOT_OF_UNITY",
            vopt(<F<T, N> as FftField>::LARGE_SUBGROUP_ROOT_OF_UNITY, |x| vp(&x)),
        );
        r.put("CAN_USE_NO_CARRY_MUL_OPT", V::B(T::CAN_USE_NO_CARRY_MUL_OPT));
        r.put("CAN_USE_NO_CARRY_SQUARE_OPT", V::B(T::CAN_USE_NO_CARRY_SQUARE_OPT));
        r.put("MODULUS_HAS_SPARE_BIT", V::B(T::MODULUS_HAS_SPARE_BIT));
        sqrt_precomp(&mut r, &<F<T, N> as Field>::SQRT_PRECOMP);
        r.print();
    }
    /// case-interpreter ops on a registered prime field; a[0] = [id], a[1] = [p] (echoed)
    fn op(op: &str, a: &[Arg]) -> Vec<Arg> {
        type F<T, const N: usize> = Fp<MontBackend<T, N>, N>;
        let p: BigUint = T::MODULUS.into();
        let pa = vec![from_biguint(&p)];
        match op {
            "cfg_mont" => ok(vec![
                pa,
                vec![from_u64(N as u64)],
                vec![from_biguint(&T::R.into())],
                vec![from_biguint(&T::R2.into())],
                vec![from_u64(T::INV)],
            ]),
            "cfg_two_adic" => ok(vec![
                pa,
                vec![from_u64(<F<T, N> as FftField>::TWO_ADICITY as u64)],
                vec![from_biguint(&<F<T, N> as PrimeField>::TRACE.into())],
                vec![from_biguint(&<F<T, N> as PrimeField>::TRACE_MINUS_ONE_DIV_TWO.into())],
                vec![from_biguint(&<F<T, N> as PrimeField>::MODULUS_MINUS_ONE_DIV_TWO.into())],
                vec![from_u64(<F<T, N> as PrimeField>::MODULUS_BIT_SIZE as u64)],
            ]),
            "cfg_root" => ok(vec![
                pa,
                vec![from_biguint(&<F<T, N> as FftField>::GENERATOR.into_bigint().into())],
                vec![from_biguint(&<F<T, N> as FftField>::TWO_ADIC_ROOT_OF_UNITY.into_bigint().into())],
            ]),
            "cfg_pow" => {
                // a[2] = [base], a[3] = [exponent]
                let b = <F<T, N> as From<BigUint>>::from(u(&a[2][0]));
                let e = u(&a[3][0]).to_u64_digits();
                let r = b.pow(&e);
                ok(vec![pa, vec![from_biguint(&r.into_bigint().into())]])
            },
            _ => unsupported(),
        }
    }
}

/// `Field::SQRT_PRECOMP` (what `sqrt()` really reads), keys SQRT_*
fn sqrt_precomp<F: Field>(r: &mut Rec, o: &Option<SqrtPrecomputation<F>>) {
    match o {
        None => r.put("SQRT_KIND", V::S("none".into())),
        Some(SqrtPrecomputation::TonelliShanks {
            two_adicity,
            quadratic_nonresidue_to_trace,
            trace_of_modulus_minus_one_div_two,
        }) => {
            r.put("SQRT_KIND", V::S("tonelli_shanks".into()));
            r.put("SQRT_TWO_ADICITY", vu64(*two_adicity as u64));
            r.put("SQRT_QNR_TO_TRACE", vf(quadratic_nonresidue_to_trace));
            r.put("SQRT_TRACE_MINUS_ONE_DIV_TWO", vlimbs(trace_of_modulus_minus_one_div_two));
        },
        Some(SqrtPrecomputation::Case3Mod4 { modulus_plus_one_div_four }) => {
            r.put("SQRT_KIND", V::S("case3mod4".into()));
            r.put("SQRT_MODULUS_PLUS_ONE_DIV_FOUR", vlimbs(modulus_plus_one_div_four));
        },
        #[allow(unreachable_patterns)]
        Some(_) => r.put("SQRT_KIND", V::S("unknown".into())),
    }
}

// ---------------------------------------------------------------- towers
trait ExtDump {
    fn dump(krate: &str, name: &str, kind: &str, base: &str) -> Rec;
}
/// the `FftField` constants of an extension field, read through the trait of the extension type itself
fn fft_consts<F: FftField>(r: &mut Rec) {
    r.put("FFT_GENERATOR", vf(&F::GENERATOR));
    r.put("FFT_TWO_ADICITY", vu64(F::TWO_ADICITY as u64));
    r.put("FFT_TWO_ADIC_ROOT_OF_UNITY", vf(&F::TWO_ADIC_ROOT_OF_UNITY));
    r.put("FFT_SMALL_SUBGROUP_BASE", vopt(F::SMALL_SUBGROUP_BASE, |x| vu64(x as u64)));
    r.put("FFT_SMALL_SUBGROUP_BASE_ADICITY", vopt(F::SMALL_SUBGROUP_BASE_ADICITY, |x| vu64(x as u64)));
    r.put("FFT_LARGE_SUBGROUP_ROOT_OF_UNITY", vopt(F::LARGE_SUBGROUP_ROOT_OF_UNITY, |x| vf(&x)));
}
impl<P: QuadExtConfig> ExtDump for QuadExtField<P>
where
    P::BaseField: FftField,
{
    fn dump(krate: &str, name: &str, kind: &str, base: &str) -> Rec {
        let mut r = Rec::new(krate, kind, name);
        r.put("base", V::S(base.into()));
        r.put("shape", V::S("quad".into()));
        r.put("P", vbig(<P::BasePrimeField as PrimeField>::MODULUS));
        r.put("DEGREE", vu64(P::DEGREE_OVER_BASE_PRIME_FIELD as u64));
        r.put("NONRESIDUE", vf(&P::NONRESIDUE));
        r.put("FROBENIUS_COEFF_C1", vfs(P::FROBENIUS_COEFF_C1));
        fft_consts::<Self>(&mut r);
        r
    }
}
impl<P: CubicExtConfig> ExtDump for CubicExtField<P>
where
    P::BaseField: FftField,
{
    fn dump(krate: &str, name: &str, kind: &str, base: &str) -> Rec {
        let mut r = Rec::new(krate, kind, name);
        r.put("base", V::S(base.into()));
        r.put("shape", V::S("cubic".into()));
        r.put("P", vbig(<P::BasePrimeField as PrimeField>::MODULUS));
        r.put("DEGREE", vu64(P::DEGREE_OVER_BASE_PRIME_FIELD as u64));
        r.put("NONRESIDUE", vf(&P::NONRESIDUE));
        r.put("FROBENIUS_COEFF_C1", vfs(P::FROBENIUS_COEFF_C1));
        r.put("FROBENIUS_COEFF_C2", vfs(P::FROBENIUS_COEFF_C2));
        fft_consts::<Self>(&mut r);
        r
    }
}
fn ext<E: ExtDump>(krate: &str, name: &str, kind: &str, base: &str) {
    E::dump(krate, name, kind, base).print();
}
fn fp2<P: Fp2Config>(krate: &str, name: &str, base: &str) {
    let mut r = <ark_ff::Fp2<P> as ExtDump>::dump(krate, name, "fp2", base);
    // the direct trait constants (the wrapper forwards them; both are printed)
    r.put("NONRESIDUE_CFG", vf(&P::NONRESIDUE));
    r.put("FROBENIUS_COEFF_FP2_C1", vfs(P::FROBENIUS_COEFF_FP2_C1));
    r.print();
}
fn fp3<P: Fp3Config>(krate: &str, name: &str, base: &str) {
    let mut r = <ark_ff::Fp3<P> as ExtDump>::dump(krate, name, "fp3", base);
    r.put("TWO_ADICITY", vu64(P::TWO_ADICITY as u64));
    r.put("TRACE_MINUS_ONE_DIV_TWO", vlimbs(P::TRACE_MINUS_ONE_DIV_TWO));
    r.put("QUADRATIC_NONRESIDUE_TO_T", vf(&P::QUADRATIC_NONRESIDUE_TO_T));
    sqrt_precomp(&mut r, &<ark_ff::Fp3<P> as Field>::SQRT_PRECOMP);
    r.print();
}

// ---------------------------------------------------------------- curves
fn curve_common<P: CurveConfig>(r: &mut Rec, base: &str, scalar: &str) {
    r.put("base", V::S(base.into()));
    r.put("scalar", V::S(scalar.into()));
    r.put("BASE_DEGREE", vu64(<P::BaseField as Field>::extension_degree()));
    r.put("P", vbig(<<P::BaseField as Field>::BasePrimeField as PrimeField>::MODULUS));
    r.put("R_ORDER", vbig(<P::ScalarField as PrimeField>::MODULUS));
    r.put("COFACTOR", vlimbs(P::COFACTOR));
    r.put("COFACTOR_INV", vp(&P::COFACTOR_INV));
}
fn sw<P: SWCurveConfig>(krate: &str, name: &str, base: &str, scalar: &str) {
    let mut r = Rec::new(krate, "sw", name);
    curve_common::<P>(&mut r, base, scalar);
    r.put("COEFF_A", vf(&P::COEFF_A));
    r.put("COEFF_B", vf(&P::COEFF_B));
    r.put("GENERATOR_X", vf(&P::GENERATOR.x));
    r.put("GENERATOR_Y", vf(&P::GENERATOR.y));
    r.put("GENERATOR_INFINITY", V::B(P::GENERATOR.infinity));
    r.print();
}
fn te<P: TECurveConfig>(krate: &str, name: &str, base: &str, scalar: &str) {
    let mut r = Rec::new(krate, "te", name);
    curve_common::<P>(&mut r, base, scalar);
    r.put("COEFF_A", vf(&<P as TECurveConfig>::COEFF_A));
    r.put("COEFF_D", vf(&P::COEFF_D));
    r.put("GENERATOR_X", vf(&P::GENERATOR.x));
    r.put("GENERATOR_Y", vf(&P::GENERATOR.y));
    r.put("MONT_COEFF_A", vf(&<P::MontCurveConfig as MontCurveConfig>::COEFF_A));
    r.put("MONT_COEFF_B", vf(&<P::MontCurveConfig as MontCurveConfig>::COEFF_B));
    r.print();
}
fn glv<P: GLVConfig>(krate: &str, name: &str, curve: &str) {
    let mut r = Rec::new(krate, "glv", name);
    r.put("curve", V::S(curve.into()));
    r.put("ENDO_COEFFS", vfs(P::ENDO_COEFFS));
    r.put("LAMBDA", vp(&P::LAMBDA));
    r.put(
        "SCALAR_DECOMP_COEFFS",
        V::L(P::SCALAR_DECOMP_COEFFS
            .iter()
            .map(|(s, b)| {
                let m: BigUint = (*b).into();
                let v = SInt::from(m);
                V::I(if *s { v } else { -v })
            })
            .collect()),
    );
    r.print();
}

// ---------------------------------------------------------------- map-to-curve parameters
/// SWU parameters of the curve registered as `curve`
fn swu<P: SWUConfig>(krate: &str, name: &str, curve: &str) {
    let mut r = Rec::new(krate, "swu", name);
    r.put("curve", V::S(curve.into()));
    r.put("ZETA", vf(&P::ZETA));
    r.print();
}
/// Wahby-Boneh: the isogenous curve (an SW group, printed when `emit_iso`, i.e. when the crate does not
/// export it), its SWU parameters and the coefficient lists of the isogeny (lowest degree first)
fn wb<P: WBConfig>(krate: &str, name: &str, iso: &str, codomain: &str, base: &str, scalar: &str, emit_iso: bool) {
    if emit_iso {
        sw::<P::IsogenousCurve>(krate, iso, base, scalar);
    }
    swu::<P::IsogenousCurve>(krate, &format!("{}_swu", iso), iso);
    let mut r = Rec::new(krate, "wb", name);
    r.put("domain", V::S(iso.into()));
    r.put("codomain", V::S(codomain.into()));
    r.put("X_NUM", vfs(P::ISOGENY_MAP.x_map_numerator));
    r.put("X_DEN", vfs(P::ISOGENY_MAP.x_map_denominator));
    r.put("Y_NUM", vfs(P::ISOGENY_MAP.y_map_numerator));
    r.put("Y_DEN", vfs(P::ISOGENY_MAP.y_map_denominator));
    r.print();
}
fn ell2<P: Elligator2Config>(krate: &str, name: &str, curve: &str) {
    let mut r = Rec::new(krate, "elligator2", name);
    r.put("curve", V::S(curve.into()));
    r.put("Z", vf(&P::Z));
    r.put("ONE_OVER_COEFF_B_SQUARE", vf(&P::ONE_OVER_COEFF_B_SQUARE));
    r.put("COEFF_A_OVER_COEFF_B", vf(&P::COEFF_A_OVER_COEFF_B));
    r.print();
}
/// a configuration with both a TE and an SW model: which registered records belong together
fn sw_te(krate: &str, name: &str, sw: &str, te: &str) {
    let mut r = Rec::new(krate, "sw_te", name);
    r.put("sw", V::S(sw.into()));
    r.put("te", V::S(te.into()));
    r.print();
}

// ---------------------------------------------------------------- pairings
macro_rules! twist {
    ($m:ident, $t:expr) => {
        V::S(match $t {
            ark_ec::$m::TwistType::M => "M",
            ark_ec::$m::TwistType::D => "D",
        }
        .into())
    };
}
fn bls12<P: Bls12Config>(krate: &str, name: &str) {
    let mut r = Rec::new(krate, "bls12", name);
    r.put("X", vlimbs(P::X));
    r.put("X_LIMBS", V::L(P::X.iter().map(|x| vu64(*x)).collect()));
    r.put("X_IS_NEGATIVE", V::B(P::X_IS_NEGATIVE));
    r.put("TWIST_TYPE", twist!(bls12, P::TWIST_TYPE));
    r.print();
}
fn bn<P: BnConfig>(krate: &str, name: &str) {
    let mut r = Rec::new(krate, "bn", name);
    r.put("X", vlimbs(P::X));
    r.put("X_IS_NEGATIVE", V::B(P::X_IS_NEGATIVE));
    r.put("ATE_LOOP_COUNT", vi8s(P::ATE_LOOP_COUNT));
    r.put("TWIST_TYPE", twist!(bn, P::TWIST_TYPE));
    r.put("TWIST_MUL_BY_Q_X", vf(&P::TWIST_MUL_BY_Q_X));
    r.put("TWIST_MUL_BY_Q_Y", vf(&P::TWIST_MUL_BY_Q_Y));
    r.print();
}
fn bw6<P: BW6Config>(krate: &str, name: &str) {
    let mut r = Rec::new(krate, "bw6", name);
    r.put("X", vbig(P::X));
    r.put("X_IS_NEGATIVE", V::B(P::X_IS_NEGATIVE));
    r.put("X_MINUS_1_DIV_3", vbig(P::X_MINUS_1_DIV_3));
    r.put("ATE_LOOP_COUNT_1", vlimbs(P::ATE_LOOP_COUNT_1));
    r.put("ATE_LOOP_COUNT_1_IS_NEGATIVE", V::B(P::ATE_LOOP_COUNT_1_IS_NEGATIVE));
    r.put("ATE_LOOP_COUNT_2", vi8s(P::ATE_LOOP_COUNT_2));
    r.put("ATE_LOOP_COUNT_2_IS_NEGATIVE", V::B(P::ATE_LOOP_COUNT_2_IS_NEGATIVE));
    r.put("TWIST_TYPE", twist!(bw6, P::TWIST_TYPE));
    r.put("H_T", vi64(P::H_T));
    r.put("H_Y", vi64(P::H_Y));
    r.put("T_MOD_R_IS_ZERO", V::B(P::T_MOD_R_IS_ZERO));
    r.print();
}
fn mnt4<P: MNT4Config>(krate: &str, name: &str) {
    let mut r = Rec::new(krate, "mnt4", name);
    r.put("TWIST", vf(&P::TWIST));
    r.put("TWIST_COEFF_A", vf(&P::TWIST_COEFF_A));
    r.put("ATE_LOOP_COUNT", vi8s(P::ATE_LOOP_COUNT));
    r.put("ATE_IS_LOOP_COUNT_NEG", V::B(P::ATE_IS_LOOP_COUNT_NEG));
    r.put("FINAL_EXPONENT_LAST_CHUNK_1", vbig(P::FINAL_EXPONENT_LAST_CHUNK_1));
    r.put("FINAL_EXPONENT_LAST_CHUNK_W0_IS_NEG", V::B(P::FINAL_EXPONENT_LAST_CHUNK_W0_IS_NEG));
    r.put("FINAL_EXPONENT_LAST_CHUNK_ABS_OF_W0", vbig(P::FINAL_EXPONENT_LAST_CHUNK_ABS_OF_W0));
    r.print();
}
fn mnt6<P: MNT6Config>(krate: &str, name: &str) {
    let mut r = Rec::new(krate, "mnt6", name);
    r.put("TWIST", vf(&P::TWIST));
    r.put("TWIST_COEFF_A", vf(&P::TWIST_COEFF_A));
    r.put("ATE_LOOP_COUNT", vi8s(P::ATE_LOOP_COUNT));
    r.put("ATE_IS_LOOP_COUNT_NEG", V::B(P::ATE_IS_LOOP_COUNT_NEG));
    r.put("FINAL_EXPONENT_LAST_CHUNK_1", vbig(P::FINAL_EXPONENT_LAST_CHUNK_1));
    r.put("FINAL_EXPONENT_LAST_CHUNK_W0_IS_NEG", V::B(P::FINAL_EXPONENT_LAST_CHUNK_W0_IS_NEG));
    r.put("FINAL_EXPONENT_LAST_CHUNK_ABS_OF_W0", vbig(P::FINAL_EXPONENT_LAST_CHUNK_ABS_OF_W0));
    r.print();
}

// ---------------------------------------------------------------- registry
// One line per configuration.  `prime` entries are also addressable by index from the case
// interpreter (the index is the position in this list; `c16 dump` prints it as "id").
macro_rules! registry {
    (primes: [$( ($pk:literal, $pn:literal, $pt:ty) ),* $(,)?], others: { $($body:tt)* }) => {
        const PRIMES: &[(&str, &str, fn(&str, &str), fn(&str, &[Arg]) -> Vec<Arg>)] = &[
            $( ($pk, $pn, <$pt as PrimeDump>::dump, <$pt as PrimeDump>::op) ),*
        ];
        fn dump_others() { $($body)* }
    };
}

use ark_test_curves as tc;
registry! {
    primes: [
        ("t_bls12_381", "fq", tc::bls12_381::Fq),
        ("t_bls12_381", "fr", tc::bls12_381::Fr),
        ("t_bn384", "fq", tc::bn384_small_two_adicity::Fq),
        ("t_bn384", "fr", tc::bn384_small_two_adicity::Fr),
        ("t_mnt4_753", "fq", tc::mnt4_753::Fq),
        ("t_mnt4_753", "fr", tc::mnt4_753::Fr),
        ("t_mnt6_753", "fq", tc::mnt6_753::Fq),
        ("t_mnt6_753", "fr", tc::mnt6_753::Fr),
        ("t_secp256k1", "fq", tc::secp256k1::Fq),
        ("t_secp256k1", "fr", tc::secp256k1::Fr),
        ("t_ed_on_bls12_381", "fq", tc::ed_on_bls12_381::Fq),
        ("t_ed_on_bls12_381", "fr", tc::ed_on_bls12_381::Fr),
        ("t_fp128", "fq", tc::fp128::Fq),
        ("bls12_381", "fq", ark_bls12_381::Fq),
        ("bls12_381", "fr", ark_bls12_381::Fr),
        ("bls12_377", "fq", ark_bls12_377::Fq),
        ("bls12_377", "fr", ark_bls12_377::Fr),
        ("bn254", "fq", ark_bn254::Fq),
        ("bn254", "fr", ark_bn254::Fr),
        ("secp256k1", "fq", ark_secp256k1::Fq),
        ("secp256k1", "fr", ark_secp256k1::Fr),
        ("ed25519", "fq", ark_ed25519::Fq),
        ("ed25519", "fr", ark_ed25519::Fr),
        ("curve25519", "fq", ark_curve25519::Fq),
        ("curve25519", "fr", ark_curve25519::Fr),
        ("pallas", "fq", ark_pallas::Fq),
        ("pallas", "fr", ark_pallas::Fr),
        ("vesta", "fq", ark_vesta::Fq),
        ("vesta", "fr", ark_vesta::Fr),
        ("grumpkin", "fq", ark_grumpkin::Fq),
        ("grumpkin", "fr", ark_grumpkin::Fr),
        ("ed_on_bls12_381", "fq", ark_ed_on_bls12_381::Fq),
        ("ed_on_bls12_381", "fr", ark_ed_on_bls12_381::Fr),
        ("ed_on_bls12_381_bandersnatch", "fq", ark_ed_on_bls12_381_bandersnatch::Fq),
        ("ed_on_bls12_381_bandersnatch", "fr", ark_ed_on_bls12_381_bandersnatch::Fr),
        ("ed_on_bls12_377", "fq", ark_ed_on_bls12_377::Fq),
        ("ed_on_bls12_377", "fr", ark_ed_on_bls12_377::Fr),
        ("ed_on_bn254", "fq", ark_ed_on_bn254::Fq),
        ("ed_on_bn254", "fr", ark_ed_on_bn254::Fr),
        ("ed_on_cp6_782", "fq", ark_ed_on_cp6_782::Fq),
        ("ed_on_cp6_782", "fr", ark_ed_on_cp6_782::Fr),
        ("ed_on_mnt4_298", "fq", ark_ed_on_mnt4_298::Fq),
        ("ed_on_mnt4_298", "fr", ark_ed_on_mnt4_298::Fr),
        ("ed_on_mnt4_753", "fq", ark_ed_on_mnt4_753::Fq),
        ("ed_on_mnt4_753", "fr", ark_ed_on_mnt4_753::Fr),
        ("mnt4_298", "fq", ark_mnt4_298::Fq),
        ("mnt4_298", "fr", ark_mnt4_298::Fr),
        ("mnt6_298", "fq", ark_mnt6_298::Fq),
        ("mnt6_298", "fr", ark_mnt6_298::Fr),
        ("mnt4_753", "fq", ark_mnt4_753::Fq),
        ("mnt4_753", "fr", ark_mnt4_753::Fr),
        ("mnt6_753", "fq", ark_mnt6_753::Fq),
        ("mnt6_753", "fr", ark_mnt6_753::Fr),
        ("bw6_761", "fq", ark_bw6_761::Fq),
        ("bw6_761", "fr", ark_bw6_761::Fr),
        ("bw6_767", "fq", ark_bw6_767::Fq),
        ("bw6_767", "fr", ark_bw6_767::Fr),
        ("cp6_782", "fq", ark_cp6_782::Fq),
        ("cp6_782", "fr", ark_cp6_782::Fr),
        ("secp256r1", "fq", ark_secp256r1::Fq),
        ("secp256r1", "fr", ark_secp256r1::Fr),
        ("secp384r1", "fq", ark_secp384r1::Fq),
        ("secp384r1", "fr", ark_secp384r1::Fr),
        ("secq256k1", "fq", ark_secq256k1::Fq),
        ("secq256k1", "fr", ark_secq256k1::Fr),
    ],
    others: {
        // ---- test-curves
        fp2::<tc::bls12_381::Fq2Config>("t_bls12_381", "fq2", "fq");
        ext::<tc::bls12_381::Fq6>("t_bls12_381", "fq6", "fp6_3over2", "fq2");
        ext::<tc::bls12_381::Fq12>("t_bls12_381", "fq12", "fp12", "fq6");
        sw::<tc::bls12_381::g1::Config>("t_bls12_381", "g1", "fq", "fr");
        sw::<tc::bls12_381::g2::Config>("t_bls12_381", "g2", "fq2", "fr");
        sw::<tc::bls12_381::g1_swu_iso::SwuIsoConfig>("t_bls12_381", "g1_swu_iso", "fq", "fr");
        sw::<tc::bls12_381::g2_swu_iso::SwuIsoConfig>("t_bls12_381", "g2_swu_iso", "fq2", "fr");
        glv::<tc::bls12_381::g1::Config>("t_bls12_381", "g1_glv", "g1");
        bls12::<tc::bls12_381::Config>("t_bls12_381", "pairing");
        wb::<tc::bls12_381::g1::Config>("t_bls12_381", "g1_wb", "g1_swu_iso", "g1", "fq", "fr", false);
        wb::<tc::bls12_381::g2::Config>("t_bls12_381", "g2_wb", "g2_swu_iso", "g2", "fq2", "fr", false);
        {
            let mut r = Rec::new("t_bls12_381", "psi", "g2_psi");
            r.put("COEFF_0", vf(&tc::bls12_381::g2::P_POWER_ENDOMORPHISM_COEFF_0));
            r.put("COEFF_1", vf(&tc::bls12_381::g2::P_POWER_ENDOMORPHISM_COEFF_1));
            r.put("DOUBLE_COEFF_0", vf(&tc::bls12_381::g2::DOUBLE_P_POWER_ENDOMORPHISM));
            r.print();
        }
        sw::<tc::bn384_small_two_adicity::g1::Config>("t_bn384", "g1", "fq", "fr");
        sw::<tc::mnt4_753::g1::Config>("t_mnt4_753", "g1", "fq", "fr");
        fp3::<tc::mnt6_753::Fq3Config>("t_mnt6_753", "fq3", "fq");
        sw::<tc::secp256k1::Config>("t_secp256k1", "g1", "fq", "fr");
        te::<tc::ed_on_bls12_381::EdwardsConfig>("t_ed_on_bls12_381", "te", "fq", "fr");
        // ---- curves/bls12_381
        fp2::<ark_bls12_381::Fq2Config>("bls12_381", "fq2", "fq");
        ext::<ark_bls12_381::Fq6>("bls12_381", "fq6", "fp6_3over2", "fq2");
        ext::<ark_bls12_381::Fq12>("bls12_381", "fq12", "fp12", "fq6");
        sw::<ark_bls12_381::g1::Config>("bls12_381", "g1", "fq", "fr");
        sw::<ark_bls12_381::g2::Config>("bls12_381", "g2", "fq2", "fr");
        glv::<ark_bls12_381::g1::Config>("bls12_381", "g1_glv", "g1");
        glv::<ark_bls12_381::g2::Config>("bls12_381", "g2_glv", "g2");
        bls12::<ark_bls12_381::Config>("bls12_381", "pairing");
        wb::<ark_bls12_381::g1::Config>("bls12_381", "g1_wb", "g1_swu_iso", "g1", "fq", "fr", true);
        wb::<ark_bls12_381::g2::Config>("bls12_381", "g2_wb", "g2_swu_iso", "g2", "fq2", "fr", true);
        // ---- curves/bls12_377
        fp2::<ark_bls12_377::Fq2Config>("bls12_377", "fq2", "fq");
        ext::<ark_bls12_377::Fq6>("bls12_377", "fq6", "fp6_3over2", "fq2");
        ext::<ark_bls12_377::Fq12>("bls12_377", "fq12", "fp12", "fq6");
        sw::<ark_bls12_377::g1::Config>("bls12_377", "g1", "fq", "fr");
        te::<ark_bls12_377::g1::Config>("bls12_377", "g1_te", "fq", "fr");
        sw::<ark_bls12_377::g2::Config>("bls12_377", "g2", "fq2", "fr");
        glv::<ark_bls12_377::g1::Config>("bls12_377", "g1_glv", "g1");
        glv::<ark_bls12_377::g2::Config>("bls12_377", "g2_glv", "g2");
        bls12::<ark_bls12_377::Config>("bls12_377", "pairing");
        wb::<ark_bls12_377::g1::Config>("bls12_377", "g1_wb", "g1_swu_iso", "g1", "fq", "fr", true);
        wb::<ark_bls12_377::g2::Config>("bls12_377", "g2_wb", "g2_swu_iso", "g2", "fq2", "fr", true);
        sw_te("bls12_377", "g1_sw_te", "g1", "g1_te");
        // ---- curves/bn254
        fp2::<ark_bn254::Fq2Config>("bn254", "fq2", "fq");
        ext::<ark_bn254::Fq6>("bn254", "fq6", "fp6_3over2", "fq2");
        ext::<ark_bn254::Fq12>("bn254", "fq12", "fp12", "fq6");
        sw::<ark_bn254::g1::Config>("bn254", "g1", "fq", "fr");
        sw::<ark_bn254::g2::Config>("bn254", "g2", "fq2", "fr");
        glv::<ark_bn254::g1::Config>("bn254", "g1_glv", "g1");
        glv::<ark_bn254::g2::Config>("bn254", "g2_glv", "g2");
        bn::<ark_bn254::Config>("bn254", "pairing");
        // ---- plain curves
        sw::<ark_secp256k1::Config>("secp256k1", "g1", "fq", "fr");
        te::<ark_ed25519::EdwardsConfig>("ed25519", "te", "fq", "fr");
        te::<ark_curve25519::Curve25519Config>("curve25519", "te", "fq", "fr");
        sw::<ark_pallas::PallasConfig>("pallas", "g1", "fq", "fr");
        glv::<ark_pallas::PallasConfig>("pallas", "g1_glv", "g1");
        sw::<ark_vesta::VestaConfig>("vesta", "g1", "fq", "fr");
        glv::<ark_vesta::VestaConfig>("vesta", "g1_glv", "g1");
        sw::<ark_grumpkin::GrumpkinConfig>("grumpkin", "g1", "fq", "fr");
        te::<ark_ed_on_bls12_381::JubjubConfig>("ed_on_bls12_381", "te", "fq", "fr");
        sw::<ark_ed_on_bls12_381::JubjubConfig>("ed_on_bls12_381", "sw", "fq", "fr");
        sw_te("ed_on_bls12_381", "sw_te", "sw", "te");
        te::<ark_ed_on_bls12_381_bandersnatch::BandersnatchConfig>("ed_on_bls12_381_bandersnatch", "te", "fq", "fr");
        sw::<ark_ed_on_bls12_381_bandersnatch::BandersnatchConfig>("ed_on_bls12_381_bandersnatch", "sw", "fq", "fr");
        sw_te("ed_on_bls12_381_bandersnatch", "sw_te", "sw", "te");
        ell2::<ark_ed_on_bls12_381_bandersnatch::BandersnatchConfig>("ed_on_bls12_381_bandersnatch", "elligator2", "te");
        te::<ark_ed_on_bls12_377::EdwardsConfig>("ed_on_bls12_377", "te", "fq", "fr");
        te::<ark_ed_on_bn254::EdwardsConfig>("ed_on_bn254", "te", "fq", "fr");
        te::<ark_ed_on_cp6_782::EdwardsConfig>("ed_on_cp6_782", "te", "fq", "fr");
        te::<ark_ed_on_mnt4_298::EdwardsConfig>("ed_on_mnt4_298", "te", "fq", "fr");
        te::<ark_ed_on_mnt4_753::EdwardsConfig>("ed_on_mnt4_753", "te", "fq", "fr");
        sw::<ark_secp256r1::Config>("secp256r1", "g1", "fq", "fr");
        sw::<ark_secp384r1::Config>("secp384r1", "g1", "fq", "fr");
        sw::<ark_secq256k1::Config>("secq256k1", "g1", "fq", "fr");
        // ---- MNT
        fp2::<ark_mnt4_298::Fq2Config>("mnt4_298", "fq2", "fq");
        ext::<ark_mnt4_298::Fq4>("mnt4_298", "fq4", "fp4", "fq2");
        sw::<ark_mnt4_298::g1::Config>("mnt4_298", "g1", "fq", "fr");
        sw::<ark_mnt4_298::g2::Config>("mnt4_298", "g2", "fq2", "fr");
        mnt4::<ark_mnt4_298::Config>("mnt4_298", "pairing");
        fp3::<ark_mnt6_298::Fq3Config>("mnt6_298", "fq3", "fq");
        ext::<ark_mnt6_298::Fq6>("mnt6_298", "fq6", "fp6_2over3", "fq3");
        sw::<ark_mnt6_298::g1::Config>("mnt6_298", "g1", "fq", "fr");
        sw::<ark_mnt6_298::g2::Config>("mnt6_298", "g2", "fq3", "fr");
        mnt6::<ark_mnt6_298::Config>("mnt6_298", "pairing");
        fp2::<ark_mnt4_753::Fq2Config>("mnt4_753", "fq2", "fq");
        ext::<ark_mnt4_753::Fq4>("mnt4_753", "fq4", "fp4", "fq2");
        sw::<ark_mnt4_753::g1::Config>("mnt4_753", "g1", "fq", "fr");
        sw::<ark_mnt4_753::g2::Config>("mnt4_753", "g2", "fq2", "fr");
        mnt4::<ark_mnt4_753::Config>("mnt4_753", "pairing");
        fp3::<ark_mnt6_753::Fq3Config>("mnt6_753", "fq3", "fq");
        ext::<ark_mnt6_753::Fq6>("mnt6_753", "fq6", "fp6_2over3", "fq3");
        sw::<ark_mnt6_753::g1::Config>("mnt6_753", "g1", "fq", "fr");
        sw::<ark_mnt6_753::g2::Config>("mnt6_753", "g2", "fq3", "fr");
        mnt6::<ark_mnt6_753::Config>("mnt6_753", "pairing");
        // ---- BW6 / CP6
        fp3::<ark_bw6_761::Fq3Config>("bw6_761", "fq3", "fq");
        ext::<ark_bw6_761::Fq6>("bw6_761", "fq6", "fp6_2over3", "fq3");
        sw::<ark_bw6_761::g1::Config>("bw6_761", "g1", "fq", "fr");
        sw::<ark_bw6_761::g2::Config>("bw6_761", "g2", "fq", "fr");
        glv::<ark_bw6_761::g1::Config>("bw6_761", "g1_glv", "g1");
        glv::<ark_bw6_761::g2::Config>("bw6_761", "g2_glv", "g2");
        bw6::<ark_bw6_761::Config>("bw6_761", "pairing");
        fp3::<ark_bw6_767::Fq3Config>("bw6_767", "fq3", "fq");
        ext::<ark_bw6_767::Fq6>("bw6_767", "fq6", "fp6_2over3", "fq3");
        sw::<ark_bw6_767::g1::Config>("bw6_767", "g1", "fq", "fr");
        sw::<ark_bw6_767::g2::Config>("bw6_767", "g2", "fq", "fr");
        bw6::<ark_bw6_767::Config>("bw6_767", "pairing");
        fp3::<ark_cp6_782::Fq3Config>("cp6_782", "fq3", "fq");
        ext::<ark_cp6_782::Fq6>("cp6_782", "fq6", "fp6_2over3", "fq3");
        sw::<ark_cp6_782::g1::Config>("cp6_782", "g1", "fq", "fr");
        sw::<ark_cp6_782::g2::Config>("cp6_782", "g2", "fq3", "fr");
        {
            let mut r = Rec::new("cp6_782", "cp6", "pairing");
            r.put("TWIST", vf(&ark_cp6_782::TWIST));
            r.put("ATE_LOOP_COUNT", vlimbs(&ark_cp6_782::ATE_LOOP_COUNT));
            r.put("ATE_IS_LOOP_COUNT_NEG", V::B(ark_cp6_782::ATE_IS_LOOP_COUNT_NEG));
            r.put("FINAL_EXPONENT_LAST_CHUNK_W1", vbig(ark_cp6_782::FINAL_EXPONENT_LAST_CHUNK_W1));
            r.put("FINAL_EXPONENT_LAST_CHUNK_W0_IS_NEG", V::B(ark_cp6_782::FINAL_EXPONENT_LAST_CHUNK_W0_IS_NEG));
            r.put("FINAL_EXPONENT_LAST_CHUNK_ABS_OF_W0", vbig(ark_cp6_782::FINAL_EXPONENT_LAST_CHUNK_ABS_OF_W0));
            r.print();
        }
    }
}

fn dump() {
    for (i, (k, n, d, _)) in PRIMES.iter().enumerate() {
        // the id line precedes the record so that the generator can address the field
        println!("{{\"kind\":\"id\",\"crate\":\"{}\",\"name\":\"{}\",\"id\":{}}}", k, n, i);
        d(k, n);
    }
    dump_others();
}

// ---------------------------------------------------------------- case interpreter
fn big<const N: usize>(a: &Arg) -> BigInt<N> {
    let l = arg_limbs(a);
    assert_eq!(l.len(), N, "harness: wrong limb count");
    let mut r = [0u64; N];
    r.copy_from_slice(&l);
    BigInt::<N>(r)
}
fn run_n<const N: usize>(op: &str, a: &[Arg]) -> Vec<Arg> {
    let x = big::<N>(&a[1]);
    match op {
        "mont_rr2" => ok(vec![
            vec![from_biguint(&x.montgomery_r().into())],
            vec![from_biguint(&x.montgomery_r2().into())],
        ]),
        "two_adic" => ok(vec![
            vec![from_u64(x.two_adic_valuation() as u64)],
            vec![from_biguint(&x.two_adic_coefficient().into())],
        ]),
        "num_bits" => ok(vec![vec![from_u64(x.const_num_bits() as u64)]]),
        _ => unsupported(),
    }
}
fn run(op: &str, a: &[Arg]) -> Vec<Arg> {
    match op {
        "mont_rr2" | "two_adic" | "num_bits" => {
            let n = to_usize(&a[0][0]);
            macro_rules! d { ($($k:literal),*) => { match n { $($k => run_n::<$k>(op, a),)* _ => unsupported() } } }
            d!(1, 2, 3, 4, 5, 6, 7, 8, 9, 10, 11, 12, 13)
        },
        "cfg_mont" | "cfg_two_adic" | "cfg_root" | "cfg_pow" => {
            let id = to_usize(&a[0][0]);
            if id >= PRIMES.len() {
                return unsupported();
            }
            (PRIMES[id].3)(op, a)
        },
        // replay marker of a failing configuration fact (re-evaluated by props/C16/prop.py `extra`)
        "fact" => ok(vec![]),
        _ => unsupported(),
    }
}

fn main() {
    let args: Vec<String> = std::env::args().collect();
    if args.len() > 1 && args[1] == "dump" {
        dump();
        return;
    }
    main_loop(run);
}
