//! C17 case interpreter: dense / sparse multilinear extensions and multivariate sparse
//! polynomials of ark-poly.  Every case: `a[0] = [p]` (the prime modulus selects the field:
//! 3, 5, 97 = toy `MontConfig` derives, otherwise bls12_381 Fr).  No oracle logic here: the
//! public API is called and what it returns is printed in canonical form (field elements
//! as residues, maps in key order with zero-valued entries omitted).
use ark_ff::{Fp64, MontBackend, MontConfig, PrimeField};
use ark_poly::{
    multivariate::{SparsePolynomial, SparseTerm, Term},
    DenseMVPolynomial, DenseMultilinearExtension, MultilinearExtension, Polynomial,
    SparseMultilinearExtension,
};
use num_bigint::BigUint;
use vharness::*;

#[derive(MontConfig)]
#[modulus = "3"]
#[generator = "2"]
pub struct F3Config;
pub type F3 = Fp64<MontBackend<F3Config, 1>>;

#[derive(MontConfig)]
#[modulus = "5"]
#[generator = "2"]
pub struct F5Config;
pub type F5 = Fp64<MontBackend<F5Config, 1>>;

#[derive(MontConfig)]
#[modulus = "97"]
#[generator = "5"]
pub struct F97Config;
pub type F97 = Fp64<MontBackend<F97Config, 1>>;

type Fr = ark_test_curves::bls12_381::Fr;

type Dense<F> = DenseMultilinearExtension<F>;
type Sparse<F> = SparseMultilinearExtension<F>;
type MvPoly<F> = SparsePolynomial<F, SparseTerm>;

fn fe<F: PrimeField>(v: &SInt) -> F {
    F::from(u(v))
}
fn fes<F: PrimeField>(a: &Arg) -> Vec<F> {
    a.iter().map(fe::<F>).collect()
}
fn out_f<F: PrimeField>(x: &F) -> SInt {
    let b: BigUint = x.into_bigint().into();
    from_biguint(&b)
}
fn out_fs<F: PrimeField>(l: &[F]) -> Arg {
    l.iter().map(out_f).collect()
}
fn out_us(l: &[usize]) -> Arg {
    l.iter().map(|x| from_u64(*x as u64)).collect()
}
type SInt = num_bigint::BigInt;

fn dense_in<F: PrimeField>(a: &[Arg], i: usize) -> Dense<F> {
    let nv = to_usize(&a[i][0]);
    let ev = fes::<F>(&a[i + 1]);
    let x = Dense::from_evaluations_vec(nv, ev.clone());
    let y = Dense::from_evaluations_slice(nv, &ev);
    assert!(x == y, "harness: from_evaluations_vec and _slice differ");
    x
}
fn dense_out<F: PrimeField>(d: &Dense<F>) -> Vec<Arg> {
    let t = d.to_evaluations();
    let it: Vec<F> = d.iter().copied().collect();
    assert!(t == it, "harness: to_evaluations and iter differ");
    assert!(d.num_vars() == d.num_vars, "harness: num_vars() differs from the field");
    ok(vec![vec![from_u64(d.num_vars as u64)], out_fs(&t)])
}
fn sparse_in<F: PrimeField>(a: &[Arg], i: usize) -> Sparse<F> {
    let nv = to_usize(&a[i][0]);
    let vals = fes::<F>(&a[i + 2]);
    let tuples: Vec<(usize, F)> = a[i + 1].iter().map(to_usize).zip(vals).collect();
    Sparse::from_evaluations(nv, &tuples)
}
fn sparse_out<F: PrimeField>(s: &Sparse<F>) -> Vec<Arg> {
    // BTreeMap iteration is in key order
    let nz: Vec<(usize, F)> = s
        .evaluations
        .iter()
        .filter(|(_, v)| !v.is_zero())
        .map(|(i, v)| (*i, *v))
        .collect();
    let keys: Vec<usize> = nz.iter().map(|e| e.0).collect();
    let vals: Vec<F> = nz.iter().map(|e| e.1).collect();
    ok(vec![
        vec![from_u64(s.num_vars() as u64)],
        out_us(&keys),
        out_fs(&vals),
        out_fs(&s.to_evaluations()),
    ])
}
fn term_in(vars: &Arg, pows: &Arg) -> SparseTerm {
    SparseTerm::new(vars.iter().map(to_usize).zip(pows.iter().map(to_usize)).collect())
}
fn mv_in<F: PrimeField>(a: &[Arg], i: usize) -> MvPoly<F> {
    let nv = to_usize(&a[i][0]);
    let coeffs = fes::<F>(&a[i + 1]);
    let mut vp = a[i + 3].iter().map(to_usize).zip(a[i + 4].iter().map(to_usize));
    let mut terms = Vec::new();
    for (c, len) in coeffs.into_iter().zip(a[i + 2].iter().map(to_usize)) {
        let raw: Vec<(usize, usize)> = (&mut vp).take(len).collect();
        terms.push((c, SparseTerm::new(raw)));
    }
    let x = MvPoly::from_coefficients_vec(nv, terms.clone());
    let y = MvPoly::from_coefficients_slice(nv, &terms);
    assert!(x == y, "harness: from_coefficients_vec and _slice differ");
    x
}
fn mv_out<F: PrimeField>(q: &MvPoly<F>) -> Vec<Arg> {
    let terms = q.terms();
    let coeffs: Vec<F> = terms.iter().map(|(c, _)| *c).collect();
    let lens: Vec<usize> = terms.iter().map(|(_, t)| t.len()).collect();
    let vars: Vec<usize> = terms.iter().flat_map(|(_, t)| t.vars()).collect();
    let pows: Vec<usize> = terms.iter().flat_map(|(_, t)| t.powers()).collect();
    ok(vec![
        vec![from_u64(DenseMVPolynomial::num_vars(q) as u64)],
        out_fs(&coeffs),
        out_us(&lens),
        out_us(&vars),
        out_us(&pows),
        vec![from_u64(q.degree() as u64)],
    ])
}
fn triple(a: &Arg) -> (usize, usize, usize) {
    (to_usize(&a[0]), to_usize(&a[1]), to_usize(&a[2]))
}

fn run_f<F: PrimeField>(op: &str, a: &[Arg]) -> Vec<Arg> {
    match op {
        // ---------------- dense ----------------
        "dense_from_vec" => dense_out(&dense_in::<F>(a, 1)),
        "dense_eval" => {
            let d = dense_in::<F>(a, 1);
            ok(vec![vec![out_f(&d.evaluate(&fes::<F>(&a[3])))]])
        },
        "dense_fix" => {
            let d = dense_in::<F>(a, 1);
            dense_out(&d.fix_variables(&fes::<F>(&a[3])))
        },
        "dense_relabel" => {
            let d = dense_in::<F>(a, 1);
            let (x, y, k) = triple(&a[3]);
            let r = d.relabel(x, y, k);
            let mut s = d.clone();
            s.relabel_in_place(x, y, k);
            assert!(r == s, "harness: relabel and relabel_in_place differ");
            dense_out(&r)
        },
        "dense_concat" => {
            let nvs: Vec<usize> = a[1].iter().map(to_usize).collect();
            let flat = fes::<F>(&a[2]);
            let mut polys = Vec::new();
            let mut pos = 0usize;
            for nv in nvs {
                let len = 1usize << nv;
                let end = core::cmp::min(pos + len, flat.len());
                let start = core::cmp::min(pos, flat.len());
                polys.push(Dense::from_evaluations_vec(nv, flat[start..end].to_vec()));
                pos += len;
            }
            dense_out(&Dense::concat(&polys))
        },
        "dense_add" | "dense_sub" => {
            let x = dense_in::<F>(a, 1);
            let y = dense_in::<F>(a, 3);
            let add = op == "dense_add";
            let r1 = if add { &x + &y } else { &x - &y };
            let r2 = if add { x.clone() + y.clone() } else { x.clone() - y.clone() };
            let mut r3 = x.clone();
            if add {
                r3 += &y
            } else {
                r3 -= &y
            };
            let mut r4 = x.clone();
            if add {
                r4 += y.clone()
            } else {
                r4 -= y.clone()
            };
            assert!(r1 == r2 && r1 == r3 && r1 == r4, "harness: operator variants differ");
            dense_out(&r1)
        },
        "dense_neg" => dense_out(&(-dense_in::<F>(a, 1))),
        "dense_scale" => {
            let x = dense_in::<F>(a, 1);
            let s = fe::<F>(&a[3][0]);
            let r1 = &x * &s;
            let r2 = x.clone() * s;
            let mut r3 = x.clone();
            r3 *= s;
            let mut r4 = x.clone();
            r4 *= &s;
            assert!(r1 == r2 && r1 == r3 && r1 == r4, "harness: operator variants differ");
            dense_out(&r1)
        },
        "dense_scale_eval" => {
            let x = dense_in::<F>(a, 1);
            let s = fe::<F>(&a[3][0]);
            let r = &x * &s;
            ok(vec![vec![out_f(&r.evaluate(&fes::<F>(&a[4])))]])
        },
        "dense_add_scaled" => {
            let mut x = dense_in::<F>(a, 1);
            let f = fe::<F>(&a[3][0]);
            let y = dense_in::<F>(a, 4);
            x += (f, &y);
            dense_out(&x)
        },
        "dense_index" => {
            let x = dense_in::<F>(a, 1);
            ok(vec![vec![out_f(&x[to_usize(&a[3][0])])]])
        },
        // ---------------- sparse ----------------
        "sparse_from" => sparse_out(&sparse_in::<F>(a, 1)),
        "sparse_eval" => {
            let s = sparse_in::<F>(a, 1);
            ok(vec![vec![out_f(&s.evaluate(&fes::<F>(&a[4])))]])
        },
        "sparse_fix" => {
            let s = sparse_in::<F>(a, 1);
            sparse_out(&s.fix_variables(&fes::<F>(&a[4])))
        },
        "sparse_relabel" => {
            let s = sparse_in::<F>(a, 1);
            let (x, y, k) = triple(&a[4]);
            sparse_out(&s.relabel(x, y, k))
        },
        // wide sparse extensions (> 32 variables): only the stored entries are printed
        "sparse_relabel_wide" => {
            let s = sparse_in::<F>(a, 1);
            let (x, y, k) = triple(&a[4]);
            let r = s.relabel(x, y, k);
            let nz: Vec<(usize, F)> = r.evaluations.iter().filter(|(_, v)| !v.is_zero()).map(|(i, v)| (*i, *v)).collect();
            ok(vec![
                vec![from_u64(r.num_vars() as u64)],
                out_us(&nz.iter().map(|e| e.0).collect::<Vec<_>>()),
                out_fs(&nz.iter().map(|e| e.1).collect::<Vec<_>>()),
            ])
        },
        "sparse_eval_wide" => {
            let s = sparse_in::<F>(a, 1);
            let x = fes::<F>(&a[4]);
            ok(vec![out_fs(&[s.evaluate(&x)])])
        },
        "sparse_to_dense" => {
            let s = sparse_in::<F>(a, 1);
            dense_out(&s.to_dense_multilinear_extension())
        },
        "sparse_add" | "sparse_sub" => {
            let x = sparse_in::<F>(a, 1);
            let y = sparse_in::<F>(a, 4);
            let add = op == "sparse_add";
            let r1 = if add { &x + &y } else { &x - &y };
            let r2 = if add { x.clone() + y.clone() } else { x.clone() - y.clone() };
            let mut r3 = x.clone();
            if add {
                r3 += &y
            } else {
                r3 -= &y
            };
            let mut r4 = x.clone();
            if add {
                r4 += y.clone()
            } else {
                r4 -= y.clone()
            };
            assert!(r1 == r2 && r1 == r3 && r1 == r4, "harness: operator variants differ");
            sparse_out(&r1)
        },
        "sparse_neg" => sparse_out(&(-sparse_in::<F>(a, 1))),
        "sparse_add_scaled" => {
            let mut x = sparse_in::<F>(a, 1);
            let f = fe::<F>(&a[4][0]);
            let y = sparse_in::<F>(a, 5);
            x += (f, &y);
            sparse_out(&x)
        },
        "sparse_index" => {
            let s = sparse_in::<F>(a, 1);
            ok(vec![vec![out_f(&s[to_usize(&a[4][0])])]])
        },
        // ---------------- multivariate ----------------
        "term_new" => {
            let t = term_in(&a[1], &a[2]);
            ok(vec![
                out_us(&t.vars()),
                out_us(&t.powers()),
                vec![from_u64(t.degree() as u64)],
                vec![from_bool(t.is_constant())],
            ])
        },
        "term_cmp" => {
            let t = term_in(&a[1], &a[2]);
            let s = term_in(&a[3], &a[4]);
            let c = t.cmp(&s) as i8 as i64;
            assert!(t.partial_cmp(&s) == Some(t.cmp(&s)), "harness: cmp / partial_cmp differ");
            ok(vec![vec![from_i64(c)], vec![from_bool(t == s)]])
        },
        "term_eval" => {
            let t = term_in(&a[1], &a[2]);
            let x = fes::<F>(&a[3]);
            ok(vec![vec![out_f(&t.evaluate::<F>(&x))]])
        },
        "mv_from" => mv_out(&mv_in::<F>(a, 1)),
        "mv_eval" => {
            let q = mv_in::<F>(a, 1);
            ok(vec![vec![out_f(&q.evaluate(&fes::<F>(&a[6])))]])
        },
        "mv_add" | "mv_sub" => {
            let x = mv_in::<F>(a, 1);
            let y = mv_in::<F>(a, 6);
            let add = op == "mv_add";
            let r1 = if add { &x + &y } else { &x - &y };
            let mut r3 = x.clone();
            if add {
                r3 += &y
            } else {
                r3 -= &y
            };
            assert!(r1 == r3, "harness: operator variants differ");
            if add {
                let r2 = x.clone() + y.clone();
                assert!(r1 == r2, "harness: operator variants differ");
            }
            mv_out(&r1)
        },
        "mv_neg" => mv_out(&(-mv_in::<F>(a, 1))),
        "mv_add_scaled" => {
            let mut x = mv_in::<F>(a, 1);
            let f = fe::<F>(&a[6][0]);
            let y = mv_in::<F>(a, 7);
            x += (f, &y);
            mv_out(&x)
        },
        _ => unsupported(),
    }
}

fn run(op: &str, a: &[Arg]) -> Vec<Arg> {
    let p = u(&a[0][0]);
    let fr: BigUint = <Fr as PrimeField>::MODULUS.into();
    if p == BigUint::from(3u32) {
        run_f::<F3>(op, a)
    } else if p == BigUint::from(5u32) {
        run_f::<F5>(op, a)
    } else if p == BigUint::from(97u32) {
        run_f::<F97>(op, a)
    } else if p == fr {
        run_f::<Fr>(op, a)
    } else {
        unsupported()
    }
}

fn main() {
    main_loop(run);
}
