//! C18 case interpreter: container and derived (de)serialization of `ark-serialize`.
//!
//! Case layout: a0 = [type id] (selects the concrete Rust type below), a1 = type descriptor
//! (only the Coq model reads it), a2 = payload (flat value, or input bytes for `de`),
//! a3 = [compress, validate] (only `de`).  `check`: a2 = flat value; `batch_check`: a2 = flat `Vec<T>`.
//!
//! The flat rendering of values (trait `Zoo`) is the one documented in coq/C18/Run.v.
//! No oracle logic here: every op calls the public ark-serialize API and prints the result.
use ark_ff::BigInt;
use ark_serialize::*;
use num_bigint::{BigInt as SInt, BigUint};
use std::borrow::Cow;
use std::collections::{BTreeMap, BTreeSet, LinkedList, VecDeque};
use std::marker::PhantomData;
use std::rc::Rc;
use std::sync::Arc;
use vharness::*;

type It<'a> = std::slice::Iter<'a, SInt>;

fn next<'a>(it: &mut It<'a>) -> &'a SInt {
    it.next().expect("harness: flat value too short")
}

/// conversion between the flat integer rendering and a concrete Rust type
trait Zoo: Sized {
    fn from_flat(it: &mut It<'_>) -> Self;
    fn to_flat(&self, out: &mut Arg);
    /// only Vec<T>: serialization through the `[T]` and `&[T]` impls
    fn slice_ser(&self, _c: Compress) -> Option<[(Vec<u8>, usize); 2]> {
        None
    }
}

macro_rules! zoo_int {
    ($($t:ty),*) => {$(
        impl Zoo for $t {
            fn from_flat(it: &mut It<'_>) -> Self {
                <$t>::try_from(next(it).clone()).expect("harness: integer out of range")
            }
            fn to_flat(&self, out: &mut Arg) {
                out.push(SInt::from(*self));
            }
        }
    )*};
}
zoo_int!(u8, u16, u32, u64, i8, i16, i32, i64, usize, isize);

impl Zoo for bool {
    fn from_flat(it: &mut It<'_>) -> Self {
        to_u64(next(it)) != 0
    }
    fn to_flat(&self, out: &mut Arg) {
        out.push(from_bool(*self));
    }
}
impl Zoo for () {
    fn from_flat(_: &mut It<'_>) -> Self {}
    fn to_flat(&self, _: &mut Arg) {}
}
impl<T> Zoo for PhantomData<T> {
    fn from_flat(_: &mut It<'_>) -> Self {
        PhantomData
    }
    fn to_flat(&self, _: &mut Arg) {}
}
impl Zoo for BigUint {
    fn from_flat(it: &mut It<'_>) -> Self {
        u(next(it))
    }
    fn to_flat(&self, out: &mut Arg) {
        out.push(from_biguint(self));
    }
}
impl<const N: usize> Zoo for BigInt<N> {
    fn from_flat(it: &mut It<'_>) -> Self {
        BigInt(<[u64; N]>::from_flat(it))
    }
    fn to_flat(&self, out: &mut Arg) {
        self.0.to_flat(out)
    }
}
impl<T: Zoo> Zoo for Option<T> {
    fn from_flat(it: &mut It<'_>) -> Self {
        if to_u64(next(it)) == 0 {
            None
        } else {
            Some(T::from_flat(it))
        }
    }
    fn to_flat(&self, out: &mut Arg) {
        match self {
            None => out.push(from_u64(0)),
            Some(x) => {
                out.push(from_u64(1));
                x.to_flat(out)
            },
        }
    }
}
macro_rules! zoo_tuple {
    ($($ty:ident : $no:tt),*) => {
        impl<$($ty: Zoo),*> Zoo for ($($ty,)*) {
            fn from_flat(it: &mut It<'_>) -> Self {
                ($($ty::from_flat(it),)*)
            }
            fn to_flat(&self, out: &mut Arg) {
                $(self.$no.to_flat(out);)*
            }
        }
    };
}
zoo_tuple!(A:0);
zoo_tuple!(A:0, B:1);
zoo_tuple!(A:0, B:1, C:2);
zoo_tuple!(A:0, B:1, C:2, D:3);
zoo_tuple!(A:0, B:1, C:2, D:3, E:4);

impl<T: Zoo, const N: usize> Zoo for [T; N] {
    fn from_flat(it: &mut It<'_>) -> Self {
        core::array::from_fn(|_| T::from_flat(it))
    }
    fn to_flat(&self, out: &mut Arg) {
        for x in self {
            x.to_flat(out)
        }
    }
}
fn count(it: &mut It<'_>) -> usize {
    to_usize(next(it))
}
impl<T: Zoo + CanonicalSerialize> Zoo for Vec<T> {
    fn from_flat(it: &mut It<'_>) -> Self {
        (0..count(it)).map(|_| T::from_flat(it)).collect()
    }
    fn to_flat(&self, out: &mut Arg) {
        out.push(from_u64(self.len() as u64));
        for x in self {
            x.to_flat(out)
        }
    }
    fn slice_ser(&self, c: Compress) -> Option<[(Vec<u8>, usize); 2]> {
        let s: &[T] = self.as_slice();
        let mut b1 = vec![];
        <[T] as CanonicalSerialize>::serialize_with_mode(s, &mut b1, c).unwrap();
        let n1 = <[T] as CanonicalSerialize>::serialized_size(s, c);
        let mut b2 = vec![];
        <&[T] as CanonicalSerialize>::serialize_with_mode(&s, &mut b2, c).unwrap();
        let n2 = <&[T] as CanonicalSerialize>::serialized_size(&s, c);
        Some([(b1, n1), (b2, n2)])
    }
}
impl<T: Zoo> Zoo for VecDeque<T> {
    fn from_flat(it: &mut It<'_>) -> Self {
        // the logical order is the order of the flat list, but the ring buffer is WRAPPED (two non-empty runs in
        // as_slices()): the second half is pushed at the back first, then the first half is pushed at the front in reverse
        // (push_front on a deque whose head is at physical index 0 writes at the end of the buffer); no reallocation
        // happens in between because the capacity is reserved up front
        let items: Vec<T> = (0..count(it)).map(|_| T::from_flat(it)).collect();
        let n = items.len();
        let k = n / 2;
        let mut d: VecDeque<T> = VecDeque::with_capacity(n);
        let mut first: Vec<T> = vec![];
        for (i, x) in items.into_iter().enumerate() {
            if i < k {
                first.push(x);
            } else {
                d.push_back(x);
            }
        }
        while let Some(x) = first.pop() {
            d.push_front(x);
        }
        if n >= 2 {
            assert!(!d.as_slices().1.is_empty(), "harness: the deque is contiguous");
        }
        d
    }
    fn to_flat(&self, out: &mut Arg) {
        out.push(from_u64(self.len() as u64));
        for x in self {
            x.to_flat(out)
        }
    }
}
impl<T: Zoo> Zoo for LinkedList<T> {
    fn from_flat(it: &mut It<'_>) -> Self {
        (0..count(it)).map(|_| T::from_flat(it)).collect()
    }
    fn to_flat(&self, out: &mut Arg) {
        out.push(from_u64(self.len() as u64));
        for x in self {
            x.to_flat(out)
        }
    }
}
impl Zoo for String {
    fn from_flat(it: &mut It<'_>) -> Self {
        let b: Vec<u8> = (0..count(it)).map(|_| to_u64(next(it)) as u8).collect();
        String::from_utf8(b).expect("harness: generator produced an invalid String value")
    }
    fn to_flat(&self, out: &mut Arg) {
        out.push(from_u64(self.len() as u64));
        for b in self.as_bytes() {
            out.push(from_u64(*b as u64))
        }
    }
}
impl<K: Zoo + Ord, V: Zoo> Zoo for BTreeMap<K, V> {
    fn from_flat(it: &mut It<'_>) -> Self {
        let n = count(it);
        let mut m = BTreeMap::new();
        for _ in 0..n {
            let k = K::from_flat(it);
            let v = V::from_flat(it);
            m.insert(k, v);
        }
        assert_eq!(m.len(), n, "harness: generator produced duplicate map keys");
        m
    }
    fn to_flat(&self, out: &mut Arg) {
        out.push(from_u64(self.len() as u64));
        for (k, v) in self {
            k.to_flat(out);
            v.to_flat(out)
        }
    }
}
impl<K: Zoo + Ord> Zoo for BTreeSet<K> {
    fn from_flat(it: &mut It<'_>) -> Self {
        let n = count(it);
        let s: BTreeSet<K> = (0..n).map(|_| K::from_flat(it)).collect();
        assert_eq!(s.len(), n, "harness: generator produced duplicate set elements");
        s
    }
    fn to_flat(&self, out: &mut Arg) {
        out.push(from_u64(self.len() as u64));
        for k in self {
            k.to_flat(out)
        }
    }
}
impl<T: Zoo> Zoo for Arc<T> {
    fn from_flat(it: &mut It<'_>) -> Self {
        Arc::new(T::from_flat(it))
    }
    fn to_flat(&self, out: &mut Arg) {
        self.as_ref().to_flat(out)
    }
}
impl<T: Zoo + Clone> Zoo for Cow<'static, T> {
    fn from_flat(it: &mut It<'_>) -> Self {
        Cow::Owned(T::from_flat(it))
    }
    fn to_flat(&self, out: &mut Arg) {
        self.as_ref().to_flat(out)
    }
}
macro_rules! zoo_wrap {
    ($($w:ident),*) => {$(
        impl<T: Zoo> Zoo for $w<T> {
            fn from_flat(it: &mut It<'_>) -> Self {
                $w(T::from_flat(it))
            }
            fn to_flat(&self, out: &mut Arg) {
                self.0.to_flat(out)
            }
        }
    )*};
}
zoo_wrap!(CompressedChecked, CompressedUnchecked, UncompressedChecked, UncompressedUnchecked);

// ---- leaf types written the way the field / curve crates write theirs ----

/// a byte that is valid only when even: gives `Valid::check` something to reject, so that the
/// Validate plumbing (elements read with Validate::No, then batch_check) is observable
#[derive(Clone, Copy, Debug, PartialEq, Eq, PartialOrd, Ord)]
struct Even(u8);
impl Valid for Even {
    fn check(&self) -> Result<(), SerializationError> {
        if self.0 % 2 == 0 {
            Ok(())
        } else {
            Err(SerializationError::InvalidData)
        }
    }
}
impl CanonicalSerialize for Even {
    fn serialize_with_mode<W: Write>(&self, w: W, c: Compress) -> Result<(), SerializationError> {
        self.0.serialize_with_mode(w, c)
    }
    fn serialized_size(&self, _: Compress) -> usize {
        1
    }
}
impl CanonicalDeserialize for Even {
    fn deserialize_with_mode<R: Read>(r: R, c: Compress, v: Validate) -> Result<Self, SerializationError> {
        let e = Even(u8::deserialize_with_mode(r, c, v)?);
        if v == Validate::Yes {
            e.check()?;
        }
        Ok(e)
    }
}
impl Zoo for Even {
    fn from_flat(it: &mut It<'_>) -> Self {
        Even(u8::from_flat(it))
    }
    fn to_flat(&self, out: &mut Arg) {
        self.0.to_flat(out)
    }
}

/// a u16 written in 2 bytes when compressed and 4 bytes (zero-extended) otherwise: makes the
/// Compress plumbing (and the mode-pinning wrappers) observable
#[derive(Clone, Copy, Debug, PartialEq, Eq, PartialOrd, Ord)]
struct Modal(u16);
impl Valid for Modal {
    fn check(&self) -> Result<(), SerializationError> {
        Ok(())
    }
}
impl CanonicalSerialize for Modal {
    fn serialize_with_mode<W: Write>(&self, w: W, c: Compress) -> Result<(), SerializationError> {
        match c {
            Compress::Yes => self.0.serialize_with_mode(w, c),
            Compress::No => (self.0 as u32).serialize_with_mode(w, c),
        }
    }
    fn serialized_size(&self, c: Compress) -> usize {
        match c {
            Compress::Yes => 2,
            Compress::No => 4,
        }
    }
}
impl CanonicalDeserialize for Modal {
    fn deserialize_with_mode<R: Read>(r: R, c: Compress, v: Validate) -> Result<Self, SerializationError> {
        match c {
            Compress::Yes => Ok(Modal(u16::deserialize_with_mode(r, c, v)?)),
            Compress::No => {
                let x = u32::deserialize_with_mode(r, c, v)?;
                u16::try_from(x).map(Modal).map_err(|_| SerializationError::InvalidData)
            },
        }
    }
}
impl Zoo for Modal {
    fn from_flat(it: &mut It<'_>) -> Self {
        Modal(u16::from_flat(it))
    }
    fn to_flat(&self, out: &mut Arg) {
        self.0.to_flat(out)
    }
}

/// leaves with a hand-written, NON-TRIVIAL `Valid` impl (the way curve points are written): the model's
/// `TLeaf w k`.  `Even32` keeps the default `batch_check`, `Lt200` overrides it with a one-pass batch test.
macro_rules! vleaf {
    ($name:ident, $int:ty, $ok:expr) => {
        #[derive(Clone, Copy, Debug, PartialEq, Eq, PartialOrd, Ord)]
        struct $name($int);
        impl CanonicalSerialize for $name {
            fn serialize_with_mode<W: Write>(&self, w: W, c: Compress) -> Result<(), SerializationError> {
                self.0.serialize_with_mode(w, c)
            }
            fn serialized_size(&self, c: Compress) -> usize {
                self.0.serialized_size(c)
            }
        }
        impl CanonicalDeserialize for $name {
            fn deserialize_with_mode<R: Read>(r: R, c: Compress, v: Validate) -> Result<Self, SerializationError> {
                let e = $name(<$int>::deserialize_with_mode(r, c, v)?);
                if v == Validate::Yes {
                    e.check()?;
                }
                Ok(e)
            }
        }
        impl Zoo for $name {
            fn from_flat(it: &mut It<'_>) -> Self {
                $name(<$int>::from_flat(it))
            }
            fn to_flat(&self, out: &mut Arg) {
                self.0.to_flat(out)
            }
        }
        impl $name {
            fn ok(&self) -> bool {
                let f: fn($int) -> bool = $ok;
                f(self.0)
            }
        }
    };
}
vleaf!(Even32, u32, |x| x % 2 == 0);
vleaf!(Lt200, u8, |x| x < 200);
impl Valid for Even32 {
    fn check(&self) -> Result<(), SerializationError> {
        if self.ok() {
            Ok(())
        } else {
            Err(SerializationError::InvalidData)
        }
    }
}
impl Valid for Lt200 {
    fn check(&self) -> Result<(), SerializationError> {
        if self.ok() {
            Ok(())
        } else {
            Err(SerializationError::InvalidData)
        }
    }
    fn batch_check<'a>(batch: impl Iterator<Item = &'a Self> + Send) -> Result<(), SerializationError>
    where
        Self: 'a,
    {
        // one pass over the whole batch, one verdict (as batched subgroup checks do)
        let mut worst = 0u8;
        for x in batch {
            worst = worst.max(x.0);
        }
        Lt200(worst).check()
    }
}

// ---- derived structs: named, tuple, nested tuple fields, nesting, zero-sized ----

#[derive(CanonicalSerialize, CanonicalDeserialize, Clone, Debug, PartialEq, Eq, PartialOrd, Ord)]
struct Named {
    a: u64,
    b: (u64, (u16, bool)),
    c: Vec<u8>,
    d: Option<Even>,
}
#[derive(CanonicalSerialize, CanonicalDeserialize, Clone, Debug, PartialEq, Eq, PartialOrd, Ord)]
struct Tup(u8, (bool, (Modal, u16)), String);
#[derive(CanonicalSerialize, CanonicalDeserialize, Clone, Debug, PartialEq, Eq, PartialOrd, Ord)]
struct Marker {
    p: PhantomData<u8>,
}
#[derive(CanonicalSerialize, CanonicalDeserialize, Clone, Debug, PartialEq, Eq, PartialOrd, Ord)]
struct Small(Even, (u8,));
#[derive(CanonicalSerialize, CanonicalDeserialize, Clone, Debug, PartialEq, Eq, PartialOrd, Ord)]
struct Nest {
    n: Named,
    t: Tup,
    v: Vec<Small>,
    m: Marker,
}
#[derive(CanonicalSerialize, CanonicalDeserialize, Clone, Debug, PartialEq, Eq, PartialOrd, Ord)]
struct Gen<T: CanonicalSerialize + CanonicalDeserialize> {
    x: T,
    y: (bool, T),
}

impl Zoo for Named {
    fn from_flat(it: &mut It<'_>) -> Self {
        Named { a: Zoo::from_flat(it), b: Zoo::from_flat(it), c: Zoo::from_flat(it), d: Zoo::from_flat(it) }
    }
    fn to_flat(&self, out: &mut Arg) {
        self.a.to_flat(out);
        self.b.to_flat(out);
        self.c.to_flat(out);
        self.d.to_flat(out);
    }
}
impl Zoo for Tup {
    fn from_flat(it: &mut It<'_>) -> Self {
        Tup(Zoo::from_flat(it), Zoo::from_flat(it), Zoo::from_flat(it))
    }
    fn to_flat(&self, out: &mut Arg) {
        self.0.to_flat(out);
        self.1.to_flat(out);
        self.2.to_flat(out);
    }
}
impl Zoo for Marker {
    fn from_flat(_: &mut It<'_>) -> Self {
        Marker { p: PhantomData }
    }
    fn to_flat(&self, _: &mut Arg) {}
}
impl Zoo for Small {
    fn from_flat(it: &mut It<'_>) -> Self {
        Small(Zoo::from_flat(it), Zoo::from_flat(it))
    }
    fn to_flat(&self, out: &mut Arg) {
        self.0.to_flat(out);
        self.1.to_flat(out);
    }
}
impl Zoo for Nest {
    fn from_flat(it: &mut It<'_>) -> Self {
        Nest { n: Zoo::from_flat(it), t: Zoo::from_flat(it), v: Zoo::from_flat(it), m: Zoo::from_flat(it) }
    }
    fn to_flat(&self, out: &mut Arg) {
        self.n.to_flat(out);
        self.t.to_flat(out);
        self.v.to_flat(out);
        self.m.to_flat(out);
    }
}
impl<T: Zoo + CanonicalSerialize + CanonicalDeserialize> Zoo for Gen<T> {
    fn from_flat(it: &mut It<'_>) -> Self {
        Gen { x: Zoo::from_flat(it), y: Zoo::from_flat(it) }
    }
    fn to_flat(&self, out: &mut Arg) {
        self.x.to_flat(out);
        self.y.to_flat(out);
    }
}

// ---- derived structs over the validity-bearing leaves ----
macro_rules! zoo_named {
    ($name:ident { $($f:ident),* }) => {
        impl Zoo for $name {
            fn from_flat(it: &mut It<'_>) -> Self {
                $name { $($f: Zoo::from_flat(it)),* }
            }
            fn to_flat(&self, out: &mut Arg) {
                $(self.$f.to_flat(out);)*
            }
        }
    };
}
#[derive(CanonicalSerialize, CanonicalDeserialize, Clone, Debug, PartialEq, Eq, PartialOrd, Ord)]
struct VN {
    a: Even32,
    b: u16,
    c: Lt200,
}
zoo_named!(VN { a, b, c });
#[derive(CanonicalSerialize, CanonicalDeserialize, Clone, Debug, PartialEq, Eq, PartialOrd, Ord)]
struct VT(Lt200, Even32);
impl Zoo for VT {
    fn from_flat(it: &mut It<'_>) -> Self {
        VT(Zoo::from_flat(it), Zoo::from_flat(it))
    }
    fn to_flat(&self, out: &mut Arg) {
        self.0.to_flat(out);
        self.1.to_flat(out);
    }
}
#[derive(CanonicalSerialize, CanonicalDeserialize, Clone, Debug, PartialEq, Eq, PartialOrd, Ord)]
struct VNT {
    h: u8,
    p: (Even32, (Lt200, bool)),
    t: Even,
}
zoo_named!(VNT { h, p, t });
#[derive(CanonicalSerialize, CanonicalDeserialize, Clone, Debug, PartialEq, Eq, PartialOrd, Ord)]
struct Outer {
    a: u8,
    v: Vec<VT>,
}
zoo_named!(Outer { a, v });
/// bool bytes and option tags inside a derived struct and inside its sequence field
#[derive(CanonicalSerialize, CanonicalDeserialize, Clone, Debug, PartialEq, Eq, PartialOrd, Ord)]
struct VB {
    f: bool,
    o: Option<u16>,
    v: Vec<Option<bool>>,
}
zoo_named!(VB { f, o, v });

// ---- the ops ----

fn bytes_arg(b: &[u8]) -> Arg {
    b.iter().map(|x| from_u64(*x as u64)).collect()
}
/// error classes compared with the model: 1 = the bytes read so far are not a valid value
/// (InvalidData), 0 = the input ended / the announced length cannot be honoured (IoError of any
/// sub-kind, NotEnoughSpace).  LinkedList reports NotEnoughSpace for prefixes >= 2^31 (its `len`
/// is inferred as i32) where the other sequences report IoError; the property only asks for an error.
fn kind(e: &SerializationError) -> u32 {
    match e {
        SerializationError::IoError(_) => 0,
        SerializationError::NotEnoughSpace => 0,
        SerializationError::InvalidData => 1,
        SerializationError::UnexpectedFlags => 3,
    }
}
fn cmode(b: bool) -> Compress {
    if b {
        Compress::Yes
    } else {
        Compress::No
    }
}
fn vmode(b: bool) -> Validate {
    if b {
        Validate::Yes
    } else {
        Validate::No
    }
}
fn value<T: Zoo>(a: &Arg) -> T {
    let mut it = a.iter();
    let x = T::from_flat(&mut it);
    assert!(it.next().is_none(), "harness: flat value too long");
    x
}
fn flat<T: Zoo>(x: &T) -> Arg {
    let mut out = vec![];
    x.to_flat(&mut out);
    out
}
fn ser<S: CanonicalSerialize + ?Sized>(x: &S, c: Compress) -> Result<Vec<u8>, SerializationError> {
    let mut b = vec![];
    x.serialize_with_mode(&mut b, c)?;
    Ok(b)
}

/// rendering of a `Valid::check` / `batch_check` result: [1] = Ok(()), [0, kind] = Err
fn vres(r: Result<(), SerializationError>) -> Arg {
    match r {
        Ok(()) => vec![from_u64(1)],
        Err(e) => vec![from_u64(0), from_u64(kind(&e) as u64)],
    }
}

fn run_t<T>(op: &str, a: &[Arg]) -> Vec<Arg>
where
    T: Zoo + CanonicalSerialize + CanonicalDeserialize + PartialEq + Clone,
{
    match op {
        "ser" => {
            let x: T = value(&a[2]);
            let mut out = vec![];
            for c in [Compress::Yes, Compress::No] {
                match ser(&x, c) {
                    Ok(b) => {
                        out.push(bytes_arg(&b));
                        out.push(vec![from_u64(x.serialized_size(c) as u64)]);
                    },
                    Err(e) => return err(kind(&e)),
                }
            }
            ok(out)
        },
        "de" => {
            let bytes: Vec<u8> = a[2].iter().map(|x| to_u64(x) as u8).collect();
            let mut rd: &[u8] = &bytes[..];
            let r = T::deserialize_with_mode(&mut rd, cmode(to_u64(&a[3][0]) != 0), vmode(to_u64(&a[3][1]) != 0));
            match r {
                Ok(x) => ok(vec![flat(&x), vec![from_u64((bytes.len() - rd.len()) as u64)]]),
                Err(e) => err(kind(&e)),
            }
        },
        "rt" => {
            let x: T = value(&a[2]);
            let mut flags = vec![];
            for (c, v) in [(true, true), (true, false), (false, true), (false, false)] {
                let b = match ser(&x, cmode(c)) {
                    Ok(b) => b,
                    Err(e) => return err(kind(&e)),
                };
                let mut rd: &[u8] = &b[..];
                flags.push(match T::deserialize_with_mode(&mut rd, cmode(c), vmode(v)) {
                    Ok(y) if !rd.is_empty() => {
                        let _ = y;
                        from_u64(2)
                    },
                    Ok(y) => from_bool(y == x),
                    Err(_) => from_u64(0),
                });
            }
            ok(vec![flags])
        },
        "ser_ref" => {
            let x: T = value(&a[2]);
            let mut y = x.clone();
            let rc = Rc::new(x.clone());
            let mut out = vec![];
            let mut sizes = vec![];
            for c in [Compress::Yes, Compress::No] {
                let r: &T = &x;
                let mut b = vec![];
                <&T as CanonicalSerialize>::serialize_with_mode(&r, &mut b, c).unwrap();
                out.push(bytes_arg(&b));
                sizes.push(from_u64(<&T as CanonicalSerialize>::serialized_size(&r, c) as u64));
            }
            for c in [Compress::Yes, Compress::No] {
                let m: &mut T = &mut y;
                let mut b = vec![];
                <&mut T as CanonicalSerialize>::serialize_with_mode(&m, &mut b, c).unwrap();
                out.push(bytes_arg(&b));
                sizes.push(from_u64(<&mut T as CanonicalSerialize>::serialized_size(&m, c) as u64));
            }
            for c in [Compress::Yes, Compress::No] {
                out.push(bytes_arg(&ser(&rc, c).unwrap()));
                sizes.push(from_u64(rc.serialized_size(c) as u64));
            }
            out.push(sizes);
            ok(out)
        },
        "ser_slice" => {
            let x: T = value(&a[2]);
            let (y, n) = match (x.slice_ser(Compress::Yes), x.slice_ser(Compress::No)) {
                (Some(y), Some(n)) => (y, n),
                _ => return unsupported(),
            };
            ok(vec![
                bytes_arg(&y[0].0),
                bytes_arg(&n[0].0),
                bytes_arg(&y[1].0),
                bytes_arg(&n[1].0),
                vec![
                    from_u64(y[0].1 as u64),
                    from_u64(n[0].1 as u64),
                    from_u64(y[1].1 as u64),
                    from_u64(n[1].1 as u64),
                ],
            ])
        },
        "check" => {
            let x: T = value(&a[2]);
            ok(vec![vres(x.check()), vres(T::batch_check(core::iter::once(&x)))])
        },
        "batch_check" => {
            let xs: Vec<T> = value(&a[2]);
            ok(vec![
                vres(T::batch_check(xs.iter())),
                // the same batch through an iterator without an exact size (what flat_map / filter / flatten give)
                vres(T::batch_check(xs.iter().filter(|_| true))),
                xs.iter().map(|x| from_bool(x.check().is_ok())).collect(),
            ])
        },
        _ => unsupported(),
    }
}

type CC<T> = CompressedChecked<T>;
type CU<T> = CompressedUnchecked<T>;
type UC<T> = UncompressedChecked<T>;
type UU<T> = UncompressedUnchecked<T>;

fn run(op: &str, a: &[Arg]) -> Vec<Arg> {
    let id = to_u64(&a[0][0]);
    macro_rules! zoo { ($($k:literal => $t:ty,)*) => { match id { $($k => run_t::<$t>(op, a),)* _ => unsupported() } } }
    // keep in sync with ZOO in props/C18/prop.py (a wrong entry shows up as a mismatch)
    zoo! {
        0 => u8, 1 => u16, 2 => u32, 3 => u64, 4 => i8, 5 => i16, 6 => i32, 7 => i64,
        8 => usize, 9 => isize, 10 => bool, 11 => (), 12 => PhantomData<u64>,
        13 => Option<u32>, 14 => Option<Option<bool>>,
        15 => (u8,), 16 => (u16, bool), 17 => (u8, i32, bool), 18 => (u8, u16, u32, u64),
        19 => (bool, u8, Option<u16>, String, i64),
        20 => [u16; 3], 21 => [bool; 2], 22 => [u8; 0], 23 => [Option<u8>; 2], 24 => BigInt<2>,
        25 => Vec<u8>, 26 => Vec<bool>, 27 => Vec<u32>, 28 => VecDeque<u16>, 29 => LinkedList<i16>,
        30 => Vec<Option<(u16, Vec<bool>)>>, 31 => Vec<Vec<Vec<u8>>>, 32 => Vec<String>, 33 => Vec<()>,
        34 => String, 35 => Option<String>,
        36 => BTreeMap<u8, Vec<u32>>, 37 => BTreeMap<String, u16>, 38 => BTreeMap<(u8, bool), Option<u8>>,
        39 => BTreeSet<u16>, 40 => BTreeSet<Vec<u8>>, 41 => BTreeSet<i8>, 42 => BTreeMap<u16, BTreeSet<u8>>,
        43 => BigUint, 44 => Vec<BigUint>,
        45 => Even, 46 => Vec<Even>, 47 => Option<Even>, 48 => [Even; 2], 49 => (Even, u8),
        50 => BTreeMap<u8, Even>, 51 => VecDeque<Vec<Even>>,
        52 => Modal, 53 => Vec<Modal>, 54 => (Modal, Even),
        55 => CC<Modal>, 56 => UC<Modal>, 57 => CU<Even>, 58 => UU<(Modal, Even)>,
        59 => Vec<CU<Even>>, 60 => Vec<UC<(Modal, Even)>>, 61 => CC<Vec<Even>>, 62 => CU<UC<Modal>>,
        63 => Arc<u32>, 64 => Arc<Vec<Even>>, 65 => Cow<'static, u64>, 66 => Vec<Arc<(u8, bool)>>,
        67 => Named, 68 => Tup, 69 => Marker, 70 => Nest, 71 => Vec<Small>, 72 => Gen<Modal>,
        73 => BTreeSet<Option<u16>>, 74 => LinkedList<Even>, 75 => UC<Vec<Gen<Modal>>>,
        76 => BTreeSet<Even>, 77 => (Vec<u8>, Vec<u8>),
        // validity-bearing leaves, derived structs over them, containers of those structs
        78 => Even32, 79 => Lt200, 80 => VN, 81 => VT, 82 => VNT, 83 => Gen<Even32>, 84 => Gen<VT>,
        85 => Vec<VT>, 86 => Vec<Vec<VT>>, 87 => Vec<Option<VT>>, 88 => [Vec<VT>; 2], 89 => Option<Vec<VN>>,
        90 => BTreeMap<u8, VT>, 91 => VecDeque<VN>, 92 => LinkedList<VNT>, 93 => (VT, Vec<VT>),
        94 => Outer, 95 => Vec<Outer>, 96 => Arc<VT>, 97 => Cow<'static, VN>, 98 => Vec<Arc<VN>>,
        99 => BTreeSet<VT>, 100 => VecDeque<Vec<VN>>, 101 => LinkedList<Option<VT>>, 102 => BTreeMap<u8, Vec<VT>>,
        103 => Vec<BTreeSet<VT>>, 104 => Vec<(VT, Option<VN>)>, 105 => Vec<Gen<Vec<VT>>>, 106 => Vec<[VT; 2]>,
        107 => Vec<Vec<Lt200>>, 108 => Vec<Option<Even32>>, 109 => Vec<Cow<'static, VT>>,
        110 => CC<Vec<Vec<VT>>>, 111 => Vec<CU<VT>>, 112 => Vec<Vec<Vec<VNT>>>, 113 => BTreeMap<VT, Option<VN>>,
        // bool bytes / option tags inside sequences and derived structs
        114 => VB, 115 => Vec<VB>, 116 => [Option<bool>; 3], 117 => VecDeque<Option<u8>>, 118 => LinkedList<bool>,
        119 => Vec<Option<u16>>,
        120 => [VT; 2], 121 => Option<VT>, 122 => Vec<[Vec<VN>; 2]>, 123 => UU<Vec<Vec<VT>>>, 124 => Vec<Arc<Vec<VT>>>,
    }
}

#[repr(C)]
struct RLimit {
    cur: u64,
    max: u64,
}
extern "C" {
    fn getrlimit(resource: i32, rlim: *mut RLimit) -> i32;
    fn setrlimit(resource: i32, rlim: *const RLimit) -> i32;
}
const RLIMIT_AS: i32 = 9; // Linux

fn main() {
    // soft address-space limit: an allocation sized by an untrusted length prefix aborts the
    // process (reported as `3` by the driver) instead of exhausting the machine
    #[cfg(target_os = "linux")]
    unsafe {
        let mut l = RLimit { cur: 0, max: 0 };
        if getrlimit(RLIMIT_AS, &mut l) == 0 {
            l.cur = 2u64 << 30;
            if l.max < l.cur {
                l.cur = l.max;
            }
            let _ = setrlimit(RLIMIT_AS, &l);
        }
    }
    main_loop(run);
}
