//! C19 case interpreter: `==`, `cmp`, `Hash` (through a fixed hasher), `is_zero` / `is_one`,
//! `sort` on values obtained by different operation sequences.  See coq/C19/Run.v for the
//! argument layout.  No oracle logic here: the two values of a case are computed with the public
//! API and the relations the API reports are printed.  Hashes are only compared with each other
//! (`DefaultHasher::new()` = SipHash-1-3 with zero keys, deterministic), never printed.
#![allow(non_camel_case_types)]
#![allow(deprecated)]
use ark_ec::{
    pairing::PairingOutput,
    scalar_mul::wnaf::WnafContext,
    short_weierstrass::{self as sw, SWCurveConfig},
    twisted_edwards::{self as te, MontCurveConfig, TECurveConfig},
    AdditiveGroup, CurveConfig, AffineRepr, CurveGroup, PrimeGroup,
};
use ark_ff::{
    fields::{Fp2, Fp2Config, Fp64, MontBackend, MontConfig},
    BigInt, BigInteger, Field, MontFp, PrimeField, Zero,
};
use ark_poly::{
    multivariate::{SparsePolynomial as MvPolynomial, SparseTerm, Term},
    univariate::{DenseOrSparsePolynomial, DensePolynomial, SparsePolynomial},
    DenseMVPolynomial, DenseUVPolynomial, EvaluationDomain, Polynomial, Radix2EvaluationDomain,
};
use ark_serialize::{CanonicalDeserialize, CanonicalSerialize, Compress, Validate};
use ark_test_curves::{bls12_381, ed_on_bls12_381, mnt6_753, secp256k1};
use num_bigint::BigUint;
use std::collections::hash_map::DefaultHasher;
use std::hash::{Hash, Hasher};
use vharness::*;

// ---- toy fields ----
#[derive(MontConfig)]
#[modulus = "13"]
#[generator = "2"]
pub struct F13Config;
pub type F13 = Fp64<MontBackend<F13Config, 1>>;

#[derive(MontConfig)]
#[modulus = "2305843009213693951"]
#[generator = "37"]
pub struct M61Config;
pub type M61 = Fp64<MontBackend<M61Config, 1>>;

#[derive(MontConfig)]
#[modulus = "18446744069414584321"]
#[generator = "7"]
pub struct GoldConfig;
pub type Gold = Fp64<MontBackend<GoldConfig, 1>>;

pub struct F13_2Config;
impl Fp2Config for F13_2Config {
    type Fp = F13;
    const NONRESIDUE: F13 = MontFp!("2");
    const FROBENIUS_COEFF_FP2_C1: &'static [F13] = &[MontFp!("1"), MontFp!("12")];
}
pub type F13_2 = Fp2<F13_2Config>;

#[derive(MontConfig)]
#[modulus = "19"]
#[generator = "2"]
pub struct F19Config;
pub type F19 = Fp64<MontBackend<F19Config, 1>>;

#[derive(MontConfig)]
#[modulus = "5"]
#[generator = "2"]
pub struct F5Config;
pub type F5 = Fp64<MontBackend<F5Config, 1>>;

// toy curves (same parameters as props/C03 toy 1): y^2 = x^3 + 2 over F_13, 19 points, prime order
#[derive(Clone, Default, PartialEq, Eq)]
pub struct ToySw;
impl CurveConfig for ToySw {
    type BaseField = F13;
    type ScalarField = F19;
    const COFACTOR: &'static [u64] = &[1];
    const COFACTOR_INV: F19 = MontFp!("1");
}
impl SWCurveConfig for ToySw {
    const COEFF_A: F13 = MontFp!("0");
    const COEFF_B: F13 = MontFp!("2");
    const GENERATOR: sw::Affine<Self> = sw::Affine::new_unchecked(MontFp!("1"), MontFp!("4"));
}
// y^2 = x^3 + x over F_13 (a != 0): 20 points = Z2 x Z10, r = 5, cofactor 4; full 2-torsion (0,0), (5,0), (8,0)
#[derive(Clone, Default, PartialEq, Eq)]
pub struct ToySwB;
impl CurveConfig for ToySwB {
    type BaseField = F13;
    type ScalarField = F5;
    const COFACTOR: &'static [u64] = &[4];
    const COFACTOR_INV: F5 = MontFp!("4");
}
impl SWCurveConfig for ToySwB {
    const COEFF_A: F13 = MontFp!("1");
    const COEFF_B: F13 = MontFp!("0");
    const GENERATOR: sw::Affine<Self> = sw::Affine::new_unchecked(MontFp!("4"), MontFp!("4"));
}
// y^2 = x^3 + 1 over F_13 (a = 0, the doubling formula of the shipped curves): 12 points = Z2 x Z6,
// r = 3, cofactor 4; full 2-torsion (4,0), (10,0), (12,0); generator (0, 1)
#[derive(MontConfig)]
#[modulus = "3"]
#[generator = "2"]
pub struct F3Config;
pub type F3 = Fp64<MontBackend<F3Config, 1>>;
#[derive(Clone, Default, PartialEq, Eq)]
pub struct ToySwC;
impl CurveConfig for ToySwC {
    type BaseField = F13;
    type ScalarField = F3;
    const COFACTOR: &'static [u64] = &[4];
    const COFACTOR_INV: F3 = MontFp!("1");
}
impl SWCurveConfig for ToySwC {
    const COEFF_A: F13 = MontFp!("0");
    const COEFF_B: F13 = MontFp!("1");
    const GENERATOR: sw::Affine<Self> = sw::Affine::new_unchecked(MontFp!("0"), MontFp!("1"));
}
// -x^2 + y^2 = 1 + 6 x^2 y^2 over F_13 (complete), 20 points, r = 5, cofactor 4
#[derive(Clone, Default, PartialEq, Eq)]
pub struct ToyTe;
impl CurveConfig for ToyTe {
    type BaseField = F13;
    type ScalarField = F5;
    const COFACTOR: &'static [u64] = &[4];
    const COFACTOR_INV: F5 = MontFp!("4");
}
impl TECurveConfig for ToyTe {
    const COEFF_A: F13 = MontFp!("12");
    const COEFF_D: F13 = MontFp!("6");
    const GENERATOR: te::Affine<Self> = te::Affine::new_unchecked(MontFp!("3"), MontFp!("9"));
    type MontCurveConfig = ToyTe;
}
impl MontCurveConfig for ToyTe {
    const COEFF_A: F13 = MontFp!("6");
    const COEFF_B: F13 = MontFp!("5");
    type TECurveConfig = ToyTe;
}

// ---- helpers ----
fn h64<T: Hash>(t: &T) -> u64 {
    let mut s = DefaultHasher::new();
    t.hash(&mut s);
    s.finish()
}
fn deg<F: Field>() -> usize {
    F::extension_degree() as usize
}
fn fe<F: Field>(a: &[num_bigint::BigInt]) -> F {
    F::from_base_prime_field_elems(a.iter().map(|v| F::BasePrimeField::from(u(v)))).expect("harness: coordinate count")
}
fn el<F: Field>(a: &Arg, i: usize) -> F {
    let d = deg::<F>();
    fe::<F>(&a[i * d..(i + 1) * d])
}
fn fe_out<F: Field>(x: &F) -> Arg {
    x.to_base_prime_field_elements()
        .map(|c| {
            let b: BigUint = c.into_bigint().into();
            from_biguint(&b)
        })
        .collect()
}
fn cat(parts: &[Arg]) -> Arg {
    parts.iter().flat_map(|p| p.iter().cloned()).collect()
}
fn bools(b: &[bool]) -> Arg {
    b.iter().map(|x| from_bool(*x)).collect()
}
fn ord(o: core::cmp::Ordering) -> Arg {
    vec![from_i64(o as i8 as i64)]
}
fn modulus<F: Field>() -> num_bigint::BigInt {
    let m: BigUint = <F::BasePrimeField as PrimeField>::MODULUS.into();
    from_biguint(&m)
}
fn scalar_limbs(k: &num_bigint::BigInt) -> Vec<u64> {
    let mut v = u(k).to_u64_digits();
    if v.is_empty() {
        v.push(0);
    }
    v
}

// ---- field expressions ----
fn fexpr<F: Field>(e: u64, a: F, b: F, c: F) -> F {
    match e {
        0 => a,
        1 => b,
        2 => a + b,
        3 => {
            let mut t = b;
            t += a;
            t
        },
        4 => (a * b) * c,
        5 => a * (b * c),
        6 => a * (b + c),
        7 => a * b + a * c,
        8 => a - b,
        9 => -(b - a),
        10 => a + F::one(),
        11 => a - F::one(),
        12 => a * a,
        13 => a.square(),
        14 => a.double(),
        15 => a + a,
        16 => -a,
        17 => F::zero() - a,
        18 => {
            if b.is_zero() {
                a
            } else {
                (a * b.inverse().unwrap()) * b
            }
        },
        19 => F::zero(),
        20 => F::one(),
        21 => a * F::one(),
        22 => a + F::zero(),
        23 => c,
        24 => a * b,
        25 => {
            let mut t = b;
            t *= a;
            t
        },
        26 => (a + b) + c,
        27 => a + (b + c),
        28 => match a.inverse() {
            Some(i) => i.inverse().unwrap(),
            None => a,
        },
        29 => -(-a),
        30 => (a - b) + b,
        31 => a * F::zero(),
        _ => panic!("harness: bad field expression"),
    }
}

fn rel<T: Eq + Ord + Hash>(l: &T, r: &T) -> Vec<Arg> {
    let c = l.cmp(r);
    assert_eq!(l.partial_cmp(r), Some(c), "harness: partial_cmp and cmp differ");
    assert_eq!(l != r, !(l == r), "harness: != is not the negation of ==");
    vec![bools(&[l == r]), ord(c), bools(&[h64(l) == h64(r)])]
}

fn run_field<F: Field>(op: &str, a: &[Arg]) -> Vec<Arg> {
    match op {
        "fld_rel" => {
            let (x, y, z) = (fe::<F>(&a[2]), fe::<F>(&a[3]), fe::<F>(&a[4]));
            let l = fexpr(to_u64(&a[5][0]), x, y, z);
            let r = fexpr(to_u64(&a[5][1]), x, y, z);
            let mut o = rel(&l, &r);
            o.push(bools(&[l.is_zero(), l.is_one(), r.is_zero(), r.is_one()]));
            ok(o)
        },
        "fld_sort" => {
            let mut v: Vec<F> = a[2..].iter().map(|l| fe::<F>(l)).collect();
            v.sort();
            ok(v.iter().map(fe_out).collect())
        },
        _ => unsupported(),
    }
}

// ---- BigInt<N> ----
fn big<const N: usize>(a: &Arg) -> BigInt<N> {
    let l = arg_limbs(a);
    assert_eq!(l.len(), N, "harness: wrong limb count");
    let mut r = [0u64; N];
    r.copy_from_slice(&l);
    BigInt::<N>(r)
}
fn bexpr<const N: usize>(e: u64, a: BigInt<N>, b: BigInt<N>) -> BigInt<N> {
    match e {
        0 => a,
        1 => b,
        2 => {
            let mut t = a;
            t.add_with_carry(&b);
            t
        },
        3 => {
            let mut t = b;
            t.add_with_carry(&a);
            t
        },
        4 => {
            let mut t = a;
            t.mul2();
            t
        },
        5 => {
            let mut t = a;
            t.add_with_carry(&a);
            t
        },
        6 => {
            let mut t = a;
            t.sub_with_borrow(&b);
            t.add_with_carry(&b);
            t
        },
        7 => BigInt::<N>::zero(),
        8 => BigInt::<N>::one(),
        9 => {
            let mut t = a;
            t.sub_with_borrow(&a);
            t
        },
        10 => {
            let mut t = a;
            t.add_with_carry(&BigInt::<N>::from(1u64));
            t
        },
        11 => (a >> 1) << 1,
        12 => {
            let mut t = a;
            t.sub_with_borrow(&BigInt::<N>::from(a.is_odd() as u64));
            t
        },
        _ => panic!("harness: bad bigint expression"),
    }
}
fn run_big<const N: usize>(op: &str, a: &[Arg]) -> Vec<Arg> {
    match op {
        "big_rel" => {
            let (x, y) = (big::<N>(&a[1]), big::<N>(&a[2]));
            let l = bexpr(to_u64(&a[3][0]), x, y);
            let r = bexpr(to_u64(&a[3][1]), x, y);
            let mut o = rel(&l, &r);
            o.push(bools(&[l.is_zero(), r.is_zero()]));
            ok(o)
        },
        "big_sort" => {
            let mut v: Vec<BigInt<N>> = a[1..].iter().map(|l| big::<N>(l)).collect();
            v.sort();
            ok(v.iter().map(|b| limbs_arg(&b.0)).collect())
        },
        _ => unsupported(),
    }
}

// ---- short Weierstrass ----
fn mul_paths<G: PrimeGroup>(e: u64, pa: G, k: &num_bigint::BigInt, w: usize) -> G {
    match e {
        6 => pa.mul_bigint(scalar_limbs(k)),
        7 => {
            let n = to_u64(k);
            assert!(n <= 4096, "harness: repeated addition only for small scalars");
            let mut acc = G::zero();
            for _ in 0..n {
                acc += &pa;
            }
            acc
        },
        8 => WnafContext::new(w).mul(pa, &G::ScalarField::from(u(k))),
        _ => unreachable!(),
    }
}

fn swexpr<P: SWCurveConfig>(
    e: u64,
    a: sw::Affine<P>,
    b: sw::Affine<P>,
    k: &num_bigint::BigInt,
    l: &num_bigint::BigInt,
    w: usize,
    rx: P::BaseField,
    ry: P::BaseField,
) -> sw::Projective<P> {
    let pa: sw::Projective<P> = a.into_group();
    let pb: sw::Projective<P> = b.into_group();
    let one = num_bigint::BigInt::from(1);
    match e {
        0 => pa,
        1 => pb,
        2 => pa + pb,
        3 => pb + pa,
        4 => pa + b,
        5 => a + b,
        6 | 7 | 8 => mul_paths(e, pa, k, w),
        9 => pa * P::ScalarField::from(u(k)) + pa * P::ScalarField::from(u(l)),
        10 => pa.mul_bigint(scalar_limbs(&(k + l))),
        11 => pa.double(),
        12 => pa + pa,
        13 => -pa,
        14 => sw::Projective::<P>::zero() - pa,
        15 => sw::Projective::<P>::new_unchecked(rx, ry, P::BaseField::zero()),
        16 => sw::Projective::<P>::zero(),
        17 => pa - pa,
        18 => pa.mul_bigint(scalar_limbs(&(k + &one))) - pa.mul_bigint(scalar_limbs(k)),
        19 => sw::Affine::<P>::identity().into_group(),
        20 => pa + (-pa),
        21 => pa.mul_bigint(scalar_limbs(k)) + a,
        22 => pa.mul_bigint(scalar_limbs(&(k + &one))),
        _ => panic!("harness: bad point expression"),
    }
}

fn run_sw<P: SWCurveConfig>(op: &str, a: &[Arg]) -> Vec<Arg> {
    match op {
        "sw_rel" => {
            let g = P::GENERATOR;
            let s = &a[5];
            // base points by raw affine coordinates: anywhere on the curve (small order, outside the
            // prime-order subgroup, zero coordinates); flag 0 = identity
            let base = |i: usize| -> sw::Affine<P> {
                if a.len() > 10 + i && a[10].len() > i - 1 && to_u64(&a[10][i - 1]) != 0 {
                    sw::Affine::<P>::new_unchecked(el::<P::BaseField>(&a[10 + i], 0), el::<P::BaseField>(&a[10 + i], 1))
                } else {
                    sw::Affine::<P>::identity()
                }
            };
            let pa = (base(1).into_group() + g.mul_bigint(scalar_limbs(&s[0]))).into_affine();
            let pb = (base(2).into_group() + g.mul_bigint(scalar_limbs(&s[1]))).into_affine();
            let w = to_usize(&s[4]);
            let rx = el::<P::BaseField>(&a[6], 0);
            let ry = el::<P::BaseField>(&a[6], 1);
            let mk = |e: u64, lam: P::BaseField, nrm: u64| {
                let p = swexpr::<P>(e, pa, pb, &s[2], &s[3], w, rx, ry);
                let l2 = lam.square();
                let p = sw::Projective::<P>::new_unchecked(p.x * l2, p.y * (l2 * lam), p.z * lam);
                if nrm == 0 {
                    p
                } else {
                    p.into_affine().into_group()
                }
            };
            let l = mk(to_u64(&a[9][0]), el::<P::BaseField>(&a[7], 0), to_u64(&a[9][2]));
            let r = mk(to_u64(&a[9][1]), el::<P::BaseField>(&a[8], 0), to_u64(&a[9][3]));
            let la = l.into_affine();
            let ra = r.into_affine();
            let z = sw::Projective::<P>::zero();
            let za = sw::Affine::<P>::identity();
            let nb = sw::Projective::<P>::normalize_batch(&[l, r]);
            assert_eq!(l != r, !(l == r), "harness: != is not the negation of ==");
            ok(vec![
                bools(&[l == r, r == l]),
                bools(&[h64(&l) == h64(&r)]),
                bools(&[l.is_zero(), r.is_zero(), l == z, r == z, z == l, z == r]),
                bools(&[la == ra, h64(&la) == h64(&ra), ra == la]),
                bools(&[l == ra, la == r, ra == l, r == la]),
                bools(&[la.is_zero(), ra.is_zero(), la == za, ra == za]),
                bools(&[nb[0] == la, nb[1] == ra, nb[0] == nb[1], nb[0].is_zero(), nb[1].is_zero()]),
            ])
        },
        "sw_params" => {
            let g = P::GENERATOR;
            ok(vec![
                fe_out(&P::COEFF_A),
                fe_out(&P::COEFF_B),
                cat(&[fe_out(&g.x), fe_out(&g.y)]),
            ])
        },
        _ => unsupported(),
    }
}

// ---- twisted Edwards ----
fn teexpr<P: TECurveConfig>(
    e: u64,
    a: te::Affine<P>,
    b: te::Affine<P>,
    k: &num_bigint::BigInt,
    l: &num_bigint::BigInt,
    w: usize,
    rz: P::BaseField,
) -> te::Projective<P> {
    let pa: te::Projective<P> = a.into_group();
    let pb: te::Projective<P> = b.into_group();
    let one = num_bigint::BigInt::from(1);
    let z = P::BaseField::zero();
    match e {
        0 => pa,
        1 => pb,
        2 => pa + pb,
        3 => pb + pa,
        4 => pa + b,
        5 => a + b,
        6 | 7 | 8 => mul_paths(e, pa, k, w),
        9 => pa * P::ScalarField::from(u(k)) + pa * P::ScalarField::from(u(l)),
        10 => pa.mul_bigint(scalar_limbs(&(k + l))),
        11 => pa.double(),
        12 => pa + pa,
        13 => -pa,
        14 => te::Projective::<P>::zero() - pa,
        15 => te::Projective::<P>::new_unchecked(z, rz, z, rz),
        16 => te::Projective::<P>::zero(),
        17 => pa - pa,
        18 => pa.mul_bigint(scalar_limbs(&(k + &one))) - pa.mul_bigint(scalar_limbs(k)),
        19 => te::Affine::<P>::zero().into_group(),
        20 => pa + (-pa),
        21 => pa.mul_bigint(scalar_limbs(k)) + a,
        22 => pa.mul_bigint(scalar_limbs(&(k + &one))),
        _ => panic!("harness: bad point expression"),
    }
}

fn run_te<P: TECurveConfig>(op: &str, a: &[Arg]) -> Vec<Arg> {
    match op {
        "te_rel" => {
            let g = P::GENERATOR;
            let s = &a[5];
            // base points by raw affine coordinates: anywhere on the curve (order 2, 4, 8, torsion +
            // subgroup, zero coordinates); flag 0 = the neutral element (0, 1)
            let base = |i: usize| -> te::Affine<P> {
                if a.len() > 10 + i && a[10].len() > i - 1 && to_u64(&a[10][i - 1]) != 0 {
                    te::Affine::<P>::new_unchecked(el::<P::BaseField>(&a[10 + i], 0), el::<P::BaseField>(&a[10 + i], 1))
                } else {
                    te::Affine::<P>::zero()
                }
            };
            let pa = (base(1).into_group() + g.mul_bigint(scalar_limbs(&s[0]))).into_affine();
            let pb = (base(2).into_group() + g.mul_bigint(scalar_limbs(&s[1]))).into_affine();
            let w = to_usize(&s[4]);
            let rz = el::<P::BaseField>(&a[6], 0);
            let mk = |e: u64, lam: P::BaseField, nrm: u64| {
                let p = teexpr::<P>(e, pa, pb, &s[2], &s[3], w, rz);
                let p = te::Projective::<P>::new_unchecked(p.x * lam, p.y * lam, p.t * lam, p.z * lam);
                if nrm == 0 {
                    p
                } else {
                    p.into_affine().into_group()
                }
            };
            let l = mk(to_u64(&a[9][0]), el::<P::BaseField>(&a[7], 0), to_u64(&a[9][2]));
            let r = mk(to_u64(&a[9][1]), el::<P::BaseField>(&a[8], 0), to_u64(&a[9][3]));
            let la = l.into_affine();
            let ra = r.into_affine();
            let z = te::Projective::<P>::zero();
            let za = te::Affine::<P>::zero();
            let nb = te::Projective::<P>::normalize_batch(&[l, r]);
            assert_eq!(l != r, !(l == r), "harness: != is not the negation of ==");
            ok(vec![
                bools(&[l == r, r == l]),
                bools(&[h64(&l) == h64(&r)]),
                bools(&[l.is_zero(), r.is_zero(), l == z, r == z, z == l, z == r]),
                bools(&[la == ra, h64(&la) == h64(&ra), ra == la]),
                bools(&[l == ra, la == r, ra == l, r == la]),
                bools(&[la.is_zero(), ra.is_zero(), la == za, ra == za]),
                bools(&[nb[0] == la, nb[1] == ra, nb[0] == nb[1], nb[0].is_zero(), nb[1].is_zero()]),
            ])
        },
        "te_params" => {
            let g = P::GENERATOR;
            ok(vec![
                fe_out(&P::COEFF_A),
                fe_out(&P::COEFF_D),
                cat(&[fe_out(&g.x), fe_out(&g.y)]),
            ])
        },
        _ => unsupported(),
    }
}

// ---- PairingOutput ----
type GT = PairingOutput<bls12_381::Bls12_381>;
fn run_gt(a: &[Arg]) -> Vec<Arg> {
    type F = bls12_381::Fq12;
    let (x, y, z) = (fe::<F>(&a[2]), fe::<F>(&a[3]), fe::<F>(&a[4]));
    let ev = |e: u64| -> GT {
        match e {
            40 => PairingOutput(x) + PairingOutput(y),
            41 => {
                let mut t: GT = PairingOutput(y);
                t += PairingOutput(x);
                t
            },
            43 => GT::zero(),
            _ => PairingOutput(fexpr(e, x, y, z)),
        }
    };
    let l = ev(to_u64(&a[5][0]));
    let r = ev(to_u64(&a[5][1]));
    let mut o = rel(&l, &r);
    o.push(bools(&[l.is_zero(), r.is_zero()]));
    ok(o)
}

fn run_gt_pair(op: &str, a: &[Arg]) -> Vec<Arg> {
    use ark_ec::pairing::Pairing;
    type E = bls12_381::Bls12_381;
    type Fr = bls12_381::Fr;
    let g1 = bls12_381::G1Projective::generator();
    let g2 = bls12_381::G2Projective::generator();
    if op == "gt_params" {
        let f = fld_params(0, 12);
        return ok(vec![f[1].clone(), fe_out(&E::pairing(g1, g2).0)]);
    }
    let s: Vec<Fr> = a[3][..4].iter().map(|v| Fr::from(u(v))).collect();
    let l: GT = E::pairing(g1 * s[0], g2 * s[1]);
    let r: GT = match to_u64(&a[3][4]) {
        0 => E::pairing(g1 * s[2], g2 * s[3]),
        1 => E::pairing(g1, g2) * s[2] * s[3],
        2 => E::pairing(g1 * s[2], g2) + E::pairing(g1, g2 * s[3]),
        3 => E::multi_pairing([g1 * s[2], g1 * s[3]], [g2, g2]),
        4 => -E::pairing(g1 * s[2], g2 * s[3]),
        _ => panic!("harness: bad pairing mode"),
    };
    let mut o = rel(&l, &r);
    o.push(bools(&[l.is_zero(), r.is_zero()]));
    ok(o)
}

// ---- polynomials (bls12_381 Fr, toy F_13) ----
// Operands of a poly_rel case: see coq/C19/Run.v (layout) and coq/C19/PolyExprs.v (expression codes).
struct PolyIn<F: ark_ff::FftField> {
    p: DensePolynomial<F>,
    q: DensePolynomial<F>,
    r: DensePolynomial<F>,
    f: F,
    sa: SparsePolynomial<F>,
    sb: SparsePolynomial<F>,
    dom: Radix2EvaluationDomain<F>,
}
type Dos<'a, F> = DenseOrSparsePolynomial<'a, F>;
fn qr<F: ark_ff::FftField>(a: Dos<'_, F>, b: Dos<'_, F>) -> (DensePolynomial<F>, DensePolynomial<F>) {
    // divide_with_q_and_r panics on a zero divisor: not called (the model returns (0, 0))
    if b.is_zero() {
        return (DensePolynomial::zero(), DensePolynomial::zero());
    }
    a.divide_with_q_and_r(&b).expect("divide_with_q_and_r returned None")
}
fn dexpr<F: ark_ff::FftField>(e: u64, i: &PolyIn<F>) -> DensePolynomial<F> {
    let (p, q, r, f, sa, sb) = (&i.p, &i.q, &i.r, i.f, &i.sa, &i.sb);
    let zero = DensePolynomial::<F>::zero;
    match e {
        0 => p.clone(),
        1 => q.clone(),
        2 => p + q,
        3 => q + p,
        4 => p * q,
        5 => q * p,
        6 => p - q,
        7 => -(q - p),
        8 => p + &zero(),
        9 => &(p + q) - q,
        10 => p - p,
        11 => zero(),
        12 => p * &DensePolynomial::from_coefficients_vec(vec![F::one()]),
        13 => p + p,
        14 => p * F::from(2u64),
        15 => r.clone(),
        16 => p + &(-q.clone()),
        17 => {
            let mut x = p.clone();
            x -= q;
            x
        },
        18 => {
            let mut x = p.clone();
            x += q;
            x
        },
        19 => {
            let mut x = p.clone();
            x += (f, q);
            x
        },
        20 => p + &(q * f),
        21 => p.naive_mul(q),
        22 => &(p + r) - p,
        23 => {
            let mut x = p + r;
            x -= p;
            x
        },
        24 => {
            let mut x = p.clone();
            x -= p;
            x
        },
        25 => qr(Dos::from(p * q), Dos::from(q)).0,
        26 => qr(Dos::from(p * q), Dos::from(q)).1,
        27 => qr(Dos::from(p), Dos::from(q)).0,
        28 => qr(Dos::from(p), Dos::from(q)).1,
        29 => {
            if q.is_zero() {
                p.clone()
            } else {
                let (qq, rr) = qr(Dos::from(p), Dos::from(q));
                &q.naive_mul(&qq) + &rr
            }
        },
        30 => p.clone().evaluate_over_domain(i.dom).interpolate(),
        31 => DensePolynomial::from(SparsePolynomial::from(p.clone())),
        32 => DensePolynomial::from(sa.clone()),
        33 => DensePolynomial::from(sa.clone() + sb.clone()),
        34 => &DensePolynomial::from(sa.clone()) + &DensePolynomial::from(sb.clone()),
        35 => DensePolynomial::from(Dos::from(p.clone())),
        36 => DensePolynomial::from(Dos::from(sa)),
        37 => p + sa,
        38 => p - sa,
        39 => {
            let mut x = p.clone();
            x += sa;
            x
        },
        40 => {
            let mut x = p.clone();
            x -= sa;
            x
        },
        41 => -p.clone(),
        42 => &zero() - p,
        43 => qr(Dos::from(p.naive_mul(&DensePolynomial::from(sa.clone()))), Dos::from(sa)).0,
        44 => &(p - q) + q,
        45 => {
            let mut x = p + q;
            x -= q;
            x
        },
        46 => {
            let mut x = p.clone();
            x += (f, q);
            x += (-f, q);
            x
        },
        _ => panic!("harness: bad dense polynomial expression"),
    }
}
fn sexpr<F: ark_ff::FftField>(e: u64, i: &PolyIn<F>) -> SparsePolynomial<F> {
    let (p, q, r, f, sa, sb) = (&i.p, &i.q, &i.r, i.f, &i.sa, &i.sb);
    let sp = |d: &DensePolynomial<F>| SparsePolynomial::from(d.clone());
    match e {
        100 => sa.clone(),
        101 => sb.clone(),
        102 => sp(p),
        103 => sp(q),
        104 => sp(r),
        105 => sa.clone() + sb.clone(),
        106 => sb + sa,
        107 => {
            let mut x = sa.clone();
            x += sb;
            x
        },
        108 => {
            let mut x = sa.clone();
            x -= sb;
            x
        },
        109 => sa.clone() + (-sb.clone()),
        110 => {
            let mut x = sb.clone();
            x -= sa;
            -x
        },
        111 => {
            let mut x = sa.clone();
            x += (f, sb);
            x
        },
        112 => sa + &(sb * f),
        113 => -sa.clone(),
        114 => sa.mul(sb),
        115 => sb.mul(sa),
        116 => sp(&(p - q)),
        117 => {
            let mut x = sp(p);
            x -= &sp(q);
            x
        },
        118 => sp(&(p + q)),
        119 => sp(p) + sp(q),
        120 => sp(&p.naive_mul(q)),
        121 => sp(p).mul(&sp(q)),
        122 => {
            let mut x = sa.clone();
            x -= sa;
            x
        },
        123 => SparsePolynomial::zero(),
        124 => sa.clone() + (-sa.clone()),
        125 => {
            let mut x = sa + sb;
            x -= sa;
            x
        },
        126 => sp(&DensePolynomial::from(sa.clone())),
        127 => {
            let d: Result<SparsePolynomial<F>, ()> = Dos::from(sa.clone()).try_into();
            d.expect("try_into sparse")
        },
        128 => sa * f,
        129 => sa.mul(&SparsePolynomial::from_coefficients_slice(&[(0, f)])),
        130 => {
            let mut x = sp(p);
            x += (f, &sp(q));
            x
        },
        131 => {
            let mut x = p.clone();
            x += (f, q);
            sp(&x)
        },
        132 => {
            let mut x = p.clone();
            x -= q;
            sp(&x)
        },
        133 => {
            let mut x = sa.clone();
            x -= sb;
            x + sb.clone()
        },
        134 => {
            let mut x = sa.clone();
            x += (f, sb);
            x += (-f, sb);
            x
        },
        135 => {
            let mut x = sp(p);
            x -= &sp(p);
            x
        },
        136 => {
            let mut x = sp(p) + sp(r);
            x -= &sp(p);
            x
        },
        _ => panic!("harness: bad sparse polynomial expression"),
    }
}
fn run_poly<F: ark_ff::FftField + PrimeField>(a: &[Arg]) -> Vec<Arg> {
    let fe = |v: &num_bigint::BigInt| -> F { F::from(u(v)) };
    let cv = |l: &Arg| -> Vec<F> { l.iter().map(fe).collect() };
    let terms = |l: &Arg| -> Vec<(usize, F)> {
        assert!(l.len() % 2 == 0, "harness: odd sparse list");
        l.chunks(2).map(|c| (to_usize(&c[0]), fe(&c[1]))).collect()
    };
    // the radix-2 (coset) domain [n, h, g]; a mismatch with the case's expectation is a generator error
    let (n, h, g) = (to_usize(&a[9][0]), fe(&a[9][1]), fe(&a[9][2]));
    let dom = match Radix2EvaluationDomain::<F>::new(n) {
        Some(d) if d.size() == n && d.group_gen() == g => d,
        _ => return unsupported(),
    };
    let dom = if h == F::one() {
        dom
    } else {
        match dom.get_coset(h) {
            Some(d) if d.coset_offset() == h => d,
            _ => return unsupported(),
        }
    };
    let p = DensePolynomial::from_coefficients_vec(cv(&a[2]));
    let p2 = DensePolynomial::from_coefficients_slice(&cv(&a[2]));
    assert!(p == p2, "harness: from_coefficients_vec / _slice differ");
    let i = PolyIn {
        p,
        q: DensePolynomial::from_coefficients_slice(&cv(&a[3])),
        r: DensePolynomial::from_coefficients_vec(cv(&a[5])),
        f: fe(&a[6][0]),
        sa: SparsePolynomial::from_coefficients_vec(terms(&a[7])),
        sb: SparsePolynomial::from_coefficients_slice(&terms(&a[8])),
        dom,
    };
    let (el, er) = (to_u64(&a[4][0]), to_u64(&a[4][1]));
    let n64 = |v: usize| from_u64(v as u64);
    if el < 100 && er < 100 {
        let (l, r) = (dexpr(el, &i), dexpr(er, &i));
        assert!((l != r) == !(l == r), "harness: != is not the negation of ==");
        let z = DensePolynomial::<F>::zero();
        let (sl, sr) = (SparsePolynomial::from(l.clone()), SparsePolynomial::from(r.clone()));
        let (evl, evr) = (l.evaluate_over_domain_by_ref(dom), r.evaluate_over_domain_by_ref(dom));
        ok(vec![
            bools(&[l == r, r == l]),
            bools(&[h64(&l) == h64(&r)]),
            bools(&[l.is_zero(), r.is_zero(), l == z, r == z]),
            vec![n64(l.degree()), n64(r.degree())],
            vec![n64(l.coeffs.len()), n64(r.coeffs.len())],
            bools(&[sl == sr, h64(&sl) == h64(&sr)]),
            bools(&[
                evl == evr,
                h64(&evl) == h64(&evr),
                evl == sl.evaluate_over_domain_by_ref(dom),
                evr == sr.evaluate_over_domain_by_ref(dom),
            ]),
        ])
    } else if el >= 100 && er >= 100 {
        let (l, r) = (sexpr(el, &i), sexpr(er, &i));
        assert!((l != r) == !(l == r), "harness: != is not the negation of ==");
        let z = SparsePolynomial::<F>::zero();
        let (evl, evr) = (l.evaluate_over_domain_by_ref(dom), r.evaluate_over_domain_by_ref(dom));
        let out1 = vec![
            bools(&[l == r, r == l]),
            bools(&[h64(&l) == h64(&r)]),
            bools(&[l.is_zero(), r.is_zero(), l == z, r == z]),
            vec![n64(l.degree()), n64(r.degree())],
            vec![n64(l.len()), n64(r.len())],
        ];
        let (dl, dr) = (DensePolynomial::from(l.clone()), DensePolynomial::from(r.clone()));
        let mut out = out1;
        out.push(bools(&[dl == dr, h64(&dl) == h64(&dr)]));
        out.push(bools(&[
            evl == evr,
            h64(&evl) == h64(&evr),
            evl == dl.evaluate_over_domain_by_ref(dom),
            evr == dr.evaluate_over_domain_by_ref(dom),
        ]));
        ok(out)
    } else {
        unsupported()
    }
}

// ---- multivariate sparse polynomials ----
// Layout: coq/C19/MvRun.v; expression codes: coq/C19/MvModel.v.
type Mv<F> = MvPolynomial<F, SparseTerm>;
fn mv_operand<F: PrimeField>(a: &[Arg], i: usize, slice: bool) -> Mv<F> {
    let nv = to_usize(&a[i][0]);
    let coeffs: Vec<F> = a[i + 1].iter().map(|v| F::from(u(v))).collect();
    let lens: Vec<usize> = a[i + 2].iter().map(to_usize).collect();
    let (vars, pows) = (&a[i + 3], &a[i + 4]);
    assert_eq!(coeffs.len(), lens.len(), "harness: one length per coefficient");
    assert_eq!(vars.len(), pows.len(), "harness: one power per variable");
    assert_eq!(lens.iter().sum::<usize>(), vars.len(), "harness: term lengths");
    let mut k = 0;
    let mut terms = Vec::new();
    for (c, n) in coeffs.iter().zip(lens) {
        let t: Vec<(usize, usize)> = (k..k + n).map(|j| (to_usize(&vars[j]), to_usize(&pows[j]))).collect();
        k += n;
        terms.push((*c, SparseTerm::new(t)));
    }
    if slice {
        Mv::<F>::from_coefficients_slice(nv, &terms)
    } else {
        Mv::<F>::from_coefficients_vec(nv, terms)
    }
}
fn mvexpr<F: PrimeField>(e: u64, p: &Mv<F>, q: &Mv<F>, r: &Mv<F>, f: F) -> Mv<F> {
    let zero = Mv::<F>::zero;
    let scaled = |mut x: Mv<F>, f: F| {
        x += (f, q);
        x
    };
    match e {
        0 => p.clone(),
        1 => q.clone(),
        2 => r.clone(),
        3 => p.clone() + q.clone(),
        4 => q + p,
        5 => {
            let mut x = p.clone();
            x += q;
            x
        },
        6 => p - q,
        7 => {
            let mut x = p.clone();
            x -= q;
            x
        },
        8 => p + &(-q.clone()),
        9 => -(q - p),
        10 => scaled(p.clone(), f),
        11 => zero(),
        12 => p - p,
        13 => p + &(-p.clone()),
        14 => &(p + q) - q,
        15 => -p.clone(),
        16 => -(-p.clone()),
        17 => scaled(scaled(p.clone(), f), -f),
        18 => scaled(p.clone(), F::zero()),
        19 => scaled(zero(), f),
        20 => &zero() + p,
        21 => p + &zero(),
        22 => &(p - q) + q,
        23 => {
            let mut x = p.clone();
            x -= p;
            x
        },
        24 => scaled(zero(), F::zero()),
        25 => &(p + q) + q,
        26 => Mv::<F>::from_coefficients_vec(p.num_vars(), vec![]),
        27 => scaled(Mv::<F>::from_coefficients_vec(p.num_vars(), vec![]), F::zero()),
        28 => scaled(p.clone(), F::one()),
        29 => scaled(p.clone(), -F::one()),
        30 => scaled(scaled(p.clone(), F::zero()), F::zero()),
        31 => &scaled(p.clone(), F::zero()) - p,
        _ => panic!("harness: bad multivariate polynomial expression"),
    }
}
fn run_mv<F: PrimeField>(a: &[Arg]) -> Vec<Arg> {
    let (p, q, r) = (mv_operand::<F>(a, 5, false), mv_operand::<F>(a, 10, true), mv_operand::<F>(a, 15, false));
    let f = fe::<F>(&a[3]);
    let pt: Vec<F> = a[4].iter().map(|v| F::from(u(v))).collect();
    let l = mvexpr(to_u64(&a[2][0]), &p, &q, &r, f);
    let rr = mvexpr(to_u64(&a[2][1]), &p, &q, &r, f);
    assert!((l != rr) == !(l == rr), "harness: != is not the negation of ==");
    let z = Mv::<F>::zero();
    let n64 = |v: usize| from_u64(v as u64);
    let (vl, vr) = (l.evaluate(&pt), rr.evaluate(&pt));
    ok(vec![
        bools(&[l == rr, rr == l]),
        bools(&[h64(&l) == h64(&rr)]),
        bools(&[l.is_zero(), rr.is_zero(), l == z, rr == z]),
        vec![n64(l.degree()), n64(rr.degree())],
        vec![n64(l.terms().len()), n64(rr.terms().len())],
        bools(&[vl == vr]),
        cat(&[fe_out(&vl), fe_out(&vr)]),
    ])
}

// ---- curve points obtained by deserialization ----
// Layout: coq/C19/DecRun.v.
fn raw_bytes(a: &Arg) -> Vec<u8> {
    a.iter()
        .map(|b| {
            let v = to_u64(b);
            assert!(v < 256, "harness: byte expected");
            v as u8
        })
        .collect()
}
fn bytes_arg(b: &[u8]) -> Arg {
    b.iter().map(|x| from_u64(*x as u64)).collect()
}
fn modes(a: &Arg, i: usize) -> (Compress, Validate) {
    (
        if to_u64(&a[2 * i]) != 0 { Compress::Yes } else { Compress::No },
        if to_u64(&a[2 * i + 1]) != 0 { Validate::Yes } else { Validate::No },
    )
}
fn reser<T: CanonicalSerialize>(v: &T) -> (Arg, Arg) {
    let (mut c, mut n) = (Vec::new(), Vec::new());
    v.serialize_compressed(&mut c).expect("serialize_compressed");
    v.serialize_uncompressed(&mut n).expect("serialize_uncompressed");
    (bytes_arg(&c), bytes_arg(&n))
}
fn failed() -> Vec<Arg> {
    vec![vec![from_u64(0)], vec![], vec![], vec![]]
}
fn dec_sw<P: SWCurveConfig>(a: &[Arg]) -> Vec<Arg> {
    let one = |i: usize| -> (Option<sw::Affine<P>>, Vec<Arg>) {
        let bytes = raw_bytes(&a[6 + i]);
        let (c, vm) = modes(&a[5], i);
        let mut rd = &bytes[..];
        match sw::Affine::<P>::deserialize_with_mode(&mut rd, c, vm) {
            Ok(v) => {
                let id = sw::Affine::<P>::identity();
                let g = v.into_group();
                let (cb, ub) = reser(&v);
                let rel = bools(&[
                    true,
                    v == id,
                    id == v,
                    v.is_zero(),
                    h64(&v) == h64(&id),
                    g.into_affine() == v,
                    g.is_zero(),
                    g == sw::Projective::<P>::zero(),
                ]);
                let out = vec![
                    cat(&[rel, vec![from_u64((bytes.len() - rd.len()) as u64)]]),
                    cat(&[fe_out(&v.x), fe_out(&v.y), bools(&[v.infinity])]),
                    cb,
                    ub,
                ];
                (Some(v), out)
            },
            Err(_) => (None, failed()),
        }
    };
    let (v1, mut o) = one(0);
    let (v2, o2) = one(1);
    o.extend(o2);
    o.push(match (v1, v2) {
        (Some(x), Some(y)) => {
            let (gx, gy) = (x.into_group(), y.into_group());
            bools(&[x == y, y == x, h64(&x) == h64(&y), gx == gy, h64(&gx) == h64(&gy)])
        },
        _ => vec![],
    });
    ok(o)
}
fn dec_te<P: TECurveConfig>(a: &[Arg]) -> Vec<Arg> {
    let one = |i: usize| -> (Option<te::Affine<P>>, Vec<Arg>) {
        let bytes = raw_bytes(&a[6 + i]);
        let (c, vm) = modes(&a[5], i);
        let mut rd = &bytes[..];
        match te::Affine::<P>::deserialize_with_mode(&mut rd, c, vm) {
            Ok(v) => {
                let id = te::Affine::<P>::zero();
                let g = v.into_group();
                let (cb, ub) = reser(&v);
                let rel = bools(&[
                    true,
                    v == id,
                    id == v,
                    v.is_zero(),
                    h64(&v) == h64(&id),
                    g.into_affine() == v,
                    g.is_zero(),
                    g == te::Projective::<P>::zero(),
                ]);
                let out = vec![
                    cat(&[rel, vec![from_u64((bytes.len() - rd.len()) as u64)]]),
                    cat(&[fe_out(&v.x), fe_out(&v.y)]),
                    cb,
                    ub,
                ];
                (Some(v), out)
            },
            Err(_) => (None, failed()),
        }
    };
    let (v1, mut o) = one(0);
    let (v2, o2) = one(1);
    o.extend(o2);
    o.push(match (v1, v2) {
        (Some(x), Some(y)) => {
            let (gx, gy) = (x.into_group(), y.into_group());
            bools(&[x == y, y == x, h64(&x) == h64(&y), gx == gy, h64(&gx) == h64(&gy)])
        },
        _ => vec![],
    });
    ok(o)
}

// ---- parameters ----
fn fld_params(cfg: u64, kind: u64) -> Vec<Arg> {
    use ark_ff::{Fp12Config, Fp3Config, Fp6Config};
    let p = match (cfg, kind) {
        (0, 1) => vec![modulus::<bls12_381::Fq>()],
        (1, 1) => vec![modulus::<bls12_381::Fr>()],
        (2, 1) => vec![modulus::<secp256k1::Fq>()],
        (3, 1) => vec![modulus::<secp256k1::Fr>()],
        (4, 1) => vec![modulus::<mnt6_753::Fq>()],
        (5, 1) => vec![modulus::<F13>()],
        (6, 1) => vec![modulus::<M61>()],
        (7, 1) => vec![modulus::<Gold>()],
        (8, 1) => vec![modulus::<ed_on_bls12_381::Fq>()],
        (0, 2) => cat(&[vec![modulus::<bls12_381::Fq>()], fe_out(&bls12_381::Fq2Config::NONRESIDUE)]),
        (5, 2) => cat(&[vec![modulus::<F13>()], fe_out(&F13_2Config::NONRESIDUE)]),
        (4, 3) => cat(&[vec![modulus::<mnt6_753::Fq>()], fe_out(&mnt6_753::Fq3Config::NONRESIDUE)]),
        (0, 6) => cat(&[
            vec![modulus::<bls12_381::Fq>()],
            fe_out(&bls12_381::Fq2Config::NONRESIDUE),
            fe_out(&bls12_381::Fq6Config::NONRESIDUE),
        ]),
        (0, 12) => cat(&[
            vec![modulus::<bls12_381::Fq>()],
            fe_out(&bls12_381::Fq2Config::NONRESIDUE),
            fe_out(&bls12_381::Fq6Config::NONRESIDUE),
            fe_out(&bls12_381::Fq12Config::NONRESIDUE),
        ]),
        _ => return unsupported(),
    };
    ok(vec![p])
}

fn with_prefix(a: &[Arg], mut r: Vec<Arg>) -> Vec<Arg> {
    // *_params of curves: prepend the field parameters (printed by fld_params) to a, b, G
    if r[0] != vec![num_bigint::BigInt::from(0)] {
        return r;
    }
    let f = fld_params(to_u64(&a[0][0]), to_u64(&a[0][1]));
    if f.len() != 2 {
        return unsupported();
    }
    r.insert(1, f[1].clone());
    r
}

fn run(op: &str, a: &[Arg]) -> Vec<Arg> {
    match op {
        "big_rel" | "big_sort" => {
            return match to_u64(&a[0][0]) {
                1 => run_big::<1>(op, a),
                2 => run_big::<2>(op, a),
                3 => run_big::<3>(op, a),
                4 => run_big::<4>(op, a),
                5 => run_big::<5>(op, a),
                6 => run_big::<6>(op, a),
                _ => unsupported(),
            }
        },
        _ => {},
    }
    let cfg = to_u64(&a[0][0]);
    let kind = to_u64(&a[0][1]);
    match op {
        "fld_params" => fld_params(cfg, kind),
        "fld_rel" | "fld_sort" => match (cfg, kind) {
            (0, 1) => run_field::<bls12_381::Fq>(op, a),
            (1, 1) => run_field::<bls12_381::Fr>(op, a),
            (2, 1) => run_field::<secp256k1::Fq>(op, a),
            (3, 1) => run_field::<secp256k1::Fr>(op, a),
            (4, 1) => run_field::<mnt6_753::Fq>(op, a),
            (5, 1) => run_field::<F13>(op, a),
            (6, 1) => run_field::<M61>(op, a),
            (7, 1) => run_field::<Gold>(op, a),
            (8, 1) => run_field::<ed_on_bls12_381::Fq>(op, a),
            (0, 2) => run_field::<bls12_381::Fq2>(op, a),
            (5, 2) => run_field::<F13_2>(op, a),
            (4, 3) => run_field::<mnt6_753::Fq3>(op, a),
            (0, 6) => run_field::<bls12_381::Fq6>(op, a),
            (0, 12) => run_field::<bls12_381::Fq12>(op, a),
            _ => unsupported(),
        },
        "gt_rel" => match (cfg, kind) {
            (0, 12) => run_gt(a),
            _ => unsupported(),
        },
        "gt_pair" | "gt_params" => match (cfg, kind) {
            (0, 12) => run_gt_pair(op, a),
            _ => unsupported(),
        },
        "sw_rel" | "sw_params" => {
            let r = match (cfg, kind) {
                (0, 1) => run_sw::<bls12_381::g1::Config>(op, a),
                (0, 2) => run_sw::<bls12_381::g2::Config>(op, a),
                (2, 1) => run_sw::<secp256k1::Config>(op, a),
                (5, 1) => match a[0].get(3).map(to_u64).unwrap_or(0) {
                    0 => run_sw::<ToySw>(op, a),
                    1 => run_sw::<ToySwB>(op, a),
                    2 => run_sw::<ToySwC>(op, a),
                    _ => unsupported(),
                },
                _ => unsupported(),
            };
            if op == "sw_params" {
                with_prefix(a, r)
            } else {
                r
            }
        },
        "te_rel" | "te_params" => {
            let r = match (cfg, kind) {
                (8, 1) => run_te::<ed_on_bls12_381::EdwardsConfig>(op, a),
                (5, 1) => run_te::<ToyTe>(op, a),
                _ => unsupported(),
            };
            if op == "te_params" {
                with_prefix(a, r)
            } else {
                r
            }
        },
        "mvpoly_rel" => match (cfg, kind) {
            (1, 1) => run_mv::<bls12_381::Fr>(a),
            (5, 1) => run_mv::<F13>(a),
            _ => unsupported(),
        },
        "pt_decoded_rel" => match (to_u64(&a[0][4]), cfg, kind) {
            (0, 0, 1) => dec_sw::<bls12_381::g1::Config>(a),
            (0, 0, 2) => dec_sw::<bls12_381::g2::Config>(a),
            (0, 2, 1) => dec_sw::<secp256k1::Config>(a),
            (0, 5, 1) => match to_u64(&a[0][3]) {
                0 => dec_sw::<ToySw>(a),
                1 => dec_sw::<ToySwB>(a),
                2 => dec_sw::<ToySwC>(a),
                _ => unsupported(),
            },
            (1, 8, 1) => dec_te::<ed_on_bls12_381::EdwardsConfig>(a),
            (1, 5, 1) => dec_te::<ToyTe>(a),
            _ => unsupported(),
        },
        "poly_rel" => match (cfg, kind) {
            (1, 1) => run_poly::<bls12_381::Fr>(a),
            (5, 1) => run_poly::<F13>(a),
            _ => unsupported(),
        },
        _ => unsupported(),
    }
}

fn main() {
    main_loop(run);
}
