//! Common plumbing of the correspondence harness: case-line parsing, result printing,
//! panic capture.  A case line is
//!     <opcode>:<opname> <arg> <arg> ...
//! where every <arg> is a comma-separated list of hexadecimal integers (optionally
//! signed), `_` standing for the empty list.  A result line is a sequence of such
//! lists; the first list is the status: `0` = Ok, `1,<kind>` = Err, `2` = Panic.
use num_bigint::{BigInt as SInt, BigUint, Sign};
use num_traits::{Num, ToPrimitive, Zero};
use std::io::{BufRead, Write};

pub type Arg = Vec<SInt>;

pub fn parse_int(s: &str) -> SInt {
    let (neg, body) = match s.strip_prefix('-') {
        Some(b) => (true, b),
        None => (false, s),
    };
    let v = SInt::from_str_radix(body, 16).expect("bad hex");
    if neg {
        -v
    } else {
        v
    }
}

pub fn parse_arg(s: &str) -> Arg {
    if s == "_" {
        return vec![];
    }
    s.split(',').map(parse_int).collect()
}

pub fn fmt_int(v: &SInt) -> String {
    if v.sign() == Sign::Minus {
        format!("-{}", (-v).to_str_radix(16))
    } else {
        v.to_str_radix(16)
    }
}

pub fn fmt_arg(a: &Arg) -> String {
    if a.is_empty() {
        "_".to_string()
    } else {
        a.iter().map(fmt_int).collect::<Vec<_>>().join(",")
    }
}

pub fn u(v: &SInt) -> BigUint {
    v.to_biguint().expect("negative where unsigned expected")
}
pub fn to_u64(v: &SInt) -> u64 {
    v.to_u64().expect("u64 expected")
}
pub fn to_usize(v: &SInt) -> usize {
    v.to_usize().expect("usize expected")
}
pub fn from_u64(v: u64) -> SInt {
    SInt::from(v)
}
pub fn from_i64(v: i64) -> SInt {
    SInt::from(v)
}
pub fn from_bool(b: bool) -> SInt {
    SInt::from(b as u8)
}
pub fn from_biguint(v: &BigUint) -> SInt {
    SInt::from_biguint(if v.is_zero() { Sign::NoSign } else { Sign::Plus }, v.clone())
}
pub fn limbs_arg(l: &[u64]) -> Arg {
    l.iter().map(|x| from_u64(*x)).collect()
}
pub fn arg_limbs(a: &Arg) -> Vec<u64> {
    a.iter().map(to_u64).collect()
}

pub fn ok(mut rest: Vec<Arg>) -> Vec<Arg> {
    let mut v = vec![vec![SInt::from(0)]];
    v.append(&mut rest);
    v
}
pub fn err(kind: u32) -> Vec<Arg> {
    vec![vec![SInt::from(1), SInt::from(kind)]]
}
pub fn panicked() -> Vec<Arg> {
    vec![vec![SInt::from(2)]]
}
/// the harness itself does not support this (opname, shape) combination
pub fn unsupported() -> Vec<Arg> {
    vec![vec![SInt::from(9)]]
}

/// Reads case lines from stdin, runs `f(opname, args)` under `catch_unwind`, prints one
/// result line per case to stdout.
pub fn main_loop<F>(f: F)
where
    F: Fn(&str, &[Arg]) -> Vec<Arg> + std::panic::RefUnwindSafe,
{
    std::panic::set_hook(Box::new(|_| {}));
    let stdin = std::io::stdin();
    let stdout = std::io::stdout();
    let mut out = std::io::BufWriter::new(stdout.lock());
    for line in stdin.lock().lines() {
        let line = line.unwrap();
        let line = line.trim();
        if line.is_empty() {
            continue;
        }
        let mut it = line.split(' ');
        let head = it.next().unwrap();
        let opname = head.split(':').nth(1).unwrap_or(head).to_string();
        let args: Vec<Arg> = it.map(parse_arg).collect();
        let res = std::panic::catch_unwind(|| f(&opname, &args));
        let res = match res {
            Ok(r) => r,
            Err(_) => panicked(),
        };
        let s: Vec<String> = res.iter().map(fmt_arg).collect();
        writeln!(out, "{}", s.join(" ")).unwrap();
    }
    out.flush().unwrap();
}
