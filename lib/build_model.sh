#!/bin/sh
# build_model.sh Cxx : compile build/ocaml/Cxx.ml (extracted) + driver into build/bin/model_Cxx
set -e
P="$1"
L=$(echo "$P" | tr 'A-Z' 'a-z')
cd /verif/build/ocaml
mkdir -p ../bin
if [ ../bin/model_$P -nt $P.ml ] && [ ../bin/model_$P -nt /verif/ocaml/driver.ml ]; then exit 0; fi
cp /verif/ocaml/driver.ml driver.ml
printf 'let () = Driver.main %s.run_%s\n' "$P" "$P" > main_$P.ml
# extracted code refers to Big_int_Z (zarith's Big_int compatibility layer)
ocamlfind ocamlopt -O2 -w -a -package zarith -linkpkg $P.mli $P.ml driver.ml main_$P.ml -o ../bin/model_$P 2>/dev/null || \
ocamlfind ocamlopt -w -a -package zarith -linkpkg $P.mli $P.ml driver.ml main_$P.ml -o ../bin/model_$P
