#!/bin/sh
# build_model.sh Cxx : compile build/ocaml/Cxx.ml (extracted) + driver into build/bin/model_Cxx
# (each model is compiled in its own sub-directory so that concurrent builds do not race)
set -e
P="$1"
OD="${VERIF_OCAML_DIR:-/verif/build/ocaml}"
BD="${VERIF_BIN_DIR:-/verif/build/bin}"
mkdir -p "$OD" "$BD"
cd "$OD"
if [ "$BD"/model_$P -nt $P.ml ] && [ "$BD"/model_$P -nt /verif/ocaml/driver.ml ]; then exit 0; fi
W="$OD/w_$P.$$"
rm -rf "$W"; mkdir -p "$W"
cp $P.ml $P.mli "$W"/
cp /verif/ocaml/driver.ml "$W"/driver.ml
cd "$W"
printf 'let () = Driver.main %s.run_%s\n' "$P" "$P" > main_$P.ml
# extracted code refers to Big_int_Z (zarith's Big_int compatibility layer)
( ocamlfind ocamlopt -O2 -w -a -package zarith -linkpkg $P.mli $P.ml driver.ml main_$P.ml -o model_$P 2>/dev/null || \
  ocamlfind ocamlopt -w -a -package zarith -linkpkg $P.mli $P.ml driver.ml main_$P.ml -o model_$P )
mv model_$P "$BD"/model_$P
cd "$OD"; rm -rf "$W"
