#!/bin/sh
# lib/coqmake.sh <target.vo> ...   -- build Coq targets of /verif/coq under the shared build lock
# (always use this instead of calling make/coqc by hand in /verif/coq).
exec python3 - "$@" <<'PY'
import sys
sys.path.insert(0, '/verif/lib')
import vcheck
rc, out = vcheck.coq_make(sys.argv[1:], timeout=3500)
print(out[-6000:])
sys.exit(rc)
PY
