// Fields whose derive-macro expansion is translated (moduli: props/C01/configs.py).
// One struct per shape of generated code: limb count x {no-carry eligible, spare bit only, no spare bit}.
#![allow(unused)]
use ark_ff::fields::{Fp, MontBackend, MontConfig};

// N = 1, 62 bits: spare bits, no-carry multiplication
#[derive(MontConfig)]
#[modulus = "2849647038907036733"]
#[generator = "2"]
pub struct R62;

// N = 1, 64 bits: no spare bit, plain CIOS + carry-aware final subtraction
#[derive(MontConfig)]
#[modulus = "18446744073709551557"]
#[generator = "2"]
pub struct P64;

// N = 2, 125 bits: no-carry multiplication
#[derive(MontConfig)]
#[modulus = "27997046152645192579209348579381818623"]
#[generator = "2"]
pub struct R125;

// N = 2, 2^127 - 1: spare bit but top limb = 2^63 - 1 -> plain CIOS, carry-free final subtraction
#[derive(MontConfig)]
#[modulus = "170141183460469231731687303715884105727"]
#[generator = "2"]
pub struct M127;

// N = 2, 128 bits: no spare bit
#[derive(MontConfig)]
#[modulus = "340282366920938463463374607431768211297"]
#[generator = "2"]
pub struct P128;

// N = 4, 254 bits: bn254 Fr
#[derive(MontConfig)]
#[modulus = "21888242871839275222246405745257275088548364400416034343698204186575808495617"]
#[generator = "2"]
pub struct Bn254Fr;

// N = 4, 255 bits: 2^255 - 19 (spare bit, top limb = 2^63 - 1 -> plain CIOS)
#[derive(MontConfig)]
#[modulus = "57896044618658097711785492504343953926634992332820282019728792003956564819949"]
#[generator = "2"]
pub struct P25519;

// N = 4, 256 bits: secp256k1 base field (no spare bit)
#[derive(MontConfig)]
#[modulus = "115792089237316195423570985008687907853269984665640564039457584007908834671663"]
#[generator = "2"]
pub struct Secp256k1P;

// N = 6, 381 bits: bls12-381 Fq
#[derive(MontConfig)]
#[modulus = "4002409555221667393417789825735904156556882819939007885332058136124031650490837864442687629129015664037894272559787"]
#[generator = "2"]
pub struct Bls381Fq;

// ---- unusual LIMB SHAPES (shape-dependent code generation: zero limbs, limb 1, all-ones limbs)

// N = 3, (2^63 - 1) * 2^128 + 0x133: limbs [0x133, 0, 2^63 - 1] -> spare bit, plain CIOS, a zero interior limb
#[derive(MontConfig)]
#[modulus = "3138550867693340381577612344682894744587803114800249045299"]
#[generator = "2"]
pub struct Z191;

// N = 4, 0x2000000000000001 * 2^192 + 229: limbs [229, 0, 0, 2^61 + 1] -> no-carry multiplication, two zero limbs
#[derive(MontConfig)]
#[modulus = "14474011154664524434223474861472669245494537506412736921034553445453175718117"]
#[generator = "2"]
pub struct Z254;

// N = 4, (2^63 - 1) * 2^192 + 135: limbs [135, 0, 0, 2^63 - 1] -> spare bit, plain CIOS, two zero limbs
#[derive(MontConfig)]
#[modulus = "57896044618658097705508390768957273162799202909612615603626436559492530307207"]
#[generator = "2"]
pub struct Z255;

// N = 2, (2^60 - 1) * 2^64 + 1: limbs [1, 2^60 - 1] -> no-carry multiplication, low limb 1, high limb all ones
#[derive(MontConfig)]
#[modulus = "21267647932558653948014168890775961601"]
#[generator = "2"]
pub struct P124;
