#!/usr/bin/env python3
"""Macro expansion of lib/expand_crate (a handful of `#[derive(MontConfig)]` fields) against a checked tree.

`expand(repo)` returns the text printed by
    cargo +nightly rustc --offline --lib -- -Zunpretty=expanded -C debug-assertions=off
for a copy of lib/expand_crate whose path dependency points into `repo`.  The result is cached under
/verif/build/expand/cache/<key>.rs, where <key> hashes the CONTENTS of
    <repo>/ff-macros/src/**  <repo>/ff/src/fields/models/fp/**  <repo>/ff/src/biginteger/**
(the proc macro and everything the translator reads next to it), <repo>/ff-macros/Cargo.toml, the scratch crate
and the nightly compiler's version line; unchanged sources => no cargo run.  Everything lives under /verif/build
(work directory build/expand/work, CARGO_TARGET_DIR build/expand_target); nothing is written to /tmp or to `repo`.

Raises ExpandError (cargo missing / build failure / timeout / empty output): callers keep their previous output.

Run by hand:  python3 lib/expand_derive.py [/repo]      (prints cache key, hit/miss, seconds, path)
"""
import hashlib
import os
import shutil
import subprocess
import sys
import time

VERIF = os.path.dirname(os.path.dirname(os.path.abspath(__file__)))
CRATE = os.path.join(VERIF, 'lib', 'expand_crate')
BUILD = os.path.join(VERIF, 'build', 'expand')
TARGET = os.path.join(VERIF, 'build', 'expand_target')
KEY_DIRS = ('ff-macros/src', 'ff/src/fields/models/fp', 'ff/src/biginteger')
KEY_FILES = ('ff-macros/Cargo.toml',)
TOOLCHAIN = '+nightly'
JOBS = '6'


class ExpandError(Exception):
    pass


def _files(root):
    out = []
    for dp, dns, fns in os.walk(root):
        dns.sort()
        for fn in sorted(fns):
            out.append(os.path.join(dp, fn))
    return out


def _toolchain_line():
    try:
        r = subprocess.run(['rustc', TOOLCHAIN, '-V'], stdout=subprocess.PIPE, stderr=subprocess.DEVNULL, timeout=30)
        return r.stdout.decode().strip() if r.returncode == 0 else 'no-nightly'
    except (OSError, subprocess.SubprocessError):
        return 'no-rustc'


def cache_key(repo):
    h = hashlib.sha256()
    for d in KEY_DIRS:
        root = os.path.join(repo, d)
        if not os.path.isdir(root):
            raise ExpandError('missing directory %s' % root)
        for p in _files(root):
            h.update(os.path.relpath(p, repo).encode() + b'\0')
            h.update(open(p, 'rb').read())
            h.update(b'\0')
    for f in KEY_FILES:
        p = os.path.join(repo, f)
        h.update(f.encode() + b'\0' + (open(p, 'rb').read() if os.path.exists(p) else b'-') + b'\0')
    for p in _files(CRATE):
        h.update(os.path.relpath(p, CRATE).encode() + b'\0')
        h.update(open(p, 'rb').read())
        h.update(b'\0')
    h.update(_toolchain_line().encode() + b'|v2 debug-assertions=off')
    return h.hexdigest()[:24]


def cache_path(key):
    return os.path.join(BUILD, 'cache', key + '.rs')


def expand(repo='/repo', timeout=900, force=False, info=None):
    """expanded source text of lib/expand_crate built against `repo`; info (a dict) receives key / hit / seconds"""
    repo = os.path.abspath(repo)
    key = cache_key(repo)
    cp = cache_path(key)
    if info is not None:
        info.update(key=key, hit=False, seconds=0.0, path=cp)
    if not force and os.path.exists(cp):
        text = open(cp).read()
        if 'impl MontConfig' in text:
            if info is not None:
                info['hit'] = True
            try:
                os.utime(cp)                    # the eviction below is least-recently-used
            except OSError:
                pass
            return text
    t0 = time.time()
    work = os.path.join(BUILD, 'work')
    shutil.rmtree(work, ignore_errors=True)
    os.makedirs(os.path.join(work, 'src'))
    toml = open(os.path.join(CRATE, 'Cargo.toml')).read()
    if toml.count('"/repo/ff"') != 1:
        raise ExpandError('lib/expand_crate/Cargo.toml: expected exactly one path dependency "/repo/ff"')
    open(os.path.join(work, 'Cargo.toml'), 'w').write(toml.replace('"/repo/ff"', '"%s/ff"' % repo))
    shutil.copy(os.path.join(CRATE, 'src', 'lib.rs'), os.path.join(work, 'src', 'lib.rs'))
    lock = os.path.join(repo, 'Cargo.lock')
    if os.path.exists(lock):
        shutil.copy(lock, os.path.join(work, 'Cargo.lock'))
    env = dict(os.environ, CARGO_TARGET_DIR=TARGET, CARGO_NET_OFFLINE='true', CARGO_TERM_COLOR='never')
    tc = [TOOLCHAIN]
    if _toolchain_line().startswith('no-'):
        # no nightly toolchain installed: the default toolchain accepts -Z flags with RUSTC_BOOTSTRAP=1
        tc, env['RUSTC_BOOTSTRAP'] = [], '1'
    # `-C debug-assertions=off` (this crate only): `debug_assert_eq!` in the generated sum_of_products expands to
    # `if false {..}` -- the translator models the release semantics (wrapping u64 arithmetic, no debug assertions)
    cmd = ['cargo'] + tc + ['rustc', '--offline', '-j', JOBS, '--lib', '--', '-Zunpretty=expanded',
           '-C', 'debug-assertions=off']
    try:
        p = subprocess.Popen(cmd, cwd=work, env=env, stdout=subprocess.PIPE, stderr=subprocess.PIPE,
                             start_new_session=True)
    except OSError as e:
        raise ExpandError('cannot run cargo: %s' % e)
    try:
        out, err = p.communicate(timeout=timeout)
    except subprocess.TimeoutExpired:
        try:
            os.killpg(p.pid, 9)
        except OSError:
            pass
        p.communicate()
        raise ExpandError('cargo rustc -Zunpretty=expanded timed out after %d s' % timeout)
    text = out.decode(errors='replace')
    if p.returncode != 0 or 'impl MontConfig' not in text:
        tail = [l for l in err.decode(errors='replace').splitlines() if l.startswith('error')][:3]
        raise ExpandError('macro expansion failed (cargo exit %s): %s' % (p.returncode, ' | '.join(tail) or 'no output'))
    os.makedirs(os.path.dirname(cp), exist_ok=True)
    tmp = cp + '.tmp%d' % os.getpid()
    open(tmp, 'w').write(text)
    os.replace(tmp, cp)
    # keep the cache small: the newest 8 expansions
    olds = sorted((os.path.getmtime(os.path.join(BUILD, 'cache', f)), f) for f in os.listdir(os.path.join(BUILD, 'cache'))
                  if f.endswith('.rs'))
    for _, f in olds[:-8]:
        try:
            os.remove(os.path.join(BUILD, 'cache', f))
        except OSError:
            pass
    if info is not None:
        info['seconds'] = time.time() - t0
    return text


if __name__ == '__main__':
    repo = sys.argv[1] if len(sys.argv) > 1 else '/repo'
    inf = {}
    try:
        t = expand(repo, info=inf, force='--force' in sys.argv)
    except ExpandError as e:
        print('EXPAND-ERROR: %s' % e)
        sys.exit(3)
    print('key=%s %s %.1fs %s (%d lines)' % (inf['key'], 'hit' if inf['hit'] else 'miss', inf['seconds'], inf['path'],
                                              len(t.splitlines())))
