#!/usr/bin/env python3
"""Macro expansion of lib/expand_serde_crate (types deriving CanonicalSerialize / CanonicalDeserialize) against a
checked tree -- the serialization-derive counterpart of lib/expand_derive.py (whose helpers it imports).

`expand(repo)` returns the text printed by
    cargo +nightly rustc --offline -j 6 --lib -- -Zunpretty=expanded
for a copy of lib/expand_serde_crate whose path dependency points into `repo`.  The result is cached under
/verif/build/expand_serde/cache/<key>.rs, where <key> hashes the CONTENTS of
    <repo>/serialize-derive/src/**   <repo>/serialize/src/**
their two Cargo.toml files, the scratch crate and the compiler's version line; unchanged sources => no cargo run.
Everything lives under /verif/build (work directory build/expand_serde/work, CARGO_TARGET_DIR
build/expand_serde_target); nothing is written to /tmp or to `repo`.

Raises ExpandError (the class of lib/expand_derive.py: cargo missing / build failure / timeout / empty output):
callers keep their previous output.

Run by hand:  python3 lib/expand_serde.py [/repo] [--force]     (prints cache key, hit/miss, seconds, path)
"""
import hashlib
import os
import shutil
import subprocess
import sys
import time

_HERE = os.path.dirname(os.path.abspath(__file__))
if _HERE not in sys.path:
    sys.path.insert(0, _HERE)
import expand_derive                                            # noqa: E402
from expand_derive import ExpandError, _files, _toolchain_line  # noqa: E402,F401

VERIF = os.path.dirname(_HERE)
CRATE = os.path.join(VERIF, 'lib', 'expand_serde_crate')
BUILD = os.path.join(VERIF, 'build', 'expand_serde')
TARGET = os.path.join(VERIF, 'build', 'expand_serde_target')
KEY_DIRS = ('serialize-derive/src', 'serialize/src')
KEY_FILES = ('serialize-derive/Cargo.toml', 'serialize/Cargo.toml')
DEP = '"/repo/serialize"'
MARK = 'CanonicalSerialize for'            # present in every usable expansion
KEEP = 8


def cache_key(repo):
    h = hashlib.sha256()
    for d in KEY_DIRS:
        root = os.path.join(repo, d)
        if not os.path.isdir(root):
            raise ExpandError('missing directory %s' % root)
        for p in _files(root):
            h.update(os.path.relpath(p, repo).encode() + b'\0')
            h.update(open(p, 'rb').read())
            h.update(b'\0')
    for f in KEY_FILES:
        p = os.path.join(repo, f)
        h.update(f.encode() + b'\0' + (open(p, 'rb').read() if os.path.exists(p) else b'-') + b'\0')
    for p in _files(CRATE):
        h.update(os.path.relpath(p, CRATE).encode() + b'\0')
        h.update(open(p, 'rb').read())
        h.update(b'\0')
    h.update(_toolchain_line().encode() + b'|serde v1')
    return h.hexdigest()[:24]


def cache_path(key):
    return os.path.join(BUILD, 'cache', key + '.rs')


def expand(repo='/repo', timeout=900, force=False, info=None):
    """expanded source text of lib/expand_serde_crate built against `repo`; info (a dict) receives key / hit / seconds"""
    repo = os.path.abspath(repo)
    key = cache_key(repo)
    cp = cache_path(key)
    if info is not None:
        info.update(key=key, hit=False, seconds=0.0, path=cp)
    if not force and os.path.exists(cp):
        text = open(cp).read()
        if MARK in text:
            if info is not None:
                info['hit'] = True
            try:
                os.utime(cp)                    # the eviction below is least-recently-used
            except OSError:
                pass
            return text
    t0 = time.time()
    work = os.path.join(BUILD, 'work')
    shutil.rmtree(work, ignore_errors=True)
    os.makedirs(os.path.join(work, 'src'))
    toml = open(os.path.join(CRATE, 'Cargo.toml')).read()
    if toml.count(DEP) != 1:
        raise ExpandError('lib/expand_serde_crate/Cargo.toml: expected exactly one path dependency %s' % DEP)
    open(os.path.join(work, 'Cargo.toml'), 'w').write(toml.replace(DEP, '"%s/serialize"' % repo))
    shutil.copy(os.path.join(CRATE, 'src', 'lib.rs'), os.path.join(work, 'src', 'lib.rs'))
    lock = os.path.join(repo, 'Cargo.lock')
    if os.path.exists(lock):
        shutil.copy(lock, os.path.join(work, 'Cargo.lock'))
    env = dict(os.environ, CARGO_TARGET_DIR=TARGET, CARGO_NET_OFFLINE='true', CARGO_TERM_COLOR='never')
    tc = [expand_derive.TOOLCHAIN]
    if _toolchain_line().startswith('no-'):
        # no nightly toolchain installed: the default toolchain accepts -Z flags with RUSTC_BOOTSTRAP=1
        tc, env['RUSTC_BOOTSTRAP'] = [], '1'
    cmd = ['cargo'] + tc + ['rustc', '--offline', '-j', expand_derive.JOBS, '--lib', '--', '-Zunpretty=expanded']
    try:
        p = subprocess.Popen(cmd, cwd=work, env=env, stdout=subprocess.PIPE, stderr=subprocess.PIPE,
                             start_new_session=True)
    except OSError as e:
        raise ExpandError('cannot run cargo: %s' % e)
    try:
        out, err = p.communicate(timeout=timeout)
    except subprocess.TimeoutExpired:
        try:
            os.killpg(p.pid, 9)
        except OSError:
            pass
        p.communicate()
        raise ExpandError('cargo rustc -Zunpretty=expanded timed out after %d s' % timeout)
    text = out.decode(errors='replace')
    if p.returncode != 0 or MARK not in text:
        tail = [l for l in err.decode(errors='replace').splitlines() if l.startswith('error')][:3]
        raise ExpandError('macro expansion failed (cargo exit %s): %s' % (p.returncode, ' | '.join(tail) or 'no output'))
    os.makedirs(os.path.dirname(cp), exist_ok=True)
    tmp = cp + '.tmp%d' % os.getpid()
    open(tmp, 'w').write(text)
    os.replace(tmp, cp)
    olds = sorted((os.path.getmtime(os.path.join(BUILD, 'cache', f)), f) for f in os.listdir(os.path.join(BUILD, 'cache'))
                  if f.endswith('.rs'))
    for _, f in olds[:-KEEP]:
        try:
            os.remove(os.path.join(BUILD, 'cache', f))
        except OSError:
            pass
    if info is not None:
        info['seconds'] = time.time() - t0
    return text


if __name__ == '__main__':
    args = [a for a in sys.argv[1:] if not a.startswith('--')]
    repo = args[0] if args else '/repo'
    inf = {}
    try:
        t = expand(repo, info=inf, force='--force' in sys.argv)
    except ExpandError as e:
        print('EXPAND-ERROR: %s' % e)
        sys.exit(3)
    print('key=%s %s %.1fs %s (%d lines)' % (inf['key'], 'hit' if inf['hit'] else 'miss', inf['seconds'], inf['path'],
                                              len(t.splitlines())))
