// Types whose derive-macro expansion (serialize-derive/src/{serialize,deserialize}.rs) is translated by
// lib/xlate_serde.py.  One type per case of the macro: named fields, tuple struct, nested-tuple fields (the macro
// flattens tuple SYNTAX into one call per leaf, addressing it by a path such as `self.b.1.0`), unit struct, generic
// struct, container fields, fields of other derived types.  (The macros reject enums and unions: they panic with
// "can only be derived for structs", so there is no enum here.)
// The leaf types must be ones lib/xlate_serde.py can map to a C18 descriptor (TYPE TABLE there).
#![allow(unused)]
use ark_serialize::{CanonicalDeserialize, CanonicalSerialize};

// named fields
#[derive(CanonicalSerialize, CanonicalDeserialize)]
pub struct Named {
    pub a: u64,
    pub b: bool,
    pub c: u16,
}

// tuple struct
#[derive(CanonicalSerialize, CanonicalDeserialize)]
pub struct Tup(pub u8, pub u32, pub bool);

// a nested-tuple field: leaves self.a, self.b.0, self.b.1.0, self.b.1.1, self.c
#[derive(CanonicalSerialize, CanonicalDeserialize)]
pub struct NT {
    pub a: u8,
    pub b: (u8, (u16, u32)),
    pub c: u64,
}

// tuple struct with nested-tuple positions: leaves self.0.0.0, self.0.0.1, self.0.1, self.1, self.2.0 (and no leaf for `()`)
#[derive(CanonicalSerialize, CanonicalDeserialize)]
pub struct TNT(pub ((u8, u16), u32), pub bool, pub (i64,), pub ());

// unit struct
#[derive(CanonicalSerialize, CanonicalDeserialize)]
pub struct Unit;

// struct with no fields, braces
#[derive(CanonicalSerialize, CanonicalDeserialize)]
pub struct Empty {}

// generic struct: the leaf descriptor is a parameter of the generated definitions
#[derive(CanonicalSerialize, CanonicalDeserialize)]
pub struct Gen<T: CanonicalSerialize + CanonicalDeserialize> {
    pub x: T,
    pub y: (bool, T),
}

// two type parameters and a where clause
#[derive(CanonicalSerialize, CanonicalDeserialize)]
pub struct Gen2<A, B>(pub A, pub (B, A), pub Vec<B>)
where
    A: CanonicalSerialize + CanonicalDeserialize,
    B: CanonicalSerialize + CanonicalDeserialize;

// container fields
#[derive(CanonicalSerialize, CanonicalDeserialize)]
pub struct Cont<T: CanonicalSerialize + CanonicalDeserialize> {
    pub v: Vec<T>,
    pub o: Option<T>,
    pub w: Vec<Option<u16>>,
    pub s: String,
    pub p: (Vec<u8>, Option<bool>),
}

// fields of other derived types (also under a container and as a generic instance)
#[derive(CanonicalSerialize, CanonicalDeserialize)]
pub struct Outer {
    pub h: u8,
    pub n: Named,
    pub t: (Tup, Vec<NT>),
    pub g: Gen<u16>,
    pub u: Unit,
}
