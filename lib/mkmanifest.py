#!/usr/bin/env python3
"""assembles MANIFEST.json from props/<Cxx>/claim.json (one per claimed property)"""
import json, os, glob, subprocess
ROOT = '/verif'
ids = [json.loads(l)['id'] for l in open(ROOT + '/properties.jsonl')]
checks, na, served = [], [], []
TECH = 'machine-checked Coq theorems about an executable Gallina model; the model is tied to the code by translators that regenerate parts of it from the Rust source on every run (theorems re-checked) and by a model/implementation correspondence check (model extracted to OCaml and run against the Rust code on generated cases; sample re-evaluated in the Coq kernel)'
for pid in ids:
    cj = '%s/props/%s/claim.json' % (ROOT, pid)
    if os.path.exists(cj):
        c = json.load(open(cj))
        served.append(pid)
        checks.append({
            'property_id': pid,
            'quick_cmd': './check %s --tier quick' % pid,
            'thorough_cmd': './check %s --tier thorough' % pid,
            'evidence_file': 'evidence/%s.json' % pid,
            'replay_cmd_template': './check %s --replay {path}' % pid,
            'engine': 'coq-proof+correspondence',
            'level_claimed': {'category': 'proof', 'text': c['text'], 'design_ref': c.get('design_ref', '§6 %s, §14' % pid)},
            'level_note': c['note'],
            'technique': c.get('technique', TECH),
        })
    else:
        r = '%s/props/%s/na.txt' % (ROOT, pid)
        na.append({'property_id': pid, 'reason': open(r).read().strip() if os.path.exists(r) else
                   'not claimed yet: the Coq package for this property is still under construction in this session (no registered check)'})
hook_commits = subprocess.run("git -C /repo log --format=%h --grep='^verif hooks'", shell=True, text=True, stdout=subprocess.PIPE).stdout.split()
m = {
    'version': 1,
    'setup_cmd': './setup.sh',
    'hooks': {
        'guard': 'arkworks_rs_algebra_verif',
        'enable': 'RUSTFLAGS="--cfg arkworks_rs_algebra_verif" (set by ./check and ./setup.sh when building the harness)',
        'baseline_off_cmd': 'cd /repo && cargo test --workspace --no-fail-fast --offline',
        'source_commits': hook_commits,
        'add_only': True,
    },
    'engines': [{'name': 'coq-proof+correspondence', 'path': 'check', 'serves_properties': served,
                 'kind_free_text': 'Coq 8.16 development (coq/): executable Gallina models + theorems (Props/Cxx.v, Print Assumptions checked each run); models extracted to OCaml and run against the Rust implementation built from /repo\'s working tree on generated cases; sample re-evaluated in the kernel; translators regenerate from /repo on every run: leaf u128 arithmetic (T-leaf), field-level formulas of curves / towers / hash maps / subgroup tests / point serialisation (T-field, 3 tables), limb-level loops incl. the code the MontConfig derive macro generates (T-limb), the serialization derive macros\' output (T-ser) and every configuration constant (T-const)'}],
    'checks': checks,
    'notes': 'see DESIGN.md (§14 = status as built; per-property props/Cxx/NOTES.md). known_findings.json lists recorded findings and fix: commits.',
    'not_applicable': na,
}
json.dump(m, open(ROOT + '/MANIFEST.json', 'w'), indent=1)
print('claimed', served, 'not claimed', [x['property_id'] for x in na])
