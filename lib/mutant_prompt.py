#!/usr/bin/env python3
"""prints the prompt given to an independent 'seeded change' sub-agent for property <id> (property text only)"""
import json, sys
pid = sys.argv[1]; wt = sys.argv[2]; n = sys.argv[3] if len(sys.argv) > 3 else '2'
p = next(json.loads(l) for l in open('/verif/properties.jsonl') if json.loads(l)['id'] == pid)
txt = json.dumps({k: p[k] for k in ('id', 'title', 'statement', 'quantifier', 'why_tests_cant', 'anchors')}, indent=1)
print(f"""You are helping to evaluate verification tooling for the Rust library arkworks-rs/algebra. You have your OWN scratch git worktree of the repository at {wt} (work ONLY there; never touch /repo or /verif, do not read anything under /verif). The sandbox is offline: always pass `--offline` to cargo (CARGO_NET_OFFLINE=true); curve crates under curves/ are outside the workspace.

Here is a semantic property that the library is supposed to satisfy:

{txt}

Task: produce {n} DIFFERENT, independent, realistic source changes (each as a separate patch against the worktree's HEAD) that each BREAK this property while (a) the workspace still compiles, and (b) the repository's existing test suite still passes (`cd {wt} && cargo test --workspace --no-fail-fast --offline`; the full suite takes ~6-10 minutes, so first run just the affected crates' tests, e.g. `cargo test --offline -p ark-ff`, and run the full suite once at the end for each patch — note `ark-test-curves` tests exercise ff/ec/poly heavily). Prefer the kind of mistake a maintainer could plausibly make in a refactor or optimisation (off-by-one in a boundary, a dropped carry or special case, a wrong constant/index, swapped branch, missing canonicalisation), located in code the property anchors. Each change must need something SPECIFIC to manifest — an unusual input (boundary value, particular limb pattern, zero coordinate, identity element, cancelling terms, particular length/size), a multi-step sequence of operations, a particular configuration (limb count, modulus shape, curve, thread count), or two cooperating sites that each look fine alone — NOT something ordinary use or the existing tests would expose at once. Make the {n} changes differ in mechanism and location (different functions/files where possible).

For each change deliver, in the directory {wt}/_seeded/<k>/ (k = 1..{n}):
  * `patch.diff` — `git diff` of ONLY the source change (apply-able with `git apply` at the worktree's HEAD; no test files in it);
  * a demonstration: a small standalone Rust program or test (`demo/` as a tiny cargo crate with an empty `[workspace]` table, path dependencies into the repository root given by env var or a relative path you document, and `Cargo.lock` copied from the repository root so it resolves offline; or a `#[test]` file plus the exact command to run it) that FAILS (non-zero exit / failed assertion) with the change applied and PASSES without it;
  * `meta.json`: {{"property": "{pid}", "summary": "<one line>", "files": [...], "needs": "<what specific input/sequence/configuration is needed for it to manifest>", "why_tests_pass": "<why the existing suite does not notice>", "demo_cmd": "<command, run from where>", "ran": ["<commands you ran and their outcomes>"]}}.
After producing each patch, revert the worktree's source to HEAD (`git checkout -- .`) so patches are independent; verify each patch applies cleanly on a clean HEAD. Keep build output inside the worktree. Do not spend more than ~75 minutes in total. Final message: for each change, one paragraph (what, where, what it needs to manifest, evidence that the existing tests pass and the demo fails/passes).""")
