#!/usr/bin/env python3
"""wave-6 prompt (free location, must differ from all earlier seeds); derived from the wave-2 prompt for an independent 'seeded change' sub-agent: property text + one facet of that text to
concentrate on (facets are paraphrases of the property statement only; nothing from /verif's machinery)."""
import json, sys
pid = sys.argv[1]; wt = sys.argv[2]
p = next(json.loads(l) for l in open('/verif/properties.jsonl') if json.loads(l)['id'] == pid)
import glob
prior = []
for f in sorted(glob.glob('/verif/seeded/%s/*/meta.json' % pid), key=lambda x: int(x.split('/')[4])):
    m = json.load(open(f)); prior.append('  - [%s] %s' % (', '.join(m.get('files', [])), m['summary'][:160]))
prior = '\n'.join(prior)
txt = json.dumps({k: p[k] for k in ('id', 'title', 'statement', 'quantifier', 'why_tests_cant', 'anchors')}, indent=1)
print(f"""You are helping to evaluate verification tooling for the Rust library arkworks-rs/algebra. You have your OWN scratch git worktree of the repository at {wt} (work ONLY there; never touch /repo or /verif, and do not read anything under /verif). The sandbox is offline: always pass `--offline` to cargo (CARGO_NET_OFFLINE=true); the curve crates under curves/ are outside the cargo workspace (each builds on its own, as a path dependency of a standalone crate with an empty `[workspace]` table and a Cargo.lock copied from the repository root). The machine is shared with other jobs: pass `-j 6` to every cargo command.

Here is a semantic property that the library is supposed to satisfy:

{txt}

Task: produce 2 DIFFERENT, independent, realistic source changes (each as a separate patch against the worktree's HEAD) that each BREAK this property while (a) everything still compiles and (b) the repository's existing test suite still passes. Earlier rounds already produced the changes listed below; yours must differ from ALL of them in mechanism, and preferably sit in a function none of them touched (reading the anchors and the code they call, look for the places these did NOT reach):
{prior}
Change 1 is required; change 2 is optional (only if time allows).

Prefer the kind of mistake a maintainer could plausibly make in a refactor or optimisation (an off-by-one at a boundary, a dropped carry or special case, a wrong constant / index / sign, swapped branches, a missing canonicalisation, a condition that is too weak or too strong), located in the code the property anchors or in code it calls. Each change must need something SPECIFIC to manifest - an unusual input (boundary value, particular limb pattern, zero coordinate, identity element, cancelling terms, particular length or size), a multi-step sequence of operations, a particular configuration (limb count, modulus shape, a particular curve, thread count), or two cooperating sites that each look fine alone - NOT something ordinary use or the existing tests would expose at once. The two changes must differ in mechanism and location.

Testing: run only the tests of the crates you touched and of the crates that depend on them (`cargo test --offline -j 6 -p ark-ff`, `-p ark-ec`, `-p ark-poly`, `-p ark-serialize`, `-p ark-test-curves` as applicable; `ark-test-curves` exercises ff/ec heavily and takes several minutes; its DEFAULT feature set is empty and runs only 13 tests - pass `--features bls12_381_curve,ed_on_bls12_381,mnt4_753_curve,mnt6_753,bn384_small_two_adicity_curve,secp256k1` to get all 249) - they must all pass with your patch. The coordinator will run the complete workspace suite itself afterwards, so do not run `cargo test --workspace`.

For each change deliver, in the directory {wt}/_seeded/<k>/ (k = 1, 2):
  * `patch.diff` - `git diff` of ONLY the source change (apply-able with `git apply` at the worktree's HEAD; no test files in it);
  * `demo/` - a tiny standalone cargo crate (empty `[workspace]` table in its Cargo.toml; path dependencies written RELATIVE to its location <repo>/_seeded/<k>/demo, i.e. `../../../ff` etc.; `Cargo.lock` copied from the repository root so that it resolves offline) whose `cargo run --offline` exits 0 when the property holds and non-zero (failed assertion) when it is violated: it must FAIL with the change applied and PASS without it;
  * `meta.json`: {{"property": "{pid}", "summary": "<one line: what was changed and what goes wrong>", "files": [...], "needs": "<the specific input / sequence / configuration needed for it to manifest>", "why_tests_pass": "<why the existing suite does not notice>", "demo_cmd": "cd <repo>/_seeded/<k>/demo && cargo run --offline", "ran": ["<commands you ran and their outcomes>"]}}.
After producing each patch, revert the worktree's source to HEAD (`git checkout -- .`) so that the patches are independent, and verify that each applies cleanly to a clean HEAD (`git apply --check`). Keep all build output inside the worktree (set CARGO_TARGET_DIR={wt}/target for the demos so they share one build directory). HARD LIMIT: 45 minutes in total; deliver change 1 as soon as it is confirmed. Final message: for each change one short paragraph (what, where, what it needs in order to manifest, which tests you ran, that the demo fails with it and passes without it).""")
