#!/usr/bin/env python3
"""prompt for an independent sub-agent that writes BEHAVIOUR-PRESERVING refactors of code a property anchors (used to
measure false alarms of the checks: a harmless rewrite must not be reported as a violation)."""
import json, sys
pid = sys.argv[1]; wt = sys.argv[2]
p = next(json.loads(l) for l in open('/verif/properties.jsonl') if json.loads(l)['id'] == pid)
txt = json.dumps({k: p[k] for k in ('id', 'title', 'statement', 'anchors')}, indent=1)
print(f"""You are helping to evaluate verification tooling for the Rust library arkworks-rs/algebra. You have your OWN scratch git worktree of the repository at {wt} (work ONLY there; never touch /repo or /verif, and do not read anything under /verif). The sandbox is offline: always pass `--offline` to cargo; the machine is shared: pass `-j 6` to every cargo command; never use pkill/killall with a pattern.

Here is a semantic property that the library satisfies:

{txt}

Task: produce 3 DIFFERENT, independent, realistic source changes (each as a separate patch against the worktree's HEAD) to the code this property anchors that are pure REFACTORS: the observable behaviour of every public function must be exactly the same as before for EVERY input (same results, same errors, same panics), so the property still holds. They should be the kind of change a maintainer really makes, of moderate size (10-60 changed lines each), for example: rename locals / reorder independent statements; replace an in-place operation chain by the equivalent expression form (`a.square_in_place()` vs `a = a.square()`), `x.double()` vs `x + x`, commute or re-associate products and sums of field elements; extract a private helper function or inline one; turn an index loop into an iterator chain or back; hoist a loop-invariant; replace `if c {{ a }} else {{ b }}` by a `match`; split a long function; change a private constant's representation (hex vs decimal literal of the same value); reorder match arms; add `#[inline]`; add or reword comments and doc comments. Touch DIFFERENT functions/files in the three patches, and at least one patch must rewrite arithmetic expressions into an algebraically equivalent form (not only cosmetics). Do NOT change public signatures, do not add or remove public items, do not change what is computed.

Convince yourself that behaviour is unchanged: run the tests of the touched crates and their dependents (`cargo test --offline -j 6 -p ark-ff -p ark-ec -p ark-poly -p ark-serialize` as applicable, and `-p ark-test-curves --features bls12_381_curve,ed_on_bls12_381,mnt4_753_curve,mnt6_753,bn384_small_two_adicity_curve,secp256k1`), and reason explicitly about edge cases (zero, identity, overflow, evaluation order with side effects).

For each change deliver, in {wt}/_refactor/<k>/ (k = 1, 2, 3): `patch.diff` (`git diff` of only the source change, apply-able with `git apply` at HEAD) and `meta.json`: {{"property": "{pid}", "summary": "<one line>", "files": [...], "why_equivalent": "<argument that behaviour is identical for every input>", "ran": ["<commands and outcomes>"]}}. Revert the worktree to HEAD after each (`git checkout -- .`) and verify each patch applies cleanly. Do not spend more than about 45 minutes. Final message: one short paragraph per change.""")
