#!/usr/bin/env python3
"""refactortest.py <Cxx> [k ...]: run ./check Cxx against each BEHAVIOUR-PRESERVING refactor /verif/refactors/<Cxx>/<k>/patch.diff
(expected: exit 0, no VIOLATION line; a violation here is a false alarm).  Derived from seedtest.py: run ./check Cxx against each seeded change
/verif/seeded/<Cxx>/<k>/patch.diff applied to the scratch worktree /tmp/altrepo (never to
/repo), record whether it was detected in /verif/seeded/<Cxx>/<k>/result.json.
The scratch worktree is created from /repo's HEAD when missing and always reset afterwards."""
import sys, os, subprocess, json, time, glob
ALT = '/tmp/altrepo'
def sh(c, **k):
    return subprocess.run(c, shell=True, text=True, stdout=subprocess.PIPE, stderr=subprocess.STDOUT, **k)
def ensure_alt():
    if not os.path.exists(ALT + '/.git'):
        sh('git -C /repo worktree prune; git -C /repo worktree add --detach %s HEAD' % ALT)
    sh('git -C %s checkout -q --detach $(git -C /repo rev-parse HEAD); git -C %s checkout -- . ; git -C %s clean -fdq -e Cargo.lock -e target' % (ALT, ALT, ALT))
    if not os.path.exists(ALT + '/Cargo.lock'):
        sh('cp /repo/Cargo.lock %s/' % ALT)
def main():
    a = sys.argv[1:]
    tier = 'quick'
    if '--tier' in a:
        i = a.index('--tier'); tier = a[i + 1]; del a[i:i + 2]
    pid = a[0]
    ks = a[1:] or sorted(os.path.basename(p) for p in glob.glob('/verif/refactors/%s/*' % pid) if os.path.isdir(p))
    import fcntl
    lk = open('/tmp/altrepo.lock', 'w'); fcntl.flock(lk, fcntl.LOCK_EX)   # one seeded experiment at a time
    ensure_alt()
    for k in ks:
        d = '/verif/refactors/%s/%s' % (pid, k)
        r = sh('git -C %s apply %s/patch.diff' % (ALT, d))
        if r.returncode != 0:
            print(pid, k, 'PATCH DOES NOT APPLY', r.stdout[-300:]); continue
        t0 = time.time()
        r = sh('VERIF_REPO=%s VERIF_TIER=%s timeout 5400 /verif/check %s --tier %s' % (ALT, tier, pid, tier), cwd='/verif')
        dt = time.time() - t0
        viol = [l for l in r.stdout.splitlines() if l.startswith('VIOLATION')]
        res = {'property': pid, 'seed_id': k, 'tier': tier, 'exit': r.returncode, 'detected': bool(viol) and r.returncode == 1,
               'violation_lines': viol, 'wall_s': round(dt, 1), 'tail': r.stdout[-1500:]}
        if viol:
            rp = viol[0].split('replay=')[1].split()[0]
            try:
                j = json.load(open(rp))
                res['replay_first'] = (j.get('detail') or j.get('no_longer_checks') or [None])[0]
            except Exception as e:
                res['replay_first'] = str(e)
        json.dump(res, open(d + '/result_%s.json' % tier, 'w'), indent=1)
        print(pid, k, 'FALSE-ALARM' if viol or r.returncode != 0 else 'QUIET(ok)', 'exit %d' % r.returncode, '%.0fs' % dt, viol[:1])
        sh('git -C %s checkout -- .' % ALT)
main()
