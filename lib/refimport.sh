#!/bin/sh
# refimport.sh <Cxx> <worktree>: copy _refactor/<k>/{patch.diff,meta.json} into /verif/refactors/<Cxx>/<k>/ and remove the worktree
pid=$1; wt=$2
for k in 1 2 3; do
  s=$wt/_refactor/$k
  [ -f $s/patch.diff ] || continue
  d=/verif/refactors/$pid/$k
  mkdir -p $d
  cp $s/patch.diff $d/; [ -f $s/meta.json ] && cp $s/meta.json $d/
  echo "imported $d: $(wc -l < $d/patch.diff) patch lines"
done
git -C /repo worktree remove --force $wt && echo "removed $wt"
