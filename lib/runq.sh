#!/bin/sh
# runq.sh <tool.py> <id> ... : run the seeded-change tool for each property id, sequentially
T="$1"; shift
for p in "$@"; do python3 /verif/lib/$T "$p"; done
