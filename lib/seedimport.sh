#!/bin/sh
# seedimport.sh <Cxx> <worktree> <first-new-index>: copy _seeded/<k>/{patch.diff,demo,meta.json} of a sub-agent's scratch worktree
# into /verif/seeded/<Cxx>/<first+k-1>/ (without build output) and remove the worktree.
pid=$1; wt=$2; base=$3
for k in 1 2 3; do
  s=$wt/_seeded/$k
  [ -f $s/patch.diff ] || continue
  d=/verif/seeded/$pid/$((base + k - 1))
  mkdir -p $d
  cp $s/patch.diff $s/meta.json $d/
  rm -rf $d/demo
  rsync -a --exclude target --exclude '*.log' $s/demo/ $d/demo/
  echo "imported $d: $(wc -l < $d/patch.diff) patch lines"
done
git -C /repo worktree remove --force $wt && echo "removed $wt"
