#!/usr/bin/env python3
"""seedverify.py <Cxx> [k ...]: coordinator's own confirmation of a seeded change, in the scratch
worktree /tmp/mutverify (never /repo): (1) demo passes on clean HEAD, (2) patch applies,
(3) workspace test suite passes with the patch, (4) demo fails with the patch.  Writes
/verif/seeded/<Cxx>/<k>/verify.json."""
import sys, os, subprocess, json, time, glob, shutil, re
WT = os.environ.get('SEEDVERIFY_WT', '/tmp/mutverify')
JOBS = os.environ.get('SEEDVERIFY_JOBS', '16')
def sh(c, **k):
    return subprocess.run(c, shell=True, text=True, stdout=subprocess.PIPE, stderr=subprocess.STDOUT, **k)
def ensure():
    if not os.path.exists(WT + '/.git'):
        sh('git -C /repo worktree prune; git -C /repo worktree add --detach %s HEAD' % WT)
    sh('git -C %s checkout -- . ; git -C %s clean -fdq -e Cargo.lock -e target -e _seeded' % (WT, WT))
    if not os.path.exists(WT + '/Cargo.lock'):
        shutil.copy('/repo/Cargo.lock', WT + '/Cargo.lock')
def run_demo(pid, k, meta):
    d = '%s/_seeded/%s_%s' % (WT, pid, k)
    shutil.rmtree(d, ignore_errors=True)
    os.makedirs(d)
    src = '/verif/seeded/%s/%s/demo' % (pid, k)
    if os.path.isdir(src):
        shutil.copytree(src, d + '/demo')
        if not os.path.exists(d + '/demo/Cargo.lock'):
            shutil.copy('/repo/Cargo.lock', d + '/demo/Cargo.lock')
        cmd = 'cd %s/demo && CARGO_NET_OFFLINE=true CARGO_TARGET_DIR=%s/target/demo_%s timeout 3000 cargo run --offline -q -j %s' % (d, WT, pid, JOBS)
    else:
        return None, 'no demo dir'
    r = sh(cmd)
    return r.returncode, r.stdout[-800:]
def main():
    pid = sys.argv[1]
    ks = sys.argv[2:] or sorted(os.path.basename(p) for p in glob.glob('/verif/seeded/%s/*' % pid) if os.path.isdir(p))
    ensure()
    for k in ks:
        sd = '/verif/seeded/%s/%s' % (pid, k)
        meta = json.load(open(sd + '/meta.json'))
        out = {'property': pid, 'seed_id': k, 'head': sh('git -C %s rev-parse HEAD' % WT).stdout.strip()}
        rc0, t0 = run_demo(pid, k, meta)
        out['demo_clean_exit'] = rc0
        r = sh('git -C %s apply %s/patch.diff' % (WT, sd))
        out['patch_applies'] = r.returncode == 0
        if r.returncode == 0:
            t = time.time()
            r = sh('cd %s && CARGO_NET_OFFLINE=true timeout 5400 cargo test --workspace --no-fail-fast --offline -j %s' % (WT, JOBS))
            res = re.findall(r'test result: (\w+)\. (\d+) passed; (\d+) failed', r.stdout)
            out['suite_exit'] = r.returncode
            out['suite_passed'] = sum(int(x[1]) for x in res)
            out['suite_failed'] = sum(int(x[2]) for x in res)
            out['suite_wall_s'] = round(time.time() - t)
            if r.returncode != 0:
                out['suite_tail'] = r.stdout[-1500:]
            rc1, t1 = run_demo(pid, k, meta)
            out['demo_patched_exit'] = rc1
            out['demo_patched_tail'] = t1[-400:]
        sh('git -C %s checkout -- .' % WT)
        out['confirmed'] = bool(out.get('patch_applies') and out.get('suite_exit') == 0 and out.get('suite_failed') == 0
                                and out.get('demo_clean_exit') == 0 and out.get('demo_patched_exit') not in (0, None))
        json.dump(out, open(sd + '/verify.json', 'w'), indent=1)
        print(pid, k, 'CONFIRMED' if out['confirmed'] else 'NOT-CONFIRMED', json.dumps({a: out.get(a) for a in ('demo_clean_exit', 'suite_exit', 'suite_passed', 'suite_failed', 'demo_patched_exit')}), flush=True)
main()
