#!/usr/bin/env python3
import subprocess, re
out = subprocess.run(['python3', '/verif/lib/mkstatus.py'], text=True, stdout=subprocess.PIPE).stdout
p = '/verif/DESIGN.md'
s = open(p).read()
a = s.index('<!-- BEGIN GENERATED STATUS -->') + len('<!-- BEGIN GENERATED STATUS -->')
b = s.index('<!-- END GENERATED STATUS -->')
s = s[:a] + '\n' + out + '\n' + s[b:]
open(p, 'w').write(s)
