#!/usr/bin/env python3
"""Engine behind ./check <Cxx>.  See DESIGN.md §1.2 / §4.

Per property directory props/<Cxx>/prop.py supplies:
  OPS            dict opname -> opcode (the Coq Run.v dispatches on the code, the Rust
                 harness on the name)
  gen(rng, tier) iterator of (opname, args, cls): args = list of lists of ints
  and optionally: HARNESS_BIN, HARNESS_FEATURES, COQ_PROPS, COQ_EXTRACT, pre(ctx),
  nontrivial(case, out), XCHECK (dict tier -> sample size), TRUSTED, ASSUMPTIONS, RULE,
  AXIOM_ALLOW (extra allowed axiom names), HYPOTHESES (named section hypotheses that
  appear as premises), extra(ctx) (property-specific extra steps returning
  list of mismatch dicts), SHARDS.
"""
import sys, os, re, json, time, random, subprocess, importlib.util, hashlib, shutil

ROOT = '/verif'
COQ = ROOT + '/coq'
BUILD = ROOT + '/build'
# The registered checks always run against /repo.  VERIF_REPO=<dir> (used only for the
# coordinator's own mutation experiments on a scratch worktree, so that /repo is never
# touched while other work builds against it) redirects the harness build and every
# translator to that tree; evidence and replays then go to build/alt/ instead.
REPO = os.environ.get('VERIF_REPO', '/repo').rstrip('/')
ALT = REPO != '/repo'
if ALT:
    # private copies: the Coq tree (translators rewrite generated .v files), scratch dirs
    SRC_COQ = COQ
    COQ = BUILD + '/alt/coq'
    BUILD_ALT = BUILD + '/alt'
GUARD = 'arkworks_rs_algebra_verif'
NCPU = 16

GLOBAL_AXIOM_ALLOW = {
    # standard-library axioms a tactic may bring in; each use is named in the evidence
    'functional_extensionality_dep', 'Coq.Logic.FunctionalExtensionality.functional_extensionality_dep',
    'FunctionalExtensionality.functional_extensionality_dep',
}
# primitive-integer constants reported by Print Assumptions for Bignums/Uint63 users
PRIMITIVE_PREFIXES = ('Uint63.', 'PrimInt63.', 'Coq.Numbers.Cyclic.Int63.', 'Int63.', 'PrimFloat.', 'Coq.Floats.')

FORBIDDEN = re.compile(
    r'\b(Admitted|admit|Axiom|Axioms|Parameter|Parameters|Conjecture|Conjectures)\b'
    r'|Unset\s+Guard|Unset\s+Positivity|Unset\s+Universe|bypass_check|Admit\s+Obligations|type-in-type|impredicative-set')


def log(*a):
    print('[check]', *a, file=sys.stderr, flush=True)


def sh(cmd, cwd=None, timeout=None, env=None, inp=None):
    e = dict(os.environ)
    e['CARGO_NET_OFFLINE'] = 'true'
    if env:
        e.update(env)
    # own process group, so that a timeout also stops the children (make -> coqc, cargo -> rustc)
    p = subprocess.Popen(cmd, cwd=cwd, shell=isinstance(cmd, str), env=e, stdin=subprocess.PIPE if inp is not None else None,
                         stdout=subprocess.PIPE, stderr=subprocess.STDOUT, text=True, start_new_session=True)
    try:
        out, _ = p.communicate(inp, timeout=timeout)
        return p.returncode, out
    except subprocess.TimeoutExpired:
        import signal
        try:
            os.killpg(p.pid, signal.SIGKILL)
        except OSError:
            pass
        try:
            out, _ = p.communicate(timeout=10)
        except Exception:
            out = ''
        return 124, (out or '') + '\nTIMEOUT after %ss' % timeout


def strip_coq_comments(s):
    out, depth, i, n = [], 0, 0, len(s)
    instr = False
    while i < n:
        if not instr and s.startswith('(*', i):
            depth += 1; i += 2; continue
        if not instr and depth > 0 and s.startswith('*)', i):
            depth -= 1; i += 2; continue
        c = s[i]
        if depth == 0:
            if c == '"':
                instr = not instr
            out.append(c)
        i += 1
    return ''.join(out)


def coq_files():
    fs = []
    for d, _, names in os.walk(COQ):
        for n in names:
            if n.endswith('.v'):
                fs.append(os.path.relpath(os.path.join(d, n), COQ))
    return sorted(fs)


def ensure_coq_makefile():
    files = coq_files()
    text = '-Q . V\n-arg -w -arg -notation-overridden,-deprecated-hint-without-locality,-non-recursive,-deprecated-instance-without-locality,-unused-pattern-matching-variable\n' + '\n'.join(files) + '\n'
    p = COQ + '/_CoqProject'
    if not os.path.exists(p) or open(p).read() != text or not os.path.exists(COQ + '/Makefile'):
        open(p, 'w').write(text)
        rc, out = sh('coq_makefile -f _CoqProject -o Makefile', cwd=COQ, timeout=120)
        if rc != 0:
            raise RuntimeError('coq_makefile failed: ' + out)


class BuildLock:
    """serialises Coq builds in the shared tree (several checks may run at once)"""
    def __enter__(self):
        import fcntl
        os.makedirs(BUILD, exist_ok=True)
        self.f = open(BUILD + '/.coq.lock', 'w')
        fcntl.flock(self.f, fcntl.LOCK_EX)
        return self

    def __exit__(self, *a):
        import fcntl
        fcntl.flock(self.f, fcntl.LOCK_UN)
        self.f.close()


def coq_make(targets, timeout):
    with BuildLock():
        ensure_coq_makefile()
        rc, out = sh(['make', '-j%d' % NCPU] + targets, cwd=COQ, timeout=timeout)
    return rc, out


def forbidden_scan():
    hits = []
    for f in coq_files():
        s = strip_coq_comments(open(os.path.join(COQ, f)).read())
        for m in FORBIDDEN.finditer(s):
            line = s.count('\n', 0, m.start()) + 1
            hits.append('%s:%d: %s' % (f, line, m.group(0)))
    return hits


def theorem_names(vfile):
    s = strip_coq_comments(open(vfile).read())
    return re.findall(r'^\s*Theorem\s+([A-Za-z0-9_\']+)', s, re.M)


def print_assumptions(pid, thms, timeout=600, tag=None):
    """returns dict thm -> list of axiom names ([] = closed).  The theorems are split into shards that run in
    parallel coqc processes (Print Assumptions walks whole proof terms: ~0.25 s per large theorem)."""
    d = (BUILD_ALT if ALT else BUILD) + '/assum'
    os.makedirs(d, exist_ok=True)
    if not thms:
        return {}, ''
    nsh = max(1, min(NCPU, (len(thms) + 23) // 24))
    shards = [thms[i::nsh] for i in range(nsh)]
    procs = []
    for k, part in enumerate(shards):
        f = '%s/Assum_%s_%d.v' % (d, tag or pid, k)
        with open(f, 'w') as fh:
            fh.write('From V Require Import Props.%s.\n' % pid)
            for t in part:
                fh.write('Print Assumptions %s.\n' % t)
        procs.append((part, subprocess.Popen(['timeout', str(timeout), 'coqc', '-noglob', '-Q', COQ, 'V', f], cwd=d,
                                             stdout=subprocess.PIPE, stderr=subprocess.STDOUT, text=True)))
    result, raw = {}, ''
    for part, pr in procs:
        out, _ = pr.communicate()
        raw += out
        if pr.returncode != 0:
            raise RuntimeError('Print Assumptions run failed:\n' + out[-2000:])
        blocks, cur = [], None
        # output is a sequence of blocks, one per Print Assumptions, in order
        for line in out.splitlines():
            if line.startswith('Closed under the global context'):
                cur = None
                blocks.append([])
            elif line.startswith('Axioms:'):
                cur = []
                blocks.append(cur)
            elif cur is not None and line and not line[0].isspace():
                m = re.match(r"^([A-Za-z_][A-Za-z0-9_\.']*)", line)
                if m:
                    cur.append(m.group(1))
        if len(blocks) != len(part):
            allax = sorted({a for b in blocks for a in b})
            result.update({t: allax for t in part})
        else:
            result.update(dict(zip(part, blocks)))
    return result, raw


def axioms_ok(ax, extra):
    bad = []
    for a in ax:
        if a in GLOBAL_AXIOM_ALLOW or a in extra:
            continue
        if a.startswith(PRIMITIVE_PREFIXES):
            continue
        bad.append(a)
    return bad


def fmt_int(v):
    return ('-%x' % -v) if v < 0 else ('%x' % v)


def fmt_arg(a):
    return ','.join(fmt_int(x) for x in a) if a else '_'


def parse_arg(s):
    if s == '_':
        return []
    return [(-int(t[1:], 16) if t.startswith('-') else int(t, 16)) for t in s.split(',')]


def case_line(ops, op, args):
    return '%d:%s %s' % (ops[op], op, ' '.join(fmt_arg(a) for a in args))


def run_sharded(binary, lines, shards, timeout, env=None, cwd=None):
    """feeds lines to `binary` in `shards` parallel processes; returns list of output lines or raises"""
    if not lines:
        return []
    shards = max(1, min(shards, (len(lines) + 199) // 200))
    chunks = [lines[i::shards] for i in range(shards)]
    procs = []
    e = dict(os.environ)
    if env:
        e.update(env)
    for c in chunks:
        p = subprocess.Popen(binary if isinstance(binary, list) else [binary], stdin=subprocess.PIPE, stdout=subprocess.PIPE,
                             stderr=subprocess.PIPE, text=True, env=e, cwd=cwd)
        procs.append((p, c))
    outs = []
    import threading
    results = [None] * len(procs)

    def work(i, p, c):
        try:
            o, er = p.communicate('\n'.join(c) + '\n', timeout=timeout)
            results[i] = (p.returncode, o, er)
        except subprocess.TimeoutExpired:
            p.kill()
            results[i] = (124, '', 'timeout')
    ths = [threading.Thread(target=work, args=(i, p, c)) for i, (p, c) in enumerate(procs)]
    [t.start() for t in ths]
    [t.join() for t in ths]
    merged = [None] * len(lines)
    hangs = 0                      # hanging cases isolated so far, over ALL shards
    for i, (rc, o, er) in enumerate(results):
        ol = o.splitlines()
        if rc != 0 or len(ol) != len(chunks[i]):
            # a crash (abort/segfault) inside a shard: re-run that shard line by line
            ol = []
            for ln in chunks[i]:
                if hangs >= 3:
                    # three hanging cases isolated in this shard already (each is reported as a disagreement): the rest of
                    # the shard is not run -- isolating every line of a hanging implementation would take hours
                    ol.append('SKIP')
                    continue
                try:
                    pp = subprocess.run(binary if isinstance(binary, list) else [binary], input=ln + '\n', stdout=subprocess.PIPE,
                                        stderr=subprocess.PIPE, text=True, timeout=min(timeout, 30), env=e, cwd=cwd)
                    lo = pp.stdout.splitlines()
                    ol.append(lo[0] if (pp.returncode == 0 and len(lo) == 1) else '3')   # 3 = abort
                except subprocess.TimeoutExpired:
                    ol.append('4')                                                          # 4 = hang
                    hangs += 1
        for j, l in enumerate(ol):
            merged[i + j * len(chunks)] = l
    return merged


def coq_Z(v):
    return str(v) if v >= 0 else '(%d)' % v


def coq_list(l, f):
    return '[' + '; '.join(f(x) for x in l) + ']'


def kernel_xcheck(pid, runname, sample, timeout):
    """sample: list of (opcode, args, expected_out_lists). True/False, message"""
    if not sample:
        return True, 'empty', 0
    d = (BUILD_ALT if ALT else BUILD) + '/xcheck'
    os.makedirs(d, exist_ok=True)
    shards = min(NCPU, max(1, len(sample) // 25))
    files = []
    for s in range(shards):
        part = sample[s::shards]
        f = '%s/X%s_%d.v' % (d, pid, s)
        with open(f, 'w') as fh:
            fh.write('From V Require Import %s.Run.\nRequire Import ZArith List. Import ListNotations. Open Scope Z_scope.\n' % pid)
            fh.write('Definition cases : list (Z * list (list Z)) :=\n' +
                     coq_list(part, lambda c: '(%s, %s)' % (coq_Z(c[0]), coq_list(c[1], lambda a: coq_list(a, coq_Z)))) + '.\n')
            fh.write('Definition expected : list (list (list Z)) :=\n' +
                     coq_list(part, lambda c: coq_list(c[2], lambda a: coq_list(a, coq_Z))) + '.\n')
            fh.write('Goal map (fun c => %s (fst c) (snd c)) cases = expected.\nProof. vm_compute. reflexivity. Qed.\n' % runname)
        files.append(f)
    procs = [subprocess.Popen(['timeout', str(timeout), 'coqc', '-noglob', '-Q', COQ, 'V', f], cwd=d,
                              stdout=subprocess.PIPE, stderr=subprocess.STDOUT, text=True) for f in files]
    ok, msg = True, ''
    for p, f in zip(procs, files):
        o, _ = p.communicate()
        if p.returncode != 0:
            ok = False
            msg += '%s: rc=%d %s\n' % (f, p.returncode, o[-600:])
    return ok, msg, len(sample)


def load_prop(pid):
    path = '%s/props/%s/prop.py' % (ROOT, pid)
    spec = importlib.util.spec_from_file_location('prop_' + pid, path)
    m = importlib.util.module_from_spec(spec)
    sys.path.insert(0, os.path.dirname(path))
    spec.loader.exec_module(m)
    return m


def load_findings(pid):
    p = ROOT + '/known_findings.json'
    if not os.path.exists(p):
        return []
    d = json.load(open(p))
    return [f for f in d.get('findings', []) if f.get('property') == pid]


def finding_matches(f, case):
    m = f.get('match', {})
    for k, v in m.items():
        if k == 'op':
            if case['op'] != v:
                return False
        elif k == 'class_re':
            if not re.search(v, case.get('class', '')):
                return False
        elif k == 'arg0':
            if not case['args'] or case['args'][0] != v:
                return False
        elif k == 'cfg':
            if case.get('cfg') != v:
                return False
        else:
            if case.get(k) != v:
                return False
    return True


def harness_dir():
    """directory to run cargo in, and the target dir it uses"""
    if not ALT:
        return ROOT + '/harness', BUILD + '/target'
    d = BUILD + '/alt/harness'
    os.makedirs(d, exist_ok=True)
    toml = open(ROOT + '/harness/Cargo.toml').read().replace('"/repo/', '"%s/' % REPO)
    if not os.path.exists(d + '/Cargo.toml') or open(d + '/Cargo.toml').read() != toml:
        open(d + '/Cargo.toml', 'w').write(toml)
    if not os.path.islink(d + '/src'):
        os.symlink(ROOT + '/harness/src', d + '/src')
    os.makedirs(d + '/.cargo', exist_ok=True)
    open(d + '/.cargo/config.toml', 'w').write('[net]\noffline = true\n[build]\ntarget-dir = "%s/alt/target"\n' % BUILD)
    shutil.copy('/repo/Cargo.lock', d + '/Cargo.lock') if not os.path.exists(d + '/Cargo.lock') else None
    return d, BUILD + '/alt/target'


def write_evidence(pid, ev):
    if ALT:
        os.makedirs(BUILD + '/alt/evidence', exist_ok=True)
        with open('%s/alt/evidence/%s.json' % (BUILD, pid), 'w') as f:
            json.dump(ev, f, indent=1, sort_keys=True)
        return
    os.makedirs(ROOT + '/evidence', exist_ok=True)
    with open('%s/evidence/%s.json' % (ROOT, pid), 'w') as f:
        json.dump(ev, f, indent=1, sort_keys=True)
        f.write('\n')


def main():
    t0 = time.time()
    args = sys.argv[1:]
    if not args:
        print('usage: check <Cxx> [--tier quick|thorough] [--replay file]')
        sys.exit(2)
    pid = args[0]
    tier = os.environ.get('VERIF_TIER', 'quick')
    replay = None
    i = 1
    while i < len(args):
        if args[i] == '--tier':
            tier = args[i + 1]; i += 2
        elif args[i] == '--replay':
            replay = args[i + 1]; i += 2
        else:
            i += 1
    if tier not in ('quick', 'thorough'):
        tier = 'quick'
    seed = int(os.environ.get('VERIF_SEED', '20260926'))
    if ALT:
        os.makedirs(COQ, exist_ok=True)
        sh(['rsync', '-a', '--delete', SRC_COQ + '/', COQ + '/'])
        os.makedirs(BUILD_ALT + '/build/ocaml', exist_ok=True)
        sh(['rsync', '-a', BUILD + '/ocaml/', BUILD_ALT + '/build/ocaml/'])
    prop = load_prop(pid)
    ops = prop.OPS
    runname = getattr(prop, 'RUN_NAME', 'run_' + pid)
    hbin = getattr(prop, 'HARNESS_BIN', pid.lower())
    os.makedirs(BUILD, exist_ok=True)
    notes, violations, known_hits = [], [], []
    lost = []          # obligations / correspondences that no longer check
    ctx = {'pid': pid, 'tier': tier, 'seed': seed, 'notes': notes, 'sh': sh, 'BUILD': BUILD, 'COQ': COQ, 'ROOT': ROOT,
           'REPO': REPO, 'ALT': ALT, 'harness_dir': harness_dir}

    # 1. translators (source -> generated .v)
    if hasattr(prop, 'pre'):
        try:
            prop.pre(ctx)
        except Exception as ex:
            notes.append('pre-step: %s' % ex)
            if getattr(prop, 'PRE_FATAL', False):
                lost.append('translator: %s' % ex)

    # 2. model build (Run.v + extraction) -- needed for any execution
    ext_t = getattr(prop, 'COQ_EXTRACT', 'Extract/Extract%s.vo' % pid)
    rc, out = coq_make([ext_t], timeout=3000)
    if rc != 0:
        log(out[-3000:])
        print('MACHINERY-ERROR: model of %s does not build' % pid)
        # the model itself is broken (it is hand written; only generated inputs can break it)
        lost.append('model build (%s)' % ext_t)
    model_bin = '%s/bin/model_%s' % (BUILD_ALT if ALT else BUILD, pid)
    menv = {'VERIF_OCAML_DIR': BUILD_ALT + '/build/ocaml', 'VERIF_BIN_DIR': BUILD_ALT + '/bin'} if ALT else None
    if not lost:
        rc, out = sh([ROOT + '/lib/build_model.sh', pid], timeout=900, env=menv)
        if rc != 0:
            log(out[-3000:])
            print('MACHINERY-ERROR: extracted model of %s does not compile' % pid)
            sys.exit(2)

    # 3. proof obligations
    props_v = '%s/Props/%s.v' % (COQ, pid)
    thms = theorem_names(props_v)
    # further pinned-theorem files this property also relies on (e.g. Props/Bridge.v: the
    # abstract-field theorems instantiated at the executed ZpOps dictionary)
    extra_props = [e for e in getattr(prop, 'EXTRA_PROP_FILES', []) if os.path.exists('%s/Props/%s.v' % (COQ, e))]
    extra_thms = {e: theorem_names('%s/Props/%s.v' % (COQ, e)) for e in extra_props}
    rc, out = coq_make([getattr(prop, 'COQ_PROPS', 'Props/%s.vo' % pid)], timeout=3400)
    # supplementary pinned files import OTHER packages too; when one of them does not build
    # although this property's own file does, the cause lies in another package (it is
    # reported by that package's check), so it is noted here, not raised as an alarm
    built_extra = []
    for e in extra_props:
        rce, oute = coq_make(['Props/%s.vo' % e], timeout=3400) if rc == 0 else (1, '')
        if rce == 0:
            built_extra.append(e)
        else:
            notes.append('supplementary theorems Props/%s.v not checked in this run (a file of another package it imports does not build)' % e)
    extra_props = built_extra
    # translator-tied pinned files (STRICT_PROP_FILES, e.g. Props/Gen.v over the regenerated Gen/GenField.v): they are
    # rebuilt against the text the translator produced from the working tree in pre(); a failure IS a lost obligation
    strict_props = [e for e in getattr(prop, 'STRICT_PROP_FILES', []) if os.path.exists('%s/Props/%s.v' % (COQ, e))]
    strict_lost = []
    for e in strict_props:
        # bounded: a changed formula can make a proof search run away; not finishing in time = obligation not re-established
        rce, oute = coq_make(['Props/%s.vo' % e], timeout=420 if tier == 'quick' else 1800)
        if rce == 0:
            extra_props.append(e)
            extra_thms[e] = theorem_names('%s/Props/%s.v' % (COQ, e))
        else:
            log(oute[-2000:])
            m = re.search(r'File "\./([^"]+)", line (\d+)', oute)
            where, lem = (m.group(0) if m else 'unknown location'), '?'
            if m:
                try:
                    src = open(os.path.join(COQ, m.group(1))).read().splitlines()[:int(m.group(2))]
                    ls = [l for l in src if re.match(r'\s*(Lemma|Theorem|Example|Corollary)\s', l)]
                    lem = ls[-1].split()[1] if ls else '?'
                except OSError:
                    pass
            strict_lost.append('translator-tied obligation Props/%s.v no longer checks against the regenerated model: %s (%s)' % (e, lem, where))
    discharged = 0
    failing_obligation = None
    ax_report = {}
    if rc != 0:
        log(out[-3000:])
        m = re.search(r'File "\./([^"]+)", line (\d+)', out)
        failing_obligation = 'proof build failed at %s' % (m.group(0) if m else 'unknown location')
        lost.append(failing_obligation)
    else:
        try:
            ax_report, raw = print_assumptions(pid, thms)
            for e in extra_props:
                r2, _ = print_assumptions(e, extra_thms[e], tag='%s_%s' % (pid, e))
                ax_report.update(r2)
            thms = thms + [t for e in extra_props for t in extra_thms[e]]
        except Exception as ex:
            print('MACHINERY-ERROR: %s' % ex)
            sys.exit(2)
        extra_allow = set(getattr(prop, 'AXIOM_ALLOW', []))
        for t in thms:
            bad = axioms_ok(ax_report.get(t, []), extra_allow)
            if bad:
                lost.append('theorem %s depends on non-allow-listed assumptions %s' % (t, bad))
            else:
                discharged += 1
    # thorough tier: independent re-check of the compiled library closure with coqchk
    coqchk_report = None
    if tier == 'thorough' and rc == 0 and not replay and os.environ.get('VERIF_NO_COQCHK') != '1':
        mods = ['V.Props.%s' % pid] + ['V.Props.%s' % e for e in extra_props]
        # a package whose pinned file depends on kernel-computation-heavy modules (vm_compute facts over Bignums: coqchk
        # re-checks those by lazy reduction, hours) names the modules to re-check instead (COQCHK_MODULES)
        mods = list(getattr(prop, 'COQCHK_MODULES', mods))
        rc2, out2 = sh(['coqchk', '-o', '-silent', '-Q', COQ, 'V'] + mods, cwd=COQ, timeout=int(getattr(prop, 'COQCHK_TIMEOUT', 2400)))
        axl = []
        if rc2 == 124:
            # the independent checker did not finish: inconclusive, not a refutation; Print Assumptions above stands
            notes.append('coqchk did not finish within its time limit on %s (inconclusive; the coqc kernel check and Print Assumptions stand)' % mods)
            coqchk_report = {'modules': mods, 'result': 'timeout (inconclusive)'}
            out2 = None
        m = re.search(r'\* Axioms:(.*?)\n\s*\n\* Constants/Inductives relying on type-in-type:(.*?)\n\s*\n\* Constants/Inductives relying on unsafe \(co\)fixpoints:(.*?)\n\s*\n\* Inductives whose positivity is assumed:(.*?)\n', (out2 or '') + '\n\n', re.S)
        if out2 is None:
            pass
        elif rc2 != 0 or not m:
            lost.append('coqchk failed on %s: %s' % (mods, out2[-400:]))
        else:
            axl = [a.strip() for a in m.group(1).replace('<none>', '').split('\n') if a.strip()]
            unsafe = [g.strip() for g in (m.group(2), m.group(3), m.group(4)) if g.strip() and g.strip() != '<none>']
            bad = [a for a in axl if not a.split(' ')[0].startswith(PRIMITIVE_PREFIXES + ('Coq.Numbers.Cyclic.Int63', 'Bignums.', 'Coq.Floats'))
                   and a.split(' ')[0] not in GLOBAL_AXIOM_ALLOW and a.split(' ')[0] not in set(getattr(prop, 'AXIOM_ALLOW', []))]
            if bad or unsafe:
                lost.append('coqchk reports assumptions outside the allow-list: %s %s' % (bad[:5], unsafe[:3]))
            coqchk_report = {'modules': mods, 'axioms': axl or ['<none>'], 'unsafe': unsafe or ['<none>']}
    lost.extend(strict_lost)
    hits = forbidden_scan()
    if hits:
        lost.append('forbidden constructs in the development: ' + '; '.join(hits[:5]))

    # 4. harness build from the current working tree
    if not os.path.exists(ROOT + '/harness/Cargo.lock'):
        shutil.copy('/repo/Cargo.lock', ROOT + '/harness/Cargo.lock')
    feats = getattr(prop, 'HARNESS_FEATURES', '')
    cmd = 'cargo build --offline --bin %s %s' % (hbin, ('--features ' + feats) if feats else '')
    hdir, tdir = harness_dir()
    rc, out = sh(cmd, cwd=hdir, timeout=3000, env={'RUSTFLAGS': '--cfg ' + GUARD})
    harness_ok = rc == 0
    if not harness_ok:
        log(out[-4000:])
        lost.append('correspondence harness does not compile against the working tree (bin %s)' % hbin)
    hbin_path = '%s/debug/%s' % (tdir, hbin)
    ctx['hbin_path'] = hbin_path

    # 5. cases
    rng = random.Random(seed)
    cases = []
    if replay:
        rp = json.load(open(replay))
        for c in rp.get('cases', []):
            cases.append({'op': c['op'], 'args': c['args'], 'class': c.get('class', 'replay')})
    else:
        corpus = '%s/props/%s/corpus.jsonl' % (ROOT, pid)
        if os.path.exists(corpus):
            for l in open(corpus):
                l = l.strip()
                if l:
                    c = json.loads(l)
                    cases.append({'op': c['op'], 'args': c['args'], 'class': c.get('class', 'corpus')})
        gen_tier = tier
        if lost and tier == 'quick':
            gen_tier = 'thorough'          # violation search: escalate
            notes.append('escalated to the thorough generator because an obligation/correspondence was lost')
        elif tier == 'quick' and any(('kept previous' in n or 'could not' in n or 'TranslateError' in n or 'ExpandError' in n)
                                     for n in notes):
            # a translator could not follow the new source text: its obligation was checked against the PREVIOUS text only,
            # so the correspondence has to carry this run alone -- spend the thorough budget on it (DESIGN 3.3 / 4.2 E)
            gen_tier = 'thorough'
            notes.append('escalated to the thorough generator because a translator could not translate the current source')
        for (op, a, cls) in prop.gen(rng, gen_tier):
            cases.append({'op': op, 'args': a, 'class': cls})
    lines = [case_line(ops, c['op'], c['args']) for c in cases]
    os.makedirs(BUILD + '/cases', exist_ok=True)
    with open('%s/cases/%s.txt' % (BUILD, pid), 'w') as f:
        f.write('\n'.join(lines) + '\n')

    # 6. run both sides
    impl_out = model_out = None
    mismatches = []
    have_model = os.path.exists(model_bin) and 'model build' not in ' '.join(lost)
    if harness_ok and have_model:
        shards = getattr(prop, 'SHARDS', NCPU)
        ulimit = 'ulimit -s unlimited 2>/dev/null; exec %s' % model_bin
        # a hang on the implementation side shows up as output `4`, i.e. a disagreement.  The model is extracted from total
        # Gallina functions and does not depend on /repo: it always gets the long time-out, and the implementation's quick
        # time-out scales with what the model needed on this machine under the present load (never below 300 s)
        t_model = time.time()
        model_out = run_sharded(['sh', '-c', ulimit], lines, shards, timeout=3000)
        t_model = time.time() - t_model
        run_to = max(300, int(6 * t_model)) if tier == 'quick' else 3000
        impl_out = run_sharded(hbin_path, lines, shards, timeout=run_to,
                               env=getattr(prop, 'HARNESS_ENV', None))
        for k, c in enumerate(cases):
            io, mo = impl_out[k], model_out[k]
            if io == 'SKIP' or mo == 'SKIP':
                continue                     # not run (a shard with several hanging cases, see run_sharded)
            if io is None or mo is None:
                mismatches.append((k, 'missing output'))
                continue
            if io.split(' ')[0] == '9' or mo.split(' ')[0] == '9':
                print('MACHINERY-ERROR: unsupported op in case %d: %s' % (k, lines[k][:200]))
                sys.exit(2)
            if io != mo:
                mismatches.append((k, 'differs'))
    if hasattr(prop, 'extra') and harness_ok:
        try:
            for mm in prop.extra(ctx, cases, lines, impl_out, model_out):
                mismatches.append(mm)
        except Exception as ex:
            print('MACHINERY-ERROR: extra step failed: %s' % ex)
            sys.exit(2)

    # 7. in-kernel re-evaluation of a stratified sample (validates extraction)
    xn = getattr(prop, 'XCHECK', {'quick': 200, 'thorough': 2000}).get(tier, 200)
    x_ok, x_msg, x_n = True, '', 0
    if model_out is not None and not replay and xn > 0:
        by_op = {}
        xcost = getattr(prop, 'xcheck_ok', lambda c: True)
        for k, c in enumerate(cases):
            if xcost(c):
                by_op.setdefault(c['op'], []).append(k)
        pick = []
        per = max(1, xn // max(1, len(by_op)))
        r2 = random.Random(seed + 1)
        for op, ks in sorted(by_op.items()):
            r2.shuffle(ks)
            pick += ks[:per]
        sample = [(ops[cases[k]['op']], cases[k]['args'], [parse_arg(t) for t in model_out[k].split(' ')]) for k in pick
                  if model_out[k] is not None and model_out[k] != 'SKIP']
        x_ok, x_msg, x_n = kernel_xcheck(pid, runname, sample, timeout=1500)
        if not x_ok:
            log(x_msg)
            print('MACHINERY-ERROR: extracted model and in-kernel evaluation disagree (extraction cross-check)')
            sys.exit(2)

    # 8. decide
    findings = load_findings(pid)
    RPL = (BUILD + '/alt/replays') if ALT else (ROOT + '/replays')
    os.makedirs(RPL, exist_ok=True)
    new_viol = []
    for (k, why) in mismatches:
        if isinstance(k, dict):          # produced by extra(): already a full record
            rec = k
            c = rec.get('case', {'op': rec.get('op', '?'), 'args': [], 'class': rec.get('class', '')})
        else:
            c = cases[k]
            rec = {'case': c, 'line': lines[k], 'impl': impl_out[k] if impl_out else None,
                   'model': model_out[k] if model_out else None, 'why': why}
        f = next((f for f in findings if finding_matches(f, c)), None)
        if f:
            known_hits.append((f, rec))
        else:
            new_viol.append(rec)
    for fid in sorted({f['id'] for f, _ in known_hits}):
        f = next(f for f, _ in known_hits if f['id'] == fid)
        print('KNOWN-FINDING: property=%s %s (%s)' % (pid, f['what'], fid))
    exit_code = 0
    replay_path = None
    if new_viol:
        # smallest case first: shortest line
        new_viol.sort(key=lambda r: len(r.get('line') or ''))
        replay_path = '%s/%s_seed%d.json' % (RPL, pid, seed)
        with open(replay_path, 'w') as f:
            json.dump({'property': pid, 'seed': seed, 'tier': tier,
                       'cases': [r['case'] for r in new_viol[:20]],
                       'detail': new_viol[:20], 'lost': lost,
                       'how': './check %s --replay %s' % (pid, replay_path)}, f, indent=1)
        print('VIOLATION property=%s replay=%s' % (pid, replay_path))
        exit_code = 1
    elif lost:
        replay_path = '%s/%s_lost_seed%d.json' % (RPL, pid, seed)
        with open(replay_path, 'w') as f:
            json.dump({'property': pid, 'seed': seed, 'tier': tier, 'cases': [],
                       'no_longer_checks': lost,
                       'searched': {'cases': len(cases), 'tier': 'thorough' if tier == 'quick' else tier}}, f, indent=1)
        print('VIOLATION property=%s replay=%s no-failing-input-found' % (pid, replay_path))
        exit_code = 1

    # 9. evidence
    nontriv = getattr(prop, 'nontrivial', None)
    distinct = set()
    classes = {}
    opsh = {}
    for k, c in enumerate(cases):
        classes[c['class']] = classes.get(c['class'], 0) + 1
        opsh[c['op']] = opsh.get(c['op'], 0) + 1
        o = impl_out[k] if impl_out else None
        if nontriv is None:
            nt = any(any(x != 0 for x in a) for a in c['args'][1:]) if len(c['args']) > 1 else False
        else:
            nt = nontriv(c, o)
        if nt:
            distinct.add(lines[k])
    samples = []
    seen_ops = set()
    for k, c in enumerate(cases):
        if c['op'] not in seen_ops and len(lines[k]) < 400:
            seen_ops.add(c['op'])
            samples.append({'case': lines[k], 'class': c['class'], 'impl': (impl_out[k] if impl_out else None)})
        if len(samples) >= 12:
            break
    trusted = ['Coq 8.16.1 kernel and vm_compute (no native_compute)',
               'extraction to OCaml with ExtrOcamlBasic + ExtrOcamlZBigInt directives only (validated in-kernel on %d cases this run)' % x_n,
               'correspondence harness (Rust case interpreter harness/src/bin/%s.rs, ocaml/driver.ml, lib/vcheck.py)' % hbin]
    trusted += list(getattr(prop, 'TRUSTED', []))
    axioms_used = sorted({a for t in ax_report for a in ax_report[t]})
    ev = {
        'property_id': pid, 'tier': tier, 'seed': seed, 'level': 'proof',
        'coverage': {
            'obligations': len(thms), 'discharged': discharged,
            'checker_cmd': 'make -C /verif/coq Props/%s.vo  (coqc 8.16.1, full .vo build) + Print Assumptions on every theorem of Props/%s.v' % (pid, pid),
            'trusted_base': trusted,
            'theorems': thms,
            'axioms_reported_by_print_assumptions': axioms_used if axioms_used else ['none: Closed under the global context'],
            'section_hypotheses': list(getattr(prop, 'HYPOTHESES', [])),
            'evaluations': len(cases),
            'distinct_nontrivial': len(distinct),
            'rule': getattr(prop, 'RULE', 'cases from props/%s/prop.py; non-trivial = some operand other than the first (size) argument is non-zero; distinct = distinct case lines' % pid),
            'samples': samples,
            'traces_validated_against_impl': len(cases) if impl_out else 0,
            'kernel_reevaluated': x_n,
            'class_histogram': classes, 'op_histogram': opsh,
            'known_findings_hit': sorted({f['id'] for f, _ in known_hits}),
            'lost_obligations_or_correspondences': lost,
            'coqchk': coqchk_report if coqchk_report else 'thorough tier only',
            'notes': notes,
        },
        'assumptions': list(getattr(prop, 'ASSUMPTIONS', [])),
        'wall_s': round(time.time() - t0, 2),
        'violations': len(new_viol) + (1 if (lost and not new_viol) else 0),
    }
    write_evidence(pid, ev)
    log('%s: %d cases, %d mismatches (%d known), obligations %d/%d, %.1fs' % (
        pid, len(cases), len(mismatches), len(known_hits), discharged, len(thms), time.time() - t0))
    sys.exit(exit_code)


if __name__ == '__main__':
    main()
