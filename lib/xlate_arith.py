#!/usr/bin/env python3
"""T-leaf translator: straight-line u128 leaf arithmetic of
/repo/ff/src/biginteger/arithmetic.rs  ->  coq/C15/GenArith.v

Restricted grammar (anything else is a TranslateError, never a guess):
  stmt  ::= 'let' ident '=' expr ';' | lvalue '=' expr ';' | expr          (last = value)
  expr  ::= literal | ident | '*'ident | '$'ident | expr 'as' ty | expr binop expr
          | '(' expr ')' | path '(' expr,* ')' | 'if' expr '{' lit '}' 'else' '{' lit '}'
          | 'u8::from' '(' expr ')'
Every fixed-width operation is emitted with its wrap-around written out
(`mod 2^k`), so the Coq lemmas of LeafSpecs.v have to *prove* that no wrap happens.
"""
import re, sys, os

class TranslateError(Exception):
    pass

BITS = {'u8': 8, 'u64': 64, 'u128': 128}

# name -> (kind, params [(name, type, mutable)], outputs: list of names ('ret' = value))
TABLE = {
    'adc':                      ('fn',    [('a', 'u64', True), ('b', 'u64', False), ('carry', 'u64', False)], ['a', 'ret']),
    'adc_for_add_with_carry':   ('fn',    [('a', 'u64', True), ('b', 'u64', False), ('carry', 'u8', False)], ['a', 'ret']),
    'adc_no_carry':             ('fn',    [('a', 'u64', False), ('b', 'u64', False), ('carry', 'u64', False)], ['ret']),
    'sbb':                      ('fn',    [('a', 'u64', True), ('b', 'u64', False), ('borrow', 'u64', False)], ['a', 'ret']),
    'sbb_for_sub_with_borrow':  ('fn',    [('a', 'u64', True), ('b', 'u64', False), ('borrow', 'u8', False)], ['a', 'ret']),
    'widening_mul':             ('fn',    [('a', 'u64', False), ('b', 'u64', False)], ['ret']),
    'mac':                      ('fn',    [('a', 'u64', False), ('b', 'u64', False), ('c', 'u64', False), ('carry', 'u64', True)], ['ret', 'carry']),
    'mac_discard':              ('fn',    [('a', 'u64', False), ('b', 'u64', False), ('c', 'u64', False), ('carry', 'u64', True)], ['carry']),
    'mac_with_carry':           ('fn',    [('a', 'u64', False), ('b', 'u64', False), ('c', 'u64', False), ('carry', 'u64', True)], ['ret', 'carry']),
    'adc!':                     ('macro', [('a', 'u64', False), ('b', 'u64', False), ('carry', 'u64', True)], ['ret', 'carry']),
    'sbb!':                     ('macro', [('a', 'u64', False), ('b', 'u64', False), ('borrow', 'u64', True)], ['ret', 'borrow']),
    'mac_with_carry!':          ('macro', [('a', 'u64', False), ('b', 'u64', False), ('c', 'u64', False), ('carry', 'u64', True)], ['ret', 'carry']),
    'mac!':                     ('macro', [('a', 'u64', False), ('b', 'u64', False), ('c', 'u64', False), ('carry', 'u64', True)], ['ret', 'carry']),
}
COQNAME = {'adc!': 'adc_m', 'sbb!': 'sbb_m', 'mac_with_carry!': 'mac_with_carry_m', 'mac!': 'mac_m'}

TOK = re.compile(r'\s*(?:(\d[\d_]*)(u8|u64|u128|i64|usize)?|(\$?[A-Za-z_][A-Za-z0-9_]*(?:::[A-Za-z_][A-Za-z0-9_]*)*)|(>>|<<|==|[-+*/%(){};=,&|^!<>]))')

def tokenize(s):
    s = re.sub(r'//[^\n]*', '', s)
    pos, out = 0, []
    while pos < len(s):
        if s[pos:].strip() == '':
            break
        m = TOK.match(s, pos)
        if not m:
            raise TranslateError('cannot tokenize at: ' + s[pos:pos + 40].strip())
        pos = m.end()
        if m.group(1) is not None:
            out.append(('num', int(m.group(1).replace('_', '')), m.group(2)))
        elif m.group(3) is not None:
            out.append(('id', m.group(3)))
        else:
            out.append(('sym', m.group(4)))
    return out

def match_brace(s, i):
    assert s[i] == '{'
    d = 0
    for j in range(i, len(s)):
        if s[j] == '{':
            d += 1
        elif s[j] == '}':
            d -= 1
            if d == 0:
                return j
    raise TranslateError('unbalanced braces')

def extract_body(src, name):
    if name.endswith('!'):
        m = re.search(r'macro_rules!\s+' + re.escape(name[:-1]) + r'\s*\{', src)
        if not m:
            raise TranslateError('macro %s not found' % name)
        end = match_brace(src, m.end() - 1)
        body = src[m.end():end]
        k = body.find('=>')
        i = body.find('{{', k)
        j = body.rfind('}}')
        if k < 0 or i < 0 or j < 0:
            raise TranslateError('macro %s: unexpected shape' % name)
        return body[i + 2:j]
    m = re.search(r'\bfn\s+' + re.escape(name) + r'\s*\(', src)
    if not m:
        raise TranslateError('fn %s not found' % name)
    i = src.find('{', m.end())
    end = match_brace(src, i)
    body = src[i + 1:end]
    if '#[cfg(' in body:
        # pick the portable branch: the block guarded by #[cfg(not(...))]
        m2 = re.search(r'#\[cfg\(not\((?:[^\[\]]|\[[^\]]*\])*?\)\)\]\s*(?:#\[[^\]]*\]\s*)*\{', body)
        if not m2:
            raise TranslateError('fn %s: no portable cfg branch' % name)
        b = m2.end() - 1
        e = match_brace(body, b)
        body = body[b + 1:e]
    return body

class P:
    """Pratt parser producing (coq_text, type) pairs; type in u8/u64/u128/bool/lit."""
    PREC = {'==': 1, '<<': 5, '>>': 5, '+': 6, '-': 6, '*': 7}

    def __init__(self, toks, env):
        self.t, self.i, self.env = toks, 0, env

    def peek(self):
        return self.t[self.i] if self.i < len(self.t) else ('eof',)

    def next(self):
        x = self.peek()
        self.i += 1
        return x

    def expect(self, sym):
        x = self.next()
        if x != ('sym', sym):
            raise TranslateError('expected %r, got %r' % (sym, x))

    def atom(self):
        x = self.next()
        if x[0] == 'num':
            return (str(x[1]), x[2] or 'lit')
        if x == ('sym', '('):
            e = self.expr(0)
            self.expect(')')
            return ('(' + e[0] + ')', e[1])
        if x == ('sym', '*'):
            y = self.next()
            if y[0] != 'id' or y[1] not in self.env:
                raise TranslateError('bad deref %r' % (y,))
            return self.env[y[1]]
        if x == ('id', 'if'):
            c = self.expr(0)
            if c[1] != 'bool':
                raise TranslateError('if on non-bool')
            self.expect('{'); a = self.next(); self.expect('}')
            if self.next() != ('id', 'else'):
                raise TranslateError('if without else')
            self.expect('{'); b = self.next(); self.expect('}')
            if a[0] != 'num' or b[0] != 'num':
                raise TranslateError('if branches must be literals')
            return ('(if %s then %d else %d)' % (c[0], a[1], b[1]), 'lit')
        if x[0] == 'id':
            name = x[1]
            if self.peek() == ('sym', '('):
                self.next()
                args = []
                while self.peek() != ('sym', ')'):
                    args.append(self.expr(0))
                    if self.peek() == ('sym', ','):
                        self.next()
                self.expect(')')
                base = name.split('::')[-1]
                if name == 'u8::from':
                    if len(args) != 1 or args[0][1] != 'bool':
                        raise TranslateError('u8::from of non-bool')
                    return ('(Z.b2z %s)' % args[0][0], 'u8')
                if base == 'widening_mul' and len(args) == 2:
                    return ('(widening_mul %s %s)' % (args[0][0], args[1][0]), 'u128')
                raise TranslateError('unknown call ' + name)
            key = name[1:] if name.startswith('$') else name
            if key not in self.env:
                raise TranslateError('unknown identifier ' + name)
            return self.env[key]
        raise TranslateError('unexpected token %r' % (x,))

    def postfix(self):
        e = self.atom()
        while self.peek() == ('id', 'as'):
            self.next()
            ty = self.next()
            if ty[0] != 'id' or ty[1] not in BITS:
                raise TranslateError('cast to unsupported type %r' % (ty,))
            ty = ty[1]
            src = e[1]
            if src == 'bool':
                e = ('(Z.b2z %s)' % e[0], ty)
            elif src == 'lit' or (src in BITS and BITS[src] <= BITS[ty]):
                e = (e[0], ty)                      # widening: identity on the range
            else:
                e = ('(%s mod 2^%d)' % (e[0], BITS[ty]), ty)   # narrowing: truncate
        return e

    def expr(self, minp):
        l = self.postfix()
        while True:
            x = self.peek()
            if x[0] != 'sym' or x[1] not in self.PREC or self.PREC[x[1]] < minp:
                return l
            op = x[1]
            self.next()
            r = self.expr(self.PREC[op] + 1)
            ty = l[1] if l[1] != 'lit' else r[1]
            if op == '==':
                l = ('(Z.eqb %s %s)' % (l[0], r[0]), 'bool')
                continue
            if ty not in BITS:
                raise TranslateError('arithmetic on untyped operands')
            if op in ('+', '-', '*') and r[1] not in ('lit', ty):
                raise TranslateError('operand types differ: %s %s %s' % (l[1], op, r[1]))
            k = BITS[ty]
            if op == '>>':
                l = ('(Z.shiftr %s %s)' % (l[0], r[0]), ty)
            elif op == '<<':
                l = ('((Z.shiftl %s %s) mod 2^%d)' % (l[0], r[0], k), ty)
            else:
                l = ('((%s %s %s) mod 2^%d)' % (l[0], op, r[0], k), ty)

def translate_one(src, name):
    kind, params, outputs = TABLE[name]
    body = extract_body(src, name)
    toks = tokenize(body)
    env = {p: (p, ty) for (p, ty, _) in params}
    mut = {p for (p, _, m) in params if m}
    lets, i, ret = [], 0, None
    # split into statements on ';' at depth 0
    stmts, cur, depth = [], [], 0
    for t in toks:
        if t == ('sym', '{'):
            depth += 1
        if t == ('sym', '}'):
            depth -= 1
        if t == ('sym', ';') and depth == 0:
            stmts.append(cur); cur = []
        else:
            cur.append(t)
    if cur:
        stmts.append(cur)
    fresh = [0]
    for st in stmts:
        if not st:
            continue
        if st[0] == ('id', 'let'):
            if len(st) < 4 or st[1][0] != 'id' or st[2] != ('sym', '='):
                raise TranslateError('%s: unsupported let' % name)
            v = st[1][1]
            p = P(st[3:], env); e = p.expr(0)
            if p.i != len(st) - 3:
                raise TranslateError('%s: trailing tokens in let' % name)
            lets.append((v, e[0])); env[v] = (v, e[1])
            continue
        # assignment?  (*x = e | $x = e)
        j = 1 if st[0] == ('sym', '*') else 0
        if len(st) > j + 1 and st[j][0] == 'id' and st[j + 1] == ('sym', '=') :
            tgt = st[j][1].lstrip('$')
            if tgt not in mut:
                raise TranslateError('%s: assignment to non-mutable %s' % (name, tgt))
            p = P(st[j + 2:], env); e = p.expr(0)
            if p.i != len(st) - j - 2:
                raise TranslateError('%s: trailing tokens in assignment' % name)
            dty = dict((q, t) for (q, t, _) in params)[tgt]
            if e[1] not in ('lit', dty):
                raise TranslateError('%s: assignment type %s to %s' % (name, e[1], dty))
            fresh[0] += 1
            nv = '%s_%d' % (tgt, fresh[0])
            lets.append((nv, e[0])); env[tgt] = (nv, dty)
            continue
        p = P(st, env); e = p.expr(0)
        if p.i != len(st):
            raise TranslateError('%s: trailing tokens in final expression' % name)
        if ret is not None:
            raise TranslateError('%s: two value expressions' % name)
        ret = e[0]
    outs = []
    for o in outputs:
        if o == 'ret':
            if ret is None:
                raise TranslateError('%s: no value expression' % name)
            outs.append(ret)
        else:
            outs.append(env[o][0])
    cname = COQNAME.get(name, name)
    text = 'Definition %s %s : %s :=\n' % (
        cname, ' '.join('(%s : Z)' % p for (p, _, _) in params),
        ' * '.join(['Z'] * len(outs)))
    for (v, e) in lets:
        text += '  let %s := %s in\n' % (v, e)
    text += '  (%s).\n' % ', '.join(outs) if len(outs) > 1 else '  %s.\n' % outs[0]
    return text

ORDER = ['widening_mul', 'adc', 'adc_for_add_with_carry', 'adc_no_carry', 'sbb',
         'sbb_for_sub_with_borrow', 'mac', 'mac_discard', 'mac_with_carry',
         'adc!', 'sbb!', 'mac_with_carry!', 'mac!']

def translate(path):
    src = open(path).read()
    out = ['(* GENERATED by lib/xlate_arith.py from %s -- do not edit *)' % path,
           'Require Import ZArith.', 'Open Scope Z_scope.', '']
    for n in ORDER:
        out.append(translate_one(src, n))
    return '\n'.join(out)

def write_if_changed(path, text):
    if os.path.exists(path) and open(path).read() == text:
        return False
    with open(path, 'w') as f:
        f.write(text)
    return True

if __name__ == '__main__':
    src = sys.argv[1] if len(sys.argv) > 1 else '/repo/ff/src/biginteger/arithmetic.rs'
    dst = sys.argv[2] if len(sys.argv) > 2 else '/verif/coq/C15/GenArith.v'
    try:
        t = translate(src)
    except TranslateError as e:
        print('TRANSLATE-ERROR: %s' % e)
        sys.exit(3)
    print('changed' if write_if_changed(dst, t) else 'unchanged')
