#!/usr/bin/env python3
"""T-field translator: field-level straight-line Rust of arkworks-rs/algebra  ->  coq/Gen/GenField.v

For every target function (table TARGETS below) the body is located in the *current* source
text, parsed with a small Rust-subset parser and executed symbolically; the result is one
Gallina definition over an abstract carrier `T` and a dictionary `F : Fops T` (Base/Field.v).
coq/Gen/GenFieldSpecs.v proves that each generated definition equals the hand-written model
function the C02/C03 theorems are about, so those theorems are re-checked against what the
code says now.

Supported Rust subset (anything else raises TranslateError -- never a guess):
  stmt  ::= 'let' ['mut'] ident [':' type] '=' expr ';'
          | place ('=' | '+=' | '-=' | '*=') expr ';'
          | 'if' expr block ['else' (block | if-stmt)]
          | 'if' 'let' 'Some' '(' '(' ident ',' ident ')' ')' '=' expr block ['else' block]
          | 'return' [expr] ';' | block | expr ';' | expr            (last = value)
  expr  ::= path | number | '(' expr ')' | '[' expr,* ']' | '|' ident '|' (block | expr)
          | ('-' | '!' | '*' | '&' | '&' 'mut') expr
          | expr ('+' | '-' | '*' | '==' | '!=' | '&&' | '||') expr
          | expr '.' ident | expr '.' ident '(' expr,* ')' | path '(' expr,* ')'
  place ::= ident | place '.' ident | '*' place
Also: `&&`, `!`, `true`/`false`, struct literals `Self { x, y, z: e }`, `is_one()`,
`p.xy().map_or_else(Self::zero, |(x, y)| e)`, opaque `usize` parameters, `Self::f(..)` of translated
static functions.  translate_all() is per-target best effort (a failing target keeps its previous
generated definition).
Phase 3 (`--table2`, TARGETS2 -> coq/Gen/GenField2.v; subset described in props/Gen/NOTES.md "Phase 3"):
`let x;`, tuple `let`, `debug_assert!`, value `if` / `match bool` / blocks (class Lifter), `/ < <= ?`,
`.sqrt() .legendre().is_qr() .expect()`, Option chains in return position, enum variants, point-level
method calls (`mul_bigint`, `eq`, `neg`, `into_group`, `into`, `double`) in targets with group_ops.
Phase 4 (`--table3`, TARGETS3 -> coq/Gen/GenField3.v; props/Gen/NOTES.md "Phase 4"): per-curve hook overrides in
curves/*/src and test-curves/src, by-value operator wrappers resolved to the translated by-reference `op_assign`,
`TABLE[power % DEGREE]` (table = function parameter, the degree literal read from the impl), `assert!`, `as usize`,
`c.not().then(|| ..)`, `match compress { Compress::Yes .. }`, writers as item lists.
Semantics implemented: Copy values; operands evaluated left to right (a value operand is
read when it is evaluated, a reference operand when the operation runs); `x op= e`
evaluates e, then reads x; in-place methods (`square_in_place`, `double_in_place`,
`neg_in_place`, in-place configuration hooks, calls of other translated methods) write the
receiver place and return a reference to it; `let r = &place` / `&mut place` are aliases of
the place; block scoping and shadowing; early `return`; `if` with both branches executed and
either merged (tuple of the places that differ) or, in tail position, emitted as a Gallina `if`.
"""
import re, sys, os, copy


class TranslateError(Exception):
    pass


# ------------------------------------------------------------------ lexer

TOK = re.compile(r"""
   (?P<ws>\s+)
 | (?P<num>\d[\d_]*(?:u8|u16|u32|u64|u128|usize|i8|i16|i32|i64|isize)?)
 | (?P<life>'[A-Za-z_][A-Za-z0-9_]*(?!'))
 | (?P<str>"(?:[^"\\]|\\.)*")
 | (?P<id>[A-Za-z_][A-Za-z0-9_]*)
 | (?P<sym>::|->|=>|\+=|-=|\*=|==|!=|<=|&&|\|\||[-+*/%&|!<>=(){}\[\];,.:?\#])
""", re.X)


def strip_comments(s):
    s = re.sub(r'/\*.*?\*/', ' ', s, flags=re.S)
    return re.sub(r'//[^\n]*', '', s)


def tokenize(s):
    pos, out = 0, []
    while pos < len(s):
        m = TOK.match(s, pos)
        if not m:
            raise TranslateError('cannot tokenize at: %r' % s[pos:pos + 40])
        pos = m.end()
        k = m.lastgroup
        if k == 'ws':
            continue
        out.append((k, m.group(k)))
    return out


def match_brace(s, i):
    if s[i] != '{':
        raise TranslateError('internal: match_brace not at a brace')
    d = 0
    for j in range(i, len(s)):
        if s[j] == '{':
            d += 1
        elif s[j] == '}':
            d -= 1
            if d == 0:
                return j
    raise TranslateError('unbalanced braces')


def find_impl(src, impl_re):
    """text of the (single) impl block matched by impl_re"""
    ms = list(re.finditer(impl_re, src)) if impl_re else []
    if len(ms) != 1:
        raise TranslateError('impl block not found or ambiguous: /%s/' % impl_re)
    i = src.find('{', ms[0].end())
    if i < 0:
        raise TranslateError('impl block without a body: /%s/' % impl_re)
    return src[i + 1:match_brace(src, i)]


def find_fn(src, impl_re, fname):
    """source text of `fn fname ... { body }` inside the impl block matched by impl_re"""
    if impl_re:
        ms = list(re.finditer(impl_re, src))
        if not ms:
            raise TranslateError('impl block not found: /%s/' % impl_re)
        found = []
        for m in ms:
            i = src.find('{', m.end())
            if i < 0:
                continue
            j = match_brace(src, i)
            try:
                found.append(find_fn(src[i + 1:j], '', fname))
            except TranslateError:
                pass
        if not found:
            raise TranslateError('fn %s not found in /%s/' % (fname, impl_re))
        if len(found) > 1:
            raise TranslateError('fn %s is ambiguous in /%s/' % (fname, impl_re))
        return found[0]
    region = src
    hits = []
    for m in re.finditer(r'\bfn\s+%s\b' % re.escape(fname), region):
        depth = region.count('{', 0, m.start()) - region.count('}', 0, m.start())
        if impl_re is None or depth == 0:
            hits.append(m.start())
    if not hits:
        raise TranslateError('fn %s not found in /%s/' % (fname, impl_re))
    if len(hits) > 1:
        raise TranslateError('fn %s is ambiguous in /%s/' % (fname, impl_re))
    k = hits[0]
    i = region.find('{', k)
    semi = region.find(';', k)
    if i < 0 or (0 <= semi < i):
        raise TranslateError('fn %s has no body' % fname)
    j = match_brace(region, i)
    return region[k:j + 1]


# ------------------------------------------------------------------ parser (AST = tuples)

class Parser:
    BIN = {'||': 1, '&&': 2, '==': 3, '!=': 3, '<': 3, '<=': 3, '+': 6, '-': 6, '*': 7, '/': 7, '%': 7}
    ASSIGN = ('=', '+=', '-=', '*=')

    def __init__(self, toks, what):
        self.t, self.i, self.what = toks, 0, what
        self.nostruct = False

    def err(self, msg):
        ctx = ' '.join(x[1] for x in self.t[max(0, self.i - 6):self.i + 6])
        raise TranslateError('%s: %s (near `%s`)' % (self.what, msg, ctx))

    def peek(self, k=0):
        return self.t[self.i + k] if self.i + k < len(self.t) else ('eof', '')

    def next(self):
        x = self.peek()
        self.i += 1
        return x

    def at(self, text, k=0):
        x = self.peek(k)
        return x[0] in ('sym', 'id') and x[1] == text

    def accept(self, text):
        if self.at(text):
            self.i += 1
            return True
        return False

    def expect(self, text):
        if not self.accept(text):
            self.err('expected `%s`, got `%s`' % (text, self.peek()[1]))

    def ident(self):
        x = self.next()
        if x[0] != 'id':
            self.err('expected identifier, got `%s`' % x[1])
        return x[1]

    # fn name <generics> ( params ) -> ty where ... { body }
    def fn(self):
        self.expect('fn')
        name = self.ident()
        if self.at('<'):
            self.skip_angle()
        self.expect('(')
        params, cur, depth = [], [], 0
        while True:
            x = self.next()
            if x[0] == 'eof':
                self.err('unterminated parameter list')
            if x[1] in ('(', '[', '<') and x[0] == 'sym':
                depth += 1
            if x[1] in (')', ']', '>') and x[0] == 'sym':
                if depth == 0 and x[1] == ')':
                    break
                depth -= 1
            if x == ('sym', ',') and depth == 0:
                params.append(cur)
                cur = []
            else:
                cur.append(x)
        if cur:
            params.append(cur)
        names = []
        for p in params:
            q = [x for x in p if not (x == ('sym', '&') or x[0] == 'life' or x == ('id', 'mut'))]
            if not q or q[0][0] != 'id':
                self.err('unsupported parameter')
            if q[0][1] != 'self' and (len(q) < 2 or q[1] != ('sym', ':')):
                self.err('unsupported parameter pattern')
            names.append(q[0][1])
        while not self.at('{'):
            if self.peek()[0] == 'eof':
                self.err('no function body')
            self.next()
        body = self.block()
        return name, names, body

    def skip_angle(self):
        self.expect('<')
        d = 1
        while d:
            x = self.next()
            if x[0] == 'eof':
                self.err('unbalanced <>')
            if x == ('sym', '<'):
                d += 1
            elif x == ('sym', '>'):
                d -= 1
            elif x == ('sym', '->'):
                pass

    def block(self):
        self.expect('{')
        stmts, tail = [], None
        while not self.at('}'):
            if self.peek()[0] == 'eof':
                self.err('unterminated block')
            if tail is not None:
                self.err('expression in the middle of a block')
            if self.accept(';'):
                continue
            if self.at('use') and self.peek(1)[0] == 'id':
                while not self.accept(';'):
                    if self.next()[0] == 'eof':
                        self.err('unterminated `use`')
                continue
            if self.at('let'):
                stmts.append(self.let())
            elif self.at('if'):
                stmts.append(self.if_())
            elif self.at('return'):
                self.next()
                e = None
                if not self.at(';') and not self.at('}'):
                    e = self.expr(0)
                if not self.at('}'):
                    self.expect(';')
                stmts.append(('return', e))
            elif self.at('{'):
                stmts.append(('block', self.block()))
            elif self.peek()[0] == 'id' and self.peek()[1] in ('for', 'while', 'loop', 'unsafe', 'break', 'continue'):
                self.err('unsupported statement `%s`' % self.peek()[1])
            elif self.peek()[0] == 'id' and self.peek(1) == ('sym', '!') and self.peek(2) == ('sym', '('):
                stmts.append(self.macro())
            else:
                e = self.expr(0)
                if self.peek()[0] == 'sym' and self.peek()[1] in self.ASSIGN:
                    op = self.next()[1]
                    r = self.expr(0)
                    if not self.at('}'):
                        self.expect(';')
                    stmts.append(('assign', op, e, r))
                elif self.accept(';'):
                    stmts.append(('expr', e))
                elif self.at('}'):
                    tail = e
                else:
                    self.err('unexpected `%s` after expression' % self.peek()[1])
        self.expect('}')
        return (stmts, tail)

    def macro(self):
        """`debug_assert!(cond [, "message" ..]);` -- the only macro of the subset"""
        name = self.ident()
        self.next()
        if name not in ('debug_assert', 'assert'):
            self.err('unsupported macro `%s!`' % name)
        self.expect('(')
        saved, self.nostruct = self.nostruct, False
        c = self.expr(0)
        self.nostruct = saved
        d = 0
        while not (self.at(')') and d == 0):
            x = self.next()
            if x[0] == 'eof':
                self.err('unterminated macro call')
            if x[0] == 'sym' and x[1] in ('(', '[', '{'):
                d += 1
            elif x[0] == 'sym' and x[1] in (')', ']', '}'):
                d -= 1
            elif d == 0 and x[0] not in ('str',) and x != ('sym', ','):
                self.err('unsupported `debug_assert!` arguments')
        self.expect(')')
        self.accept(';')
        return ('dassert', c)

    def let(self):
        self.expect('let')
        names = None
        if self.at('('):
            self.next()
            names = []
            while not self.at(')'):
                self.accept('mut')
                names.append(self.ident())
                if not self.accept(','):
                    break
            self.expect(')')
            mut, name = True, None
        else:
            mut = self.accept('mut')
            if self.peek()[0] != 'id':
                self.err('unsupported let pattern')
            name = self.ident()
        if self.accept(':'):
            d = 0
            while not ((self.at('=') or self.at(';')) and d == 0):
                x = self.next()
                if x[0] == 'eof':
                    self.err('unterminated type annotation')
                if x[1] in ('<', '(', '['):
                    d += 1
                elif x[1] in ('>', ')', ']'):
                    d -= 1
        if names is None and self.accept(';'):
            return ('letdecl', name, name)
        if not self.at('='):
            self.err('let without initialiser')
        self.expect('=')
        e = self.expr(0)
        self.expect(';')
        if names is not None:
            return ('lettuple', names, e)
        return ('let', name, mut, e)

    def if_(self):
        self.expect('if')
        if self.accept('let'):
            if not (self.accept('Some') and self.accept('(') and self.accept('(')):
                self.err('unsupported `if let` pattern')
            a = self.ident()
            self.expect(',')
            b = self.ident()
            self.expect(')')
            self.expect(')')
            self.expect('=')
            saved, self.nostruct = self.nostruct, True
            e = self.expr(0)
            self.nostruct = saved
            th = self.block()
            el = None
            if self.accept('else'):
                el = self.block()
            return ('iflet', (a, b), e, th, el)
        saved, self.nostruct = self.nostruct, True
        c = self.expr(0)
        self.nostruct = saved
        th = self.block()
        el = None
        if self.accept('else'):
            if self.at('if'):
                el = ([self.if_()], None)
            else:
                el = self.block()
        return ('if', c, th, el)

    def match_bool(self):
        """`match c { true => a, false => b }` is an `if` expression; nothing else is supported"""
        self.expect('match')
        saved, self.nostruct = self.nostruct, True
        c = self.expr(0)
        self.nostruct = saved
        self.expect('{')
        arms = {}
        while not self.at('}'):
            pat = self.next()
            if pat == ('id', 'Compress') and self.at('::') and self.peek(1) in (('id', 'Yes'), ('id', 'No')):
                # `match compress { Compress::Yes => a, Compress::No => b }`: the mode as a boolean (Yes = true)
                self.next()
                pat = ('id', 'true' if self.next()[1] == 'Yes' else 'false')
            if pat not in (('id', 'true'), ('id', 'false')) or pat[1] in arms:
                self.err('unsupported `match` pattern `%s`' % pat[1])
            self.expect('=>')
            if self.at('{'):
                arms[pat[1]] = self.block()
            else:
                saved, self.nostruct = self.nostruct, False
                arms[pat[1]] = ([], self.expr(0))
                self.nostruct = saved
            self.accept(',')
        self.expect('}')
        if sorted(arms) != ['false', 'true']:
            self.err('`match` on a boolean needs both arms')
        return ('ifexpr', c, arms['true'], arms['false'])

    def expr(self, minp):
        l = self.unary()
        while True:
            x = self.peek()
            if x[0] != 'sym' or x[1] not in self.BIN or self.BIN[x[1]] < minp:
                if x[0] == 'sym' and x[1] in ('>', '|', '&') and minp == 0:
                    self.err('unsupported operator `%s`' % x[1])
                return l
            op = self.next()[1]
            r = self.expr(self.BIN[op] + 1)
            l = ('bin', op, l, r)

    def unary(self):
        if self.accept('-'):
            return ('un', '-', self.unary())
        if self.accept('!'):
            return ('un', '!', self.unary())
        if self.accept('*'):
            return ('un', '*', self.unary())
        if self.accept('&&'):
            self.err('unsupported `&&` borrow')
        if self.accept('&'):
            if self.accept('mut'):
                return ('un', '&mut', self.unary())
            return ('un', '&', self.unary())
        return self.postfix()

    def args(self):
        self.expect('(')
        saved, self.nostruct = self.nostruct, False
        a = []
        while not self.at(')'):
            a.append(self.expr(0))
            if not self.accept(','):
                break
        self.expect(')')
        self.nostruct = saved
        return a

    def postfix(self):
        e = self.primary()
        while True:
            if self.at('.'):
                self.next()
                if self.peek()[0] != 'id':
                    self.err('unsupported field access')
                name = self.ident()
                if self.at('::') and self.peek(1) == ('sym', '<') and self.peek(2)[0] == 'id' and self.peek(3) == ('sym', '>') \
                   and self.peek(4) == ('sym', '('):
                    name = '%s::<%s>' % (name, self.peek(2)[1])
                    self.i += 4
                if self.at('::'):
                    self.err('unsupported turbofish')
                if self.at('('):
                    e = ('mcall', e, name, self.args())
                else:
                    e = ('field', e, name)
            elif self.at('(') and e[0] == 'path':
                e = ('call', e, self.args())
            elif self.at('?'):
                self.next()
                e = ('try', e)
            elif self.at('['):
                self.next()
                saved, self.nostruct = self.nostruct, False
                i = self.expr(0)
                self.nostruct = saved
                self.expect(']')
                e = ('index', e, i)
            elif self.at('as') and self.peek(1) == ('id', 'usize'):
                self.next()
                self.next()
                e = ('cast', e, 'usize')
            else:
                return e

    def paren_rest(self):
        e = self.expr(0)
        if self.accept(','):
            es = [e]
            while not self.at(')'):
                es.append(self.expr(0))
                if not self.accept(','):
                    break
            self.expect(')')
            return ('tuple', es)
        self.expect(')')
        return e

    def struct_lit(self, segs):
        self.expect('{')
        saved, self.nostruct = self.nostruct, False
        fs = []
        while not self.at('}'):
            if self.at('..'):
                self.err('unsupported struct update syntax')
            n = self.ident()
            if self.accept(':'):
                fs.append((n, self.expr(0)))
            else:
                fs.append((n, ('path', [n])))
            if not self.accept(','):
                break
        self.expect('}')
        self.nostruct = saved
        return ('struct', segs, fs)

    def primary(self):
        x = self.peek()
        if x[0] == 'num':
            self.next()
            return ('num', int(re.match(r'\d[\d_]*?(?=[a-z]|$)', x[1].replace('_', '')).group(0)))
        if self.accept('('):
            saved, self.nostruct = self.nostruct, False
            try:
                return self.paren_rest()
            finally:
                self.nostruct = saved
        if self.accept('['):
            es = []
            while not self.at(']'):
                es.append(self.expr(0))
                if not self.accept(','):
                    break
            self.expect(']')
            return ('array', es)
        if self.at('||') and self.peek()[0] == 'sym':
            self.next()
            if self.at('{'):
                return ('closure', [], self.block())
            return ('closure', [], ([], self.expr(0)))
        if self.accept('|'):
            ps = []
            while not self.at('|'):
                if self.accept('('):
                    tp = []
                    while not self.at(')'):
                        tp.append(self.ident())
                        if not self.accept(','):
                            break
                    self.expect(')')
                    ps.append(tuple(tp))
                else:
                    ps.append(self.ident())
                if not self.accept(','):
                    break
            self.expect('|')
            if self.at('{'):
                return ('closure', ps, self.block())
            return ('closure', ps, ([], self.expr(0)))
        if self.at('<'):
            j = self.i
            self.skip_angle()
            q = '<' + ' '.join(t[1] for t in self.t[j + 1:self.i - 1]) + '>'
            segs = [q]
            while self.accept('::'):
                segs.append(self.ident())
            if len(segs) < 2:
                self.err('unsupported qualified path')
            return ('path', segs)
        if x == ('id', 'if'):
            s = self.if_()
            if s[0] != 'if' or s[3] is None:
                self.err('`if` expression without `else`')
            return ('ifexpr', s[1], s[2], s[3])
        if x == ('id', 'match'):
            return self.match_bool()
        if x == ('sym', '{'):
            saved, self.nostruct = self.nostruct, False
            b = self.block()
            self.nostruct = saved
            return ('blockexpr', b)
        if x[0] == 'str':
            self.next()
            return ('str', x[1])
        if x[0] == 'id':
            if x[1] in ('loop', 'while', 'for', 'unsafe', 'move', 'let'):
                self.err('unsupported expression `%s`' % x[1])
            segs = [self.ident()]
            while self.at('::'):
                self.next()
                if self.at('<'):
                    self.err('unsupported generic arguments in path')
                segs.append(self.ident())
            if self.at('{') and not self.nostruct and segs[-1][0].isupper() and len(segs) == 1:
                return self.struct_lit(segs)
            return ('path', segs)
        self.err('unexpected token `%s`' % x[1])


def contains_return(block):
    stmts, tail = block
    for s in stmts:
        if s[0] == 'return':
            return True
        if s[0] == 'if' and (contains_return(s[2]) or (s[3] and contains_return(s[3]))):
            return True
        if s[0] == 'iflet' and (contains_return(s[3]) or (s[4] and contains_return(s[4]))):
            return True
        if s[0] == 'block' and contains_return(s[1]):
            return True
    return False


def contains_exit(node):
    """does the AST contain a possible early exit (`?`, `.expect()`, `.unwrap()`, `/`, `debug_assert!`)"""
    if isinstance(node, tuple):
        if node and node[0] in ('try', 'dassert'):
            return True
        if node and node[0] == 'mcall' and node[2] in ('expect', 'unwrap'):
            return True
        if node and node[0] == 'bin' and node[1] == '/':
            return True
        return any(contains_exit(x) for x in node)
    if isinstance(node, list):
        return any(contains_exit(x) for x in node)
    return False


def block_value(block):
    """(stmts, value expression) of a block in value position: a final `if .. else ..` statement
    is the value"""
    stmts, tail = block
    if tail is None and stmts and stmts[-1][0] == 'if' and stmts[-1][3] is not None:
        s = stmts[-1]
        return list(stmts[:-1]), ('ifexpr', s[1], s[2], s[3])
    return list(stmts), tail


def pure_value(e):
    """an `if`/block expression that can be evaluated in place (no statements, no exits)"""
    if e[0] == 'ifexpr':
        for b in (e[2], e[3]):
            st, t = block_value(b)
            if st or t is None or contains_exit(t) or not pure_value(t):
                return False
        return not contains_exit(e[1])
    if e[0] == 'blockexpr':
        st, t = block_value(e[1])
        return not st and t is not None and not contains_exit(t) and pure_value(t)
    return True


class Lifter:
    """statement-level desugaring: `let p = if c {..; a} else {..; b};` (branches with statements or
    exits), `let (a, b) = ..;` and `let v = { ..; e };` become a declaration of fresh temporaries,
    the `if` / block as a statement assigning them, and `let p = temporary;`"""

    def __init__(self, what):
        self.n, self.what = 0, what

    def fresh(self):
        self.n += 1
        return '__t%d' % self.n

    def stmts(self, stmts):
        out = []
        for s in stmts:
            out += self.stmt(s)
        return out

    def block(self, b):
        if b is None:
            return None
        return (self.stmts(b[0]), b[1])

    def stmt(self, s):
        if s[0] == 'let' and s[3][0] in ('ifexpr', 'blockexpr') and not pure_value(s[3]):
            t = self.fresh()
            return [('letdecl', t, s[1])] + self.assign_value([t], s[3]) + [('let', s[1], s[2], ('path', [t]))]
        if s[0] == 'lettuple':
            ts = [self.fresh() for _ in s[1]]
            return [('letdecl', t, n) for t, n in zip(ts, s[1])] + self.assign_value(ts, s[2]) + \
                [('let', n, True, ('path', [t])) for t, n in zip(ts, s[1])]
        if s[0] == 'assign' and s[1] == '=' and s[3][0] in ('ifexpr', 'blockexpr') and not pure_value(s[3]):
            if s[2][0] != 'path' or len(s[2][1]) != 1:
                raise TranslateError('%s: conditional value assigned to a compound place' % self.what)
            return self.assign_value([s[2][1][0]], s[3])
        if s[0] == 'if':
            return [('if', s[1], self.block(s[2]), self.block(s[3]))]
        if s[0] == 'iflet':
            return [('iflet', s[1], s[2], self.block(s[3]), self.block(s[4]))]
        if s[0] == 'block':
            return [('block', self.block(s[1]))]
        return [s]

    def assign_value(self, targets, e):
        if e[0] == 'ifexpr':
            return [('if', e[1], (self.assign_block(targets, e[2]), None), (self.assign_block(targets, e[3]), None))]
        if e[0] == 'blockexpr':
            return [('block', (self.assign_block(targets, e[1]), None))]
        if len(targets) == 1:
            return [('assign', '=', ('path', [targets[0]]), e)]
        if e[0] == 'tuple' and len(e[1]) == len(targets):
            return [('assigntuple', targets, e[1])]
        raise TranslateError('%s: tuple pattern initialised by something else than a tuple' % self.what)

    def assign_block(self, targets, b):
        stmts, tail = block_value(b)
        if tail is None:
            raise TranslateError('%s: block without a value in value position' % self.what)
        return self.stmts(stmts) + self.assign_value(targets, tail)


def tailify(block):
    """value position: the tail expression of the block (or of the branches of a final `if`)
    becomes an explicit `return`"""
    stmts, tail = block
    stmts = list(stmts)
    if tail is not None and tail[0] == 'ifexpr':
        stmts.append(('if', tail[1], tailify(tail[2]), tailify(tail[3])))
    elif tail is not None and tail[0] == 'blockexpr':
        stmts.append(('block', tailify(tail[1])))
    elif tail is not None:
        stmts.append(('return', tail))
    elif stmts and stmts[-1][0] == 'if' and stmts[-1][3] is not None:
        s = stmts[-1]
        stmts[-1] = ('if', s[1], tailify(s[2]), tailify(s[3]))
    return (stmts, None)


# ------------------------------------------------------------------ types and values

# struct types: ordered fields.  'K' is the scalar type (carrier T of the dictionary F).
TYPES = {
    'SWProj': [('x', 'K'), ('y', 'K'), ('z', 'K')],
    'TEProj': [('x', 'K'), ('y', 'K'), ('t', 'K'), ('z', 'K')],
    'TEAff': [('x', 'K'), ('y', 'K')],
    'Quad': [('c0', 'K'), ('c1', 'K')],
    'Cubic': [('c0', 'K'), ('c1', 'K'), ('c2', 'K')],
    'QuadCubic': [('c0', 'Cubic'), ('c1', 'Cubic')],
    # short Weierstrass Affine as the Rust struct (x, y, infinity)
    'SWAffS': [('x', 'K'), ('y', 'K'), ('infinity', 'bool')],
    # phase 3: a pair of scalars (Option<(F, F)> payloads), affine points over a quadratic extension
    'PairK': [('0', 'K'), ('1', 'K')],
    'SWAffSQ': [('x', 'Quad'), ('y', 'Quad'), ('infinity', 'bool')],
    # phase 4: towers seen down to the prime field (mul_by_fp helpers)
    'QuadQuad': [('c0', 'Quad'), ('c1', 'Quad')],
    'CubicQuad': [('c0', 'Quad'), ('c1', 'Quad'), ('c2', 'Quad')],
    'QuadCubicQuad': [('c0', 'CubicQuad'), ('c1', 'CubicQuad')],
}
# phase 3: enumerations of the generated file (constructor names per Rust variant)
ENUMS = {
    'SWFlags': ('gen_swflags', {'PointAtInfinity': 'GPointAtInfinity', 'YIsPositive': 'GYIsPositive',
                                'YIsNegative': 'GYIsNegative'}),
    'TEFlags': ('gen_teflags', {'XIsPositive': 'GXIsPositive', 'XIsNegative': 'GXIsNegative'}),
}
# degree of the struct over its scalar type (for Self::extension_degree())
DEGREE = {'Quad': 2, 'Cubic': 3}


def gty(ty):
    if ty == 'K':
        return 'T'
    if ty == 'bool':
        return 'bool'
    if ty == 'SWAff':
        return 'option (T * T)'
    if ty in ('Scalar', 'Zint'):
        return 'Z'
    if ty == 'nat':
        return 'nat'
    if ty.startswith('Writer:'):
        return 'list (T * option %s)' % ENUMS[ty[7:]][0]
    if ty.startswith('enum:'):
        return ENUMS[ty[5:]][0]
    if ty.startswith('opt:'):
        return 'option %s' % gty(ty[4:])
    return '(' + ' * '.join(gty(t) for _, t in TYPES[ty]) + ')'


def proj(ty, k, e):
    n = len(TYPES[ty])
    e = par(e)
    if n == 2:
        return '%s %s' % (('fst', 'snd')[k], e)
    if n == 3:
        return '%s %s' % (('c0', 'c1', 'c2')[k], e)
    if n == 4:
        return ('fst (fst (fst %s))', 'snd (fst (fst %s))', 'snd (fst %s)', 'snd %s')[k] % e
    raise TranslateError('internal: projection arity')


ATOM = re.compile(r"^[A-Za-z_][A-Za-z0-9_']*$")


def par(e):
    if ATOM.match(e) or (e.startswith('(') and e.endswith(')') and balanced(e[1:-1])):
        return e
    return '(' + e + ')'


def balanced(s):
    d = 0
    for ch in s:
        if ch == '(':
            d += 1
        elif ch == ')':
            d -= 1
            if d < 0:
                return False
    return d == 0


def app(f, *args):
    return f + ''.join(' ' + par(a) for a in args)


class Val:
    """ty: 'K' | struct name | 'bool' | 'nat' | 'int' | 'opt:<ty>' | 'optinv' | 'arr' | 'intarr'
       | 'SWAff' | 'optxy' | 'unit'.  Scalars/opaque structs: expr.  Known structs: fields."""

    def __init__(self, ty, expr=None, fields=None, items=None):
        self.ty, self.expr, self.fields, self.items = ty, expr, fields, items

    def key(self):
        if self.fields is not None:
            return (self.ty, tuple((k, v.key()) for k, v in self.fields.items()))
        if self.items is not None:
            return (self.ty, tuple(v.key() if isinstance(v, Val) else v for v in self.items))
        return (self.ty, self.expr)


class Ref:
    def __init__(self, slot, path):
        self.slot, self.path = slot, path


class HookAlias:
    def __init__(self, hook):
        self.hook = hook


class Slot:
    def __init__(self, val, hint):
        self.val, self.hint = val, hint


class Env:
    def __init__(self):
        self.scopes = [{}]

    def lookup(self, name):
        for sc in reversed(self.scopes):
            if name in sc:
                return sc[name]
        return None

    def declare(self, name, slot):
        self.scopes[-1][name] = slot

    def clone(self):
        """deep copy preserving aliasing between slots (Refs point to slots)"""
        return copy.deepcopy(self)

    def slots(self):
        out, seen = [], set()
        for d, sc in enumerate(self.scopes):
            for name, sl in sc.items():
                out.append(((d, name), sl))
        return out


class K:
    """continuation: fn(env) -> list of lines; trivial = nothing (or only the result) follows"""

    def __init__(self, fn, trivial):
        self.fn, self.trivial = fn, trivial


RESERVED = set('''T F F6 fst snd c0 c1 c2 f0 f1 fadd fsub fmul fneg finv feqb fdeg fsqr fdbl fis0 fdiv
 andb orb negb true false None Some if then else let in match with end fun forall existsb Nat
 GPanic GRet gen_result'''.split())


# ------------------------------------------------------------------ symbolic executor

class Exec:
    def __init__(self, tgt, defs):
        self.tgt, self.defs = tgt, defs
        self.what = tgt['name']
        self.used = set(RESERVED)
        self.dict = dict({'K': 'F'}, **tgt.get('dicts', {}))
        self.hooks = {h['rust']: h for h in tgt.get('hooks', [])}
        for h in tgt.get('hooks', []):
            self.used.add(h['param'])
            if 'param2' in h:
                self.used.add(h['param2'])
        for d in tgt.get('dicts', {}).values():
            self.used.add(d)
        self.cur = None
        self.nph = 0
        self.captured = {}

    def err(self, msg):
        raise TranslateError('%s: %s' % (self.what, msg))

    # ---- names / lets
    def fresh(self, hint):
        hint = re.sub(r'[^A-Za-z0-9_]', '_', hint) or 'v'
        if hint[0].isdigit():
            hint = 'v' + hint
        n, k = hint, 0
        while n in self.used:
            k += 1
            n = '%s_%d' % (hint, k)
        self.used.add(n)
        return n

    def bind(self, hint, v):
        """give a name to a non-atomic scalar / opaque struct value; known structs field-wise"""
        if isinstance(v, Val) and v.fields is not None:
            return Val(v.ty, fields={k: self.bind(hint + '_' + k, f) for k, f in v.fields.items()})
        if isinstance(v, Val) and v.ty in ('K',) + tuple(TYPES) and v.expr is not None and not ATOM.match(v.expr) and v.expr not in ('(f0 F)', '(f1 F)'):
            n = self.fresh(hint)
            self.cur.append(('let', n, v.expr))
            return Val(v.ty, expr=n)
        return v

    # ---- struct helpers
    def whole(self, v):
        if v.fields is None:
            if v.expr is None:
                self.err('value of type %s cannot be used here' % v.ty)
            return v.expr
        return '(' + ', '.join(self.whole(v.fields[f]) for f, _ in TYPES[v.ty]) + ')'

    def explode(self, v):
        if v.fields is not None:
            return v
        if v.ty not in TYPES:
            self.err('field access on a value of type %s' % v.ty)
        return Val(v.ty, fields={f: Val(t, expr=proj(v.ty, k, v.expr)) for k, (f, t) in enumerate(TYPES[v.ty])})

    def get_field(self, v, name):
        if v.ty not in TYPES or name not in dict(TYPES[v.ty]):
            self.err('no field `%s` in type %s' % (name, v.ty))
        return self.explode(v).fields[name]

    # ---- places
    def read(self, slot, path):
        v = slot.val
        if isinstance(v, Ref):
            return self.read(v.slot, v.path + path)
        if v is None:
            self.err('use of the uninitialised variable `%s`' % slot.hint)
        if not isinstance(v, Val):
            self.err('not a value')
        for p in path:
            v = self.get_field(v, p)
        return v

    def write(self, slot, path, val):
        if isinstance(slot.val, Ref):
            return self.write(slot.val.slot, slot.val.path + path, val)
        hint = slot.hint if slot.hint != 'self' else ''
        hint = '_'.join([hint] * bool(hint) + path) or self.tgt.get('selfparam', 's')
        if slot.val is None:
            if path:
                self.err('field of an uninitialised variable')
            slot.val = self.bind(hint, val)
            return
        old = self.read(slot, path)
        if old.ty != val.ty:
            self.err('assignment of a %s to a place of type %s' % (val.ty, old.ty))
        val = self.bind(hint, val)
        if not path:
            slot.val = val
            return

        def upd(v, p):
            if not p:
                return val
            v = self.explode(v)
            f = dict(v.fields)
            if p[0] not in f:
                self.err('no field `%s`' % p[0])
            f[p[0]] = upd(f[p[0]], p[1:])
            return Val(v.ty, fields=f)
        slot.val = upd(slot.val, path)

    def place(self, e, env):
        """(slot, path) of a place expression, or None"""
        if e[0] == 'path' and len(e[1]) == 1:
            sl = env.lookup(e[1][0])
            if sl is None or isinstance(sl.val, HookAlias):
                return None
            if isinstance(sl.val, Ref):
                return (sl.val.slot, list(sl.val.path))
            return (sl, [])
        if e[0] == 'field':
            p = self.place(e[1], env)
            if p is None:
                return None
            return (p[0], p[1] + [e[2]])
        if e[0] == 'un' and e[1] == '*':
            return self.place(e[2], env)
        return None

    def place_of(self, e, env):
        p = self.place(e, env)
        if p is not None:
            return p
        r = self.eval(e, env)
        if isinstance(r, Ref):
            return (r.slot, list(r.path))
        self.err('in-place operation on a temporary')

    def rv(self, x):
        if isinstance(x, Ref):
            return self.read(x.slot, x.path)
        if isinstance(x, HookAlias):
            self.err('function used as a value')
        return x

    # ---- expression evaluation: returns Val | Ref | HookAlias
    def dict_of(self, ty):
        if ty not in self.dict:
            self.err('arithmetic on a value of type %s (no dictionary)' % ty)
        return self.dict[ty]

    def const(self, which):
        return Val('K', expr='(%s F)' % which)

    def eval(self, e, env):
        k = e[0]
        if k == 'num':
            return Val('int', expr=str(e[1]))
        if k == 'path':
            return self.eval_path(e[1], env)
        if k == 'field':
            p = self.place(e, env)
            if p is not None:
                return self.read(p[0], p[1])
            return self.get_field(self.rv(self.eval(e[1], env)), e[2])
        if k == 'un':
            op = e[1]
            if op in ('&', '&mut'):
                p = self.place(e[2], env)
                if p is not None:
                    return Ref(p[0], p[1])
                return self.eval(e[2], env)
            if op == '*':
                return self.rv(self.eval(e[2], env))
            v = self.rv(self.eval(e[2], env))
            if op == '-':
                if v.ty not in self.dict and (v.ty, 'neg') in self.methods() and self.methods()[(v.ty, 'neg')].get('byvalue'):
                    return self.call_target(self.methods()[(v.ty, 'neg')], (Slot(v, 'tmp'), []), [], env)
                return Val(v.ty, expr=app('fneg ' + self.dict_of(v.ty), self.whole(v)))
            if op == '!':
                if v.ty != 'bool':
                    self.err('`!` on a non-boolean')
                return Val('bool', expr=app('negb', v.expr))
        if k == 'bin':
            return self.eval_bin(e, env)
        if k == 'array':
            items = [self.rv(self.eval(x, env)) for x in e[1]]
            if items and all(v.ty == 'int' for v in items):
                return Val('intarr', items=[int(v.expr) for v in items])
            return Val('arr', items=items)
        if k == 'tuple':
            items = [self.rv(self.eval(x, env)) for x in e[1]]
            if len(items) == 2 and all(v.ty == 'K' for v in items):
                return self.construct('PairK', items)
            self.err('unsupported tuple expression')
        if k == 'str':
            return Val('str', expr=e[1])
        if k == 'ifexpr':
            return self.eval_ifexpr(e, env)
        if k == 'blockexpr':
            st, t = block_value(e[1])
            if st or t is None:
                self.err('block expression with statements inside a larger expression')
            return self.eval(t, env)
        if k == 'try':
            o = self.rv(self.eval(e[1], env))
            if o.ty == 'unitres':
                # `field.serialize_..(&mut writer)?`: the item is in the writer's list; an error of the field
                # serializer ends the whole function with that error (the reading of the item list: first failure)
                return Val('unit', expr='tt')
            if o.ty != 'optsqrt':
                self.err('`?` on something else than `x.sqrt()`')
            if not self.tgt['ret'].startswith('opt:'):
                self.err('`?` in a function that does not return an Option')
            n = self.fresh('y')
            self.cur.append(('matchopt', o.expr, n, 'GRet None' if self.tgt.get('may_panic') else 'None'))
            return Val('K', expr=n)
        if k == 'call':
            return self.eval_call(e[1][1], e[2], env)
        if k == 'mcall':
            return self.eval_mcall(e, env)
        if k == 'struct':
            ctors = dict({'Self': self.tgt['selfty']}, **self.tgt.get('ctors', {}))
            if e[1][0] not in ctors or ctors[e[1][0]] not in TYPES:
                self.err('unknown struct `%s`' % e[1][0])
            ty = ctors[e[1][0]]
            given = dict()
            for n, x in e[2]:
                if n in given:
                    self.err('field %s given twice' % n)
                given[n] = self.rv(self.eval(x, env))
            if sorted(given) != sorted(f for f, _ in TYPES[ty]):
                self.err('struct literal of %s with fields %s' % (ty, sorted(given)))
            return self.construct(ty, [given[f] for f, _ in TYPES[ty]])
        if k == 'cast':
            v = self.rv(self.eval(e[1], env))
            if v.ty not in ('nat', 'int', 'Zint'):
                self.err('`as usize` on a %s' % v.ty)
            return v
        if k == 'index':
            # TABLE[i]: the table is a function parameter `Z -> entry`
            if e[1][0] != 'path':
                self.err('indexing of something else than a configuration table')
            h = self.hook_for(e[1][1])
            if h is None or h['kind'] != 'table':
                self.err('unknown table `%s`' % '::'.join(e[1][1]))
            i = self.rv(self.eval(e[2], env))
            if i.ty != 'Zint':
                self.err('table index of type %s' % i.ty)
            return Val(h['ret'], expr=app(h['param'], i.expr))
        if k == 'closure':
            self.err('closure outside `.map(..)`')
        self.err('unsupported expression %r' % (k,))

    def eval_ifexpr(self, e, env):
        """`if c { a } else { b }` with pure branches, inside a larger expression"""
        c = self.rv(self.eval(e[1], env))
        if c.ty != 'bool':
            self.err('`if` on a non-boolean')
        vals = []
        for b in (e[2], e[3]):
            st, t = block_value(b)
            if st or t is None:
                self.err('conditional expression with statements inside a larger expression')
            saved, self.cur = self.cur, []
            v = self.rv(self.eval(t, env.clone()))
            lets, self.cur = self.cur, saved
            if lets:
                self.err('side effects inside a conditional expression')
            vals.append(v)
        a, b = vals
        if a.ty != b.ty and not (a.ty.startswith('opt:') and b.ty.startswith('opt:') and '?' in (a.ty[4:], b.ty[4:])):
            self.err('conditional expression with branches of types %s and %s' % (a.ty, b.ty))
        ty = a.ty if a.ty != 'opt:?' else b.ty
        wa = a.expr if a.ty.startswith('opt:') else self.whole(a)
        wb = b.expr if b.ty.startswith('opt:') else self.whole(b)
        return Val(ty, expr='(if %s then %s else %s)' % (c.expr, wa, wb))

    def eval_path(self, segs, env):
        full = '::'.join(segs)
        if full in self.hooks and self.hooks[full]['kind'] == 'const' and (len(segs) > 1 or env.lookup(full) is None):
            return Val(self.hooks[full]['ret'], expr=self.hooks[full]['param'])
        if len(segs) == 2 and segs[0] in self.tgt.get('enums', {}):
            en = self.tgt['enums'][segs[0]]
            if segs[1] not in ENUMS[en][1]:
                self.err('unknown variant %s' % full)
            return Val('enum:' + en, expr=ENUMS[en][1][segs[1]])
        if len(segs) == 1:
            n = segs[0]
            if n == 'None':
                return Val('opt:?', expr='None')
            if n in ('true', 'false') and env.lookup(n) is None:
                return Val('bool', expr=n)
            sl = env.lookup(n)
            if sl is None:
                self.err('unknown identifier `%s`' % n)
            if sl.val is None:
                self.err('use of the uninitialised variable `%s`' % n)
            if isinstance(sl.val, (Ref, HookAlias)):
                return sl.val
            return sl.val
        last = segs[-1]
        if last in ('ZERO', 'ONE') and segs[-2] == 'BaseField' and segs[0] in ('P', 'Self') and len(segs) == 3:
            return self.const('f0' if last == 'ZERO' else 'f1')
        h = self.hook_for(segs)
        if h is not None:
            if h['kind'] == 'const':
                return Val(h['ret'], expr=h['param'])
            if h['kind'] == 'intconst':
                return Val('int', expr=str(h['value']))
            if h['kind'] == 'table':
                self.err('table `%s` used without an index' % '::'.join(segs))
            return HookAlias(h)
        self.err('unknown path `%s`' % '::'.join(segs))

    def hook_for(self, segs):
        if '::'.join(segs) in self.hooks and len(segs) > 1:
            return self.hooks['::'.join(segs)]
        if len(segs) in (2, 3) and (segs[0] in ('P', 'Self') or segs[0].startswith('<')) and segs[-1] in self.hooks \
           and (len(segs) == 2 or segs[1].endswith('Config')):
            return self.hooks[segs[-1]]
        return None

    def eval_bin(self, e, env):
        op = e[1]
        l = self.eval(e[2], env)
        r = self.eval(e[3], env)          # may mutate places; a value operand was read above
        l, r = self.rv(l), self.rv(r)
        if op in ('&&', '||'):
            if l.ty != 'bool' or r.ty != 'bool':
                self.err('`%s` on non-booleans' % op)
            return Val('bool', expr=app('andb' if op == '&&' else 'orb', l.expr, r.expr))
        if op in ('<', '<='):
            if op not in self.hooks or l.ty != 'K' or r.ty != 'K':
                self.err('unsupported comparison %s %s %s' % (l.ty, op, r.ty))
            return Val('bool', expr=app(self.hooks[op]['param'], l.expr, r.expr))
        if op == '/':
            if l.ty != 'K' or r.ty != 'K':
                self.err('`/` on non-scalars')
            if not self.tgt.get('may_panic'):
                self.err('`/` (panics on zero) in a function not declared may_panic')
            d = self.bind('d', r)
            self.cur.append(('guard', app('fis0 F', d.expr)))
            return Val('K', expr=app('fmul F', l.expr, app('finv F', d.expr)))
        if op in ('==', '!='):
            if l.ty == 'nat' and r.ty == 'int':
                t = app('Nat.eqb', l.expr, r.expr + '%nat')
            elif l.ty == 'bool' and r.ty == 'bool':
                t = app('Bool.eqb', l.expr, r.expr)
            elif l.ty == r.ty and l.ty not in self.dict and (l.ty, 'eq') in self.methods():
                d = self.methods()[(l.ty, 'eq')]
                t = self.call_target(d, (Slot(l, 'tmp'), []), [], env, vals=[r]).expr
            elif l.ty == r.ty and l.ty in self.dict:
                t = app('feqb ' + self.dict[l.ty], self.whole(l), self.whole(r))
            else:
                self.err('unsupported comparison %s == %s' % (l.ty, r.ty))
            return Val('bool', expr=t if op == '==' else app('negb', t))
        if op == '%':
            if l.ty != 'Zint' or r.ty not in ('int', 'Zint'):
                self.err('unsupported `%%` on %s, %s' % (l.ty, r.ty))
            return Val('Zint', expr='(Z.modulo %s %s)' % (par(l.expr), par(r.expr)))
        if op == '+' and l.ty == 'Zint' and r.ty == 'Zint':
            return Val('Zint', expr='(Z.add %s %s)' % (par(l.expr), par(r.expr)))
        if op == '*' and {l.ty, r.ty} == {'int', 'nat'}:
            return Val('nat', expr='(%s * %s)%%nat' % (par(l.expr), par(r.expr)))
        if op in ('+', '-', '*') and l.ty not in self.dict and l.ty in TYPES:
            # by-value operator wrappers (impl_additive_ops_from_ref! / impl_multiplicative_ops_from_ref!,
            # `Add<T: Borrow<Affine>>`): `let mut result = self; result op= &other; result`
            d = self.op_method(l.ty, op, r.ty)
            if d is not None:
                tmp = Slot(l, 'tmp')
                self.call_target(d, (tmp, []), [], env, vals=[r])
                return self.rv(Ref(tmp, []))
        if l.ty != r.ty:
            self.err('operand types differ: %s %s %s' % (l.ty, op, r.ty))
        f = {'+': 'fadd', '-': 'fsub', '*': 'fmul'}[op]
        return Val(l.ty, expr=app('%s %s' % (f, self.dict_of(l.ty)), self.whole(l), self.whole(r)))

    def op_method(self, lty, op, rty):
        """the translated `op`_assign(&rhs) of a struct type without dictionary (None if there is none)"""
        name = {'+': 'add_assign', '-': 'sub_assign', '*': 'mul_assign'}[op]
        m = self.methods()
        for key in ((lty, name), (lty, name + '_' + rty), (lty, name + '_' + {'SWAffS': 'SWAff'}.get(rty, rty))):
            d = m.get(key)
            if d is not None and d['ret'] == 'self' and len(d['args']) == 1 and \
               d['args'][0][1] in (rty, {'SWAffS': 'SWAff'}.get(rty)):
                return d
        return None

    def sum_of_products(self, a, b):
        if a.ty != 'arr' or b.ty != 'arr' or len(a.items) != len(b.items) or not a.items:
            self.err('sum_of_products: expected two arrays of equal length')
        t = '(f0 F)'
        for x, y in zip(a.items, b.items):
            if x.ty != 'K' or y.ty != 'K':
                self.err('sum_of_products on non-scalars')
            t = app('fadd F', t, app('fmul F', x.expr, y.expr))
        return Val('K', expr=t)

    def construct(self, ty, args):
        fs = TYPES[ty]
        if len(args) != len(fs):
            self.err('constructor of %s with %d arguments' % (ty, len(args)))
        for (f, t), a in zip(fs, args):
            if a.ty != t:
                self.err('constructor of %s: field %s gets a %s' % (ty, f, a.ty))
        return Val(ty, fields={f: a for (f, _), a in zip(fs, args)})

    def eval_call(self, segs, args, env):
        last = segs[-1]
        if segs == ['Some']:
            if len(args) != 1:
                self.err('Some with %d arguments' % len(args))
            v = self.rv(self.eval(args[0], env))
            return Val('opt:' + v.ty, expr=app('Some', self.whole(v)))
        if last in ('zero', 'one') and len(segs) == 3 and segs[-2] == 'BaseField' and segs[0] in ('P', 'Self') and not args:
            return self.const('f0' if last == 'zero' else 'f1')
        if last in ('zero', 'one') and len(segs) == 2 and not args and \
           re.match(r'^<(P|Self) :: BaseField as (Zero|One)>$', segs[0]) and (last == 'zero') == segs[0].endswith('Zero>'):
            return self.const('f0' if last == 'zero' else 'f1')
        if segs == ['Ok'] and len(args) == 1 and self.tgt.get('result_ok'):
            return self.eval(args[0], env)
        full = '::'.join(segs)
        if full in self.hooks and self.hooks[full]['kind'] == 'const' and not args and self.hooks[full].get('call'):
            return Val(self.hooks[full]['ret'], expr=self.hooks[full]['param'])
        if len(segs) == 1 and segs[0] in self.hooks and self.hooks[segs[0]]['kind'] == 'fn' and env.lookup(segs[0]) is None:
            return self.call_hook(self.hooks[segs[0]], args, env)
        if len(segs) == 2 and segs[0] in self.tgt.get('ctors', {}) and (self.tgt['ctors'][segs[0]], last) in self.methods() \
           and not self.methods()[(self.tgt['ctors'][segs[0]], last)].get('method', True):
            return self.call_target(self.methods()[(self.tgt['ctors'][segs[0]], last)], None, args, env)
        if last == 'extension_degree' and not args:
            if len(segs) == 3 and segs[-2] == 'BaseField' and segs[0] in ('P', 'Self'):
                return Val('nat', expr='(fdeg F)')
            if segs == ['Self', 'extension_degree'] and self.tgt['selfty'] in DEGREE:
                return Val('nat', expr='(%d * fdeg F)%%nat' % DEGREE[self.tgt['selfty']])
            self.err('unsupported extension_degree() receiver')
        if last == 'sum_of_products' and len(segs) == 3 and segs[-2] == 'BaseField' and len(args) == 2:
            a = self.rv(self.eval(args[0], env))
            b = self.rv(self.eval(args[1], env))
            return self.sum_of_products(a, b)
        if len(segs) == 2 and segs[0] == 'Self' and (self.tgt['selfty'], last) in self.methods() \
           and not self.methods()[(self.tgt['selfty'], last)].get('method', True):
            return self.call_target(self.methods()[(self.tgt['selfty'], last)], None, args, env)
        if last in ('new', 'new_unchecked') and len(segs) == 2:
            ctors = dict({'Self': self.tgt['selfty']}, **self.tgt.get('ctors', {}))
            if segs[0] not in ctors:
                self.err('unknown constructor %s::%s' % (segs[0], last))
            vals = [self.rv(self.eval(a, env)) for a in args]
            return self.construct(ctors[segs[0]], vals)
        if len(segs) == 2 and segs[0] == 'Self' and (self.tgt['selfty'], last) in self.methods():
            return self.call_target(self.methods()[(self.tgt['selfty'], last)], None, args, env)
        h = self.hook_for(segs)
        if h is None and len(segs) == 1:
            sl = env.lookup(segs[0])
            if sl is not None and isinstance(sl.val, HookAlias):
                h = sl.val.hook
            elif segs[0] in self.hooks and self.hooks[segs[0]]['kind'] == 'boolconst':
                h = self.hooks[segs[0]]
        if h is not None:
            return self.call_hook(h, args, env)
        self.err('unknown call `%s`' % '::'.join(segs))

    def call_hook(self, h, args, env):
        if h['kind'] == 'boolconst':
            # a predicate of the configuration only: the argument text must be the expected one
            if [a for a in args] != h['args_ast']:
                self.err('%s: unexpected arguments' % h['rust'])
            return Val('bool', expr=h['param'])
        if h['kind'] == 'const':
            self.err('%s is a constant, not a function' % h['rust'])
        if len(args) != len(h['args']):
            self.err('%s: expected %d arguments' % (h['rust'], len(h['args'])))
        if h['kind'] == 'inplace2':
            # f(&mut p1, &mut p2, opaque..): p1 := param(p1), p2 := param2(p2)
            places = []
            for i, a in enumerate(args):
                if i < 2:
                    if not (a[0] == 'un' and a[1] == '&mut'):
                        self.err('%s: argument %d must be `&mut place`' % (h['rust'], i + 1))
                    places.append(self.place_of(a[2], env))
                else:
                    v = self.rv(self.eval(a, env))
                    if v.ty != h['args'][i] or v.ty != 'usize':
                        self.err('%s: unexpected argument %d' % (h['rust'], i + 1))
            if places[0][0] is places[1][0] and places[0][1] == places[1][1]:
                self.err('%s: both arguments are the same place' % h['rust'])
            for pl, pn in zip(places, (h['param'], h['param2'])):
                v = self.read(*pl)
                if v.ty != 'K':
                    self.err('%s: argument of type %s' % (h['rust'], v.ty))
                self.write(pl[0], pl[1], Val('K', expr=app(pn, v.expr)))
            return Val('unit', expr='tt')
        tgt_place = None
        vals = []
        for i, a in enumerate(args):
            if i == 0 and h['kind'] == 'inplace':
                if a[0] == 'un' and a[1] == '&mut':
                    tgt_place = self.place_of(a[2], env)
                elif a[0] == 'path' and len(a[1]) == 1 and a[1][0] in self.tgt.get('mutrefs', []):
                    tgt_place = self.place_of(a, env)
                else:
                    self.err('%s: first argument must be `&mut place`' % h['rust'])
                vals.append(None)
            else:
                vals.append(self.rv(self.eval(a, env)))
        if tgt_place is not None:
            vals[0] = self.read(*tgt_place)
        for v, t in zip(vals, h['args']):
            if v.ty != t:
                self.err('%s: argument of type %s, expected %s' % (h['rust'], v.ty, t))
        res = Val(h['ret'], expr=app(h['param'], *[self.whole(v) for v in vals if v.ty != 'usize']))
        if tgt_place is not None:
            self.write(tgt_place[0], tgt_place[1], res)
            return Ref(tgt_place[0], tgt_place[1])
        return res

    def methods(self):
        return {(d['selfty'], d.get('callname', d['fn'])): d for d in self.defs if 'out' not in d and d.get('selfty')}

    def call_target(self, d, recv_place, args, env, vals=None):
        """call of another translated function"""
        mine = {h['param']: h for h in self.tgt.get('hooks', [])}
        for h in d.get('hooks', []):
            if h['param'] not in mine or (mine[h['param']].get('args'), mine[h['param']]['ret']) != (h.get('args'), h['ret']):
                self.err('callee %s needs parameter %s which %s does not have' % (d['name'], h['param'], self.what))
        for ty, dn in d.get('dicts', {}).items():
            if self.tgt.get('dicts', {}).get(ty) != dn:
                self.err('callee %s needs dictionary %s' % (d['name'], dn))
        if vals is None:
            vals = [self.rv(self.eval(a, env)) for a in args]
        if len(vals) != len(d['args']):
            self.err('%s: expected %d arguments' % (d['fn'], len(d['args'])))
        vals = [self.coerce(v, t) for v, (_, t, _) in zip(vals, d['args'])]
        for v, (_, t, _) in zip(vals, d['args']):
            if v.ty != t:
                self.err('%s: argument of type %s, expected %s' % (d['fn'], v.ty, t))
        pre = [d['name'], 'F'] + list(d.get('dicts', {}).values()) + \
            [x for h in uniq_hooks(d) for x in ([h['param'], h['param2']] if h['kind'] == 'inplace2' else [h['param']])]
        a = []
        if recv_place is not None:
            a.append(self.whole(self.read(*recv_place)))
        a += [self.whole(v) for v in vals]
        text = app(' '.join(pre), *a)
        if d.get('may_panic'):
            if not self.tgt.get('may_panic') or d['ret'] == 'self':
                self.err('call of a function that may panic (%s)' % d['name'])
            n = self.fresh('r')
            self.cur.append(('bindres', text, n))
            return Val(d['ret'], expr=n)
        if d['ret'] == 'self' and d.get('byvalue'):
            # `fn f(mut self) -> Self` on a Copy value: the receiver is not changed
            if recv_place is None:
                self.err('%s needs a receiver' % d['fn'])
            return Val(d['selfty'], expr=text)
        if d['ret'] == 'self':
            if recv_place is None:
                self.err('%s needs a receiver' % d['fn'])
            self.write(recv_place[0], recv_place[1], Val(d['selfty'], expr=text))
            return Ref(recv_place[0], recv_place[1])
        return Val(d['ret'], expr=text)

    def coerce(self, v, want):
        """an Affine struct where the callee takes the point through `.xy()` (Option<(x, y)>)"""
        if v.ty == 'SWAffS' and want == 'SWAff' and ('SWAffS', 'xy') in self.methods():
            d = self.methods()[('SWAffS', 'xy')]
            return Val('SWAff', expr=app('%s F' % d['name'], self.whole(v)))
        return v

    def closure_value(self, clo, payload, env):
        """run a closure `|x| e` / `|(a, b)| { ..; e }` on a payload value; returns the value of the body"""
        if clo[0] != 'closure' or len(clo[1]) != 1:
            self.err('unsupported closure')
        pat = clo[1][0]
        env.scopes.append({})
        if isinstance(pat, tuple):
            if payload.ty != 'PairK' or len(pat) != 2:
                self.err('tuple closure parameter on a %s' % payload.ty)
            pv = self.explode(payload)
            for n, f in zip(pat, ('0', '1')):
                env.declare(n, Slot(self.bind(n, pv.fields[f]), n))
        else:
            env.declare(pat, Slot(self.bind(pat, payload), pat))
        stmts, tail = block_value(clo[2])
        if tail is None:
            self.err('closure without a value')
        for st in stmts:
            if st[0] not in ('let', 'assign', 'expr'):
                self.err('control flow inside a closure')
            self.simple(st, env)
        v = self.eval(tail, env)
        v = self.rv(v)
        env.scopes.pop()
        return v

    def eval_chain(self, e, env):
        """Option combinator chain in return position (targets with optchain=True): the payload on the
        `Some` path; every `None` exit returns None from the function"""
        none = 'GRet None' if self.tgt.get('may_panic') else 'None'
        if e[0] == 'mcall' and e[2] in ('map', 'and_then') and len(e[3]) == 1:
            payload = self.eval_chain(e[1], env)
            v = self.closure_value(e[3][0], payload, env)
            if e[2] == 'map':
                if v.ty not in ('K', 'bool') + tuple(TYPES):
                    self.err('`.map` closure returning a %s' % v.ty)
                return v
            if v.ty != 'optsqrt':
                self.err('`.and_then` closure must end in `.sqrt()`')
            n = self.fresh('r')
            self.cur.append(('matchopt', v.expr, n, none))
            return Val('K', expr=n)
        o = self.rv(self.eval(e, env))
        if o.ty == 'optinv':
            x = self.bind('n', Val('K', expr=o.expr))
            self.cur.append(('guardv', app('fis0 F', x.expr), none))
            return Val('K', expr=app('finv F', x.expr))
        if o.ty == 'optsqrt':
            n = self.fresh('r')
            self.cur.append(('matchopt', o.expr, n, none))
            return Val('K', expr=n)
        if o.ty.startswith('opt:') and o.ty[4:] in TYPES:
            n = self.fresh('r')
            self.cur.append(('matchopt', o.expr, n, none))
            return Val(o.ty[4:], expr=n)
        self.err('unsupported Option chain on a %s' % o.ty)

    def eval_mcall(self, e, env):
        _, recv, name, args = e
        if name in ('clone', 'as_ref', 'into_bigint') and not args:
            v = self.rv(self.eval(recv, env))
            if name != 'clone' and v.ty != 'Scalar':
                self.err('`.%s()` on a %s' % (name, v.ty))
            return v
        if name in self.emit_hooks():
            h = self.emit_hooks()[name]
            v = self.rv(self.eval(recv, env))
            if v.ty != 'K' or len(args) != len(h['args']):
                self.err('`.%s` on a %s / with %d arguments' % (name, v.ty, len(args)))
            w = args[0][2] if (args[0][0] == 'un' and args[0][1] == '&mut') else args[0]
            pl = self.place(w, env)
            if pl is None or not self.read(*pl).ty.startswith('Writer:'):
                self.err('`.%s`: the first argument must be the writer' % name)
            wv = self.read(*pl)
            flag = 'None'
            for a, t in list(zip(args, h['args']))[1:]:
                av = self.rv(self.eval(a, env))
                if t == 'flags':
                    if av.ty != 'enum:' + wv.ty[7:]:
                        self.err('`.%s`: flags of type %s' % (name, av.ty))
                    flag = app('Some', av.expr)
                elif av.ty != t:
                    self.err('`.%s`: unexpected argument of type %s' % (name, av.ty))
            self.write(pl[0], pl[1], Val(wv.ty, expr='(%s ++ [(%s, %s)])' % (wv.expr, v.expr, flag)))
            return Val('unitres', expr='tt')
        if name in self.hooks and self.hooks[name]['kind'] == 'sizeconst' and not args:
            v = self.rv(self.eval(recv, env))
            if v.ty != 'K':
                self.err('`.%s()` on a %s' % (name, v.ty))
            return Val('Zint', expr=self.hooks[name]['param'])
        if name == 'not' and not args:
            c = self.rv(self.eval(recv, env))
            if c.ty != 'bool':
                self.err('`.not()` on a %s' % c.ty)
            return Val('bool', expr=app('negb', c.expr))
        if name == 'then' and len(args) == 1 and args[0][0] == 'closure' and not args[0][1]:
            # `c.then(|| { ..; v })`: Some(v) when c (the closure runs only then), else None
            c = self.rv(self.eval(recv, env))
            if c.ty != 'bool':
                self.err('`.then(..)` on a %s' % c.ty)
            saved, self.cur = self.cur, []
            e2 = env.clone()
            e2.scopes.append({})
            stmts, tail = args[0][2]
            if tail is None:
                self.err('closure without a value')
            for st in stmts:
                if st[0] not in ('let', 'assign', 'expr'):
                    self.err('control flow inside a closure')
                self.simple(st, e2)
            v = self.rv(self.eval(tail, e2))
            lets, self.cur = self.cur, saved
            if any(l[0] != 'let' for l in lets):
                self.err('panic inside a closure')
            if v.ty not in TYPES and v.ty != 'K':
                self.err('`.then` closure returning a %s' % v.ty)
            body = ''.join('let %s := %s in ' % (n, t) for (_, n, t) in lets)
            return Val('opt:' + v.ty, expr='(if %s then %s%s else None)' % (c.expr, body, app('Some', self.whole(v))))
        if name == 'then_some' and len(args) == 1:
            c = self.rv(self.eval(recv, env))
            v = self.rv(self.eval(args[0], env))
            if c.ty != 'bool' or v.ty not in TYPES:
                self.err('unsupported `.then_some`')
            return Val('opt:' + v.ty, expr='(if %s then Some %s else None)' % (c.expr, self.whole(v)))
        if name in ('sqrt', 'legendre') and not args and name in self.hooks:
            v = self.rv(self.eval(recv, env))
            if v.ty != 'K':
                self.err('`.%s()` on a %s' % (name, v.ty))
            if name == 'legendre':
                return Val('legendre', expr=self.whole(v))
            return Val('optsqrt', expr=app(self.hooks['sqrt']['param'], self.whole(v)))
        if name == 'is_qr' and not args and 'legendre' in self.hooks:
            v = self.rv(self.eval(recv, env))
            if v.ty != 'legendre':
                self.err('`.is_qr()` on something else than `x.legendre()`')
            return Val('bool', expr=app(self.hooks['legendre']['param'], v.expr))
        if name == 'expect' and len(args) == 1 and args[0][0] == 'str':
            return self.eval_mcall(('mcall', recv, 'unwrap', []), env)
        if name == 'unwrap' and not args and 'sqrt' in self.hooks:
            o = self.rv(self.eval(recv, env))
            if o.ty == 'optsqrt':
                if not self.tgt.get('may_panic'):
                    self.err('`.unwrap()` in a function not declared may_panic')
                n = self.fresh('r')
                self.cur.append(('matchopt', o.expr, n, 'GPanic'))
                return Val('K', expr=n)
            if o.ty != 'optinv':
                self.err('`.unwrap` on a %s' % o.ty)
            x = self.bind('n', Val('K', expr=o.expr))
            self.cur.append(('guard', app('fis0 F', x.expr)))
            return Val('K', expr=app('finv F', x.expr))
        if self.tgt.get('group_ops'):
            r = self.group_mcall(recv, name, args, env)
            if r is not None:
                return r
        # methods that do not look at the receiver's value
        if name == 'borrow' and not args:
            return self.eval(recv, env)
        if name == 'contains' and len(args) == 1:
            a = self.rv(self.eval(recv, env))
            x = self.rv(self.eval(args[0], env))
            if a.ty != 'intarr' or x.ty != 'nat':
                self.err('unsupported `contains`')
            return Val('bool', expr='(existsb (Nat.eqb %s) [%s]%%nat)' % (x.expr, '; '.join(str(i) for i in a.items)))
        if name == 'map_or_else' and len(args) == 2:
            o = self.rv(self.eval(recv, env))
            if o.ty != 'optxy':
                self.err('`.map_or_else` on something else than `.xy()`')
            if args[0][0] != 'path' or args[1][0] != 'closure' or len(args[1][1]) != 1 \
               or not isinstance(args[1][1][0], tuple) or len(args[1][1][0]) != 2:
                self.err('unsupported `.map_or_else` arguments')
            dflt = self.rv(self.eval_call(args[0][1], [], env))
            saved, self.cur = self.cur, []
            env.scopes.append({})
            a, b = args[1][1][0]
            na, nb = self.fresh(a), self.fresh(b)
            env.declare(a, Slot(Val('K', expr=na), a))
            env.declare(b, Slot(Val('K', expr=nb), b))
            stmts, tail = args[1][2]
            if stmts or tail is None:
                self.err('unsupported closure body in `.map_or_else`')
            v = self.rv(self.eval(tail, env))
            env.scopes.pop()
            lets, self.cur = self.cur, saved
            if lets:
                self.err('side effects inside a `.map_or_else` closure')
            if v.ty != dflt.ty:
                self.err('`.map_or_else` branches of types %s and %s' % (dflt.ty, v.ty))
            return Val(v.ty, expr='(match %s with Some (%s, %s) => %s | None => %s end)' % (o.expr, na, nb, self.whole(v), self.whole(dflt)))
        if name in ('map', 'unwrap'):
            o = self.rv(self.eval(recv, env))
            if o.ty != 'optinv':
                self.err('`.%s` on something else than `x.inverse()`' % name)
            if name == 'unwrap':
                if args:
                    self.err('unwrap with arguments')
                if not self.tgt.get('may_panic'):
                    self.err('`.unwrap()` in a function not declared may_panic')
                x = self.bind('n', Val('K', expr=o.expr))
                self.cur.append(('guard', app('fis0 F', x.expr)))
                return Val('K', expr=app('finv F', x.expr))
            if len(args) != 1 or args[0][0] != 'closure' or len(args[0][1]) != 1:
                self.err('unsupported `.map` argument')
            x = self.bind('n', Val('K', expr=o.expr))
            saved, self.cur = self.cur, []
            env.scopes.append({})
            pn = self.fresh(args[0][1][0])
            self.cur.append(('let', pn, app('finv F', x.expr)))
            env.declare(args[0][1][0], Slot(Val('K', expr=pn), args[0][1][0]))
            stmts, tail = args[0][2]
            if tail is None:
                self.err('closure without a value')
            for s in stmts:
                if s[0] not in ('let', 'assign', 'expr'):
                    self.err('control flow inside a closure')
                self.simple(s, env)
            v = self.rv(self.eval(tail, env))
            env.scopes.pop()
            lets, self.cur = self.cur, saved
            body = ''.join('let %s := %s in ' % (n, t) for (_, n, t) in lets)
            if any(l[0] != 'let' for l in lets):
                self.err('panic inside a closure')
            return Val('opt:' + v.ty, expr='(if %s then None else %s%s)' % (app('fis0 F', x.expr), body, app('Some', self.whole(v))))
        # translated methods
        p = self.place(recv, env)
        rty = None
        if p is not None:
            rty = self.read(*p).ty
        if name in ('square_in_place', 'double_in_place', 'neg_in_place') or \
           (rty is not None and (rty, name) in self.methods()) or \
           (rty is not None and (rty, name) in self.method_hooks()):
            if p is None:
                p = self.place_of(recv, env)
                rty = self.read(*p).ty
            if (rty, name) in self.methods():
                return self.call_target(self.methods()[(rty, name)], p, args, env)
            if (rty, name) in self.method_hooks():
                h = self.method_hooks()[(rty, name)]
                av = [self.rv(self.eval(a, env)) for a in args]
                if h.get('keep_args'):
                    if [v.ty for v in av] != h.get('args', []):
                        self.err('%s: unexpected arguments' % name)
                    self.write(p[0], p[1], Val(rty, expr=app(h['param'], *([v.expr for v in av] + [self.whole(self.read(*p))]))))
                    return Ref(p[0], p[1])
                if [('usize' if v.ty == 'int' else v.ty) for v in av] != h.get('args', []):
                    self.err('%s: unexpected arguments' % name)
                self.write(p[0], p[1], Val(rty, expr=app(h['param'], self.whole(self.read(*p)))))
                return Ref(p[0], p[1])
            if args:
                self.err('%s with arguments' % name)
            v = self.read(*p)
            D = self.dict_of(v.ty)
            f = {'square_in_place': 'fsqr', 'double_in_place': 'fdbl', 'neg_in_place': 'fneg'}[name]
            self.write(p[0], p[1], Val(v.ty, expr=app('%s %s' % (f, D), self.whole(v))))
            return Ref(p[0], p[1])
        v = self.rv(self.eval(recv, env))
        if v.ty == 'SWAff' and name == 'xy' and not args:
            return Val('optxy', expr=v.expr)
        if (v.ty, name) in self.methods():
            d = self.methods()[(v.ty, name)]
            if d['ret'] == 'self':
                self.err('in-place method %s on a temporary' % name)
            tmp = Slot(v, 'tmp')
            return self.call_target(d, (tmp, []), args, env)
        if name in ('square', 'double', 'neg', 'inverse', 'is_zero', 'is_one') and not args:
            D = self.dict_of(v.ty)
            w = self.whole(v)
            if name == 'inverse':
                if v.ty != 'K':
                    self.err('inverse() of a non-scalar')
                return Val('optinv', expr=w)
            if name == 'is_zero':
                return Val('bool', expr=app('feqb ' + D, w, '(f0 %s)' % D))
            if name == 'is_one':
                return Val('bool', expr=app('feqb ' + D, w, '(f1 %s)' % D))
            f = {'square': 'fsqr', 'double': 'fdbl', 'neg': 'fneg'}[name]
            return Val(v.ty, expr=app('%s %s' % (f, D), w))
        self.err('unsupported method `.%s` on a value of type %s' % (name, v.ty))

    def group_mcall(self, recv, name, args, env):
        """phase 3: methods on points (Affine structs / Projective) in targets with group_ops=True"""
        ph = {(h['recv'], h['rust']): h for h in self.tgt.get('hooks', []) if h['kind'] == 'pmethod'}
        p = self.place(recv, env)
        v = self.read(*p) if p is not None else None
        if v is None:
            v = self.rv(self.eval(recv, env))
        if (v.ty, name) in ph:
            h = ph[(v.ty, name)]
            av = [self.rv(self.eval(a, env)) for a in args]
            if [a.ty for a in av] != h['args']:
                self.err('%s: unexpected arguments' % name)
            return Val(h['ret'], expr=app(h['param'], self.whole(v), *[self.whole(a) for a in av]))
        m = self.methods()
        tmp = (Slot(v, 'tmp'), [])
        if name == 'eq' and len(args) == 1:
            a = self.rv(self.eval(args[0], env))
            key = (v.ty, 'eq' if a.ty == v.ty else 'eq_' + a.ty)
            if key in m:
                return self.call_target(m[key], tmp, [], env, vals=[a])
            self.err('no translated `eq` for %s and %s' % (v.ty, a.ty))
        if name == 'into_group' and not args and (self.tgt.get('proj_of', {}).get(v.ty), 'from') in m:
            return self.call_target(m[(self.tgt['proj_of'][v.ty], 'from')], None, [], env, vals=[v])
        if name in ('into', 'into_affine') and not args and (self.tgt.get('aff_of', {}).get(v.ty), 'from') in m:
            return self.call_target(m[(self.tgt['aff_of'][v.ty], 'from')], None, [], env, vals=[v])
        if name == 'double' and not args and (v.ty, 'double_in_place') in m:
            # AdditiveGroup::double(&self) = { let mut c = *self; c.double_in_place(); c }
            sl = Slot(v, 'tmp')
            self.call_target(m[(v.ty, 'double_in_place')], (sl, []), [], env)
            return sl.val
        if name == 'neg' and not args and (v.ty, 'neg') in m and m[(v.ty, 'neg')].get('byvalue'):
            return self.call_target(m[(v.ty, 'neg')], tmp, [], env)
        if (v.ty, name) in m and m[(v.ty, name)]['ret'] != 'self':
            return self.call_target(m[(v.ty, name)], tmp, args, env)
        return None

    def emit_hooks(self):
        return {h['rust']: h for h in self.tgt.get('hooks', []) if h['kind'] == 'emit'}

    def method_hooks(self):
        return {(h['recv'], h['rust']): h for h in self.tgt.get('hooks', []) if h['kind'] == 'method'}

    # ---- statements without control flow
    def simple(self, s, env):
        if s[0] == 'let':
            _, name, mut, e = s
            v = self.eval(e, env)
            if isinstance(v, HookAlias):
                env.declare(name, Slot(v, name))
                return
            if isinstance(v, Ref):
                env.declare(name, Slot(v, name))          # a reference: alias of the place
                return
            v = self.rv(v)
            if v.ty in ('optinv', 'optxy', 'intarr', 'int', 'optsqrt', 'legendre', 'str') or v.ty.startswith('opt:'):
                self.err('unsupported let of a %s' % v.ty)
            if v.ty in ('arr', 'nat', 'Zint'):
                env.declare(name, Slot(v, name))
                return
            env.declare(name, Slot(self.bind(name, v), name))
            return
        if s[0] == 'assign':
            _, op, lhs, rhs = s
            p = self.place(lhs, env)
            if p is None:
                self.err('assignment to something that is not a place')
            if lhs[0] == 'path':
                sl = env.lookup(lhs[1][0])
                if sl is not None and isinstance(sl.val, Ref):
                    self.err('assignment to the reference variable `%s` itself (write `*%s`)' % (lhs[1][0], lhs[1][0]))
            r = self.rv(self.eval(rhs, env))
            if op != '=' and self.read(*p).ty not in self.dict and self.read(*p).ty in TYPES:
                d = self.op_method(self.read(*p).ty, op[0], r.ty)
                if d is not None:
                    self.call_target(d, p, [], env, vals=[r])
                    return
            if op != '=':
                l = self.read(*p)
                if l.ty != r.ty:
                    self.err('operand types differ in `%s`: %s, %s' % (op, l.ty, r.ty))
                f = {'+=': 'fadd', '-=': 'fsub', '*=': 'fmul'}[op]
                r = Val(l.ty, expr=app('%s %s' % (f, self.dict_of(l.ty)), self.whole(l), self.whole(r)))
            self.write(p[0], p[1], r)
            return
        if s[0] == 'expr':
            self.eval(s[1], env)
            return
        if s[0] == 'letdecl':
            env.declare(s[1], Slot(None, s[2]))
            return
        if s[0] == 'assigntuple':
            vals = [self.rv(self.eval(x, env)) for x in s[2]]
            for n, v in zip(s[1], vals):
                sl = env.lookup(n)
                if sl is None or sl.val is not None:
                    self.err('internal: tuple assignment to `%s`' % n)
                self.write(sl, [], v)
            return
        if s[0] == 'dassert':
            c = self.rv(self.eval(s[1], env))
            if c.ty != 'bool':
                self.err('`debug_assert!` on a non-boolean')
            if not self.tgt.get('may_panic'):
                self.err('`debug_assert!` in a function not declared may_panic')
            m = re.match(r'^negb (\(.*\)|[A-Za-z_][A-Za-z0-9_\']*)$', c.expr)
            if m and (ATOM.match(m.group(1)) or balanced(m.group(1)[1:-1])):
                self.cur.append(('guard', m.group(1)))
            else:
                self.cur.append(('guard', app('negb', c.expr)))
            return
        self.err('internal: not a simple statement')

    # ---- rendering
    def render(self, lets, ind):
        out = []
        for l in lets:
            if l[0] == 'let':
                out.append('%slet %s := %s in' % (ind, l[1], l[2]))
            elif l[0] == 'guard':
                out.append('%sif %s then GPanic else' % (ind, l[1]))
            elif l[0] == 'raw':
                out += [ind + x for x in l[1]]
            elif l[0] == 'matchopt':
                out.append('%smatch %s with None => %s | Some %s =>' % (ind, l[1], l[3], l[2]))
            elif l[0] == 'bindres':
                out.append('%smatch %s with GPanic => GPanic | GRet %s =>' % (ind, l[1], l[2]))
            elif l[0] == 'guardv':
                out.append('%sif %s then %s else' % (ind, l[1], l[2]))
        return out

    def close(self, lets, ind, body):
        """render(lets) + body + the `end`s of the matches opened in lets"""
        n = sum(1 for l in lets if l[0] in ('matchopt', 'bindres'))
        return self.render(lets, ind) + body + [ind + 'end'] * n

    def result(self, env, v):
        """final value of the function"""
        ret = self.tgt['ret']
        if ret == 'self' and isinstance(self.tgt.get('out'), list):
            t = '(' + ', '.join(self.whole(self.read(env.lookup(o), [])) for o in self.tgt['out']) + ')'
        elif ret == 'self':
            t = self.whole(self.read(env.lookup(self.tgt.get('out', 'self')), []))
        else:
            if v is None:
                self.err('missing return value')
            if ret.startswith('opt:'):
                if not v.ty.startswith('opt:') or (v.ty != ret and v.ty != 'opt:?'):
                    self.err('returns a %s, expected %s' % (v.ty, ret))
                t = v.expr
            else:
                if v.ty != ret:
                    self.err('returns a %s, expected %s' % (v.ty, ret))
                t = self.whole(v)
        if self.tgt.get('may_panic'):
            t = app('GRet', t)
        return t

    def run(self, stmts, env, k, ind):
        """lines for executing stmts in env, then k"""
        saved = self.cur
        lets = self.cur = []
        try:
            for i, s in enumerate(stmts):
                rest = stmts[i + 1:]
                if s[0] in ('let', 'assign', 'expr', 'letdecl', 'assigntuple', 'dassert'):
                    self.simple(s, env)
                    continue
                if s[0] == 'return':
                    v = None
                    if s[1] is not None and self.tgt.get('optchain') and s[1][0] == 'mcall' and s[1][2] in ('map', 'and_then'):
                        pv = self.eval_chain(s[1], env)
                        v = Val('opt:' + pv.ty, expr=app('Some', self.whole(pv)))
                    elif s[1] is not None:
                        v = self.eval(s[1], env)
                        v = None if self.tgt['ret'] == 'self' else self.rv(v)
                    t = self.result(env, v)
                    return self.close(lets, ind, [ind + t])
                if s[0] == 'block':
                    env.scopes.append({})
                    kk = K(lambda e2, i2, rest=rest: self.run(rest, e2, k, i2), k.trivial and self.trivial_rest(rest))
                    body = self.run(tailless(s[1]) + [('popscope',)], env, kk, ind)
                    return self.close(lets, ind, body)
                if s[0] == 'if':
                    c = self.rv(self.eval(s[1], env))
                    if c.ty != 'bool':
                        self.err('`if` on a non-boolean')
                    th = tailless(s[2])
                    el = tailless(s[3]) if s[3] is not None else []
                    return self.close(lets, ind, self.do_if(c.expr, th, el, rest, env, k, ind))
                if s[0] == 'iflet':
                    _, (a, b), e, th, el = s
                    o = self.rv(self.eval(e, env))
                    if o.ty != 'optxy':
                        self.err('`if let Some((a, b))` on something else than `.xy()`')
                    kk = K(lambda e2, i2: self.run(rest, e2, k, i2), k.trivial and self.trivial_rest(rest))
                    if not (kk.trivial or contains_return(th) or (el and contains_return(el))):
                        self.err('`if let` followed by further statements is not supported')
                    e1, e2 = env.clone(), env.clone()
                    e1.scopes.append({})
                    na, nb = self.fresh(a), self.fresh(b)
                    e1.declare(a, Slot(Val('K', expr=na), a))
                    e1.declare(b, Slot(Val('K', expr=nb), b))
                    t1 = self.run(tailless(th) + [('popscope',)], e1, kk, ind + '    ')
                    t2 = self.run((tailless(el) if el else []), e2, kk, ind + '    ')
                    return self.close(lets, ind, [ind + 'match %s with' % o.expr, ind + '| Some (%s, %s) =>' % (na, nb)] + t1 +
                                      [ind + '| None =>'] + t2 + [ind + 'end'])
                if s[0] == 'popscope':
                    env.scopes.pop()
                    continue
                self.err('unsupported statement %r' % (s[0],))
            return self.close(lets, ind, k.fn(env, ind))
        finally:
            self.cur = saved

    def trivial_rest(self, rest):
        return all(s[0] in ('return', 'popscope') for s in rest)

    def do_if(self, cond, th, el, rest, env, k, ind):
        kk = K(lambda e2, i2: self.run(rest, e2, k, i2), k.trivial and self.trivial_rest(rest))
        dup = kk.trivial or contains_return((th, None)) or contains_return((el, None)) or contains_exit(th) or contains_exit(el)
        if dup:
            e1, e2 = env.clone(), env.clone()
            t1 = self.branch(th, e1, kk, ind + '  ')
            t2 = self.branch(el, e2, kk, ind + '  ')
            return [ind + 'if %s then (' % cond] + t1 + [ind + ') else ('] + t2 + [ind + ')']
        # merge mode: run both branches up to a capture point, find the places that differ
        caps = []

        def capture(e, i2):
            self.nph += 1
            ph = '\x00%d\x00' % self.nph
            caps.append((ph, e))
            return [i2 + ph]
        kc = K(capture, True)
        e1, e2 = env.clone(), env.clone()
        t1 = self.branch(th, e1, kc, ind + '    ')
        t2 = self.branch(el, e2, kc, ind + '    ')
        # differing places (slot level; field level when every leaf has the struct field-wise)
        items = []
        for key, sl in env.slots():
            if sl.val is None:
                leaves = [self.slot_by_key(e, key).val for _, e in caps]
                if all(v is None for v in leaves):
                    continue
                if not all(isinstance(v, Val) for v in leaves) or len(set(v.ty for v in leaves)) != 1 \
                   or (leaves[0].ty not in ('K', 'bool') + tuple(TYPES) and not leaves[0].ty.startswith('enum:')):
                    self.err('variable `%s` is not initialised in every branch' % sl.hint)
                items.append((key, [], leaves[0].ty))
                continue
            if not isinstance(sl.val, Val):
                continue
            leaves = [self.slot_by_key(e, key).val for _, e in caps]
            if all(isinstance(v, Val) and v.key() == sl.val.key() for v in leaves):
                continue
            if not all(isinstance(v, Val) for v in leaves):
                self.err('a reference changes inside a merged `if`')
            self.diff_items(key, [], sl.val, leaves, items)
        if not items:
            return self.run(rest, env, k, ind)
        names = []
        for key, path, ty in items:
            sl = self.slot_by_key(env, key)
            hint = sl.hint if sl.hint != 'self' else ''
            names.append(self.fresh('_'.join([hint] * bool(hint) + path) or self.tgt.get('selfparam', 's')))

        def tup(e):
            vs = []
            for key, path, ty in items:
                vs.append(self.whole(self.read(self.slot_by_key(e, key), path)))
            return vs[0] if len(vs) == 1 else '(' + ', '.join(vs) + ')'
        subst = {ph: tup(e) for ph, e in caps}

        def fill(lines):
            out = []
            for l in lines:
                for ph, t in subst.items():
                    l = l.replace(ph, t)
                out.append(l)
            return out
        pat = names[0] if len(names) == 1 else "'(" + ', '.join(names) + ')'
        lines = [ind + 'let %s :=' % pat, ind + '  if %s then (' % cond] + fill(t1) + [ind + '  ) else ('] + fill(t2) + [ind + '  ) in']
        for (key, path, ty), n in zip(items, names):
            sl = self.slot_by_key(env, key)
            nv = Val(ty, expr=n)
            if not path:
                sl.val = nv
            else:
                def upd(v, p):
                    if not p:
                        return nv
                    v = self.explode(v)
                    f = dict(v.fields)
                    f[p[0]] = upd(f[p[0]], p[1:])
                    return Val(v.ty, fields=f)
                sl.val = upd(sl.val, path)
        return lines + self.run(rest, env, k, ind)

    def diff_items(self, key, path, old, leaves, items):
        if all(v.key() == old.key() for v in leaves):
            return
        if old.ty in TYPES and all(v.fields is not None for v in leaves):
            o = self.explode(old)
            for f, t in TYPES[old.ty]:
                self.diff_items(key, path + [f], o.fields[f], [v.fields[f] for v in leaves], items)
            return
        items.append((key, path, old.ty))

    def slot_by_key(self, env, key):
        d, name = key
        return env.scopes[d][name]

    def branch(self, stmts, env, k, ind):
        env.scopes.append({})
        return self.run(stmts + [('popscope',)], env, k, ind)

    # ---- whole function
    def translate(self, src):
        t = self.tgt
        text = find_fn(src, t.get('impl'), t['fn'])
        name, params, body = Parser(tokenize(text), t['name']).fn()
        want = (['self'] if t.get('method', True) else []) + [a[0] for a in t['args']]
        if '*' in want and len(params) == len(want):
            # a parameter the table does not name (`_`, `_elem`, `elem`, ..): whatever the source calls it
            off = len(want) - len(t['args'])
            t['args'] = [((params[off + i] if a[0] == '*' else a[0]), a[1], a[2]) for i, a in enumerate(t['args'])]
            want = want[:off] + [a[0] for a in t['args']]
        if params != want:
            self.err('parameter list changed: %s (expected %s)' % (params, want))
        env = Env()
        binders, pre = [], []
        if t.get('method', True):
            sv, pat = self.param_struct(t['selfty'], t.get('selfnames'))
            env.declare('self', Slot(sv, 'self'))
            binders.append('(%s : %s)' % (t.get('selfparam', 's'), gty(t['selfty'])))
            pre.append("  let '%s := %s in" % (pat, t.get('selfparam', 's')))
            self.used.add(t.get('selfparam', 's'))
        for (rn, ty, gn) in t['args']:
            self.used.add(gn)
            if ty in TYPES:
                v, pat = self.param_struct(ty, t.get('argnames', {}).get(rn) or t.get('argnames', {}).get('*'))
                pre.append("  let '%s := %s in" % (pat, gn))
            else:
                v = Val(ty, expr=gn)
            env.declare(rn, Slot(v, rn))
            if ty != 'usize':
                binders.append('(%s : %s)' % (gn, gty(ty)))
        for h in t.get('hooks', []):
            if h['kind'] == 'boolconst':
                h['args_ast'] = [Parser(tokenize(a), t['name']).expr(0) for a in h['args_src']]
            if h['kind'] == 'intconst':
                # `const NAME: usize = <literal>;` of the same impl block: the literal is part of the formula
                blk = find_impl(src, t.get('impl'))
                ms = re.findall(r'\bconst\s+%s\s*:\s*usize\s*=\s*(\d[\d_]*)\s*;' % re.escape(h['rust'].split('::')[-1]), blk)
                if len(ms) != 1:
                    self.err('constant %s not found as an integer literal' % h['rust'])
                h['value'] = int(ms[0].replace('_', ''))
        stmts = Lifter(t['name']).stmts(tailify(body)[0])
        final = K(lambda e, i2: [i2 + self.result(e, None)], True)
        lines = self.run(stmts, env, final, '  ')
        ret = t['ret']
        if ret == 'self' and isinstance(t.get('out'), list):
            rty = '(' + ' * '.join(gty([a[1] for a in t['args'] if a[0] == o][0]) for o in t['out']) + ')'
        else:
            if ret == 'self':
                ret = t['selfty'] if 'out' not in t else [a[1] for a in t['args'] if a[0] == t['out']][0]
            rty = gty(ret)
        if t.get('may_panic'):
            rty = 'gen_result %s' % par(rty)
        hp = []
        for ty, dn in t.get('dicts', {}).items():
            hp.append('(%s : Fops %s)' % (dn, gty(ty)))
        for h in uniq_hooks(t):
            if h['kind'] in ('const',):
                hp.append('(%s : %s)' % (h['param'], gty(h['ret'])))
            elif h['kind'] == 'boolconst':
                hp.append('(%s : bool)' % h['param'])
            elif h['kind'] in ('intconst', 'emit'):
                pass
            elif h['kind'] == 'sizeconst':
                hp.append('(%s : Z)' % h['param'])
            elif h['kind'] == 'table':
                hp.append('(%s : Z -> %s)' % (h['param'], gty(h['ret'])))
            elif h['kind'] == 'method' and h.get('keep_args'):
                hp.append('(%s : %s)' % (h['param'], ' -> '.join(gty(x) for x in h['args'] + [h['recv'], h['recv']])))
            elif h['kind'] == 'method':
                hp.append('(%s : %s -> %s)' % (h['param'], gty(h['recv']), gty(h['recv'])))
            elif h['kind'] == 'inplace2':
                hp.append('(%s : T -> T) (%s : T -> T)' % (h['param'], h['param2']))
            elif h['kind'] == 'pmethod':
                hp.append('(%s : %s)' % (h['param'], ' -> '.join(gty(x) for x in [h['recv']] + h['args'] + [h['ret']])))
            else:
                hp.append('(%s : %s)' % (h['param'], ' -> '.join(gty(x) for x in [a for a in h['args'] if a != 'usize'] + [h['ret']])))
        head = 'Definition %s {T : Type} (F : Fops T) %s : %s :=' % (t['name'], ' '.join(hp + binders), rty)
        head = re.sub(r'  +', ' ', head)
        cm = '(* %s :: %s%s *)' % (t['file'], (t.get('impldoc', re.sub(r'\\b|\\', '', t['impl'])) + ' :: ') if t.get('impl') else '', t['fn'])
        lines[-1] = lines[-1] + '.'
        return '\n'.join([cm, head] + pre + lines) + '\n'

    def param_struct(self, ty, names):
        """fresh atoms for the leaves of a struct parameter + the destructuring pattern"""
        fs = {}
        pats = []
        for i, (f, t) in enumerate(TYPES[ty]):
            sub = names[i] if names else None
            if t in ('K', 'bool'):
                n = self.fresh(sub if isinstance(sub, str) else f)
                fs[f] = Val(t, expr=n)
                pats.append(n)
            else:
                v, p = self.param_struct(t, sub)
                fs[f] = v
                pats.append(p)
        return Val(ty, fields=fs), '(' + ', '.join(pats) + ')'


def uniq_hooks(t):
    seen, out = set(), []
    for h in t.get('hooks', []):
        if h['param'] not in seen:
            seen.add(h['param'])
            out.append(h)
    return out


def tailless(block):
    stmts, tail = block
    if tail is not None:
        return list(stmts) + [('expr', tail)]
    return list(stmts)


# ------------------------------------------------------------------ targets

def H(rust, kind, param, args=None, ret='K', **kw):
    d = dict(rust=rust, kind=kind, param=param, args=args or [], ret=ret)
    d.update(kw)
    return d


SWG = 'ec/src/models/short_weierstrass/group.rs'
TEG = 'ec/src/models/twisted_edwards/group.rs'
QE = 'ff/src/fields/models/quadratic_extension.rs'
CE = 'ff/src/fields/models/cubic_extension.rs'
F6B = 'ff/src/fields/models/fp6_2over3.rs'
F6A = 'ff/src/fields/models/fp6_3over2.rs'
F12 = 'ff/src/fields/models/fp12_2over3over2.rs'

SW_HOOKS = [H('COEFF_A', 'const', 'coeff_a'), H('mul_by_a', 'fn', 'mul_by_a', ['K'])]
TE_HOOKS = [H('COEFF_D', 'const', 'coeff_d'), H('mul_by_a', 'fn', 'mul_by_a', ['K'])]
Q_NR = H('NONRESIDUE', 'const', 'nonresidue')
Q_MUL = H('mul_base_field_by_nonresidue_in_place', 'inplace', 'nr_mul', ['K'])
Q_MADD = H('mul_base_field_by_nonresidue_and_add', 'inplace', 'nr_mul_add', ['K', 'K'])
Q_P1 = H('mul_base_field_by_nonresidue_plus_one_and_add', 'inplace', 'nr_p1_add', ['K', 'K'])
Q_SUB = H('sub_and_mul_base_field_by_nonresidue', 'inplace', 'nr_sub', ['K', 'K'])
# the pure and the in-place variant of the cubic hook are the same function (the trait
# defines the pure one through the in-place one and no configuration overrides it)
C_MUL = [H('mul_base_field_by_nonresidue', 'fn', 'mul_nr', ['K']),
         H('mul_base_field_by_nonresidue_in_place', 'inplace', 'mul_nr', ['K'])]
F6A_MUL = [H('mul_fp2_by_nonresidue', 'fn', 'mul_nr', ['K']),
           H('mul_fp2_by_nonresidue_in_place', 'inplace', 'mul_nr', ['K'])]
F12_MUL6 = H('mul_fp6_by_nonresidue_in_place', 'inplace', 'mul_nr6', ['Cubic'], 'Cubic')

SWA = 'ec/src/models/short_weierstrass/affine.rs'
TEA = 'ec/src/models/twisted_edwards/affine.rs'
QN = dict(selfty='Quad', selfparam='a', selfnames=['a0', 'a1'])
CN = dict(selfty='Cubic', selfparam='s', selfnames=['s0', 's1', 's2'])
SWN = dict(selfty='SWProj', selfparam='P', selfnames=['x1', 'y1', 'z1'])
TEN = dict(selfty='TEProj', selfparam='P', selfnames=['x1', 'y1', 't1', 'z1'])

TARGETS = [
    # ---- A: short Weierstrass, Jacobian
    dict(name='gen_sw_is_zero', file=SWG, impl=r'impl<P: SWCurveConfig> Zero for Projective<P>', fn='is_zero',
         args=[], ret='bool', hooks=[], **SWN),
    dict(name='gen_sw_zero', file=SWG, impl=r'impl<P: SWCurveConfig> Zero for Projective<P>', fn='zero',
         method=False, static=True, selfty='SWProj', args=[], ret='SWProj', hooks=[]),
    dict(name='gen_sw_double_in_place', file=SWG, impl=r'impl<P: SWCurveConfig> AdditiveGroup for Projective<P>',
         fn='double_in_place', args=[], ret='self', hooks=SW_HOOKS, **SWN),
    dict(name='gen_sw_add_assign', file=SWG, impl=r"impl<'a, P: SWCurveConfig> AddAssign<&'a Self> for Projective<P>",
         fn='add_assign', args=[('other', 'SWProj', 'Q')], argnames={'other': ['x2', 'y2', 'z2']}, ret='self',
         hooks=SW_HOOKS, **SWN),
    dict(name='gen_sw_add_assign_affine', file=SWG,
         impl=r'impl<P: SWCurveConfig, T: Borrow<Affine<P>>> AddAssign<T> for Projective<P>',
         fn='add_assign', args=[('other', 'SWAff', 'Q')], ret='self', hooks=SW_HOOKS, **SWN),
    # ---- A: twisted Edwards, extended
    dict(name='gen_te_double_in_place', file=TEG, impl=r'impl<P: TECurveConfig> AdditiveGroup for Projective<P>',
         fn='double_in_place', args=[], ret='self', hooks=TE_HOOKS[1:], **TEN),
    dict(name='gen_te_add_assign', file=TEG, impl=r"impl<'a, P: TECurveConfig> AddAssign<&'a Self> for Projective<P>",
         fn='add_assign', args=[('other', 'TEProj', 'Q')], argnames={'other': ['x2', 'y2', 't2', 'z2']}, ret='self',
         hooks=TE_HOOKS, **TEN),
    dict(name='gen_te_add_assign_affine', file=TEG,
         impl=r'impl<P: TECurveConfig, T: Borrow<Affine<P>>> AddAssign<T> for Projective<P>',
         fn='add_assign', args=[('other', 'TEAff', 'Q')], argnames={'other': ['x2', 'y2']}, ret='self',
         hooks=TE_HOOKS, **TEN),
    # ---- B: quadratic extension
    dict(name='gen_quad_is_zero', file=QE, impl=r'impl<P: QuadExtConfig> Zero for QuadExtField<P>', fn='is_zero',
         selfty='Quad', selfparam='a', selfnames=['a0', 'a1'], args=[], ret='bool', hooks=[]),
    dict(name='gen_quad_mul_assign', file=QE, impl=r"impl<P: QuadExtConfig> MulAssign<&Self> for QuadExtField<P>",
         fn='mul_assign', selfty='Quad', selfparam='a', selfnames=['a0', 'a1'],
         args=[('other', 'Quad', 'b')], argnames={'other': ['b0', 'b1']}, ret='self', hooks=[Q_MUL, Q_MADD]),
    dict(name='gen_quad_square_in_place', file=QE, impl=r'impl<P: QuadExtConfig> Field for QuadExtField<P>',
         fn='square_in_place', selfty='Quad', selfparam='a', selfnames=['a0', 'a1'], args=[], ret='self',
         hooks=[Q_NR, Q_P1, Q_SUB]),
    dict(name='gen_quad_inverse', file=QE, impl=r'impl<P: QuadExtConfig> Field for QuadExtField<P>',
         fn='inverse', selfty='Quad', selfparam='a', selfnames=['a0', 'a1'], args=[], ret='opt:Quad',
         hooks=[Q_SUB]),
    # ---- B: cubic extension
    dict(name='gen_cubic_is_zero', file=CE, impl=r'impl<P: CubicExtConfig> Zero for CubicExtField<P>', fn='is_zero',
         selfty='Cubic', selfparam='s', selfnames=['s0', 's1', 's2'], args=[], ret='bool', hooks=[]),
    dict(name='gen_cubic_mul_assign', file=CE, impl=r"impl<P: CubicExtConfig> MulAssign<&Self> for CubicExtField<P>",
         fn='mul_assign', selfty='Cubic', selfparam='s', selfnames=['s0', 's1', 's2'],
         args=[('other', 'Cubic', 'o')], argnames={'other': ['o0', 'o1', 'o2']}, ret='self', hooks=C_MUL),
    dict(name='gen_cubic_square_in_place', file=CE, impl=r'impl<P: CubicExtConfig> Field for CubicExtField<P>',
         fn='square_in_place', selfty='Cubic', selfparam='s', selfnames=['s0', 's1', 's2'], args=[], ret='self',
         hooks=C_MUL),
    dict(name='gen_cubic_inverse', file=CE, impl=r'impl<P: CubicExtConfig> Field for CubicExtField<P>',
         fn='inverse', selfty='Cubic', selfparam='s', selfnames=['s0', 's1', 's2'], args=[], ret='opt:Cubic',
         hooks=C_MUL, may_panic=True),
    # ---- C: sparse multiplications and cyclotomic squaring
    dict(name='gen_fp6_2over3_mul_by_034', file=F6B, impl=r'impl<P: Fp6Config> Fp6<P>', fn='mul_by_034',
         selfty='QuadCubic', selfparam='s', selfnames=[['s0', 's1', 's2'], ['s3', 's4', 's5']],
         args=[('c0', 'K', 'e0'), ('c3', 'K', 'e3'), ('c4', 'K', 'e4')], ret='self',
         hooks=[H('NONRESIDUE', 'const', 'nr3')]),
    dict(name='gen_fp6_2over3_mul_by_014', file=F6B, impl=r'impl<P: Fp6Config> Fp6<P>', fn='mul_by_014',
         selfty='QuadCubic', selfparam='s', selfnames=[['s0', 's1', 's2'], ['s3', 's4', 's5']],
         args=[('c0', 'K', 'e0'), ('c1', 'K', 'e1'), ('c4', 'K', 'e4')], ret='self',
         hooks=[H('NONRESIDUE', 'const', 'nr3')]),
    dict(name='gen_fp6_3over2_mul_by_1', file=F6A, impl=r'impl<P: Fp6Config> Fp6<P>', fn='mul_by_1',
         selfty='Cubic', selfparam='s', selfnames=['s0', 's1', 's2'], args=[('c1', 'K', 'e1')], ret='self',
         hooks=F6A_MUL[1:]),
    dict(name='gen_fp6_3over2_mul_by_01', file=F6A, impl=r'impl<P: Fp6Config> Fp6<P>', fn='mul_by_01',
         selfty='Cubic', selfparam='s', selfnames=['s0', 's1', 's2'], args=[('c0', 'K', 'e0'), ('c1', 'K', 'e1')],
         ret='self', hooks=F6A_MUL[1:]),
    dict(name='gen_fp12_mul_by_034', file=F12, impl=r'impl<P: Fp12Config> Fp12<P>', fn='mul_by_034',
         selfty='QuadCubic', selfparam='s', selfnames=[['s00', 's01', 's02'], ['s10', 's11', 's12']],
         args=[('c0', 'K', 'e0'), ('c3', 'K', 'e3'), ('c4', 'K', 'e4')], ret='self',
         dicts={'Cubic': 'F6'}, ctors={'Fp6': 'Cubic'}, hooks=F6A_MUL[1:] + [F12_MUL6]),
    dict(name='gen_fp12_mul_by_014', file=F12, impl=r'impl<P: Fp12Config> Fp12<P>', fn='mul_by_014',
         selfty='QuadCubic', selfparam='s', selfnames=[['s00', 's01', 's02'], ['s10', 's11', 's12']],
         args=[('c0', 'K', 'e0'), ('c1', 'K', 'e1'), ('c4', 'K', 'e4')], ret='self',
         dicts={'Cubic': 'F6'}, ctors={'Fp6': 'Cubic'}, hooks=F6A_MUL[1:] + [F12_MUL6]),
    dict(name='gen_fp12_cyclotomic_square_in_place', file=F12,
         impl=r'impl<P: Fp12Config> CyclotomicMultSubgroup for Fp12<P>', fn='cyclotomic_square_in_place',
         selfty='QuadCubic', selfparam='s', selfnames=[['s00', 's01', 's02'], ['s10', 's11', 's12']],
         args=[], ret='self',
         hooks=[H('mul_fp2_by_nonresidue', 'fn', 'fp2_nr', ['K']),
                H('characteristic_square_mod_6_is_one', 'boolconst', 'char_sq_mod6_is_one',
                  args_src=['Self::characteristic()']),
                H('square_in_place', 'method', 'fp12_square_in_place', recv='QuadCubic')]),
    # ---- D: default bodies of configuration hooks
    dict(name='gen_sw_mul_by_a', file='ec/src/models/short_weierstrass/mod.rs', impl=r'pub trait SWCurveConfig\b',
         fn='mul_by_a', method=False, selfty=None, args=[('elem', 'K', 'e')], ret='K',
         hooks=[H('COEFF_A', 'const', 'coeff_a')]),
    dict(name='gen_sw_add_b', file='ec/src/models/short_weierstrass/mod.rs', impl=r'pub trait SWCurveConfig\b',
         fn='add_b', method=False, selfty=None, args=[('elem', 'K', 'e')], ret='K',
         hooks=[H('COEFF_B', 'const', 'coeff_b')]),
    dict(name='gen_te_mul_by_a', file='ec/src/models/twisted_edwards/mod.rs', impl=r'pub trait TECurveConfig\b',
         fn='mul_by_a', method=False, selfty=None, args=[('elem', 'K', 'e')], ret='K',
         hooks=[H('COEFF_A', 'const', 'coeff_a')]),
    dict(name='gen_quad_default_mul_and_add', file=QE, impl=r'pub trait QuadExtConfig\b',
         fn='mul_base_field_by_nonresidue_and_add', method=False, selfty=None, mutrefs=['y'], out='y',
         args=[('y', 'K', 'y'), ('x', 'K', 'x')], ret='self', hooks=[Q_MUL]),
    dict(name='gen_quad_default_plus_one_and_add', file=QE, impl=r'pub trait QuadExtConfig\b',
         fn='mul_base_field_by_nonresidue_plus_one_and_add', method=False, selfty=None, mutrefs=['y'], out='y',
         args=[('y', 'K', 'y'), ('x', 'K', 'x')], ret='self', hooks=[Q_MADD]),
    dict(name='gen_quad_default_sub_and_mul', file=QE, impl=r'pub trait QuadExtConfig\b',
         fn='sub_and_mul_base_field_by_nonresidue', method=False, selfty=None, mutrefs=['y'], out='y',
         args=[('y', 'K', 'y'), ('x', 'K', 'x')], ret='self', hooks=[Q_MUL]),
    dict(name='gen_fp4_mul_fp2_by_nonresidue', file='ff/src/fields/models/fp4.rs', impl=r'pub trait Fp4Config\b',
         fn='mul_fp2_by_nonresidue_in_place', method=False, selfty=None, mutrefs=['fe'], out='fe',
         args=[('fe', 'Quad', 'fe')], argnames={'fe': ['fe0', 'fe1']}, ret='self',
         hooks=[H('mul_fp_by_nonresidue_in_place', 'inplace', 'mul_nr_below', ['K'])]),
    dict(name='gen_fp6_2over3_mul_fp3_by_nonresidue', file=F6B, impl=r'pub trait Fp6Config\b',
         fn='mul_fp3_by_nonresidue_in_place', method=False, selfty=None, mutrefs=['fe'], out='fe',
         args=[('fe', 'Cubic', 'fe')], argnames={'fe': ['fe0', 'fe1', 'fe2']}, ret='self',
         hooks=[H('mul_fp_by_nonresidue_in_place', 'inplace', 'mul_nr_below', ['K'])]),
    dict(name='gen_fp12_mul_fp6_by_nonresidue', file=F12, impl=r'pub trait Fp12Config\b',
         fn='mul_fp6_by_nonresidue_in_place', method=False, selfty=None, mutrefs=['fe'], out='fe',
         args=[('fe', 'Cubic', 'fe')], argnames={'fe': ['fe0', 'fe1', 'fe2']}, ret='self',
         hooks=[H('mul_fp2_by_nonresidue_in_place', 'inplace', 'mul_nr_below', ['K'])]),
    # ---- E: more of the curve code (equality, negation, conversions, curve equation)
    dict(name='gen_sw_eq', file=SWG, impl=r'impl<P: SWCurveConfig> PartialEq for Projective<P>', fn='eq',
         args=[('other', 'SWProj', 'Q')], argnames={'other': ['x2', 'y2', 'z2']}, ret='bool', hooks=[], **SWN),
    dict(name='gen_sw_neg', file=SWG, impl=r'impl<P: SWCurveConfig> Neg for Projective<P>', fn='neg',
         args=[], ret='self', hooks=[], **SWN),
    dict(name='gen_sw_from_affine', file=SWG, impl=r'impl<P: SWCurveConfig> From<Affine<P>> for Projective<P>', fn='from',
         method=False, selfty='SWProj', args=[('p', 'SWAff', 'A')], ret='SWProj', hooks=[]),
    dict(name='gen_sw_aff_new_unchecked', file=SWA, impl=r'impl<P: SWCurveConfig> Affine<P>', fn='new_unchecked',
         method=False, selfty='SWAffS', args=[('x', 'K', 'x'), ('y', 'K', 'y')], ret='SWAffS', hooks=[]),
    dict(name='gen_sw_aff_identity', file=SWA, impl=r'impl<P: SWCurveConfig> Affine<P>', fn='identity',
         method=False, selfty='SWAffS', args=[], ret='SWAffS', hooks=[]),
    dict(name='gen_sw_into_affine', file=SWA, impl=r'impl<P: SWCurveConfig> From<Projective<P>> for Affine<P>', fn='from',
         method=False, selfty='SWAffS', args=[('p', 'SWProj', 'P')], argnames={'p': ['x1', 'y1', 'z1']},
         ret='SWAffS', hooks=[], may_panic=True),
    dict(name='gen_sw_aff_is_on_curve', file=SWA, impl=r'impl<P: SWCurveConfig> Affine<P>', fn='is_on_curve',
         selfty='SWAffS', selfparam='A', selfnames=['x', 'y', 'inf'], args=[], ret='bool',
         hooks=[H('COEFF_A', 'const', 'coeff_a'), H('mul_by_a', 'fn', 'mul_by_a', ['K']), H('add_b', 'fn', 'add_b', ['K'])]),
    dict(name='gen_sw_aff_neg', file=SWA, impl=r'impl<P: SWCurveConfig> Neg for Affine<P>', fn='neg',
         selfty='SWAffS', selfparam='A', selfnames=['x', 'y', 'inf'], args=[], ret='self', hooks=[]),
    dict(name='gen_te_zero', file=TEG, impl=r'impl<P: TECurveConfig> Zero for Projective<P>', fn='zero',
         method=False, selfty='TEProj', args=[], ret='TEProj', hooks=[]),
    dict(name='gen_te_is_zero', file=TEG, impl=r'impl<P: TECurveConfig> Zero for Projective<P>', fn='is_zero',
         args=[], ret='bool', hooks=[], **TEN),
    dict(name='gen_te_eq', file=TEG, impl=r'impl<P: TECurveConfig> PartialEq for Projective<P>', fn='eq',
         args=[('other', 'TEProj', 'Q')], argnames={'other': ['x2', 'y2', 't2', 'z2']}, ret='bool', hooks=[], **TEN),
    dict(name='gen_te_neg', file=TEG, impl=r'impl<P: TECurveConfig> Neg for Projective<P>', fn='neg',
         args=[], ret='self', hooks=[], **TEN),
    dict(name='gen_te_from_affine', file=TEG, impl=r'impl<P: TECurveConfig> From<Affine<P>> for Projective<P>', fn='from',
         method=False, selfty='TEProj', args=[('p', 'TEAff', 'A')], argnames={'p': ['x', 'y']}, ret='TEProj', hooks=[]),
    dict(name='gen_te_aff_zero', file=TEA, impl=r'impl<P: TECurveConfig> Affine<P>', fn='zero',
         method=False, selfty='TEAff', args=[], ret='TEAff', hooks=[]),
    dict(name='gen_te_aff_is_zero', file=TEA, impl=r'impl<P: TECurveConfig> Affine<P>', fn='is_zero',
         selfty='TEAff', selfparam='A', selfnames=['x', 'y'], args=[], ret='bool', hooks=[]),
    dict(name='gen_te_aff_is_on_curve', file=TEA, impl=r'impl<P: TECurveConfig> Affine<P>', fn='is_on_curve',
         selfty='TEAff', selfparam='A', selfnames=['x', 'y'], args=[], ret='bool', hooks=TE_HOOKS),
    dict(name='gen_te_aff_neg', file=TEA, impl=r'impl<P: TECurveConfig> Neg for Affine<P>', fn='neg',
         selfty='TEAff', selfparam='A', selfnames=['x', 'y'], args=[], ret='TEAff', hooks=[]),
    dict(name='gen_te_into_affine', file=TEA, impl=r'impl<P: TECurveConfig> From<Projective<P>> for Affine<P>', fn='from',
         method=False, selfty='TEAff', args=[('p', 'TEProj', 'P')], argnames={'p': ['x1', 'y1', 't1', 'z1']},
         ret='TEAff', hooks=[], may_panic=True),
    # ---- F: more of the extension-field templates
    dict(name='gen_quad_conjugate_in_place', file=QE, impl=r'impl<P: QuadExtConfig> QuadExtField<P>', fn='conjugate_in_place',
         args=[], ret='self', hooks=[], **QN),
    dict(name='gen_quad_norm', file=QE, impl=r'impl<P: QuadExtConfig> QuadExtField<P>', fn='norm',
         args=[], ret='K', hooks=[Q_SUB], **QN),
    dict(name='gen_quad_mul_assign_by_basefield', file=QE, impl=r'impl<P: QuadExtConfig> QuadExtField<P>',
         fn='mul_assign_by_basefield', args=[('element', 'K', 'e')], ret='self', hooks=[], **QN),
    dict(name='gen_quad_double_in_place', file=QE, impl=r'impl<P: QuadExtConfig> AdditiveGroup for QuadExtField<P>',
         fn='double_in_place', args=[], ret='self', hooks=[], **QN),
    dict(name='gen_quad_neg_in_place', file=QE, impl=r'impl<P: QuadExtConfig> AdditiveGroup for QuadExtField<P>',
         fn='neg_in_place', args=[], ret='self', hooks=[], **QN),
    dict(name='gen_quad_add_assign', file=QE, impl=r'impl<P: QuadExtConfig> AddAssign<&Self> for QuadExtField<P>',
         fn='add_assign', args=[('other', 'Quad', 'b')], argnames={'other': ['b0', 'b1']}, ret='self', hooks=[], **QN),
    dict(name='gen_quad_sub_assign', file=QE, impl=r'impl<P: QuadExtConfig> SubAssign<&Self> for QuadExtField<P>',
         fn='sub_assign', args=[('other', 'Quad', 'b')], argnames={'other': ['b0', 'b1']}, ret='self', hooks=[], **QN),
    dict(name='gen_quad_frobenius_map_in_place', file=QE, impl=r'impl<P: QuadExtConfig> Field for QuadExtField<P>',
         fn='frobenius_map_in_place', args=[('power', 'usize', 'power')], ret='self',
         hooks=[H('frobenius_map_in_place', 'method', 'frob_base', ['usize'], recv='K'),
                H('mul_base_field_by_frob_coeff', 'inplace', 'frob_coeff_mul', ['K', 'usize'])], **QN),
    dict(name='gen_cubic_mul_assign_by_base_field', file=CE, impl=r'impl<P: CubicExtConfig> CubicExtField<P>',
         fn='mul_assign_by_base_field', args=[('value', 'K', 'e')], ret='self', hooks=[], **CN),
    dict(name='gen_cubic_double_in_place', file=CE, impl=r'impl<P: CubicExtConfig> AdditiveGroup for CubicExtField<P>',
         fn='double_in_place', args=[], ret='self', hooks=[], **CN),
    dict(name='gen_cubic_neg_in_place', file=CE, impl=r'impl<P: CubicExtConfig> AdditiveGroup for CubicExtField<P>',
         fn='neg_in_place', args=[], ret='self', hooks=[], **CN),
    dict(name='gen_cubic_add_assign', file=CE, impl=r'impl<P: CubicExtConfig> AddAssign<&Self> for CubicExtField<P>',
         fn='add_assign', args=[('other', 'Cubic', 'o')], argnames={'other': ['o0', 'o1', 'o2']}, ret='self', hooks=[], **CN),
    dict(name='gen_cubic_sub_assign', file=CE, impl=r'impl<P: CubicExtConfig> SubAssign<&Self> for CubicExtField<P>',
         fn='sub_assign', args=[('other', 'Cubic', 'o')], argnames={'other': ['o0', 'o1', 'o2']}, ret='self', hooks=[], **CN),
    dict(name='gen_cubic_frobenius_map_in_place', file=CE, impl=r'impl<P: CubicExtConfig> Field for CubicExtField<P>',
         fn='frobenius_map_in_place', args=[('power', 'usize', 'power')], ret='self',
         hooks=[H('frobenius_map_in_place', 'method', 'frob_base', ['usize'], recv='K'),
                H('mul_base_field_by_frob_coeff', 'inplace2', 'frob_coeff1_mul', ['K', 'K', 'usize'],
                  param2='frob_coeff2_mul')], **CN),
]
# which struct type a method call on a value of that type resolves to, per source file family:
# mul_by_01 / mul_by_1 on a 'Cubic' value are the fp6_3over2 functions (used by fp12)
NO_METHOD = {'gen_quad_double_in_place', 'gen_quad_neg_in_place', 'gen_cubic_double_in_place', 'gen_cubic_neg_in_place',
             'gen_quad_frobenius_map_in_place', 'gen_cubic_frobenius_map_in_place', 'gen_sw_neg', 'gen_te_neg',
             'gen_sw_aff_neg', 'gen_te_aff_neg', 'gen_sw_eq', 'gen_te_eq',
             'gen_fp6_2over3_mul_by_034', 'gen_fp6_2over3_mul_by_014', 'gen_fp12_mul_by_034', 'gen_fp12_mul_by_014',
             'gen_fp12_cyclotomic_square_in_place', 'gen_quad_mul_assign', 'gen_cubic_mul_assign'}

SWU = 'ec/src/hashing/curve_maps/swu.rs'
ELL2 = 'ec/src/hashing/curve_maps/elligator2.rs'
SWM = 'ec/src/models/short_weierstrass/mod.rs'
TEM = 'ec/src/models/twisted_edwards/mod.rs'
SQRT = H('sqrt', 'fn', 'sqrt', ['K'], 'opt:K')
LEG = H('legendre', 'fn', 'is_qr', ['K'], 'bool')
PARITY = H('parity', 'fn', 'parity', ['K'], 'bool')
LT = H('<', 'fn', 'flt', ['K', 'K'], 'bool')
LE = H('<=', 'fn', 'fle', ['K', 'K'], 'bool')
SW_CURVE = [H('COEFF_A', 'const', 'coeff_a'), H('mul_by_a', 'fn', 'mul_by_a', ['K']), H('add_b', 'fn', 'add_b', ['K'])]

# phase-1/2 definitions (GenField.v) that the phase-3 targets may call
CALLABLE2 = {
    'gen_sw_aff_new_unchecked': {}, 'gen_sw_aff_is_on_curve': {}, 'gen_te_aff_is_on_curve': {},
    'gen_sw_is_zero': {}, 'gen_te_is_zero': {}, 'gen_sw_eq': {}, 'gen_sw_neg': {'byvalue': True},
    'gen_sw_from_affine': {}, 'gen_sw_into_affine': {}, 'gen_te_into_affine': {},
}

TARGETS2 = [
    # ---- A: hash-to-curve maps
    dict(name='gen_swu_map_to_curve', file=SWU, impl=r'impl<P: SWUConfig> MapToCurve<Projective<P>> for SWUMap<P>',
         fn='map_to_curve', method=False, selfty=None, args=[('element', 'K', 'u')], ret='SWAffS', may_panic=True,
         result_ok=True, ctors={'Affine': 'SWAffS'},
         hooks=[SQRT, LEG, PARITY, H('COEFF_B', 'const', 'coeff_b'), H('ZETA', 'const', 'zeta')] + SW_CURVE),
    dict(name='gen_elligator2_map_to_curve', file=ELL2,
         impl=r'impl<P: Elligator2Config> MapToCurve<Projective<P>> for Elligator2Map<P>',
         fn='map_to_curve', method=False, selfty=None, args=[('element', 'K', 'u')], ret='TEAff', may_panic=True,
         result_ok=True, ctors={'Affine': 'TEAff'},
         hooks=[SQRT, LEG, PARITY, H('COEFF_B', 'const', 'mont_b'), H('COEFF_A_OVER_COEFF_B', 'const', 'j_on_k'),
                H('ONE_OVER_COEFF_B_SQUARE', 'const', 'ksq_inv'), H('Z', 'const', 'z')] + TE_HOOKS),
    # ---- B: coordinate recovery (point decompression) and the sign flags
    dict(name='gen_sw_get_ys_from_x_unchecked', file=SWA, impl=r'impl<P: SWCurveConfig> Affine<P>', fn='get_ys_from_x_unchecked',
         method=False, selfty='SWAffS', args=[('x', 'K', 'x')], ret='opt:PairK', hooks=[SQRT, LT, LE] + SW_CURVE),
    dict(name='gen_sw_get_point_from_x_unchecked', file=SWA, impl=r'impl<P: SWCurveConfig> Affine<P>',
         fn='get_point_from_x_unchecked', method=False, selfty='SWAffS', optchain=True,
         args=[('x', 'K', 'x'), ('greatest', 'bool', 'greatest')], ret='opt:SWAffS', hooks=[SQRT, LT, LE] + SW_CURVE),
    dict(name='gen_sw_to_flags', file=SWA, impl=r'impl<P: SWCurveConfig> Affine<P>', fn='to_flags',
         selfty='SWAffS', selfparam='A', selfnames=['x', 'y', 'inf'], args=[], ret='enum:SWFlags',
         enums={'SWFlags': 'SWFlags'}, hooks=[LT, LE]),
    dict(name='gen_te_get_xs_from_y_unchecked', file=TEA, impl=r'impl<P: TECurveConfig> Affine<P>', fn='get_xs_from_y_unchecked',
         method=False, selfty='TEAff', optchain=True, args=[('y', 'K', 'y')], ret='opt:PairK',
         hooks=[SQRT, LT, LE, H('COEFF_A', 'const', 'coeff_a'), H('COEFF_D', 'const', 'coeff_d')]),
    dict(name='gen_te_get_point_from_y_unchecked', file=TEA, impl=r'impl<P: TECurveConfig> Affine<P>',
         fn='get_point_from_y_unchecked', method=False, selfty='TEAff', optchain=True,
         args=[('y', 'K', 'y'), ('greatest', 'bool', 'greatest')], ret='opt:TEAff',
         hooks=[SQRT, LT, LE, H('COEFF_A', 'const', 'coeff_a'), H('COEFF_D', 'const', 'coeff_d')]),
    dict(name='gen_te_flags_from_x_coordinate', file='ec/src/models/twisted_edwards/serialization_flags.rs',
         impl=r'impl TEFlags', fn='from_x_coordinate', method=False, selfty=None, args=[('x', 'K', 'x')],
         ret='enum:TEFlags', enums={'Self': 'TEFlags'}, hooks=[LT, LE]),
    # ---- C: subgroup tests, cofactor clearing, endomorphisms (scalar multiplications are parameters)
    dict(name='gen_sw_aff_xy', file=SWA, impl=r'impl<P: SWCurveConfig> AffineRepr for Affine<P>', fn='xy',
         selfty='SWAffS', selfparam='A', selfnames=['x', 'y', 'inf'], args=[], ret='opt:PairK', hooks=[]),
    dict(name='gen_sw_eq_affine', file=SWG, impl=r'impl<P: SWCurveConfig> PartialEq<Affine<P>> for Projective<P>', fn='eq',
         callname='eq_SWAffS', args=[('other', 'SWAffS', 'A')], argnames={'other': ['x2', 'y2', 'inf2']}, ret='bool',
         group_ops=True, proj_of={'SWAffS': 'SWProj'}, hooks=[], **SWN),
    dict(name='gen_sw_default_is_in_correct_subgroup', file=SWM, impl=r'pub trait SWCurveConfig\b',
         fn='is_in_correct_subgroup_assuming_on_curve', method=False, selfty=None, group_ops=True,
         args=[('item', 'SWAffS', 'A')], argnames={'item': ['x', 'y', 'inf']}, ret='bool',
         hooks=[H('cofactor_is_one', 'boolconst', 'cofactor_is_one', args_src=[]),
                H('Self::ScalarField::characteristic', 'const', 'r_char', ret='Scalar', call=True),
                H('mul_affine', 'fn', 'mul_affine', ['SWAffS', 'Scalar'], 'SWProj')]),
    dict(name='gen_te_default_is_in_correct_subgroup', file=TEM, impl=r'pub trait TECurveConfig\b',
         fn='is_in_correct_subgroup_assuming_on_curve', method=False, selfty=None, group_ops=True,
         args=[('item', 'TEAff', 'A')], argnames={'item': ['x', 'y']}, ret='bool',
         hooks=[H('Self::ScalarField::characteristic', 'const', 'r_char', ret='Scalar', call=True),
                H('mul_affine', 'fn', 'mul_affine', ['TEAff', 'Scalar'], 'TEProj')]),
    dict(name='gen_sw_aff_mul_by_cofactor_to_group', file=SWA, impl=r'impl<P: SWCurveConfig> AffineRepr for Affine<P>',
         fn='mul_by_cofactor_to_group', selfty='SWAffS', selfparam='A', selfnames=['x', 'y', 'inf'], args=[], ret='SWProj',
         hooks=[H('Self::Config::COFACTOR', 'const', 'cofactor', ret='Scalar'),
                H('mul_affine', 'fn', 'mul_affine', ['SWAffS', 'Scalar'], 'SWProj')]),
    dict(name='gen_bls12_381_g1_endomorphism', file='curves/bls12_381/src/curves/g1.rs', impl='', fn='endomorphism',
         method=False, selfty='SWAffS', args=[('p', 'SWAffS', 'A')], argnames={'p': ['x', 'y', 'inf']}, ret='SWAffS',
         hooks=[H('BETA', 'const', 'beta')]),
    dict(name='gen_bls12_381_g1_is_in_correct_subgroup', file='curves/bls12_381/src/curves/g1.rs',
         impl=r'impl SWCurveConfig for Config', fn='is_in_correct_subgroup_assuming_on_curve', method=False, selfty=None,
         group_ops=True, args=[('p', 'SWAffS', 'A')], argnames={'p': ['x', 'y', 'inf']}, ret='bool',
         hooks=[H('crate::Config::X', 'const', 'x_abs', ret='Scalar'),
                H('mul_bigint', 'pmethod', 'mul_affine', ['Scalar'], 'SWProj', recv='SWAffS'),
                H('mul_bigint', 'pmethod', 'mul_projective', ['Scalar'], 'SWProj', recv='SWProj'),
                H('endomorphism', 'fn', 'endomorphism', ['SWAffS'], 'SWAffS')]),
    dict(name='gen_bls12_381_g1_clear_cofactor', file='curves/bls12_381/src/curves/g1.rs',
         impl=r'impl SWCurveConfig for Config', fn='clear_cofactor', method=False, selfty=None, may_panic=True,
         group_ops=True, aff_of={'SWProj': 'SWAffS'}, args=[('p', 'SWAffS', 'A')], argnames={'p': ['x', 'y', 'inf']},
         ret='SWAffS',
         hooks=[H('one_minus_x', 'fn', 'one_minus_x', [], 'Scalar'),
                H('Config::mul_affine', 'fn', 'mul_affine', ['SWAffS', 'Scalar'], 'SWProj')]),
    dict(name='gen_bls12_381_g2_p_power_endomorphism', file='curves/bls12_381/src/curves/g2.rs', impl=None,
         fn='p_power_endomorphism', method=False, selfty='SWAffSQ', dicts={'Quad': 'F2'},
         args=[('p', 'SWAffSQ', 'A')], argnames={'p': [['x0', 'x1'], ['y0', 'y1'], 'inf']}, ret='SWAffSQ',
         hooks=[H('P_POWER_ENDOMORPHISM_COEFF_0', 'const', 'psi_coeff_0', ret='Quad'),
                H('P_POWER_ENDOMORPHISM_COEFF_1', 'const', 'psi_coeff_1', ret='Quad'),
                H('frobenius_map_in_place', 'method', 'frob_fp2', ['usize'], recv='Quad')]),
    dict(name='gen_bls12_381_g2_double_p_power_endomorphism', file='curves/bls12_381/src/curves/g2.rs', impl=None,
         fn='double_p_power_endomorphism', method=False, selfty='SWProj',
         args=[('p', 'SWProj', 'P')], argnames={'p': ['x1', 'y1', 'z1']}, ret='SWProj',
         hooks=[H('DOUBLE_P_POWER_ENDOMORPHISM_COEFF_0', 'const', 'psi2_coeff_0')]),
    dict(name='gen_bls12_381_g2_is_in_correct_subgroup', file='curves/bls12_381/src/curves/g2.rs',
         impl=r'impl SWCurveConfig for Config', fn='is_in_correct_subgroup_assuming_on_curve', method=False, selfty=None,
         group_ops=True, args=[('point', 'SWAffS', 'A')], argnames={'point': ['x', 'y', 'inf']}, ret='bool',
         hooks=[H('crate::Config::X', 'const', 'x_abs', ret='Scalar'),
                H('crate::Config::X_IS_NEGATIVE', 'const', 'x_is_negative', ret='bool'),
                H('mul_bigint', 'pmethod', 'mul_affine', ['Scalar'], 'SWProj', recv='SWAffS'),
                H('p_power_endomorphism', 'fn', 'p_power_endomorphism', ['SWAffS'], 'SWAffS')]),
    dict(name='gen_bn254_g2_p_power_endomorphism', file='curves/bn254/src/curves/g2.rs', impl=None,
         fn='p_power_endomorphism', method=False, selfty='SWAffS',
         args=[('p', 'SWAffS', 'A')], argnames={'p': ['x', 'y', 'inf']}, ret='SWAffS',
         hooks=[H('P_POWER_ENDOMORPHISM_COEFF_0', 'const', 'psi_coeff_0'),
                H('P_POWER_ENDOMORPHISM_COEFF_1', 'const', 'psi_coeff_1'),
                H('frobenius_map_in_place', 'method', 'frob', ['usize'], recv='K')]),
    dict(name='gen_bn254_g2_is_in_correct_subgroup', file='curves/bn254/src/curves/g2.rs',
         impl=r'impl SWCurveConfig for Config', fn='is_in_correct_subgroup_assuming_on_curve', method=False, selfty=None,
         group_ops=True, args=[('point', 'SWAffS', 'A')], argnames={'point': ['x', 'y', 'inf']}, ret='bool',
         hooks=[H('SIX_X_SQUARED', 'const', 'six_x_squared', ret='Scalar'),
                H('mul_bigint', 'pmethod', 'mul_affine', ['Scalar'], 'SWProj', recv='SWAffS'),
                H('p_power_endomorphism', 'fn', 'p_power_endomorphism', ['SWAffS'], 'SWAffS')]),
]

# ------------------------------------------------------------------ phase 4: third target table

def nr_override(name, file, impl, fn, nargs, hooks=()):
    """a per-curve override of a non-residue hook on base-field elements: `(fe: &mut Fp) -> &mut Fp` or
    `(y: &mut Fp, x: &Fp)`"""
    return dict(name=name, file=file, impl=impl, fn=fn, method=False, selfty=None, mutrefs=[nargs[0]], out=nargs[0],
                args=[(a, 'K', a) for a in nargs], ret='self', hooks=list(hooks))


def fq2_overrides(tag, file, fe, fns):
    names = {'mul_fp_by_nonresidue_in_place': ('mul_fp_by_nonresidue', [fe]),
             'mul_fp_by_nonresidue_and_add': ('mul_fp_by_nonresidue_and_add', ['y', 'x']),
             'mul_fp_by_nonresidue_plus_one_and_add': ('mul_fp_by_nonresidue_plus_one_and_add', ['y', 'x']),
             'sub_and_mul_fp_by_nonresidue': ('sub_and_mul_fp_by_nonresidue', ['y', 'x'])}
    return [nr_override('gen_%s_fq2_%s' % (tag, names[f][0]), file, r'impl Fp2Config for Fq2Config', f, names[f][1])
            for f in fns]


FQ2_ALL = ['mul_fp_by_nonresidue_in_place', 'mul_fp_by_nonresidue_and_add', 'mul_fp_by_nonresidue_plus_one_and_add',
           'sub_and_mul_fp_by_nonresidue']


def fq6_override(tag, file, hooks=()):
    return dict(name='gen_%s_fq6_mul_fp2_by_nonresidue' % tag, file=file, impl=r'impl Fp6Config for Fq6Config',
                fn='mul_fp2_by_nonresidue_in_place', method=False, selfty=None, mutrefs=['fe'], out='fe',
                args=[('fe', 'Quad', 'fe')], argnames={'fe': ['fe0', 'fe1']}, ret='self', ctors={'Fq2': 'Quad'},
                hooks=list(hooks))


FP2_NR_BELOW = H('Fq2Config::mul_fp_by_nonresidue_in_place', 'inplace', 'fp2_nr_mul', ['K'])


def mul_by_a_override(tag, file, kind, arg, ty='K', **kw):
    return dict(name='gen_%s_mul_by_a' % tag, file=file, impl=r'impl\s+(?:\w+::)?%sCurveConfig\s+for\s+\w+' % kind,
                impldoc='impl %sCurveConfig' % kind, fn='mul_by_a', method=False, selfty=None, args=[('*', ty, 'e')], ret=ty,
                hooks=[], **kw)


MNT4_A = dict(argnames={'*': ['e0', 'e1']}, ctors={'Fq2': 'Quad'})
MNT6_A = dict(argnames={'*': ['e0', 'e1', 'e2']}, ctors={'Fq3': 'Cubic'})
MNT_A_HOOKS = [H('MUL_BY_A_C0', 'const', 'mul_by_a_c0'), H('MUL_BY_A_C1', 'const', 'mul_by_a_c1'),
               H('MUL_BY_A_C2', 'const', 'mul_by_a_c2')]

# (tag, file under /repo, SW|TE, name of the parameter): the bodies `zero()`, `-elem`, `elem`, `-(4 elem + elem)`
MUL_BY_A_SIMPLE = [
    ('bls12_377_g1', 'curves/bls12_377/src/curves/g1.rs', 'SW', '_'),
    ('bls12_377_g1_te', 'curves/bls12_377/src/curves/g1.rs', 'TE', 'elem'),
    ('bls12_377_g2', 'curves/bls12_377/src/curves/g2.rs', 'SW', '_'),
    ('bls12_381_g1', 'curves/bls12_381/src/curves/g1.rs', 'SW', '_'),
    ('bls12_381_g2', 'curves/bls12_381/src/curves/g2.rs', 'SW', '_'),
    ('bn254_g1', 'curves/bn254/src/curves/g1.rs', 'SW', '_'),
    ('bn254_g2', 'curves/bn254/src/curves/g2.rs', 'SW', '_'),
    ('bw6_761_g1', 'curves/bw6_761/src/curves/g1.rs', 'SW', '_elem'),
    ('bw6_761_g2', 'curves/bw6_761/src/curves/g2.rs', 'SW', '_elem'),
    ('bw6_767_g1', 'curves/bw6_767/src/curves/g1.rs', 'SW', '_elem'),
    ('bw6_767_g2', 'curves/bw6_767/src/curves/g2.rs', 'SW', '_elem'),
    ('ed25519', 'curves/ed25519/src/curves/mod.rs', 'TE', 'elem'),
    ('ed_on_bls12_377', 'curves/ed_on_bls12_377/src/curves/mod.rs', 'TE', 'elem'),
    ('ed_on_bls12_381', 'curves/ed_on_bls12_381/src/curves/mod.rs', 'TE', 'elem'),
    ('bandersnatch', 'curves/ed_on_bls12_381_bandersnatch/src/curves/mod.rs', 'TE', 'elem'),
    ('ed_on_bn254', 'curves/ed_on_bn254/src/curves/mod.rs', 'TE', 'elem'),
    ('ed_on_cp6_782', 'curves/ed_on_cp6_782/src/curves/mod.rs', 'TE', 'elem'),
    ('ed_on_mnt4_298', 'curves/ed_on_mnt4_298/src/curves/mod.rs', 'TE', 'elem'),
    ('ed_on_mnt4_753', 'curves/ed_on_mnt4_753/src/curves/mod.rs', 'TE', 'elem'),
    ('grumpkin', 'curves/grumpkin/src/curves/mod.rs', 'SW', '_'),
    ('pallas', 'curves/pallas/src/curves/mod.rs', 'SW', '_'),
    ('secp256k1', 'curves/secp256k1/src/curves/mod.rs', 'SW', '_'),
    ('secq256k1', 'curves/secq256k1/src/curves/mod.rs', 'SW', '_'),
    ('vesta', 'curves/vesta/src/curves/mod.rs', 'SW', '_'),
    ('test_bn384_g1', 'test-curves/src/bn384_small_two_adicity/g1.rs', 'SW', '_'),
    ('test_secp256k1', 'test-curves/src/secp256k1/g1.rs', 'SW', '_'),
    ('test_bls12_381_g1', 'test-curves/src/bls12_381/g1.rs', 'SW', '_'),
    ('test_bls12_381_g2', 'test-curves/src/bls12_381/g2.rs', 'SW', '_'),
    ('test_ed_on_bls12_381', 'test-curves/src/ed_on_bls12_381/g.rs', 'TE', 'elem'),
]

FP2 = 'ff/src/fields/models/fp2.rs'
FP3 = 'ff/src/fields/models/fp3.rs'
FP4 = 'ff/src/fields/models/fp4.rs'
QQN = dict(selfty='QuadQuad', selfparam='s', selfnames=[['s00', 's01'], ['s10', 's11']])
CQN = dict(selfty='CubicQuad', selfparam='s', selfnames=[['s00', 's01'], ['s10', 's11'], ['s20', 's21']])
QCQN = dict(selfty='QuadCubicQuad', selfparam='s',
            selfnames=[[['s000', 's001'], ['s010', 's011'], ['s020', 's021']], [['s100', 's101'], ['s110', 's111'], ['s120', 's121']]])


def cyc_inv(tag, file, cfg):
    return dict(name='gen_%s_cyclotomic_inverse_in_place' % tag, file=file,
                impl=r'impl<P: %s> CyclotomicMultSubgroup for \w+<P>' % cfg, fn='cyclotomic_inverse_in_place',
                args=[], ret='opt:Quad', hooks=[], **QN)


def frob_coeff(tag, file, cfg, ty, names, tables):
    wrapper = {'Fp2Config': 'Fp2ConfigWrapper', 'Fp3Config': 'Fp3ConfigWrapper', 'Fp4Config': 'Fp4ConfigWrapper',
               'Fp6Config': 'Fp6ConfigWrapper', 'Fp12Config': 'Fp12ConfigWrapper'}[cfg]
    ext = 'CubicExtConfig' if len(tables) == 2 else 'QuadExtConfig'
    args = [(a, ty, a) for a in (['c1', 'c2'] if len(tables) == 2 else ['fe'])]
    d = dict(name='gen_%s_mul_base_field_by_frob_coeff%s' % (tag, ''), file=file,
             impl=r'impl<P: %s> %s for %s<P>' % (cfg, ext, wrapper), fn='mul_base_field_by_frob_coeff', method=False,
             selfty=None, mutrefs=[a[0] for a in args], out=([a[0] for a in args] if len(args) > 1 else args[0][0]),
             ret='self', args=args + [('power', 'Zint', 'power')],
             hooks=[H('DEGREE_OVER_BASE_PRIME_FIELD', 'intconst', 'degree')] +
                   [H('FROBENIUS_COEFF_C%d' % (i + 1), 'table', 'coeff%d' % (i + 1), ret='K') for i in range(len(tables))])
    if names:
        d['argnames'] = {a[0]: names for a in args}
    return d


TARGETS3B = [
    # ---- B: cubic norm, by-value operator wrappers, cyclotomic inverses, mul_by_fp helpers, Frobenius tables
    dict(name='gen_cubic_norm', file=CE, impl=r'impl<P: CubicExtConfig> CubicExtField<P>', fn='norm', args=[], ret='K',
         may_panic=True, hooks=C_MUL + [H('frobenius_map_in_place', 'method', 'frob', ['nat'], recv='Cubic', keep_args=True)], **CN),
    dict(name='gen_sw_sub_assign', file=SWG, impl=r"impl<'a, P: SWCurveConfig> SubAssign<&'a Self> for Projective<P>",
         fn='sub_assign', args=[('other', 'SWProj', 'Q')], argnames={'other': ['x2', 'y2', 'z2']}, ret='self',
         hooks=SW_HOOKS, **SWN),
    dict(name='gen_sw_sub_assign_affine', file=SWG,
         impl=r'impl<P: SWCurveConfig, T: Borrow<Affine<P>>> SubAssign<T> for Projective<P>', fn='sub_assign',
         callname='sub_assign_SWAffS', args=[('other', 'SWAffS', 'A')], argnames={'other': ['x2', 'y2', 'inf2']}, ret='self',
         hooks=SW_HOOKS, **SWN),
    dict(name='gen_te_sub_assign', file=TEG, impl=r"impl<'a, P: TECurveConfig> SubAssign<&'a Self> for Projective<P>",
         fn='sub_assign', args=[('other', 'TEProj', 'Q')], argnames={'other': ['x2', 'y2', 't2', 'z2']}, ret='self',
         hooks=TE_HOOKS, **TEN),
    dict(name='gen_te_sub_assign_affine', file=TEG,
         impl=r'impl<P: TECurveConfig, T: Borrow<Affine<P>>> SubAssign<T> for Projective<P>', fn='sub_assign',
         callname='sub_assign_TEAff', args=[('other', 'TEAff', 'A')], argnames={'other': ['x2', 'y2']}, ret='self',
         hooks=TE_HOOKS, **TEN),
    cyc_inv('fp2', FP2, 'Fp2Config'), cyc_inv('fp4', FP4, 'Fp4Config'), cyc_inv('fp6_2over3', F6B, 'Fp6Config'),
    cyc_inv('fp12', F12, 'Fp12Config'),
    dict(name='gen_fp2_mul_assign_by_fp', file=FP2, impl=r'impl<P: Fp2Config> Fp2<P>', fn='mul_assign_by_fp',
         args=[('other', 'K', 'e')], ret='self', hooks=[], **QN),
    dict(name='gen_fp3_mul_assign_by_fp', file=FP3, impl=r'impl<P: Fp3Config> Fp3<P>', fn='mul_assign_by_fp',
         args=[('value', 'K', 'e')], ret='self', hooks=[], **CN),
    dict(name='gen_fp4_mul_by_fp', file=FP4, impl=r'impl<P: Fp4Config> Fp4<P>', fn='mul_by_fp',
         args=[('element', 'K', 'e')], ret='self', hooks=[], **QQN),
    dict(name='gen_fp4_mul_by_fp2', file=FP4, impl=r'impl<P: Fp4Config> Fp4<P>', fn='mul_by_fp2',
         args=[('element', 'K', 'e')], ret='self', hooks=[], **QN),
    dict(name='gen_fp6_3over2_mul_assign_by_fp2', file=F6A, impl=r'impl<P: Fp6Config> Fp6<P>', fn='mul_assign_by_fp2',
         args=[('other', 'K', 'e')], ret='self', hooks=[], **CN),
    dict(name='gen_fp6_3over2_mul_by_fp', file=F6A, impl=r'impl<P: Fp6Config> Fp6<P>', fn='mul_by_fp',
         args=[('element', 'K', 'e')], ret='self', hooks=[], **CQN),
    dict(name='gen_fp6_3over2_mul_by_fp2', file=F6A, impl=r'impl<P: Fp6Config> Fp6<P>', fn='mul_by_fp2',
         args=[('element', 'K', 'e')], ret='self', hooks=[], **CN),
    dict(name='gen_fp12_mul_by_fp', file=F12, impl=r'impl<P: Fp12Config> Fp12<P>', fn='mul_by_fp',
         args=[('element', 'K', 'e')], ret='self', hooks=[], **QCQN),
    frob_coeff('fp2', FP2, 'Fp2Config', 'K', None, [1]),
    frob_coeff('fp3', FP3, 'Fp3Config', 'K', None, [1, 2]),
    frob_coeff('fp4', FP4, 'Fp4Config', 'Quad', ['fe0', 'fe1'], [1]),
    frob_coeff('fp6_2over3', F6B, 'Fp6Config', 'Cubic', ['fe0', 'fe1', 'fe2'], [1]),
    frob_coeff('fp6_3over2', F6A, 'Fp6Config', 'K', None, [1, 2]),
    frob_coeff('fp12', F12, 'Fp12Config', 'Cubic', ['fe0', 'fe1', 'fe2'], [1]),
    # ---- B: cofactor multiplication / clearing (trait defaults) and Budroni-Pintore clearing on bls12_381 G2
    dict(name='gen_te_aff_mul_by_cofactor_to_group', file=TEA, impl=r'impl<P: TECurveConfig> AffineRepr for Affine<P>',
         fn='mul_by_cofactor_to_group', selfty='TEAff', selfparam='A', selfnames=['x', 'y'], args=[], ret='TEProj',
         hooks=[H('Self::Config::COFACTOR', 'const', 'cofactor', ret='Scalar'),
                H('mul_affine', 'fn', 'mul_affine', ['TEAff', 'Scalar'], 'TEProj')]),
    dict(name='gen_sw_aff_mul_by_cofactor', file='ec/src/lib.rs', impl=r'pub trait AffineRepr\b', fn='mul_by_cofactor',
         selfty='SWAffS', selfparam='A', selfnames=['x', 'y', 'inf'], args=[], ret='SWAffS', may_panic=True, group_ops=True,
         aff_of={'SWProj': 'SWAffS'},
         hooks=[H('Self::Config::COFACTOR', 'const', 'cofactor', ret='Scalar'),
                H('mul_affine', 'fn', 'mul_affine', ['SWAffS', 'Scalar'], 'SWProj')]),
    dict(name='gen_te_aff_mul_by_cofactor', file='ec/src/lib.rs', impl=r'pub trait AffineRepr\b', fn='mul_by_cofactor',
         selfty='TEAff', selfparam='A', selfnames=['x', 'y'], args=[], ret='TEAff', may_panic=True, group_ops=True,
         aff_of={'TEProj': 'TEAff'},
         hooks=[H('Self::Config::COFACTOR', 'const', 'cofactor', ret='Scalar'),
                H('mul_affine', 'fn', 'mul_affine', ['TEAff', 'Scalar'], 'TEProj')]),
    dict(name='gen_sw_default_clear_cofactor', file=SWM, impl=r'pub trait SWCurveConfig\b', fn='clear_cofactor',
         method=False, selfty=None, args=[('item', 'SWAffS', 'A')], argnames={'item': ['x', 'y', 'inf']}, ret='SWAffS',
         may_panic=True, group_ops=True,
         hooks=[H('Self::Config::COFACTOR', 'const', 'cofactor', ret='Scalar'),
                H('mul_affine', 'fn', 'mul_affine', ['SWAffS', 'Scalar'], 'SWProj')]),
    dict(name='gen_te_default_clear_cofactor', file=TEM, impl=r'pub trait TECurveConfig\b', fn='clear_cofactor',
         method=False, selfty=None, args=[('item', 'TEAff', 'A')], argnames={'item': ['x', 'y']}, ret='TEAff',
         may_panic=True, group_ops=True,
         hooks=[H('Self::Config::COFACTOR', 'const', 'cofactor', ret='Scalar'),
                H('mul_affine', 'fn', 'mul_affine', ['TEAff', 'Scalar'], 'TEProj')]),
    dict(name='gen_bls12_381_g2_clear_cofactor', file='curves/bls12_381/src/curves/g2.rs',
         impl=r'impl SWCurveConfig for Config', fn='clear_cofactor', method=False, selfty=None, may_panic=True,
         group_ops=True, aff_of={'SWProj': 'SWAffS'}, proj_of={'SWAffS': 'SWProj'},
         args=[('p', 'SWAffS', 'A')], argnames={'p': ['x', 'y', 'inf']}, ret='SWAffS',
         hooks=[H('crate::Config::X', 'const', 'x_abs', ret='Scalar'),
                H('Config::mul_affine', 'fn', 'mul_affine', ['SWAffS', 'Scalar'], 'SWProj'),
                H('mul_bigint', 'pmethod', 'mul_projective', ['Scalar'], 'SWProj', recv='SWProj'),
                H('p_power_endomorphism', 'fn', 'p_power_endomorphism', ['SWAffS'], 'SWAffS'),
                H('double_p_power_endomorphism', 'fn', 'double_p_power_endomorphism', ['SWProj'], 'SWProj')] + SW_HOOKS),
    # ---- C (part): point serialisation.  The writer is the list of items written, in order: (field element, Some flags)
    # for `serialize_with_flags`, (field element, None) for a plain field serialisation; sizes of field encodings are
    # parameters.  `Compress` is a boolean (Yes = true).
    dict(name='gen_swflags_infinity', file='ec/src/models/short_weierstrass/serialization_flags.rs', impl=r'impl SWFlags',
         fn='infinity', method=False, selfty='enum:SWFlags', args=[], ret='enum:SWFlags', enums={'Self': 'SWFlags'}, hooks=[]),
    dict(name='gen_sw_serialize_with_mode', file=SWM, impl=r'pub trait SWCurveConfig\b', fn='serialize_with_mode',
         method=False, selfty=None, ret='self', out='writer', ctors={'SWFlags': 'enum:SWFlags'},
         args=[('item', 'SWAffS', 'A'), ('writer', 'Writer:SWFlags', 'w'), ('compress', 'bool', 'compress')],
         argnames={'item': ['x', 'y', 'inf']},
         hooks=[LT, LE, H('serialize_with_flags', 'emit', '_emit_flags', ['writer', 'flags']),
                H('serialize_with_mode', 'emit', '_emit_plain', ['writer', 'bool'])]),
    dict(name='gen_sw_serialized_size', file=SWM, impl=r'pub trait SWCurveConfig\b', fn='serialized_size',
         method=False, selfty=None, args=[('compress', 'bool', 'compress')], ret='Zint',
         hooks=[H('serialized_size_with_flags::<SWFlags>', 'sizeconst', 'size_with_flags'),
                H('compressed_size', 'sizeconst', 'size_plain')]),
    dict(name='gen_te_serialize_with_mode', file=TEM, impl=r'pub trait TECurveConfig\b', fn='serialize_with_mode',
         method=False, selfty=None, ret='self', out='writer', ctors={'TEFlags': 'enum:TEFlags'},
         args=[('item', 'TEAff', 'A'), ('writer', 'Writer:TEFlags', 'w'), ('compress', 'bool', 'compress')],
         argnames={'item': ['x', 'y']},
         hooks=[LT, LE, H('serialize_with_flags', 'emit', '_emit_flags', ['writer', 'flags']),
                H('serialize_uncompressed', 'emit', '_emit_plain', ['writer'])]),
    dict(name='gen_te_serialized_size', file=TEM, impl=r'pub trait TECurveConfig\b', fn='serialized_size',
         method=False, selfty=None, args=[('compress', 'bool', 'compress')], ret='Zint',
         hooks=[H('serialized_size_with_flags::<TEFlags>', 'sizeconst', 'size_with_flags'),
                H('uncompressed_size', 'sizeconst', 'size_plain')]),
]

TARGETS3 = (
    # ---- A: per-curve overrides of the non-residue hooks (curves/*/src/fields, test-curves)
    fq2_overrides('bls12_381', 'curves/bls12_381/src/fields/fq2.rs', 'fp', FQ2_ALL) +
    fq2_overrides('bls12_377', 'curves/bls12_377/src/fields/fq2.rs', 'fe', FQ2_ALL) +
    fq2_overrides('bn254', 'curves/bn254/src/fields/fq2.rs', 'fe', FQ2_ALL[:1]) +
    fq2_overrides('test_bls12_381', 'test-curves/src/bls12_381/fq2.rs', 'fp', FQ2_ALL) +
    [nr_override('gen_bw6_761_fq3_mul_fp_by_nonresidue', 'curves/bw6_761/src/fields/fq3.rs',
                 r'impl Fp3Config for Fq3Config', 'mul_fp_by_nonresidue_in_place', ['fe']),
     nr_override('gen_cp6_782_fq3_mul_fp_by_nonresidue', 'curves/cp6_782/src/fields/fq3.rs',
                 r'impl Fp3Config for Fq3Config', 'mul_fp_by_nonresidue_in_place', ['fe']),
     fq6_override('bls12_381', 'curves/bls12_381/src/fields/fq6.rs'),
     fq6_override('bls12_377', 'curves/bls12_377/src/fields/fq6.rs', [FP2_NR_BELOW]),
     fq6_override('bn254', 'curves/bn254/src/fields/fq6.rs', [FP2_NR_BELOW]),
     fq6_override('test_bls12_381', 'test-curves/src/bls12_381/fq6.rs')] +
    # ---- A: per-curve overrides of SWCurveConfig / TECurveConfig :: mul_by_a
    [mul_by_a_override(tag, f, kind, arg) for tag, f, kind, arg in MUL_BY_A_SIMPLE] +
    [dict(mul_by_a_override('mnt4_298_g2', 'curves/mnt4_298/src/curves/g2.rs', 'SW', 'elt', 'Quad', **MNT4_A), hooks=MNT_A_HOOKS[:2]),
     dict(mul_by_a_override('mnt4_753_g2', 'curves/mnt4_753/src/curves/g2.rs', 'SW', 'elt', 'Quad', **MNT4_A), hooks=MNT_A_HOOKS[:2]),
     dict(mul_by_a_override('mnt6_298_g2', 'curves/mnt6_298/src/curves/g2.rs', 'SW', 'elt', 'Cubic', **MNT6_A), hooks=MNT_A_HOOKS),
     dict(mul_by_a_override('mnt6_753_g2', 'curves/mnt6_753/src/curves/g2.rs', 'SW', 'elt', 'Cubic', **MNT6_A), hooks=MNT_A_HOOKS)] +
    TARGETS3B
)

# definitions of tables 1 and 2 that the table-3 targets may call (with call-site attributes)
CALLABLE3 = {
    'gen_quad_double_in_place': {}, 'gen_quad_is_zero': {}, 'gen_quad_conjugate_in_place': {},
    'gen_quad_mul_assign': {}, 'gen_cubic_mul_assign': {},
    'gen_sw_is_zero': {}, 'gen_sw_neg': {'byvalue': True}, 'gen_sw_aff_neg': {'byvalue': True},
    'gen_sw_add_assign': {}, 'gen_sw_add_assign_affine': {'callname': 'add_assign_SWAff'},
    'gen_sw_double_in_place': {}, 'gen_sw_from_affine': {}, 'gen_sw_into_affine': {},
    'gen_te_neg': {'byvalue': True}, 'gen_te_aff_neg': {'byvalue': True}, 'gen_te_add_assign': {}, 'gen_te_add_assign_affine': {'callname': 'add_assign_TEAff'},
    'gen_te_into_affine': {}, 'gen_te_from_affine': {},
    'gen_sw_aff_xy': {}, 'gen_sw_aff_mul_by_cofactor_to_group': {},
    'gen_sw_to_flags': {}, 'gen_te_flags_from_x_coordinate': {'selfty': 'enum:TEFlags'},
}

HEADER3 = '''(* GENERATED by lib/xlate_field.py --table3 -- do not edit.
   Phase 4: per-curve overrides of configuration hooks (curves/*/src, test-curves/src), by-value operator
   wrappers, more tower helpers and cofactor clearing of /repo, one Gallina definition per Rust function,
   re-generated from the current source text on every check run.  Definitions only; the lemmas tying them
   to the models are in Gen/GenField3Specs.v.  Configuration constants, tables (`Z -> entry`), scalar
   multiplications and endomorphisms are parameters.  GPanic: an `assert!` / `unwrap` fails. *)
From V Require Import Base.Field Gen.GenField Gen.GenField2.
'''

HEADER2 = '''(* GENERATED by lib/xlate_field.py --table2 -- do not edit.
   Phase 3: hash-to-curve maps, coordinate recovery, subgroup / cofactor code and more tower helpers of
   /repo, one Gallina definition per Rust function, re-generated from the current source text on every
   check run.  Definitions only; the lemmas tying them to the models are in Gen/GenField2Specs.v.
   `x.sqrt()`, `x.legendre().is_qr()`, `parity`, `<`, `<=`, scalar multiplications and configuration
   constants are parameters.  GPanic: an `unwrap` / `expect` / `debug_assert!` / division by zero. *)
From V Require Import Base.Field Gen.GenField.

Inductive gen_swflags : Type := GPointAtInfinity | GYIsPositive | GYIsNegative.
Inductive gen_teflags : Type := GXIsPositive | GXIsNegative.
'''

HEADER = '''(* GENERATED by lib/xlate_field.py -- do not edit.
   Field-level straight-line code of /repo (curve group law, extension-field towers), one Gallina
   definition per Rust function, re-generated from the current source text on every check run.
   Definitions only; the lemmas tying them to the hand-written models are in Gen/GenFieldSpecs.v. *)
From V Require Import Base.Field.

(* outcome of a function that contains `.unwrap()`: GPanic = the unwrap fails *)
Inductive gen_result (A : Type) : Type := GPanic | GRet (a : A).
Arguments GPanic {A}. Arguments GRet {A} a.
'''


def split_defs(text):
    """previous generated file -> {definition name: text block}"""
    out = {}
    for m in re.finditer(r'(\(\* [^\n]* \*\)\nDefinition (\w+) .*?\.\n)(?=\n|\Z)', text, re.S):
        out[m.group(2)] = m.group(1)
    return out


def translate_all(repo, prev_text=None, table=1):
    """per-target best effort: (text, failures).  A target that cannot be translated keeps its
    previous generated definition (failures = [(name, message)]); without a previous
    definition for it the whole translation fails.  table=2: the phase-3 targets (GenField2.v),
    which may call the phase-1/2 definitions listed in CALLABLE2."""
    defs = []
    for t in {1: TARGETS, 2: TARGETS2, 3: TARGETS3}[table]:
        t = dict(t)
        if t['name'] in NO_METHOD:
            t['method_lookup'] = False
        defs.append(t)
    prev = split_defs(prev_text) if prev_text else {}
    out = [{1: HEADER, 2: HEADER2, 3: HEADER3}[table]]
    cache = {}
    done = []
    if table == 2:
        for t in TARGETS:
            if t['name'] in CALLABLE2:
                done.append(dict(t, **CALLABLE2[t['name']]))
    if table == 3:
        for t in TARGETS + TARGETS2:
            if t['name'] in CALLABLE3:
                done.append(dict(t, **CALLABLE3[t['name']]))
    failures = []
    for t in defs:
        path = os.path.join(repo, t['file'])
        try:
            if path not in cache:
                try:
                    cache[path] = strip_comments(open(path).read())
                except OSError as e:
                    raise TranslateError('%s: cannot read %s: %s' % (t['name'], path, e))
            callable_defs = [d for d in done if d.get('method_lookup', True)]
            ex = Exec(t, callable_defs)
            out.append(ex.translate(cache[path]))
        except TranslateError as e:
            if t['name'] not in prev:
                raise
            failures.append((t['name'], str(e)))
            out.append(prev[t['name']])
        done.append(t)
    return '\n'.join(out), failures


def translate(repo):
    """strict: every target must translate"""
    text, failures = translate_all(repo, None)
    return text


def write_if_changed(path, text):
    if os.path.exists(path) and open(path).read() == text:
        return False
    os.makedirs(os.path.dirname(path), exist_ok=True)
    with open(path, 'w') as f:
        f.write(text)
    return True


if __name__ == '__main__':
    argv = [a for a in sys.argv[1:] if a not in ('--table2', '--table3')]
    table = 3 if '--table3' in sys.argv[1:] else 2 if '--table2' in sys.argv[1:] else 1
    repo = argv[0] if len(argv) > 0 else '/repo'
    dst = argv[1] if len(argv) > 1 else '/verif/coq/Gen/GenField%s.v' % {1: '', 2: '2', 3: '3'}[table]
    try:
        prev = open(dst).read() if os.path.exists(dst) else None
        t, failures = translate_all(repo, prev, table)
    except TranslateError as e:
        print('TRANSLATE-ERROR: %s' % e)
        sys.exit(3)
    for name, msg in failures:
        print('TRANSLATE-ERROR (kept previous %s): %s' % (name, msg))
    print('changed' if write_if_changed(dst, t) else 'unchanged')
