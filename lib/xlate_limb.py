#!/usr/bin/env python3
"""T-limb translator: limb-level loops of arkworks-rs/algebra  ->  coq/GenLimb/GenLimb.v

For every target (function, N) the Rust body is located in the *current* source text, parsed
with a Rust-subset parser and EXECUTED SYMBOLICALLY for the concrete limb count N: loops over
concrete ranges are unrolled, arrays `[u64; N]` are Python lists of symbolic limbs, calls of
other limb-level functions are executed (inlined), calls of the u128 leaf functions of
ff/src/biginteger/arithmetic.rs (translated separately by lib/xlate_arith.py into
coq/C15/GenArith.v) are emitted as opaque Gallina calls, every other fixed-width operation is
written out with its wrap-around (`mod W64`).  Data-dependent branches fork the execution: the
result is a decision tree (`if c then .. else ..`, `match a ?= b with ..`) whose leaves are the
final states.  coq/GenLimb/GenLimbSpecs.v proves, for ALL limb values, that each generated
definition equals the hand-written model (C15.BigIntModel / C01.MontModel) applied to the
literal-length lists.

Anything outside the supported subset raises TranslateError (never a guess).  Translation is
best-effort per target: a target that fails keeps its previous text (if any) and is reported.

Run by hand:  python3 lib/xlate_limb.py /repo /verif/coq/GenLimb/GenLimb.v
"""
import re, sys, os, copy


class TranslateError(Exception):
    pass


# ====================================================================== lexer

TOK = re.compile(r"""
   (?P<ws>\s+)
 | (?P<num>0x[0-9a-fA-F_]+(?:u8|u16|u32|u64|u128|usize|i8|i16|i32|i64|isize)?|\d[\d_]*(?:u8|u16|u32|u64|u128|usize|i8|i16|i32|i64|isize)?)
 | (?P<life>'[A-Za-z_][A-Za-z0-9_]*(?!'))
 | (?P<str>"(?:[^"\\]|\\.)*")
 | (?P<id>[A-Za-z_][A-Za-z0-9_]*)
 | (?P<sym>\.\.=|<<=|>>=|\.\.|::|->|=>|\+=|-=|\*=|/=|%=|\|=|&=|\^=|==|!=|<=|>=|&&|\|\||<<|>>|[-+*/%&|^!<>=(){}\[\];,.:?\#@$])
""", re.X)


def strip_comments(s):
    s = re.sub(r'/\*.*?\*/', ' ', s, flags=re.S)
    return re.sub(r'//[^\n]*', '', s)


def tokenize(s):
    pos, out = 0, []
    while pos < len(s):
        m = TOK.match(s, pos)
        if not m:
            raise TranslateError('cannot tokenize at: %r' % s[pos:pos + 40])
        pos = m.end()
        k = m.lastgroup
        if k == 'ws':
            continue
        out.append((k, m.group(k)))
    return out


def match_brace(s, i):
    if s[i] != '{':
        raise TranslateError('internal: match_brace not at a brace')
    d = 0
    for j in range(i, len(s)):
        if s[j] == '{':
            d += 1
        elif s[j] == '}':
            d -= 1
            if d == 0:
                return j
    raise TranslateError('unbalanced braces')


def find_fn(src, impl_re, fname):
    """source text `fn fname ... { body }` at depth 0 of the item block matched by impl_re"""
    m = re.search(impl_re, src)
    if not m:
        raise TranslateError('item not found: /%s/' % impl_re)
    i = src.find('{', m.end() - 1)
    if i < 0:
        raise TranslateError('item without body: /%s/' % impl_re)
    j = match_brace(src, i)
    region = src[i + 1:j]
    hits = []
    for m in re.finditer(r'\bfn\s+%s\b' % re.escape(fname), region):
        depth = region.count('{', 0, m.start()) - region.count('}', 0, m.start())
        if depth == 0:
            hits.append(m.start())
    if not hits:
        raise TranslateError('fn %s not found in /%s/' % (fname, impl_re))
    if len(hits) > 1:
        raise TranslateError('fn %s is ambiguous in /%s/' % (fname, impl_re))
    k = hits[0]
    po = region.find('(', k)
    d, pc = 0, -1
    for q in range(po, len(region)):
        if region[q] == '(':
            d += 1
        elif region[q] == ')':
            d -= 1
            if d == 0:
                pc = q
                break
    if po < 0 or pc < 0:
        raise TranslateError('fn %s: no parameter list in /%s/' % (fname, impl_re))
    i = region.find('{', pc)
    semi = region.find(';', pc)
    if i < 0 or (0 <= semi < i):
        raise TranslateError('fn %s has no body in /%s/' % (fname, impl_re))
    j = match_brace(region, i)
    return region[k:j + 1]


def find_const(src, impl_re, cname):
    """token list of the initialiser of `const cname: T = <expr>;` inside the item"""
    m = re.search(impl_re, src)
    if not m:
        raise TranslateError('item not found: /%s/' % impl_re)
    i = src.find('{', m.end() - 1)
    j = match_brace(src, i)
    region = src[i + 1:j]
    m = re.search(r'\bconst\s+%s\s*:[^=;]*=' % re.escape(cname), region)
    if not m:
        raise TranslateError('const %s not found in /%s/' % (cname, impl_re))
    d = 0
    for e in range(m.end(), len(region)):
        ch = region[e]
        if ch in '([{':
            d += 1
        elif ch in ')]}':
            d -= 1
        elif ch == ';' and d == 0:
            return region[m.end():e]
    raise TranslateError('const %s: unterminated initialiser' % cname)


# ====================================================================== cfg

CFG_TRUE = {('target_arch', '"x86_64"')}
# feature = "asm", target_feature = .., target_family = "wasm", test, ... are false


def cfg_eval(toks, what):
    """toks: tokens of a cfg predicate"""
    pos = [0]

    def peek():
        return toks[pos[0]] if pos[0] < len(toks) else ('eof', '')

    def nxt():
        x = peek()
        pos[0] += 1
        return x

    def pred():
        x = nxt()
        if x[0] != 'id':
            raise TranslateError('%s: unsupported cfg predicate' % what)
        if x[1] in ('all', 'any', 'not'):
            if nxt() != ('sym', '('):
                raise TranslateError('%s: bad cfg' % what)
            ps = []
            while peek() != ('sym', ')'):
                ps.append(pred())
                if peek() == ('sym', ','):
                    nxt()
            nxt()
            if x[1] == 'all':
                return all(ps)
            if x[1] == 'any':
                return any(ps)
            if len(ps) != 1:
                raise TranslateError('%s: bad cfg not()' % what)
            return not ps[0]
        if peek() == ('sym', '='):
            nxt()
            v = nxt()
            return (x[1], v[1]) in CFG_TRUE
        return False        # bare flags: test, debug_assertions, ... : not set
    r = pred()
    if pos[0] != len(toks):
        raise TranslateError('%s: trailing tokens in cfg' % what)
    return r


# ====================================================================== parser (AST = tuples)

class Parser:
    BIN = {'||': 1, '&&': 2, '==': 3, '!=': 3, '<': 3, '>': 3, '<=': 3, '>=': 3,
           '|': 4, '^': 5, '&': 6, '<<': 7, '>>': 7, '+': 8, '-': 8, '*': 9, '/': 9, '%': 9}
    ASSIGN = ('=', '+=', '-=', '*=', '|=', '&=', '^=', '<<=', '>>=', '/=', '%=')

    def __init__(self, toks, what, ext=False):
        self.t, self.i, self.what = toks, 0, what
        self.ext = ext              # phase-2 syntax (macro-expanded text): local `use .. as ..`, closures, `::path`

    def err(self, msg):
        ctx = ' '.join(x[1] for x in self.t[max(0, self.i - 8):self.i + 8])
        raise TranslateError('%s: %s (near `%s`)' % (self.what, msg, ctx))

    def peek(self, k=0):
        return self.t[self.i + k] if self.i + k < len(self.t) else ('eof', '')

    def next(self):
        x = self.peek()
        self.i += 1
        return x

    def at(self, text, k=0):
        x = self.peek(k)
        return x[0] in ('sym', 'id') and x[1] == text

    def accept(self, text):
        if self.at(text):
            self.i += 1
            return True
        return False

    def expect(self, text):
        if not self.accept(text):
            self.err('expected `%s`, got `%s`' % (text, self.peek()[1]))

    def ident(self):
        x = self.next()
        if x[0] != 'id':
            self.err('expected identifier, got `%s`' % x[1])
        return x[1]

    # ---- token-tree helpers
    def group(self):
        """raw tokens of a delimited group ( ... ) [ ... ] { ... } (without the delimiters)"""
        op = self.next()
        close = {'(': ')', '[': ']', '{': '}'}.get(op[1])
        if op[0] != 'sym' or close is None:
            self.err('expected a delimited group')
        d, out = 1, []
        while True:
            x = self.next()
            if x[0] == 'eof':
                self.err('unterminated group')
            if x[0] == 'sym' and x[1] in '([{':
                d += 1
            elif x[0] == 'sym' and x[1] in ')]}':
                d -= 1
                if d == 0:
                    return out
            out.append(x)

    def skip_type(self, stops):
        """skip a type up to (not including) one of the stop symbols at depth 0"""
        d = 0
        toks = []
        while True:
            x = self.peek()
            if x[0] == 'eof':
                self.err('unterminated type')
            if d == 0 and x[0] == 'sym' and x[1] in stops:
                return toks
            if x[0] == 'sym' and x[1] in ('<', '(', '['):
                d += 1
            elif x[0] == 'sym' and x[1] in ('>', ')', ']'):
                d -= 1
            elif x[0] == 'sym' and x[1] == '>>':
                d -= 2
            elif x[0] == 'sym' and x[1] == '->':
                pass
            if d < 0:
                return toks
            toks.append(self.next())

    def attrs(self):
        """consume #[...] attributes; returns False when a cfg attribute disables the item"""
        keep = True
        while self.at('#'):
            self.next()
            self.accept('!')
            g = self.group_of('[')
            if g and g[0] == ('id', 'cfg') and len(g) >= 3:
                keep = keep and cfg_eval(g[2:-1], self.what)
        return keep

    def group_of(self, opener):
        if not self.at(opener):
            self.err('expected `%s`' % opener)
        return self.group()

    # ---- fn
    def fn(self):
        while self.peek()[0] == 'id' and self.peek()[1] in ('pub', 'const', 'unsafe') or self.at('('):
            if self.at('('):
                self.group()
            else:
                self.next()
        self.expect('fn')
        name = self.ident()
        if self.at('<'):
            self.skip_angle()
        ptoks = self.group_of('(')
        params = self.params(ptoks)
        while not self.at('{'):
            if self.peek()[0] == 'eof':
                self.err('no function body')
            self.next()
        body = self.block()
        return name, params, body

    def params(self, toks):
        """[(name, mode)] with mode in 'ref' | 'mut' (both: a reference) | 'val'"""
        parts, cur, d = [], [], 0
        for x in toks:
            if x[0] == 'sym' and x[1] in ('(', '[', '<'):
                d += 1
            elif x[0] == 'sym' and x[1] in (')', ']', '>'):
                d -= 1
            elif x[0] == 'sym' and x[1] == '>>':
                d -= 2
            if x == ('sym', ',') and d == 0:
                parts.append(cur)
                cur = []
            else:
                cur.append(x)
        if cur:
            parts.append(cur)
        out = []
        for p in parts:
            q = [x for x in p if x[0] != 'life']
            if ('id', 'self') in q[:3] and ('sym', ':') not in q:
                if q[0] == ('sym', '&'):
                    out.append(('self', 'mut' if q[1] == ('id', 'mut') else 'ref'))
                else:
                    out.append(('self', 'val'))
                continue
            if q and q[0] == ('id', 'mut'):
                q = q[1:]
            if len(q) < 3 or q[0][0] != 'id' or q[1] != ('sym', ':'):
                self.err('unsupported parameter pattern')
            if q[2] == ('sym', '&'):
                out.append((q[0][1], 'mut' if q[3] == ('id', 'mut') else 'ref'))
            else:
                out.append((q[0][1], 'val'))
        return out

    def skip_angle(self):
        self.expect('<')
        d = 1
        while d > 0:
            x = self.next()
            if x[0] == 'eof':
                self.err('unbalanced <>')
            if x == ('sym', '<'):
                d += 1
            elif x == ('sym', '>'):
                d -= 1
            elif x == ('sym', '>>'):
                d -= 2
        if d < 0:
            self.err('unbalanced <> (`>>`)')

    # ---- blocks and statements
    def block(self):
        self.expect('{')
        stmts = []
        while not self.at('}'):
            if self.peek()[0] == 'eof':
                self.err('unterminated block')
            if self.accept(';'):
                continue
            keep = self.attrs()
            if not keep:
                self.skip_item()
                continue
            s = self.stmt()
            if s is not None:
                stmts.append(s)
        self.expect('}')
        return stmts

    def skip_item(self):
        """skip the token trees of one statement / block expression disabled by #[cfg(..)]"""
        while True:
            x = self.peek()
            if x[0] == 'eof' or x == ('sym', '}'):
                return
            if x == ('sym', ';'):
                self.next()
                return
            if x[0] == 'sym' and x[1] in ('(', '['):
                self.group()
                continue
            if x == ('sym', '{'):
                self.group()
                if self.at('else'):
                    continue
                self.accept(';')
                return
            self.next()

    BLOCKLIKE = ('if', 'match', 'for', 'while', 'loop', 'unsafe')

    def stmt(self):
        if self.at('use'):
            toks = []
            while not self.accept(';'):
                x = self.next()
                if x[0] == 'eof':
                    self.err('unterminated use')
                toks.append(x)
            if self.ext:
                return ('use', toks)            # resolved (or rejected) by the executor
            # a local import must not be able to change what a leaf name means
            if ('id', 'as') in toks or ('sym', '*') in toks or ('sym', '{') in toks:
                self.err('unsupported `use` form inside a function body (alias / glob / group)')
            if toks[-1][0] == 'id' and toks[-1][1] in LEAF_FN:
                self.err('local import of the leaf name `%s`' % toks[-1][1])
            return None
        if self.at('let'):
            return self.let()
        if self.at('return'):
            self.next()
            e = None
            if not self.at(';') and not self.at('}'):
                e = self.expr(0)
            self.accept(';')
            return ('return', e)
        if self.at('break'):
            self.next()
            self.accept(';')
            return ('break',)
        if self.at('continue'):
            self.err('unsupported statement `continue`')
        blocklike = self.at('{') or (self.peek()[0] == 'id' and self.peek()[1] in self.BLOCKLIKE)
        if blocklike:
            e = self.blocklike_expr()
            # `if ..{} else {}` etc. as a statement; a trailing method call / operator continues it
            if self.at('.') or self.at('?'):
                e = self.postfix_on(e)
                e = self.binary_on(e, 0)
            semi = self.accept(';')
            last = self.at('}')
            return ('expr', e, semi or not last)
        e = self.expr(0)
        if self.peek()[0] == 'sym' and self.peek()[1] in self.ASSIGN:
            op = self.next()[1]
            r = self.expr(0)
            if not self.at('}'):
                self.expect(';')
            return ('assign', op, e, r)
        if self.accept(';'):
            return ('expr', e, True)
        if self.at('}'):
            return ('expr', e, False)
        self.err('unexpected `%s` after expression' % self.peek()[1])

    def let(self):
        self.expect('let')
        pat = self.pattern()
        if self.accept(':'):
            self.skip_type(('=', ';'))
        e = None
        if self.accept('='):
            e = self.expr(0)
        self.expect(';')
        return ('let', pat, e)

    def pattern(self):
        if self.accept('('):
            ps = []
            while not self.at(')'):
                ps.append(self.pattern())
                if not self.accept(','):
                    break
            self.expect(')')
            return ('ptuple', ps)
        self.accept('mut')
        if self.accept('&'):
            self.err('unsupported reference pattern')
        x = self.next()
        if x[0] == 'num':
            return ('plit', parse_int(x[1])[0])
        if x[0] != 'id':
            self.err('unsupported pattern')
        if x[1] == '_':
            return ('pwild',)
        segs = [x[1]]
        while self.accept('::'):
            segs.append(self.ident())
        if self.at('(') or self.at('{') and len(segs) > 1:
            self.err('unsupported constructor pattern')
        if len(segs) > 1:
            return ('ppath', segs)
        if self.accept('@'):
            self.err('unsupported `@` pattern')
        return ('pvar', segs[0])

    def blocklike_expr(self):
        if self.at('{'):
            return ('block', self.block())
        if self.at('unsafe'):
            self.next()
            return ('unsafe', self.block())
        if self.at('if'):
            return self.if_()
        if self.at('for'):
            self.next()
            pat = self.pattern()
            self.expect('in')
            it = self.expr_nostruct()
            body = self.block()
            return ('for', pat, it, body)
        if self.at('while'):
            self.next()
            c = self.expr_nostruct()
            body = self.block()
            return ('while', c, body)
        if self.at('match'):
            self.next()
            s = self.expr_nostruct()
            self.expect('{')
            arms = []
            while not self.at('}'):
                pats = [self.pattern()]
                while self.accept('|'):
                    pats.append(self.pattern())
                if self.at('if'):
                    self.err('unsupported match guard')
                self.expect('=>')
                if self.at('{'):
                    body = ('block', self.block())
                    if self.at('.'):
                        body = self.postfix_on(body)
                else:
                    if self.at('return'):
                        self.next()
                        body = ('block', [('return', None if self.at(',') or self.at('}') else self.expr(0))])
                    else:
                        body = self.expr(0)
                self.accept(',')
                arms.append((pats, body))
            self.expect('}')
            return ('match', s, arms)
        self.err('unsupported block expression `%s`' % self.peek()[1])

    def if_(self):
        self.expect('if')
        if self.at('let'):
            self.err('unsupported `if let`')
        c = self.expr_nostruct()
        th = self.block()
        el = None
        if self.accept('else'):
            if self.at('if'):
                el = [('expr', self.if_(), False)]
            else:
                el = self.block()
        return ('if', c, th, el)

    def expr_nostruct(self):
        return self.expr(0)

    # ---- expressions
    def expr(self, minp):
        return self.binary_on(self.unary(), minp)

    def binary_on(self, l, minp):
        while True:
            x = self.peek()
            if x[0] == 'sym' and x[1] in ('..', '..=') and minp == 0:
                self.next()
                r = None
                if not (self.at(')') or self.at(']') or self.at('{') or self.at(';') or self.at(',')):
                    r = self.binary_on(self.unary(), 1)
                l = ('range', l, r, x[1] == '..=')
                continue
            if x[0] != 'sym' or x[1] not in self.BIN or self.BIN[x[1]] < minp:
                return l
            op = self.next()[1]
            r = self.binary_on(self.unary(), self.BIN[op] + 1)
            l = ('bin', op, l, r)

    def unary(self):
        if self.accept('-'):
            return ('un', '-', self.unary())
        if self.accept('!'):
            return ('un', '!', self.unary())
        if self.accept('*'):
            return ('un', '*', self.unary())
        if self.accept('&&'):
            self.err('unsupported `&&` borrow')
        if self.accept('&'):
            if self.accept('mut'):
                return ('un', '&mut', self.unary())
            return ('un', '&', self.unary())
        e = self.postfix_on(self.primary())
        while self.at('as'):
            self.next()
            ty = self.ident()
            while self.accept('::'):
                ty = self.ident()
            e = ('cast', e, ty)
        return e

    def closure(self):
        """`|p, q| body` (ext only): ('closure', [pattern], body)"""
        pats = []
        if not self.accept('||'):
            self.expect('|')
            while not self.at('|'):
                pats.append(self.pattern())
                if self.accept(':'):
                    self.skip_type((',', '|'))
                if not self.accept(','):
                    break
            self.expect('|')
        if self.at('->'):
            self.err('unsupported closure return type')
        return ('closure', pats, self.expr(0))

    def args(self):
        self.expect('(')
        a = []
        while not self.at(')'):
            a.append(self.expr(0))
            if not self.accept(','):
                break
        self.expect(')')
        return a

    def postfix_on(self, e):
        while True:
            if self.at('.'):
                self.next()
                x = self.next()
                if x[0] == 'num':
                    e = ('field', e, x[1])
                    continue
                if x[0] != 'id':
                    self.err('unsupported field access')
                name = x[1]
                if self.at('::'):
                    self.next()
                    self.skip_angle()
                if self.at('('):
                    e = ('mcall', e, name, self.args())
                else:
                    e = ('field', e, name)
            elif self.at('(') and e[0] == 'path':
                e = ('call', e[1], self.args())
            elif self.at('['):
                self.next()
                ix = self.expr(0)
                self.expect(']')
                e = ('index', e, ix)
            elif self.at('?'):
                self.err('unsupported `?`')
            else:
                return e

    def primary(self):
        x = self.peek()
        if x[0] == 'num':
            self.next()
            v, ty = parse_int(x[1])
            return ('num', v, ty)
        if x[0] == 'str':
            self.next()
            return ('str', x[1])
        if self.at('('):
            self.next()
            if self.accept(')'):
                return ('tuple', [])
            e = self.expr(0)
            if self.accept(','):
                es = [e]
                while not self.at(')'):
                    es.append(self.expr(0))
                    if not self.accept(','):
                        break
                self.expect(')')
                return ('tuple', es)
            self.expect(')')
            return ('paren', e)
        if self.at('['):
            self.next()
            es = []
            if not self.at(']'):
                es.append(self.expr(0))
                if self.accept(';'):
                    n = self.expr(0)
                    self.expect(']')
                    return ('repeat', es[0], n)
                while self.accept(','):
                    if self.at(']'):
                        break
                    es.append(self.expr(0))
            self.expect(']')
            return ('array', es)
        if self.ext and (self.at('|') or self.at('||')):
            return self.closure()
        if self.at('|') or self.at('||') or self.at('move'):
            self.err('unsupported closure')
        if self.ext and self.at('::') and self.peek(1)[0] == 'id':
            self.next()                         # `::core::..`: absolute path
            segs = ['::', self.ident()]
            while self.at('::'):
                self.next()
                if self.at('<'):
                    self.skip_angle()
                    continue
                segs.append(self.ident())
            return ('path', segs)
        if self.at('{') or (x[0] == 'id' and x[1] in self.BLOCKLIKE):
            return self.blocklike_expr()
        if self.at('<'):
            self.skip_angle()
            segs = ['<>']
            while self.accept('::'):
                segs.append(self.ident())
            return ('path', segs)
        if x[0] == 'id':
            if x[1] in ('let', 'loop', 'move', 'return', 'break'):
                self.err('unsupported expression `%s`' % x[1])
            segs = [self.ident()]
            while self.at('::'):
                self.next()
                if self.at('<'):
                    self.skip_angle()
                    continue
                segs.append(self.ident())
            if self.at('!'):
                # macro invocation: raw token group
                if self.peek(1)[0] == 'sym' and self.peek(1)[1] in ('(', '[', '{'):
                    self.next()
                    return ('macro', segs, self.group())
            if self.at('{') and segs == ['Self'] and self.peek(1)[0] == 'id' and \
               self.peek(2) in (('sym', ','), ('sym', '}'), ('sym', ':')):
                self.next()
                fields = []
                while not self.at('}'):
                    fname = self.ident()
                    if self.accept(':'):
                        fields.append((fname, self.expr(0)))
                    else:
                        fields.append((fname, ('path', [fname])))
                    if not self.accept(','):
                        break
                self.expect('}')
                return ('structlit', segs, fields)
            return ('path', segs)
        self.err('unexpected token `%s`' % x[1])


def parse_int(text):
    t = text.replace('_', '')
    m = re.match(r'^(0x[0-9a-fA-F]+|\d+)(u8|u16|u32|u64|u128|usize|i8|i16|i32|i64|isize)?$', t)
    if not m:
        raise TranslateError('bad integer literal %s' % text)
    return int(m.group(1), 0), m.group(2)


# ====================================================================== symbolic values

BITS = {'u8': 8, 'u32': 32, 'u64': 64}
WRAP = {'u8': '2^8', 'u32': '2^32', 'u64': 'W64'}
ATOM = re.compile(r"^(?:[A-Za-z_][A-Za-z0-9_']*|\d+)$")


class S:
    """symbolic scalar: Gallina text + Rust type"""
    def __init__(self, text, ty):
        self.text, self.ty = text, ty


class Arr:
    def __init__(self, items):
        self.items = items


class Struct:
    def __init__(self, kind, f):
        self.kind, self.f = kind, f


class Tup:
    def __init__(self, items):
        self.items = items


class Ord:
    def __init__(self, which):
        self.which = which          # 'Less' | 'Equal' | 'Greater'


class Rng:
    def __init__(self, lo, hi):
        self.lo, self.hi = lo, hi   # hi exclusive


class Iter:
    def __init__(self, items):
        self.items = items


class Opt:
    def __init__(self, v):
        self.v = v                  # None = Rust None


class Cond:
    """symbolic boolean: ('eqb',a,b) ('ltb',a,b) ('leb',a,b) ('not',c) ('and',c,d) ('or',c,d) ('atom',text)"""
    def __init__(self, *node):
        self.node = node


class Uninit:
    pass


class Unit:
    pass


class Ref:
    def __init__(self, obj, key):
        self.obj, self.key = obj, key

    def get(self):
        o = self.obj
        if isinstance(o, dict):
            return o[self.key]
        if isinstance(o, (Arr, Tup)):
            if not (0 <= self.key < len(o.items)):
                raise TranslateError('index %d out of bounds (len %d): the code would panic' % (self.key, len(o.items)))
            return o.items[self.key]
        if isinstance(o, Struct):
            if self.key not in o.f:
                raise TranslateError('no field `%s` in %s' % (self.key, o.kind))
            return o.f[self.key]
        raise TranslateError('internal: bad reference')

    def set(self, v):
        o = self.obj
        if isinstance(o, dict):
            o[self.key] = v
        elif isinstance(o, (Arr, Tup)):
            if not (0 <= self.key < len(o.items)):
                raise TranslateError('index %d out of bounds (len %d): the code would panic' % (self.key, len(o.items)))
            o.items[self.key] = v
        elif isinstance(o, Struct):
            if self.key not in o.f:
                raise TranslateError('no field `%s` in %s' % (self.key, o.kind))
            o.f[self.key] = v
        else:
            raise TranslateError('internal: bad reference')


class ReturnEx(Exception):
    def __init__(self, v):
        self.v = v


class BreakEx(Exception):
    pass


def copyval(v):
    if isinstance(v, Arr):
        return Arr([copyval(x) for x in v.items])
    if isinstance(v, Tup):
        return Tup([copyval(x) for x in v.items])
    if isinstance(v, Struct):
        return Struct(v.kind, {k: copyval(x) for k, x in v.f.items()})
    if isinstance(v, Opt):
        return Opt(None if v.v is None else copyval(v.v))
    return v


def par(t):
    return t if ATOM.match(t) else '(' + t + ')'


# ---- leaf arithmetic (translated by lib/xlate_arith.py into C15/GenArith.v): opaque calls
# rust name -> (Gallina name, parameter modes, components of the Gallina result)
LEAF_FN = {
    'adc': ('adc', ['mut', 'val', 'val'], ['p0', 'ret']),
    'adc_for_add_with_carry': ('adc_for_add_with_carry', ['mut', 'val', 'val'], ['p0', 'ret']),
    'adc_no_carry': ('adc_no_carry', ['val', 'val', 'ref'], ['ret']),
    'sbb': ('sbb', ['mut', 'val', 'val'], ['p0', 'ret']),
    'sbb_for_sub_with_borrow': ('sbb_for_sub_with_borrow', ['mut', 'val', 'val'], ['p0', 'ret']),
    'mac': ('mac', ['val', 'val', 'val', 'mut'], ['ret', 'p3']),
    'mac_discard': ('mac_discard', ['val', 'val', 'val', 'mut'], ['p3']),
    'mac_with_carry': ('mac_with_carry', ['val', 'val', 'val', 'mut'], ['ret', 'p3']),
}
LEAF_MACRO = {
    'adc': ('adc_m', ['val', 'val', 'mut'], ['ret', 'p2']),
    'sbb': ('sbb_m', ['val', 'val', 'mut'], ['ret', 'p2']),
    'mac': ('mac_m', ['val', 'val', 'val', 'mut'], ['ret', 'p3']),
    'mac_with_carry': ('mac_with_carry_m', ['val', 'val', 'val', 'mut'], ['ret', 'p3']),
}
LEAF_PREFIX = ([], ['fa'], ['arithmetic'], ['crate', 'biginteger', 'arithmetic'])

BI = 'ff/src/biginteger/mod.rs'
MB = 'ff/src/fields/models/fp/montgomery_backend.rs'
FP = 'ff/src/fields/models/fp/mod.rs'
CH = 'ff/src/const_helpers.rs'

I_BIGINTEGER = r'impl<const N: usize> BigInteger for BigInt<N>\s*\{'
I_BIGINT = r'impl<const N: usize> BigInt<N>\s*\{'
I_FP = r'impl<P: FpConfig<N>, const N: usize> Fp<P, N>\s*\{'
I_FPMONT = r'impl<T: MontConfig<N>, const N: usize> Fp<MontBackend<T, N>, N>\s*\{'
I_MONT = r'pub trait MontConfig<const N: usize>[^{]*\{'
I_MBUF = r'impl<const N: usize> MulBuffer<N>\s*\{'
I_BACKEND = r'impl<T: MontConfig<N>, const N: usize> FpConfig<N> for MontBackend<T, N>\s*\{'

# (kind of Self, method) -> (file, item regex)
FN = {}
for _n in ('add_with_carry', 'sub_with_borrow', 'mul2', 'muln', 'mul', 'mul_low', 'mul_high', 'div2', 'divn',
           'is_odd', 'is_even', 'is_zero'):
    FN[('BigInt', _n)] = (BI, I_BIGINTEGER)
for _n in ('new', 'zero', 'one', 'const_is_even', 'const_is_odd', 'mod_4', 'const_shr', 'const_geq',
           'const_sub_with_borrow', 'const_add_with_carry', 'const_mul2_with_carry', 'const_is_zero',
           'divide_by_2_round_down'):
    FN[('BigInt', _n)] = (BI, I_BIGINT)
FN[('BigInt', 'cmp')] = (BI, r'impl<const N: usize> Ord for BigInt<N>\s*\{')
FN[('BigInt', 'from')] = (BI, r'impl<const N: usize> From<u64> for BigInt<N>\s*\{')
FN[('BigInt', 'default')] = (BI, r'impl<const N: usize> Default for BigInt<N>\s*\{')
FN[('BigInt', 'shl_assign')] = (BI, r'impl<const N: usize> ShlAssign<u32> for BigInt<N>\s*\{')
FN[('BigInt', 'shr_assign')] = (BI, r'impl<const N: usize> ShrAssign<u32> for BigInt<N>\s*\{')
for _n in ('is_geq_modulus', 'subtract_modulus', 'subtract_modulus_with_carry'):
    FN[('Fp', _n)] = (FP, I_FP)
FN[('Fp', 'is_zero')] = (FP, r'impl<P: FpConfig<N>, const N: usize> Zero for Fp<P, N>\s*\{')
for _n in ('new_unchecked', 'const_is_zero', 'mul_without_cond_subtract', 'const_is_valid',
           'const_subtract_modulus', 'const_subtract_modulus_with_carry', 'sub_with_borrow'):
    FN[('Fp', _n)] = (MB, I_FPMONT)
for _n in ('add_assign', 'sub_assign', 'double_in_place', 'neg_in_place', 'mul_assign', 'square_in_place',
           'into_bigint', 'from_bigint'):
    FN[('Mont', _n)] = (MB, I_MONT)
for _n in ('new', 'zeroed', 'get', 'get_mut'):
    FN[('MulBuffer', _n)] = (CH, I_MBUF)

# the macro `const_for!` is executed as a counting loop; its definition is checked against this text
CONST_FOR_EXPECT = ('( ( $ i : ident in $ start : tt .. $ end : tt ) $ code : expr ) => { { let mut $ i = $ start ; '
                    'while $ i < $ end { $ code $ i += 1 ; } } } ;')


# ====================================================================== symbolic executor

class Frame:
    def __init__(self, selfkind, fname):
        self.scopes = [{}]
        self.selfkind, self.fname = selfkind, fname

    def lookup(self, name):
        for sc in reversed(self.scopes):
            if name in sc:
                return sc
        return None


class Exec:
    MAX_STEPS = 200000

    def __init__(self, repo, N, cfg, what, srccache, astcache):
        self.repo, self.N, self.cfg, self.what = repo, N, cfg, what
        self.src, self.ast = srccache, astcache
        self.path, self.pos = [], 0
        self.events = []
        self.counter = {}
        self.frames = []
        self.steps = 0
        self.opaque = {}

    def err(self, msg):
        fn = self.frames[-1].fname if self.frames else '?'
        raise TranslateError('%s: in fn %s: %s' % (self.what, fn, msg))

    # ---------------- names, lets, decisions
    def fresh(self, hint):
        hint = re.sub(r'[^A-Za-z0-9_]', '_', hint).strip('_') or 'v'
        if hint[0].isdigit():
            hint = 'v' + hint
        k = self.counter.get(hint, 0) + 1
        self.counter[hint] = k
        return '%s_%d' % (hint, k)

    def bind(self, hint, v):
        if isinstance(v, S) and not ATOM.match(v.text) and not hasattr(v, 'origin'):
            n = self.fresh(hint)
            self.events.append(('let', n, v.text))
            return S(n, v.ty)
        return v

    def branch(self, kind, scrut, n):
        if self.pos < len(self.path):
            c = self.path[self.pos]
        else:
            c = 0
        self.pos += 1
        self.events.append(('dec', kind, scrut, n))
        return c

    def ctext(self, c):
        """Gallina text of a boolean value"""
        if c is True:
            return 'true'
        if c is False:
            return 'false'
        if isinstance(c, S) and c.ty == 'bool':
            return c.text
        if not isinstance(c, Cond):
            self.err('not a boolean')
        n = c.node
        if n[0] == 'atom':
            return n[1]
        if n[0] in ('eqb', 'ltb', 'leb'):
            return '(%s %s %s)' % (self.stext(n[1]), {'eqb': '=?', 'ltb': '<?', 'leb': '<=?'}[n[0]], self.stext(n[2]))
        if n[0] == 'not':
            return '(negb %s)' % self.ctext(n[1])
        if n[0] in ('and', 'or'):
            return '(%s %s %s)' % ({'and': 'andb', 'or': 'orb'}[n[0]], self.ctext(n[1]), self.ctext(n[2]))
        self.err('internal: bad condition')

    def decide(self, c):
        """turn a boolean into a concrete one, forking the execution when it is symbolic"""
        if c is True or c is False:
            return c
        if isinstance(c, S) and c.ty == 'bool':
            return self.branch('bool', c.text, 2) == 0
        if not isinstance(c, Cond):
            self.err('condition is not a boolean')
        n = c.node
        if n[0] == 'not':
            return not self.decide(n[1])
        if n[0] == 'and':           # conditions are pure: deciding lazily is sound
            return self.decide(n[1]) and self.decide(n[2])
        if n[0] == 'or':
            return self.decide(n[1]) or self.decide(n[2])
        return self.branch('bool', self.ctext(c), 2) == 0

    def stext(self, v):
        if isinstance(v, bool):
            self.err('boolean used as an integer')
        if isinstance(v, int):
            if v < 0:
                self.err('negative integer constant')
            return str(v)
        if isinstance(v, S) and v.ty != 'bool':
            return v.text
        self.err('expected an integer scalar')

    # ---------------- source access
    def source(self, rel):
        if rel not in self.src:
            p = os.path.join(self.repo, rel)
            try:
                self.src[rel] = strip_comments(open(p).read())
            except OSError as e:
                raise TranslateError('cannot read %s: %s' % (p, e))
        return self.src[rel]

    def fn_ast(self, key):
        if key not in FN:
            self.err('no source location known for %s::%s' % key)
        if key not in self.ast:
            rel, item = FN[key]
            text = find_fn(self.source(rel), item, key[1])
            self.ast[key] = Parser(tokenize(text), '%s::%s' % key).fn()
        return self.ast[key]

    def check_const_for(self):
        if 'const_for' in self.ast:
            return
        src = self.source(CH)
        m = re.search(r'macro_rules!\s+const_for\s*\{', src)
        if not m:
            self.err('macro const_for not found')
        j = match_brace(src, m.end() - 1)
        got = ' '.join(t[1] for t in tokenize(src[m.end():j]))
        if got != CONST_FOR_EXPECT:
            self.err('macro const_for changed: `%s`' % got)
        self.ast['const_for'] = True

    # ---------------- configuration constants
    def config(self, name):
        if name not in self.cfg:
            self.err('configuration constant %s is not a parameter of this target' % name)
        return copyval(self.cfg[name])

    CONFIG_NAMES = {'MODULUS': 'MODULUS', 'INV': 'INV', 'R2': 'R2', 'R': 'R',
                    'MODULUS_HAS_SPARE_BIT': 'SPARE', 'CAN_USE_NO_CARRY_MUL_OPT': 'CAN_NC',
                    'CAN_USE_NO_CARRY_SQUARE_OPT': 'CAN_SQ'}

    # ---------------- places
    def deref(self, v):
        while isinstance(v, Ref):
            v = v.get()
        return v

    def place(self, e):
        """(Ref, hint) of a place expression or None"""
        k = e[0]
        if k == 'paren':
            return self.place(e[1])
        if k == 'path' and len(e[1]) == 1:
            sc = self.frames[-1].lookup(e[1][0])
            if sc is None:
                return None
            return Ref(sc, e[1][0]), e[1][0]
        if k == 'un' and e[1] == '*':
            v = self.eval(e[2])
            if not isinstance(v, Ref):
                self.err('dereference of a non-reference')
            while isinstance(v.get(), Ref):
                v = v.get()
            return v, self.hint_of(e[2])
        if k == 'field':
            b = self.place(e[1])
            if b is None:
                tmp = {'t': self.eval(e[1])}
                b = (Ref(tmp, 't'), 'tmp')
            base = self.deref(b[0])
            name = e[2]
            if isinstance(base, Tup):
                if not name.isdigit():
                    self.err('field .%s of a tuple' % name)
                return Ref(base, int(name)), '%s_%s' % (b[1], name)
            if not isinstance(base, Struct):
                self.err('field .%s of a non-struct' % name)
            if name not in base.f:
                self.err('no field `%s` in %s' % (name, base.kind))
            h = b[1] if name == '0' else '%s_%s' % (b[1], name)
            return Ref(base, name), h
        if k == 'index':
            b = self.place(e[1])
            if b is None:
                self.err('indexing a temporary')
            base = self.deref(b[0])
            ix = self.eval(e[2])
            if not isinstance(ix, int) or isinstance(ix, bool):
                self.err('array index is not a concrete integer')
            if isinstance(base, Struct) and base.kind == 'MulBuffer':
                r = self.call_fn(('MulBuffer', 'get_mut'), b[0], [ix])
                if not isinstance(r, Ref):
                    self.err('MulBuffer::get_mut did not return a reference')
                return r, '%s%d' % (b[1], ix)
            if not isinstance(base, Arr):
                self.err('indexing a non-array')
            if not (0 <= ix < len(base.items)):
                self.err('index %d out of bounds (len %d): the code would panic' % (ix, len(base.items)))
            return Ref(base, ix), '%s%d' % (b[1], ix)
        return None

    def hint_of(self, e):
        if e[0] == 'path':
            return e[1][-1]
        if e[0] in ('paren',):
            return self.hint_of(e[1])
        if e[0] == 'un':
            return self.hint_of(e[2])
        return 'v'

    def write(self, ref, hint, v):
        if isinstance(v, Ref):
            self.err('storing a reference into a place')
        ref.set(self.bind(hint, copyval(v)))

    # ---------------- expressions
    def tick(self):
        self.steps += 1
        if self.steps > self.MAX_STEPS:
            self.err('execution step limit exceeded')

    def eval(self, e):
        self.tick()
        k = e[0]
        if k == 'num':
            return e[1]
        if k == 'paren':
            return self.eval(e[1])
        if k in ('path', 'field', 'index'):
            if k == 'path' and len(e[1]) > 1:
                return self.eval_path(e[1])
            p = self.place(e)
            if p is None:
                if k == 'path':
                    return self.eval_path(e[1])
                self.err('cannot evaluate place expression')
            v = p[0].get()
            if isinstance(v, Uninit):
                self.err('read of an uninitialised variable')
            if isinstance(v, Ref):
                return v
            return copyval(v)
        if k == 'un':
            op = e[1]
            if op in ('&', '&mut'):
                p = self.place(e[2])
                if p is not None:
                    r = p[0]
                    # `&mut *x` / `&x` where x is itself a reference variable
                    if isinstance(r.get(), Ref):
                        return r.get()
                    return r
                v = self.eval(e[2])
                if isinstance(v, Ref):
                    return v
                return Ref({'t': v}, 't')
            if op == '*':
                p = self.place(e)
                v = p[0].get()
                if isinstance(v, Uninit):
                    self.err('read of an uninitialised variable')
                return copyval(v)
            v = self.deref(self.eval(e[2]))
            if op == '!':
                if v is True or v is False:
                    return not v
                if isinstance(v, Cond) or (isinstance(v, S) and v.ty == 'bool'):
                    return Cond('not', v)
                if isinstance(v, S) and v.ty == 'u64':
                    return S('(W64 - 1 - %s)' % v.text, 'u64')
                self.err('unsupported operand of `!`')
            self.err('unsupported unary operator `%s`' % op)
        if k == 'bin':
            return self.eval_bin(e)
        if k == 'cast':
            return self.cast(self.deref(self.eval(e[1])), e[2])
        if k == 'tuple':
            if not e[1]:
                return Unit()
            return Tup([self.value(x) for x in e[1]])
        if k == 'array':
            return Arr([self.value(x) for x in e[1]])
        if k == 'repeat':
            n = self.eval(e[2])
            v = self.value(e[1])
            if not isinstance(n, int):
                self.err('array length is not concrete')
            return Arr([copyval(v) for _ in range(n)])
        if k == 'range':
            lo = self.eval(e[1]) if e[1] is not None else None
            hi = self.eval(e[2]) if e[2] is not None else None
            if not isinstance(lo, int) or not isinstance(hi, int):
                self.err('range bounds are not concrete integers')
            return Rng(lo, hi + 1 if e[3] else hi)
        if k == 'call':
            return self.eval_call(e[1], e[2])
        if k == 'mcall':
            return self.eval_mcall(e)
        if k == 'macro':
            return self.eval_macro(e[1], e[2])
        if k == 'block':
            return self.exec_block(e[1])
        if k == 'if':
            c = self.decide(self.deref(self.eval(e[1])))
            if c:
                return self.exec_block(e[2])
            if e[3] is not None:
                return self.exec_block(e[3])
            return Unit()
        if k == 'for':
            return self.exec_for(e)
        if k == 'while':
            n = 0
            while True:
                c = self.deref(self.eval(e[1]))
                if c is not True and c is not False:
                    self.err('`while` on a data-dependent condition')
                if not c:
                    break
                try:
                    self.exec_block(e[2])
                except BreakEx:
                    break
                n += 1
                if n > 100000:
                    self.err('loop does not terminate')
            return Unit()
        if k == 'match':
            return self.exec_match(e)
        if k == 'structlit':
            kind = self.kind_of_seg(e[1][0])
            if kind != 'MulBuffer':
                self.err('unsupported struct literal')
            f = {n: self.value(x) for n, x in e[2]}
            if sorted(f) != ['b0', 'b1'] or not all(isinstance(v, Arr) for v in f.values()):
                self.err('unexpected MulBuffer literal')
            return Struct('MulBuffer', f)
        if k == 'unsafe':
            self.err('unsafe block')
        if k == 'str':
            self.err('string literal')
        self.err('unsupported expression %r' % (k,))

    def value(self, e):
        """evaluate to a value (references are read)"""
        v = self.eval(e)
        if isinstance(v, Ref):
            v = copyval(self.deref(v))
        if isinstance(v, Uninit):
            self.err('read of an uninitialised variable')
        return v

    def eval_path(self, segs):
        if len(segs) == 1:
            n = segs[0]
            if n == 'N':
                return self.N
            if n in ('true', 'false'):
                return n == 'true'
            if n == 'None':
                return Opt(None)
            if n == 'PhantomData':
                return Unit()
            self.err('unknown identifier `%s`' % n)
        if segs == ['u64', 'MAX']:
            return 2 ** 64 - 1
        if len(segs) >= 2 and segs[-2] == 'Ordering' and segs[-1] in ('Less', 'Equal', 'Greater'):
            return Ord(segs[-1])
        if len(segs) == 2 and segs[0] in ('Self', 'T', 'P') and segs[1] in self.CONFIG_NAMES:
            if segs[0] == 'Self' and self.frames[-1].selfkind not in ('Fp', 'Mont'):
                self.err('Self::%s outside a field context' % segs[1])
            return self.config(self.CONFIG_NAMES[segs[1]])
        if len(segs) == 2 and segs[0] in ('P', 'Self') and segs[1] == 'ZERO' and self.frames[-1].selfkind in ('Fp', 'Mont'):
            key = ('const', 'ZERO')
            if key not in self.ast:
                toks = tokenize(find_const(self.source(MB), I_BACKEND, 'ZERO'))
                p = Parser(toks, 'MontBackend::ZERO')
                self.ast[key] = p.expr(0)
                if p.i != len(toks):
                    self.err('MontBackend::ZERO: trailing tokens')
            self.frames.append(Frame('Fp', 'MontBackend::ZERO'))
            try:
                return self.value(self.ast[key])
            finally:
                self.frames.pop()
        self.err('unknown path `%s`' % '::'.join(segs))

    def cast(self, v, ty):
        if ty not in ('u8', 'u32', 'u64', 'usize'):
            self.err('unsupported cast to %s' % ty)
        if v is True or v is False:
            return 1 if v else 0
        if isinstance(v, int):
            if ty in BITS:
                return v % (2 ** BITS[ty])
            return v
        if isinstance(v, Cond) or (isinstance(v, S) and v.ty == 'bool'):
            if ty == 'usize':
                self.err('symbolic usize')
            return S('(Z.b2z %s)' % self.ctext(v), ty)
        if isinstance(v, S):
            if ty == 'usize':
                self.err('symbolic usize')
            if BITS[ty] >= BITS[v.ty]:
                return S(v.text, ty)
            return S('(%s mod %s)' % (v.text, WRAP[ty]), ty)
        self.err('unsupported cast operand')

    def eval_bin(self, e):
        op = e[1]
        if op in ('&&', '||'):
            l = self.decide(self.deref(self.eval(e[2])))
            if op == '&&' and not l:
                return False
            if op == '||' and l:
                return True
            return self.as_bool(self.deref(self.eval(e[3])))
        l = self.value(e[2])
        r = self.value(e[3])
        return self.binop(op, l, r)

    def as_bool(self, v):
        if v is True or v is False or isinstance(v, Cond) or (isinstance(v, S) and v.ty == 'bool'):
            return v
        self.err('expected a boolean')

    def is_boolish(self, v):
        return v is True or v is False or isinstance(v, Cond) or (isinstance(v, S) and v.ty == 'bool')

    def binop(self, op, l, r):
        cmpops = ('==', '!=', '<', '>', '<=', '>=')
        # aggregates: derived PartialEq (limb-wise) and Ord (BigInt::cmp)
        if isinstance(l, (Struct, Arr)) or isinstance(r, (Struct, Arr)):
            if op in ('==', '!='):
                c = self.agg_eq(l, r)
                return c if op == '==' else self.cnot(c)
            if op in ('<', '>', '<=', '>=') and isinstance(l, Struct) and isinstance(r, Struct) \
               and l.kind == 'BigInt' and r.kind == 'BigInt':
                o = self.call_fn(('BigInt', 'cmp'), Ref({'t': l}, 't'), [Ref({'t': r}, 't')])
                if not isinstance(o, Ord):
                    self.err('BigInt::cmp did not return an Ordering')
                return {'<': o.which == 'Less', '>': o.which == 'Greater',
                        '<=': o.which != 'Greater', '>=': o.which != 'Less'}[op]
            self.err('unsupported operator `%s` on aggregates' % op)
        if isinstance(l, Ord) and isinstance(r, Ord) and op in ('==', '!='):
            return (l.which == r.which) == (op == '==')
        if self.is_boolish(l) and self.is_boolish(r):
            if op in ('&', '|'):
                if isinstance(l, bool) and isinstance(r, bool):
                    return (l and r) if op == '&' else (l or r)
                return Cond('and' if op == '&' else 'or', l, r)
            if op in ('==', '!='):
                if isinstance(l, bool) and isinstance(r, bool):
                    return (l == r) == (op == '==')
                c = Cond('atom', '(Bool.eqb %s %s)' % (self.ctext(l), self.ctext(r)))
                return c if op == '==' else Cond('not', c)
            self.err('unsupported boolean operator `%s`' % op)
        if self.is_boolish(l) or self.is_boolish(r):
            self.err('operator `%s` mixes booleans and integers' % op)
        if isinstance(l, int) and isinstance(r, int):
            if op == '+':
                return l + r
            if op == '-':
                if l - r < 0:
                    self.err('unsigned subtraction %d - %d underflows' % (l, r))
                return l - r
            if op == '*':
                return l * r
            if op in ('/', '%'):
                if r == 0:
                    self.err('division by zero')
                return l // r if op == '/' else l % r
            if op == '<<':
                return l << r
            if op == '>>':
                return l >> r
            if op == '&':
                return l & r
            if op == '|':
                return l | r
            if op == '^':
                return l ^ r
            if op in cmpops:
                return {'==': l == r, '!=': l != r, '<': l < r, '>': l > r, '<=': l <= r, '>=': l >= r}[op]
            self.err('unsupported operator `%s`' % op)
        if not (isinstance(l, (int, S)) and isinstance(r, (int, S))):
            self.err('unsupported operands of `%s`' % op)
        ty = l.ty if isinstance(l, S) else r.ty
        if isinstance(l, S) and isinstance(r, S) and l.ty != r.ty and op not in ('<<', '>>'):
            self.err('operand types differ: %s %s %s' % (l.ty, op, r.ty))
        if ty not in WRAP:
            self.err('arithmetic on type %s' % ty)
        a, b = self.stext(l), self.stext(r)
        W = WRAP[ty]
        if op in ('+', '-', '*'):
            return S('((%s %s %s) mod %s)' % (a, op, b, W), ty)
        if op == '/':
            return S('(%s / %s)' % (a, b), ty)
        if op == '%':
            return S('(%s mod %s)' % (a, b), ty)
        if op == '>>':
            return S('(Z.shiftr %s %s)' % (a, b), l.ty if isinstance(l, S) else ty)
        if op == '<<':
            lt = l.ty if isinstance(l, S) else ty
            return S('((Z.shiftl %s %s) mod %s)' % (a, b, WRAP[lt]), lt)
        if op == '|':
            return S('(Z.lor %s %s)' % (a, b), ty)
        if op == '&':
            return S('(Z.land %s %s)' % (a, b), ty)
        if op == '^':
            return S('(Z.lxor %s %s)' % (a, b), ty)
        if op == '==':
            return Cond('eqb', l, r)
        if op == '!=':
            return Cond('not', Cond('eqb', l, r))
        if op == '<':
            return Cond('ltb', l, r)
        if op == '>':
            return Cond('ltb', r, l)
        if op == '<=':
            return Cond('leb', l, r)
        if op == '>=':
            return Cond('leb', r, l)
        self.err('unsupported operator `%s`' % op)

    def cnot(self, c):
        if c is True or c is False:
            return not c
        return Cond('not', c)

    def limbs_of(self, v):
        if isinstance(v, Arr):
            return v.items
        if isinstance(v, Struct) and v.kind in ('BigInt', 'Fp'):
            return self.limbs_of(v.f['0'])
        self.err('derived equality on an unsupported type')

    def agg_eq(self, l, r):
        """derived PartialEq of BigInt / Fp / [u64; N]: all limbs equal (lazy conjunction)"""
        a, b = self.limbs_of(l), self.limbs_of(r)
        if len(a) != len(b):
            self.err('equality of arrays of different length')
        c = True
        for x, y in reversed(list(zip(a, b))):
            e = self.binop('==', x, y)
            c = e if c is True else Cond('and', e, c)
        return c

    # ---------------- statements
    def exec_block(self, stmts):
        fr = self.frames[-1]
        fr.scopes.append({})
        try:
            val = Unit()
            for i, s in enumerate(stmts):
                self.tick()
                val = Unit()
                k = s[0]
                if k == 'let':
                    self.exec_let(s)
                elif k == 'assign':
                    self.exec_assign(s)
                elif k == 'return':
                    raise ReturnEx(self.value(s[1]) if s[1] is not None else Unit())
                elif k == 'break':
                    raise BreakEx()
                elif k == 'use':
                    self.exec_use(s[1])
                elif k == 'expr':
                    v = self.eval(s[1])
                    if not s[2] and i == len(stmts) - 1:
                        val = v
                else:
                    self.err('unsupported statement %r' % (k,))
            if isinstance(val, Ref):
                return val
            return val
        finally:
            fr.scopes.pop()

    def exec_use(self, toks):
        self.err('local `use` is not supported here')

    def exec_let(self, s):
        _, pat, e = s
        if e is None:
            if pat[0] != 'pvar':
                self.err('uninitialised let with a pattern')
            self.frames[-1].scopes[-1][pat[1]] = Uninit()
            return
        v = self.eval(e)
        self.bind_pattern(pat, v)

    def bind_pattern(self, pat, v):
        sc = self.frames[-1].scopes[-1]
        if pat[0] == 'pvar':
            if isinstance(v, Ref):
                sc[pat[1]] = v
            else:
                sc[pat[1]] = self.bind(pat[1], copyval(v))
        elif pat[0] == 'pwild':
            pass
        elif pat[0] == 'ptuple':
            v = self.deref(v)
            if not isinstance(v, Tup) or len(v.items) != len(pat[1]):
                self.err('tuple pattern does not match the value')
            for p, x in zip(pat[1], v.items):
                self.bind_pattern(p, x)
        else:
            self.err('unsupported let pattern')

    def exec_assign(self, s):
        _, op, lhs, rhs = s
        if lhs[0] == 'tuple':
            self.err('unsupported destructuring assignment')
        if op == '=':
            r = self.value(rhs)
            p = self.place(lhs)
            if p is None:
                self.err('assignment to something that is not a place')
            ref = p[0]
            if lhs[0] == 'path' and isinstance(ref.get(), Ref):
                self.err('assignment to a reference variable itself')
            self.write(ref, p[1], r)
            return
        bop = op[:-1]
        r = self.value(rhs)
        p = self.place(lhs)
        if p is None:
            self.err('compound assignment to something that is not a place')
        ref = p[0]
        while isinstance(ref.get(), Ref):
            ref = ref.get()
        l = ref.get()
        if isinstance(l, Uninit):
            self.err('read of an uninitialised variable')
        if isinstance(l, Struct) and l.kind == 'Fp' and bop == '*':
            # MulAssign<&Self> for Fp -> P::mul_assign(self, other) -> MontBackend -> T::mul_assign
            other = Ref({'t': copyval(r)}, 't')
            self.call_fn(('Mont', 'mul_assign'), None, [ref, other])
            return
        if isinstance(l, (Struct, Arr, Tup)):
            self.err('compound assignment `%s` on an aggregate' % op)
        self.write(ref, p[1], self.binop(bop, l, r))

    def exec_for(self, e):
        _, pat, it, body = e
        itv = self.deref(self.eval(it))
        if isinstance(itv, Rng):
            items = list(range(itv.lo, itv.hi))
        elif isinstance(itv, Iter):
            items = itv.items
        else:
            self.err('`for` over something that is neither a range nor a slice iterator')
        for x in items:
            fr = self.frames[-1]
            fr.scopes.append({})
            try:
                if pat[0] == 'pvar':
                    fr.scopes[-1][pat[1]] = x
                elif pat[0] == 'pwild':
                    pass
                else:
                    self.err('unsupported `for` pattern')
                try:
                    self.exec_block(body)
                except BreakEx:
                    break
            finally:
                fr.scopes.pop()
        return Unit()

    def exec_match(self, e):
        _, scrut, arms = e
        v = self.deref(self.eval(scrut))
        for pats, body in arms:
            for p in pats:
                hit, bindv = self.match_pattern(p, v)
                if hit:
                    fr = self.frames[-1]
                    fr.scopes.append({})
                    try:
                        if bindv is not None:
                            fr.scopes[-1][bindv] = v
                        return self.eval(body)
                    finally:
                        fr.scopes.pop()
        self.err('no match arm applies')

    def match_pattern(self, p, v):
        if p[0] == 'pwild':
            return True, None
        if p[0] == 'pvar':
            return True, p[1]
        if p[0] == 'plit':
            if not isinstance(v, int) or isinstance(v, bool):
                self.err('literal pattern on a symbolic value')
            return v == p[1], None
        if p[0] == 'ppath':
            if len(p[1]) >= 2 and p[1][-2] == 'Ordering' and isinstance(v, Ord):
                return v.which == p[1][-1], None
            self.err('unsupported path pattern %s' % '::'.join(p[1]))
        self.err('unsupported pattern')

    # ---------------- calls
    def leaf_call(self, coqname, modes, outs, args):
        if len(args) != len(modes):
            self.err('%s: expected %d arguments, got %d' % (coqname, len(modes), len(args)))
        vals, refs = [], []
        for a, mode in zip(args, modes):
            v = self.eval(a)
            if mode in ('mut', 'ref'):
                if not isinstance(v, Ref):
                    self.err('%s: argument must be a reference' % coqname)
                while isinstance(v.get(), Ref):
                    v = v.get()
                refs.append((v, self.hint_of(a) if a[0] == 'un' else 'v'))
                x = v.get()
                if isinstance(x, Uninit):
                    x = 0           # write-only use (`let mut carry; mac!(.., &mut carry)`): the macro never reads it
                vals.append(x)
            else:
                refs.append(None)
                vals.append(self.deref(v))
        texts = [par(self.stext(v)) for v in vals]
        call = '%s %s' % (coqname, ' '.join(texts))
        names, ret = [], None
        pending = []
        for o in outs:
            if o == 'ret':
                n = self.fresh('v')
                names.append(n)
                ret = S(n, 'u64')
            else:
                i = int(o[1:])
                hint = self.place_hint(args[i])
                n = self.fresh(hint)
                names.append(n)
                pending.append((refs[i][0], S(n, 'u64')))
        pat = names[0] if len(names) == 1 else "'(" + ', '.join(names) + ')'
        self.events.append(('let', pat, call))
        for r, v in pending:
            r.set(v)
        return ret if ret is not None else Unit()

    def place_hint(self, a):
        e = a
        while e[0] in ('un', 'paren'):
            e = e[2] if e[0] == 'un' else e[1]
        if e[0] == 'path':
            return e[1][-1]
        if e[0] == 'index':
            b = e[1]
            while b[0] in ('paren', 'field'):
                nm = b[2] if b[0] == 'field' else None
                if nm is not None and not nm.isdigit():
                    return nm
                b = b[1]
            if b[0] == 'path':
                return b[1][-1]
        return 'w'

    def kind_of_seg(self, seg):
        if seg == 'Self':
            return self.frames[-1].selfkind
        if seg in ('BigInt', 'Fp', 'MulBuffer'):
            return seg
        return None

    def eval_call(self, segs, args):
        last = segs[-1]
        if last in LEAF_FN and segs[:-1] in LEAF_PREFIX:
            c, modes, outs = LEAF_FN[last]
            return self.leaf_call(c, modes, outs, args)
        if segs == ['Some']:
            if len(args) != 1:
                self.err('Some with %d arguments' % len(args))
            return Opt(self.value(args[0]))
        if segs[-2:] == ['mem', 'swap'] and len(args) == 2:
            a, b = self.eval(args[0]), self.eval(args[1])
            if not (isinstance(a, Ref) and isinstance(b, Ref)):
                self.err('mem::swap of non-references')
            x, y = a.get(), b.get()
            a.set(y)
            b.set(x)
            return Unit()
        # tuple-struct constructors
        if len(segs) == 1 and segs[0] in ('Self', 'BigInt', 'Fp'):
            kind = self.kind_of_seg(segs[0])
            vals = [self.value(a) for a in args]
            if kind == 'BigInt' and len(vals) == 1 and isinstance(vals[0], Arr):
                return Struct('BigInt', {'0': vals[0]})
            if kind == 'Fp' and len(vals) == 2 and isinstance(vals[0], Struct) and vals[0].kind == 'BigInt' \
               and isinstance(vals[1], Unit):
                return Struct('Fp', {'0': vals[0]})
            self.err('unsupported constructor call %s(..)' % segs[0])
        kind = None
        if len(segs) >= 2:
            kind = self.kind_of_seg(segs[-2])
            if kind == 'Mont' and segs[-2] == 'Self':
                kind = 'Mont'
        if kind is not None and (kind, last) in FN:
            return self.call_fn((kind, last), None, [self.eval(a) for a in args])
        self.err('unknown call `%s`' % '::'.join(segs))

    def opaque_call(self, tgt, recv, args):
        """call of a function that is itself a target: emitted as a call of its generated definition"""
        name, params, body = self.fn_ast(tgt['key'])
        want = [p[0] for p in tgt['params']]
        if [p[0] for p in params] != want:
            self.err('%s: parameter list changed: %s (expected %s)' % (tgt['name'], [p[0] for p in params], want))
        actual = list(args)
        if params and params[0][0] == 'self':
            if recv is None:
                recv, actual = actual[0], actual[1:]
            actual = [recv] + actual
        elif recv is not None:
            self.err('%s takes no receiver' % tgt['name'])
        if len(actual) != len(params):
            self.err('%s: expected %d arguments' % (tgt['name'], len(params)))
        texts = []
        for c in tgt['cfg']:
            v = self.config(c)
            if isinstance(v, Struct):
                texts += [par(self.stext(x)) for x in self.limbs_of(v)]
            elif isinstance(v, S) and v.ty == 'bool':
                texts.append(par(self.ctext(v)))
            else:
                texts.append(par(self.stext(v)))
        refs = {}
        for (rn, kind, _), (_, mode), a in zip(tgt['params'], params, actual):
            r = None
            if isinstance(a, Ref):
                r = a
                while isinstance(r.get(), Ref):
                    r = r.get()
                v = r.get()
            else:
                v = a
            if kind in ('BigInt', 'Fp'):
                if not (isinstance(v, Struct) and v.kind == kind):
                    self.err('%s: argument `%s` is not a %s' % (tgt['name'], rn, kind))
                texts += [par(self.stext(x)) for x in self.limbs_of(v)]
            elif kind == 'bool':
                texts.append(par(self.ctext(self.as_bool(v))))
            else:
                texts.append(par(self.stext(v)))
            if mode == 'mut':
                refs[rn] = r
        call = 'gen_%s_%d %s' % (tgt['name'], self.N, ' '.join(texts))
        outs = tgt['outs']
        if len(outs) != 1:
            self.err('%s: unsupported result shape for an opaque call' % tgt['name'])
        for rn in refs:
            if rn not in outs:
                self.err('%s: mutable argument `%s` is not an output' % (tgt['name'], rn))
        if outs == ['ret'] and tgt['rty'] == 'bool':
            n = self.fresh(tgt['name'])
            self.events.append(('let', n, call))
            return S(n, 'bool')
        if outs == ['ret'] and tgt['rty'] == 'comparison':
            c = self.branch('cmp', '(%s)' % call, 3)
            return Ord(('Equal', 'Less', 'Greater')[c])
        if outs[0] in refs and tgt['rty'] == 'list Z':
            n = self.fresh(tgt['name'])
            self.events.append(('let', n, call))
            items = []
            for i in range(self.N):
                x = S('(nth %d %s 0)' % (i, n), 'u64')
                x.origin = (n, i, self.N)
                items.append(x)
            tgtv = refs[outs[0]].get()
            if tgtv.kind == 'Fp':
                tgtv.f['0'].f['0'] = Arr(items)
            else:
                tgtv.f['0'] = Arr(items)
            return Unit()
        self.err('%s: unsupported result shape for an opaque call' % tgt['name'])

    def call_fn(self, key, recv, args):
        """recv: Ref to the receiver (or None for an associated function); args: evaluated arguments"""
        if key in self.opaque and self.frames:
            return self.opaque_call(self.opaque[key], recv, args)
        name, params, body = self.fn_ast(key)
        fr = Frame(key[0], '%s::%s' % key)
        ps = list(params)
        if ps and ps[0][0] == 'self':
            if recv is None:
                if not args:
                    self.err('%s::%s needs a receiver' % key)
                recv, args = args[0], args[1:]
            if not isinstance(recv, Ref):
                recv = Ref({'t': recv}, 't')
            while isinstance(recv.get(), Ref):
                recv = recv.get()
            if ps[0][1] == 'val':
                fr.scopes[0]['self'] = copyval(recv.get())
            else:
                fr.scopes[0]['self'] = recv
            ps = ps[1:]
        elif recv is not None:
            self.err('%s::%s takes no receiver' % key)
        if len(ps) != len(args):
            self.err('%s::%s: expected %d arguments, got %d' % (key[0], key[1], len(ps), len(args)))
        for (pn, mode), a in zip(ps, args):
            if mode == 'val':
                v = copyval(self.deref(a)) if isinstance(a, Ref) else a
                if isinstance(v, Uninit):
                    self.err('uninitialised argument')
                fr.scopes[0][pn] = v
            else:
                if not isinstance(a, Ref):
                    a = Ref({'t': a}, 't')
                while isinstance(a.get(), Ref):
                    a = a.get()
                fr.scopes[0][pn] = a
        if len(self.frames) > 40:
            self.err('call depth exceeded')
        self.frames.append(fr)
        try:
            try:
                v = self.exec_block(body)
            except ReturnEx as r:
                v = r.v
            if isinstance(v, Ref) and not (isinstance(v.obj, (Arr, Struct, Tup))):
                v = copyval(self.deref(v))
            return v
        finally:
            self.frames.pop()

    def eval_mcall(self, e):
        _, recv, name, args = e
        p = self.place(recv)
        if p is not None:
            rref = p[0]
            while isinstance(rref.get(), Ref):
                rref = rref.get()
            rv = rref.get()
        else:
            rv = self.eval(recv)
            if isinstance(rv, Ref):
                rref = rv
                while isinstance(rref.get(), Ref):
                    rref = rref.get()
                rv = rref.get()
            else:
                rref = Ref({'t': rv}, 't')
        if isinstance(rv, Uninit):
            self.err('method call on an uninitialised variable')
        if isinstance(rv, Struct):
            if (rv.kind, name) in FN:
                return self.call_fn((rv.kind, name), rref, [self.eval(a) for a in args])
            self.err('unknown method %s::%s' % (rv.kind, name))
        if isinstance(rv, Arr):
            if name in ('iter', 'iter_mut') and not args:
                return Iter([Ref(rv, i) for i in range(len(rv.items))])
            if name == 'len' and not args:
                return len(rv.items)
            if name == 'copy_from_slice' and len(args) == 1:
                src = self.deref(self.eval(args[0]))
                if not isinstance(src, Arr) or len(src.items) != len(rv.items):
                    self.err('copy_from_slice: length mismatch (the code would panic)')
                for i, x in enumerate(src.items):
                    rv.items[i] = copyval(x)
                return Unit()
            self.err('unsupported array method `%s`' % name)
        if isinstance(rv, Iter):
            if name == 'rev' and not args:
                return Iter(list(reversed(rv.items)))
            if name == 'all' and len(args) == 1 and args[0][0] == 'path' and args[0][1][-1] == 'is_zero':
                for r in rv.items:
                    x = self.deref(r)
                    if not self.decide(self.binop('==', x, 0)):
                        return False
                return True
            self.err('unsupported iterator method `%s`' % name)
        if isinstance(rv, Rng):
            if name == 'rev' and not args:
                return Iter(list(reversed(range(rv.lo, rv.hi))))
            if name == 'contains' and len(args) == 1:
                x = self.deref(self.eval(args[0]))
                if not isinstance(x, int):
                    self.err('contains on a symbolic value')
                return rv.lo <= x < rv.hi
            self.err('unsupported range method `%s`' % name)
        if isinstance(rv, Tup):
            self.err('method on a tuple')
        if isinstance(rv, (S, int)) and not isinstance(rv, bool):
            if name == 'wrapping_mul' and len(args) == 1:
                b = self.deref(self.eval(args[0]))
                if isinstance(rv, int) and isinstance(b, int):
                    return (rv * b) % 2 ** 64
                return S('((%s * %s) mod W64)' % (self.stext(rv), self.stext(b)), 'u64')
            if name == 'cmp' and len(args) == 1:
                b = self.deref(self.eval(args[0]))
                if isinstance(rv, int) and isinstance(b, int):
                    return Ord('Less' if rv < b else 'Greater' if rv > b else 'Equal')
                c = self.branch('cmp', '(%s ?= %s)' % (self.stext(rv), self.stext(b)), 3)
                return Ord(('Equal', 'Less', 'Greater')[c])
            if name == 'is_zero' and not args:
                return self.binop('==', rv, 0)
            self.err('unsupported integer method `%s`' % name)
        self.err('unsupported method call `.%s`' % name)

    # ---------------- macros
    def eval_macro(self, segs, toks):
        name = segs[-1]
        if name == 'cfg':
            return cfg_eval(toks, self.what)
        if name == 'const_for':
            self.check_const_for()
            p = Parser(toks, self.what + ' const_for!')
            p.expect('(')
            var = p.ident()
            p.expect('in')
            lo = self.tt(p)
            p.expect('..')
            hi = self.tt(p)
            p.expect(')')
            body = p.expr(0)
            if p.i != len(toks):
                self.err('const_for!: trailing tokens')
            a, b = self.eval(lo), self.eval(hi)
            if not isinstance(a, int) or not isinstance(b, int):
                self.err('const_for!: bounds are not concrete')
            fr = self.frames[-1]
            i = a
            while i < b:                     # let mut i = start; while i < end { code; i += 1; }
                fr.scopes.append({var: i})
                try:
                    self.eval(body)
                    i = fr.scopes[-1][var]
                    if not isinstance(i, int):
                        self.err('const_for!: loop variable became symbolic')
                finally:
                    fr.scopes.pop()
                i += 1
            return Unit()
        if name in LEAF_MACRO and len(segs) == 1:
            c, modes, outs = LEAF_MACRO[name]
            p = Parser(toks, self.what + ' %s!' % name)
            args = []
            while p.peek()[0] != 'eof':
                args.append(p.expr(0))
                if not p.accept(','):
                    break
            if p.i != len(toks):
                self.err('%s!: trailing tokens' % name)
            return self.leaf_call(c, modes, outs, args)
        self.err('unsupported macro `%s!`' % '::'.join(segs))

    def tt(self, p):
        """one token tree used as an expression"""
        if p.at('('):
            g = p.group()
            q = Parser(g, self.what)
            e = q.expr(0)
            if q.i != len(g):
                self.err('const_for!: bad bound')
            return e
        x = p.next()
        if x[0] == 'num':
            return ('num',) + parse_int(x[1])
        if x[0] == 'id':
            return ('path', [x[1]])
        self.err('const_for!: unsupported bound')


# ====================================================================== targets

def limbs(prefix, n):
    return ['%s%d' % (prefix, i) for i in range(n)]


def mk_param(kind, prefix, N):
    """(value, binder names)"""
    if kind == 'BigInt':
        ns = limbs(prefix, N)
        return Struct('BigInt', {'0': Arr([S(x, 'u64') for x in ns])}), ns
    if kind == 'Fp':
        ns = limbs(prefix, N)
        return Struct('Fp', {'0': Struct('BigInt', {'0': Arr([S(x, 'u64') for x in ns])})}), ns
    if kind == 'u64':
        return S(prefix, 'u64'), [prefix]
    if isinstance(kind, tuple) and kind[0] == 'FpArr':          # [Fp; M]: element i, limb j is `<prefix><i>l<j>`
        items, names = [], []
        for i in range(kind[1]):
            v, ns = mk_param('Fp', '%s%dl' % (prefix, i), N)
            items.append(v)
            names += ns
        return Arr(items), names
    raise TranslateError('internal: parameter kind %s' % (kind,))


# configuration constants -> (Gallina binder(s), value)
def mk_config(names, N):
    cfg, binders = {}, []
    for n in names:
        if n == 'MODULUS':
            cfg[n], ns = mk_param('BigInt', 'm', N)
            binders.append('(%s : Z)' % ' '.join(ns))
        elif n == 'R2':
            v, ns = mk_param('BigInt', 'rr', N)
            cfg[n] = v
            binders.append('(%s : Z)' % ' '.join(ns))
        elif n == 'INV':
            cfg[n] = S('inv', 'u64')
            binders.append('(inv : Z)')
        elif n in ('SPARE', 'CAN_NC', 'CAN_SQ'):
            g = {'SPARE': 'spare', 'CAN_NC': 'can_nc', 'CAN_SQ': 'can_sq'}[n]
            cfg[n] = S(g, 'bool')
            binders.append('(%s : bool)' % g)
        else:
            raise TranslateError('internal: config %s' % n)
    return cfg, binders


# calls of these functions (data-dependent early-exit loops) are emitted as calls of their own generated
# definitions (which have their own `_eq` lemma) instead of being inlined
OPQ = (('BigInt', 'cmp'), ('BigInt', 'is_zero'))


def T(name, key, params, outs, rty, cfg=(), Ns=(1, 2, 3, 4, 6), opaque=OPQ):
    return dict(name=name, key=key, params=params, outs=outs, rty=rty, cfg=list(cfg), Ns=list(Ns),
                opaque=tuple(opaque))


NA = (1, 2, 3, 4, 6, 12)
NB = (1, 2, 4, 6)
SELF_A = ('self', 'BigInt', 'a')
OTHER_B = ('other', 'BigInt', 'b')
FA = ('a', 'Fp', 'a')
FB = ('b', 'Fp', 'b')

TARGETS = [
    # ---- A: ff/src/biginteger/mod.rs
    T('add_with_carry', ('BigInt', 'add_with_carry'), [SELF_A, OTHER_B], ['self', 'ret'], 'list Z * bool', Ns=NA),
    T('sub_with_borrow', ('BigInt', 'sub_with_borrow'), [SELF_A, OTHER_B], ['self', 'ret'], 'list Z * bool', Ns=NA),
    T('mul2', ('BigInt', 'mul2'), [SELF_A], ['self', 'ret'], 'list Z * bool', Ns=NA),
    T('div2', ('BigInt', 'div2'), [SELF_A], ['self'], 'list Z', Ns=NA),
    T('is_zero', ('BigInt', 'is_zero'), [SELF_A], ['ret'], 'bool', Ns=NA),
    T('is_odd', ('BigInt', 'is_odd'), [SELF_A], ['ret'], 'bool', Ns=NA),
    T('is_even', ('BigInt', 'is_even'), [SELF_A], ['ret'], 'bool', Ns=NA),
    T('cmp', ('BigInt', 'cmp'), [SELF_A, OTHER_B], ['ret'], 'comparison', Ns=NA),
    T('mul', ('BigInt', 'mul'), [SELF_A, OTHER_B], ['ret'], 'list Z * list Z', Ns=(1, 2, 3, 4, 6)),
    T('mul_low', ('BigInt', 'mul_low'), [SELF_A, OTHER_B], ['ret'], 'list Z', Ns=(1, 2, 3, 4, 6)),
    T('mul_high', ('BigInt', 'mul_high'), [SELF_A, OTHER_B], ['ret'], 'list Z', Ns=(1, 2, 3, 4, 6)),
    T('const_geq', ('BigInt', 'const_geq'), [SELF_A, OTHER_B], ['ret'], 'bool', Ns=NA),
    T('const_sub_with_borrow', ('BigInt', 'const_sub_with_borrow'), [SELF_A, OTHER_B], ['ret'], 'list Z * bool', Ns=NA),
    T('const_mul2_with_carry', ('BigInt', 'const_mul2_with_carry'), [SELF_A], ['ret'], 'list Z * bool', Ns=NA),
    T('const_shr', ('BigInt', 'const_shr'), [SELF_A], ['ret'], 'list Z', Ns=NA),
    T('const_is_zero', ('BigInt', 'const_is_zero'), [SELF_A], ['ret'], 'bool', Ns=NA),
    # ---- B: trait-default methods of MontConfig + the helpers of Fp they call
    T('fp_is_geq_modulus', ('Fp', 'is_geq_modulus'), [('self', 'Fp', 'a')], ['ret'], 'bool', cfg=['MODULUS'], Ns=NB),
    T('fp_subtract_modulus', ('Fp', 'subtract_modulus'), [('self', 'Fp', 'a')], ['self'], 'list Z', cfg=['MODULUS'], Ns=NB),
    T('fp_subtract_modulus_with_carry', ('Fp', 'subtract_modulus_with_carry'),
      [('self', 'Fp', 'a'), ('carry', 'bool', 'carry')], ['self'], 'list Z', cfg=['MODULUS'], Ns=NB),
    T('fp_const_is_valid', ('Fp', 'const_is_valid'), [('self', 'Fp', 'a')], ['ret'], 'bool', cfg=['MODULUS'], Ns=NB),
    T('mont_add_assign', ('Mont', 'add_assign'), [FA, FB], ['a'], 'list Z', cfg=['SPARE', 'MODULUS'], Ns=NB),
    T('mont_sub_assign', ('Mont', 'sub_assign'), [FA, FB], ['a'], 'list Z', cfg=['MODULUS'], Ns=NB),
    T('mont_double_in_place', ('Mont', 'double_in_place'), [FA], ['a'], 'list Z', cfg=['SPARE', 'MODULUS'], Ns=NB),
    T('mont_neg_in_place', ('Mont', 'neg_in_place'), [FA], ['a'], 'list Z', cfg=['MODULUS'], Ns=NB),
    T('mont_mul_without_cond_subtract', ('Fp', 'mul_without_cond_subtract'), [('self', 'Fp', 'a'), ('other', 'Fp', 'b')],
      ['ret'], 'bool * list Z', cfg=['INV', 'MODULUS'], Ns=NB),
    T('mont_mul_assign', ('Mont', 'mul_assign'), [FA, FB], ['a'], 'list Z',
      cfg=['CAN_NC', 'SPARE', 'INV', 'MODULUS'], Ns=NB),
    T('mont_square_in_place', ('Mont', 'square_in_place'), [FA], ['a'], 'list Z',
      cfg=['CAN_NC', 'CAN_SQ', 'SPARE', 'INV', 'MODULUS'], Ns=NB),
    T('mont_into_bigint', ('Mont', 'into_bigint'), [FA], ['ret'], 'list Z', cfg=['INV', 'MODULUS'], Ns=NB),
    T('mont_from_bigint', ('Mont', 'from_bigint'), [('r', 'BigInt', 'x')], ['ret'], 'option (list Z)',
      cfg=['CAN_NC', 'SPARE', 'INV', 'MODULUS', 'R2'], Ns=NB, opaque=OPQ + (('Mont', 'mul_assign'),)),
]


class Translator:
    MAX_PATHS = 4000

    def __init__(self, repo):
        self.repo = repo
        self.src, self.ast = {}, {}

    def def_name(self, tgt, N):
        return 'gen_%s_%d' % (tgt['name'], N)

    def new_exec(self, tgt, N, cfg, what):
        return Exec(self.repo, N, cfg, what, self.src, self.ast)

    def run(self, tgt, N, path):
        cfg, cbind = mk_config(tgt['cfg'], N)
        what = self.def_name(tgt, N)
        ex = self.new_exec(tgt, N, cfg, what)
        ex.path = list(path)
        for k in tgt.get('opaque', ()):
            if k != tgt['key']:
                ex.opaque[k] = [t for t in TARGETS if t['key'] == k][0]
        name, params, body = ex.fn_ast(tgt['key'])
        want = [p[0] for p in tgt['params']]
        if [p[0] for p in params] != want:
            raise TranslateError('%s: parameter list changed: %s (expected %s)' % (what, [p[0] for p in params], want))
        holders, binders, args, recv = {}, list(cbind), [], None
        for (rn, kind, prefix), (_, mode) in zip(tgt['params'], params):
            if kind == 'bool':
                v, ns = S(prefix, 'bool'), None
                binders.append('(%s : bool)' % prefix)
            else:
                v, ns = mk_param(kind, prefix, N)
                binders.append('(%s : Z)' % ' '.join(ns))
            holders[rn] = {'t': v}
            r = Ref(holders[rn], 't')
            arg = r if mode in ('ref', 'mut') else v
            if rn == 'self':
                recv = r if mode in ('ref', 'mut') else Ref({'t': v}, 't')
                if mode == 'val':
                    recv = Ref({'t': copyval(v)}, 't')
            else:
                args.append(arg)
        ret = ex.call_fn(tgt['key'], recv, args)
        outs = []
        for o in tgt['outs']:
            if o == 'ret':
                outs.append(self.render(ex, ret))
            else:
                outs.append(self.render(ex, holders[o]['t']))
        res = outs[0] if len(outs) == 1 else '(' + ', '.join(outs) + ')'
        return ex.events, res, binders

    def render(self, ex, v):
        if isinstance(v, Ref):
            v = ex.deref(v)
        if v is True or v is False or isinstance(v, Cond) or (isinstance(v, S) and v.ty == 'bool'):
            return ex.ctext(v)
        if isinstance(v, (int, S)):
            return ex.stext(v)
        if isinstance(v, Arr):
            org = [getattr(x, 'origin', None) for x in v.items]
            if org and org[0] is not None and org == [(org[0][0], i, len(org)) for i in range(len(org))]:
                return org[0][0]            # all limbs of one generated call, in order: the list itself
            return '[' + '; '.join(self.render(ex, x) for x in v.items) + ']'
        if isinstance(v, Struct) and v.kind in ('BigInt', 'Fp'):
            return self.render(ex, v.f['0'])
        if isinstance(v, Tup):
            return '(' + ', '.join(self.render(ex, x) for x in v.items) + ')'
        if isinstance(v, Ord):
            return {'Less': 'Lt', 'Equal': 'Eq', 'Greater': 'Gt'}[v.which]
        if isinstance(v, Opt):
            return 'None' if v.v is None else '(Some %s)' % self.render(ex, v.v)
        raise TranslateError('%s: cannot render the result' % ex.what)

    def build(self, tgt, N, prefix, budget):
        budget[0] += 1
        if budget[0] > self.MAX_PATHS:
            raise TranslateError('%s: more than %d execution paths' % (self.def_name(tgt, N), self.MAX_PATHS))
        events, res, binders = self.run(tgt, N, prefix)
        lets, seen = [], 0
        for ev in events:
            if ev[0] == 'dec':
                if seen == len(prefix):
                    kids = [self.build(tgt, N, prefix + [j], budget)[0] for j in range(ev[3])]
                    return ('node', lets, ev[1], ev[2], kids), binders
                seen += 1
                lets = []
            else:
                lets.append(ev)
        if seen != len(prefix):
            raise TranslateError('internal: path replay diverged')
        return ('leaf', lets, res), binders

    def emit(self, node, ind):
        out = []
        for (_, pat, rhs) in node[1]:
            out.append('%slet %s := %s in' % (ind, pat, rhs))
        if node[0] == 'leaf':
            out.append(ind + node[2])
            return out
        _, _, kind, scrut, kids = node
        if kind == 'bool':
            out.append('%sif %s then (' % (ind, scrut))
            out += self.emit(kids[0], ind + '  ')
            out.append(ind + ') else (')
            out += self.emit(kids[1], ind + '  ')
            out.append(ind + ')')
        else:
            out.append('%smatch %s with' % (ind, scrut))
            for lab, kid in zip(('Eq', 'Lt', 'Gt'), kids):
                out.append('%s| %s =>' % (ind, lab))
                out += self.emit(kid, ind + '    ')
            out.append(ind + 'end')
        return out

    def translate_one(self, tgt, N):
        tree, binders = self.build(tgt, N, [], [0])
        lines = self.emit(tree, '  ')
        lines[-1] += '.'
        head = 'Definition %s %s : %s :=' % (self.def_name(tgt, N), ' '.join(binders), tgt['rty'])
        return '(* %s :: %s, N = %d *)\n%s\n%s\n' % (self.origin(tgt), tgt['key'][1], N, head, '\n'.join(lines))

    def origin(self, tgt):
        return FN[tgt['key']][0]


HEADER = '''(* GENERATED by lib/xlate_limb.py -- do not edit.
   Limb-level loops of /repo (BigInt<N> arithmetic, MontConfig default methods), symbolically executed
   for concrete limb counts N; one Gallina definition per (function, N), re-generated from the current
   source text on every check run.  Leaf calls (adc, sbb, mac, ...) are the functions of C15.GenArith.
   Definitions only; the lemmas tying them to the models are in GenLimb/GenLimbSpecs.v. *)
From V Require Import Base.Word C15.GenArith.
'''

BLOCK = re.compile(r'\(\* BEGIN (gen_\w+) \*\)\n(.*?)\(\* END \1 \*\)\n', re.S)


def translate(repo, prev_text=None):
    """returns (text, failures): failures = [(definition name, message, kept_previous)]"""
    tr = Translator(repo)
    prev = dict(BLOCK.findall(prev_text)) if prev_text else {}
    out, failures = [HEADER], []
    for tgt in TARGETS:
        for N in tgt['Ns']:
            name = 'gen_%s_%d' % (tgt['name'], N)
            try:
                body = tr.translate_one(tgt, N)
            except TranslateError as e:
                body = prev.get(name)
                failures.append((name, str(e), body is not None))
                if body is None:
                    continue
            out.append('(* BEGIN %s *)\n%s(* END %s *)\n' % (name, body, name))
    return '\n'.join(out), failures


def write_if_changed(path, text):
    if os.path.exists(path) and open(path).read() == text:
        return False
    os.makedirs(os.path.dirname(path), exist_ok=True)
    with open(path, 'w') as f:
        f.write(text)
    return True



# ====================================================================== phase 2: #[derive(MontConfig)]
#
# The code that the proc macro ff-macros/src/montgomery/*.rs GENERATES is obtained as text by
# lib/expand_derive.py (`cargo rustc -- -Zunpretty=expanded` on lib/expand_crate) and executed by the same
# symbolic executor.  Per field X of N limbs the expansion is
#     const _: () = { use ark_ff::{..}; type B = BigInt<N>; type F = Fp<MontBackend<X, N>, N>;
#                     impl MontConfig<N> for X { const MODULUS: B = BigInt([<literals>]); fn add_assign ..}
#                     fn __subtract_modulus ..  fn __add_with_carry ..  fn __sub_with_borrow .. };
# Differences to phase 1: function bodies come from that block (methods of the impl, free `__*` helpers),
# `use ark_ff::biginteger::arithmetic::<leaf> as <name>;` inside a body is RESOLVED to the leaf, a bare leaf
# name without such an import is rejected, the aliases `B`/`F`/`fa` are checked against the block's header,
# the modulus limbs are literals (so one definition per field, named gen_<field>_<fn>), `Self::INV` (the only
# configuration constant the generated code still reads) is the parameter `inv`.  Everything that the
# generated code calls in ark-ff itself (`mul2`, `is_geq_modulus`, `BigInt::cmp`, `F::ZERO`, `new_unchecked`)
# is executed from the /repo sources as before.

DERIVE_USE_EXPECT = ('use ark_ff :: { fields :: Fp , BigInt , BigInteger , biginteger :: arithmetic as fa , '
                     'fields :: *} ;')
DERIVE_MOD = '__derived_block'


class Closure:
    def __init__(self, pats, body):
        self.pats, self.body = pats, body


class DExec(Exec):
    """executor for the macro-expanded text of one derived field (self.d: see derive_fields)"""

    def __init__(self, repo, N, cfg, what, srccache, astcache, d):
        Exec.__init__(self, repo, N, cfg, what, srccache, astcache)
        self.d = d

    # ---- where function bodies come from
    def fn_ast(self, key):
        if key[0] in ('Mont', 'free'):
            dk = ('derive', self.d['name']) + tuple(key)
            if dk not in self.ast:
                item = self.d['impl_re'] if key[0] == 'Mont' else r'\bmod %s\s*\{' % DERIVE_MOD
                text = find_fn(self.d['block'], item, key[1])
                self.ast[dk] = Parser(tokenize(text), '%s::%s' % (self.d['name'], key[1]), ext=True).fn()
            return self.ast[dk]
        return Exec.fn_ast(self, key)

    def kind_of_seg(self, seg):
        if seg == 'F':
            return 'Fp'
        if seg == 'B':
            return 'BigInt'
        return Exec.kind_of_seg(self, seg)

    # ---- configuration: the modulus is the literal of `const MODULUS`, INV the parameter `inv`
    def config(self, name):
        if name == 'MODULUS':
            return copyval(self.modulus())
        return Exec.config(self, name)

    def modulus(self):
        dk = ('derive', self.d['name'], 'MODULUS')
        if dk not in self.ast:
            toks = tokenize(find_const(self.d['block'], self.d['impl_re'], 'MODULUS'))
            p = Parser(toks, '%s::MODULUS' % self.d['name'], ext=True)
            e = p.expr(0)
            if p.i != len(toks):
                self.err('MODULUS: trailing tokens')
            self.frames.append(Frame('Mont', '%s::MODULUS' % self.d['name']))
            try:
                v = self.value(e)
            finally:
                self.frames.pop()
            if not (isinstance(v, Struct) and v.kind == 'BigInt' and len(v.f['0'].items) == self.N and
                    all(isinstance(x, int) and not isinstance(x, bool) and 0 <= x < 2 ** 64 for x in v.f['0'].items)):
                self.err('MODULUS is not a BigInt of %d literal limbs' % self.N)
            self.ast[dk] = v
        return self.ast[dk]

    def eval_path(self, segs):
        if segs == ['F', 'ZERO']:
            return Exec.eval_path(self, ['P', 'ZERO'])
        if len(segs) == 1 and segs[0] in self.d.get('consts', {}) and self.frames[-1].lookup(segs[0]) is None:
            return self.d['consts'][segs[0]]            # const generic parameter of the target (`M`)
        return Exec.eval_path(self, segs)

    # ---- local imports
    def exec_use(self, toks):
        txt = [t[1] for t in toks]
        if txt and txt[0] == 'use':
            txt = txt[1:]
        ok = (len(txt) in (7, 9) and txt[0] in ('ark_ff', 'crate') and
              txt[1:6] == ['::', 'biginteger', '::', 'arithmetic', '::'] and txt[6] in LEAF_FN and
              (len(txt) == 7 or (txt[7] == 'as' and re.match(r'^[A-Za-z_]\w*$', txt[8]))))
        if not ok:
            self.err('unsupported local import `use %s;`' % ' '.join(txt))
        fr = self.frames[-1]
        if not hasattr(fr, 'aliases'):
            fr.aliases = {}
        fr.aliases[txt[-1]] = txt[6]

    def eval_call(self, segs, args):
        if len(segs) == 1:
            n = segs[0]
            al = getattr(self.frames[-1], 'aliases', {})
            if n in al:
                c, modes, outs = LEAF_FN[al[n]]
                return self.leaf_call(c, modes, outs, args)
            if n in LEAF_FN:
                self.err('leaf name `%s` used without a local import' % n)
            if n.startswith('__'):
                return self.call_fn(('free', n), None, [self.eval(a) for a in args])
        return Exec.eval_call(self, segs, args)

    # ---- slices, try_into().unwrap(), closures, fold / zip
    def eval(self, e):
        if e[0] == 'index' and e[2][0] == 'range':
            self.tick()
            base = self.deref(self.eval(e[1]))
            if not isinstance(base, Arr):
                self.err('slice of a non-array')
            lo = self.eval(e[2][1]) if e[2][1] is not None else 0
            hi = self.eval(e[2][2]) if e[2][2] is not None else len(base.items)
            if not (isinstance(lo, int) and isinstance(hi, int)):
                self.err('slice bounds are not concrete')
            if e[2][3]:
                hi += 1
            if not (0 <= lo <= hi <= len(base.items)):
                self.err('slice %d..%d out of bounds (len %d): the code would panic' % (lo, hi, len(base.items)))
            return Arr([copyval(x) for x in base.items[lo:hi]])
        if e[0] == 'closure':
            return Closure(e[1], e[2])
        return Exec.eval(self, e)

    def eval_mcall(self, e):
        _, recv, name, args = e
        if name == 'try_into' and not args:
            v = self.deref(self.eval(recv))
            if isinstance(v, Iter):
                v = Arr([copyval(self.deref(r)) for r in v.items])
            if not isinstance(v, Arr):
                self.err('try_into on something that is not a slice')
            return Opt(copyval(v))          # slice -> array: Ok iff the lengths agree (checked where it is stored)
        if name == 'unwrap' and not args:
            v = self.deref(self.eval(recv))
            if not isinstance(v, Opt):
                self.err('unwrap on something that is neither Option nor Result')
            if v.v is None:
                self.err('unwrap of None: the code would panic')
            return v.v
        if name == 'zip' and len(args) == 1:
            l = self.deref(self.eval(recv))
            r = self.eval(args[0])
            rv = self.deref(r)
            if isinstance(rv, Arr):             # `&[F; M]` as IntoIterator: references to its elements
                rv = Iter([Ref(rv, i) for i in range(len(rv.items))])
            if not (isinstance(l, Iter) and isinstance(rv, Iter)):
                self.err('zip of something that is not a slice iterator')
            n = min(len(l.items), len(rv.items))
            return Iter([Tup([l.items[i], rv.items[i]]) for i in range(n)])
        if name == 'fold' and len(args) == 2:
            it = self.deref(self.eval(recv))
            if isinstance(it, Rng):
                items = list(range(it.lo, it.hi))
            elif isinstance(it, Iter):
                items = it.items
            else:
                self.err('fold over something that is neither a range nor a slice iterator')
            acc = self.value(args[0])
            f = self.eval(args[1])
            if not isinstance(f, Closure) or len(f.pats) != 2:
                self.err('fold: second argument is not a two-parameter closure')
            for x in items:
                acc = self.call_closure(f, [acc, x])
            return acc
        return Exec.eval_mcall(self, e)

    def call_closure(self, f, vals):
        """the closure body runs in the defining frame (captures by reference), parameters in a new scope"""
        fr = self.frames[-1]
        fr.scopes.append({})
        try:
            for p, v in zip(f.pats, vals):
                self.bind_pattern(p, v)
            try:
                r = self.eval(f.body)
            except ReturnEx as rx:
                r = rx.v
            if isinstance(r, Ref):
                r = copyval(self.deref(r))
            return r
        finally:
            fr.scopes.pop()

    def bind_pattern(self, pat, v):
        if pat[0] == 'ptuple' and isinstance(v, Tup):
            # tuple of references (zip of two slice iterators): bind each component as it is
            if len(v.items) != len(pat[1]):
                self.err('tuple pattern does not match the value')
            for p, x in zip(pat[1], v.items):
                self.bind_pattern(p, x)
            return
        Exec.bind_pattern(self, pat, v)

    def exec_for(self, e):
        _, pat, it, body = e
        if pat[0] != 'ptuple':
            return Exec.exec_for(self, e)
        itv = self.deref(self.eval(it))
        if not isinstance(itv, Iter):
            self.err('`for (..) in` over something that is not a zipped slice iterator')
        for x in itv.items:
            fr = self.frames[-1]
            fr.scopes.append({})
            try:
                self.bind_pattern(pat, x)
                try:
                    self.exec_block(body)
                except BreakEx:
                    break
            finally:
                fr.scopes.pop()
        return Unit()

    def binop(self, op, l, r):
        v = Exec.binop(self, op, l, r)
        if isinstance(v, int) and not isinstance(v, bool) and not (0 <= v < 2 ** 64):
            self.err('concrete arithmetic `%s` leaves the u64 range' % op)
        return v

    def write(self, ref, hint, v):
        old = ref.get()
        if isinstance(old, Arr) and not (isinstance(v, Arr) and len(v.items) == len(old.items)):
            self.err('array assignment with a different length (try_into().unwrap() would panic)')
        Exec.write(self, ref, hint, v)


D_A = ('a', 'Fp', 'a')
D_B = ('b', 'Fp', 'b')


def DT(name, key, params, outs, rty, cfg=(), minN=1):
    return dict(name=name, key=key, params=params, outs=outs, rty=rty, cfg=list(cfg), opaque=OPQ, minN=minN)


DERIVE_TARGETS = [
    DT('add_with_carry', ('free', '__add_with_carry'), [('a', 'BigInt', 'a'), ('b', 'BigInt', 'b')], ['a', 'ret'],
       'list Z * bool'),
    DT('sub_with_borrow', ('free', '__sub_with_borrow'), [('a', 'BigInt', 'a'), ('b', 'BigInt', 'b')], ['a', 'ret'],
       'list Z * bool'),
    DT('subtract_modulus', ('free', '__subtract_modulus'), [D_A], ['a'], 'list Z'),
    DT('subtract_modulus_with_carry', ('free', '__subtract_modulus_with_carry'), [D_A, ('carry', 'bool', 'carry')],
       ['a'], 'list Z'),
    DT('add_assign', ('Mont', 'add_assign'), [D_A, D_B], ['a'], 'list Z'),
    DT('sub_assign', ('Mont', 'sub_assign'), [D_A, D_B], ['a'], 'list Z'),
    DT('double_in_place', ('Mont', 'double_in_place'), [D_A], ['a'], 'list Z'),
    DT('neg_in_place', ('Mont', 'neg_in_place'), [D_A], ['a'], 'list Z'),
    DT('mul_assign', ('Mont', 'mul_assign'), [D_A, D_B], ['a'], 'list Z', cfg=['INV']),
    DT('square_in_place', ('Mont', 'square_in_place'), [D_A], ['a'], 'list Z', cfg=['INV']),
]

# struct name in lib/expand_crate/src/lib.rs -> prefix of the Gallina names (coq/GenLimb/GenDeriveSpecs.v is
# written against these)
DERIVE_FIELDS = [('R62', 'r62'), ('P64', 'p64'), ('R125', 'r125'), ('M127', 'm127'), ('P128', 'p128'),
                 ('Bn254Fr', 'bn254fr'), ('P25519', 'p25519'), ('Secp256k1P', 'secp256k1p'), ('Bls381Fq', 'bls381fq')]


def derive_fields(expanded):
    """split the expanded text: struct name -> dict(name, N, block, impl_re, modulus_attr)"""
    src = strip_comments(expanded)
    out = {}
    for m in re.finditer(r'\bconst\s+_\s*:\s*\(\s*\)\s*=\s*\{', src):
        i = m.end() - 1
        j = match_brace(src, i)
        body = src[i + 1:j]
        mi = re.search(r'\bimpl\s+MontConfig\s*<\s*(\d+)\s*usize\s*>\s*for\s+(\w+)\s*\{', body)
        if not mi:
            continue
        N, name = int(mi.group(1)), mi.group(2)
        d = dict(name=name, N=N, block='mod %s {%s}' % (DERIVE_MOD, body),
                 impl_re=r'\bimpl\s+MontConfig\s*<\s*%d\s*usize\s*>\s*for\s+%s\s*\{' % (N, re.escape(name)))
        ma = re.search(r'#\[modulus\s*=\s*"(\d+)"\]\s*(?:#\[[^\]]*\]\s*)*pub\s+struct\s+%s\s*;' % re.escape(name), src)
        d['modulus_attr'] = int(ma.group(1)) if ma else None
        d['header_error'] = derive_check_header(body, name, N)
        if name in out:
            out[name]['header_error'] = 'two expansions for the struct %s' % name
        else:
            out[name] = d
    return out


def derive_check_header(body, name, N):
    """the aliases the generated code relies on: `fa`, `B`, `F` (None = as expected)"""
    head = body[:body.find('impl')]
    head = re.sub(r'#\s*\[[^\]]*\]', ' ', head)
    got = ' '.join(t[1] for t in tokenize(head)).replace(', }', '}').replace(' }', '}')     # pretty-printer's trailing comma
    want = '%s type B = BigInt < %dusize > ; type F = Fp < MontBackend < %s , %dusize > , %dusize > ;' % (
        DERIVE_USE_EXPECT, N, name, N, N)
    if got != want:
        return 'header of the generated block changed: `%s`' % got
    return None


class DTranslator(Translator):
    def __init__(self, repo, fields):
        Translator.__init__(self, repo)
        self.fields = fields

    def def_name(self, tgt, N):
        return 'gen_%s_%s' % (tgt['prefix'], tgt['name'])

    def new_exec(self, tgt, N, cfg, what):
        d = self.fields[tgt['field']]
        if tgt.get('consts'):
            d = dict(d, consts=tgt['consts'])
        return DExec(self.repo, N, cfg, what, self.src, self.ast, d)

    def origin(self, tgt):
        return '#[derive(MontConfig)] expansion for %s (ff-macros/src/montgomery)' % tgt['field']

    def modulus_def(self, field, prefix):
        d = self.fields[field]
        ex = DExec(self.repo, d['N'], {}, 'gen_%s_modulus' % prefix, self.src, self.ast, d)
        v = ex.modulus()
        limbs = v.f['0'].items
        txt = '(* %s: limbs of `const MODULUS`' % field
        if d['modulus_attr'] is not None:
            txt += '; the attribute value #[modulus = ".."]'
        txt += ' *)\nDefinition gen_%s_modulus : list Z := [%s].\n' % (prefix, '; '.join(str(x) for x in limbs))
        if d['modulus_attr'] is not None:
            txt += 'Definition gen_%s_modulus_attr : Z := %d.\n' % (prefix, d['modulus_attr'])
        return txt


DERIVE_HEADER = """(* GENERATED by lib/xlate_limb.py (translate_derive) -- do not edit.
   The code that #[derive(MontConfig)] (ff-macros/src/montgomery/*.rs) generates for the fields of
   lib/expand_crate/src/lib.rs, taken from `cargo rustc -- -Zunpretty=expanded` (lib/expand_derive.py) and
   symbolically executed; one Gallina definition per (field, function).  Modulus limbs are the literals of the
   expansion, `inv` is Self::INV.  Leaf calls are the functions of C15.GenArith; gen_cmp_N / gen_is_zero_N are
   the translated BigInt functions of GenLimb/GenLimb.v.  Lemmas: GenLimb/GenDeriveSpecs.v. *)
From V Require Import Base.Word C15.GenArith GenLimb.GenLimb.
"""


def translate_derive(repo, expanded, prev_text=None, extra=None):
    """returns (text, failures) like translate(); `expanded` is the output of lib/expand_derive.py.
    `extra(tr, fields, emit)` may append further blocks (sum_of_products, shifts)."""
    fields = derive_fields(expanded)
    tr = DTranslator(repo, fields)
    prev = dict(BLOCK.findall(prev_text)) if prev_text else {}
    out, failures = [DERIVE_HEADER], []

    def emit(name, thunk):
        try:
            body = thunk()
        except TranslateError as e:
            body = prev.get(name)
            failures.append((name, str(e), body is not None))
            if body is None:
                return
        except RecursionError:
            body = prev.get(name)
            failures.append((name, 'recursion limit', body is not None))
            if body is None:
                return
        out.append('(* BEGIN %s *)\n%s(* END %s *)\n' % (name, body, name))

    def need(field):
        if field not in fields:
            raise TranslateError('no expansion of `impl MontConfig for %s` found' % field)
        if fields[field]['header_error']:
            raise TranslateError(fields[field]['header_error'])
        return fields[field]

    for field, prefix in DERIVE_FIELDS:
        emit('gen_%s_modulus' % prefix, lambda: (need(field), tr.modulus_def(field, prefix))[1])
        for t in DERIVE_TARGETS:
            tgt = dict(t, field=field, prefix=prefix)
            emit('gen_%s_%s' % (prefix, t['name']),
                 lambda: tr.translate_one(tgt, need(field)['N']))
    if extra is not None:
        extra(tr, fields, emit, need)
    return '\n'.join(out), failures


# sum_of_products::<M> for concrete M: only the interleaved branch (`M <= chunk_size`; fields with >= 2 spare bits);
# the text of the other branch (chunks / map / sum) is parsed but never executed for these M
DERIVE_SOP = [('R62', 'r62', (1, 2, 3)), ('R125', 'r125', (1, 2)), ('Bn254Fr', 'bn254fr', (1, 2, 3)),
              ('Bls381Fq', 'bls381fq', (1, 2))]


def derive_extra(tr, fields, emit, need):
    """further blocks of GenDerive.v (sum_of_products, BigInt shifts)"""
    for field, prefix, Ms in DERIVE_SOP:
        for M in Ms:
            tgt = DT('sum_of_products_%d' % M, ('Mont', 'sum_of_products'),
                     [('a', ('FpArr', M), 'a'), ('b', ('FpArr', M), 'b')], ['ret'], 'list Z', cfg=['INV'])
            tgt.update(field=field, prefix=prefix, consts={'M': M})
            emit('gen_%s_%s' % (prefix, tgt['name']), lambda tgt=tgt: tr.translate_one(tgt, need(field)['N']))


def translate_derive_all(repo, expanded, prev_text=None):
    return translate_derive(repo, expanded, prev_text, extra=derive_extra)


def main_derive(argv):
    """python3 lib/xlate_limb.py --derive [repo [dst]]: expand (cached) + translate the derive-generated code"""
    import expand_derive
    repo = argv[0] if argv else '/repo'
    dst = argv[1] if len(argv) > 1 else '/verif/coq/GenLimb/GenDerive.v'
    try:
        expanded = expand_derive.expand(repo)
    except expand_derive.ExpandError as e:
        print('EXPAND-ERROR: %s' % e)
        return 4
    prev = open(dst).read() if os.path.exists(dst) else None
    text, failures = translate_derive_all(repo, expanded, prev)
    for name, msg, kept in failures:
        print('TRANSLATE-ERROR: %s: %s (%s)' % (name, msg, 'kept previous text' if kept else 'omitted'))
    print('changed' if write_if_changed(dst, text) else 'unchanged')
    return 3 if failures else 0


if __name__ == '__main__':
    if len(sys.argv) > 1 and sys.argv[1] == '--derive':
        sys.exit(main_derive(sys.argv[2:]))
    repo = sys.argv[1] if len(sys.argv) > 1 else '/repo'
    dst = sys.argv[2] if len(sys.argv) > 2 else '/verif/coq/GenLimb/GenLimb.v'
    prev = open(dst).read() if os.path.exists(dst) else None
    text, failures = translate(repo, prev)
    for name, msg, kept in failures:
        print('TRANSLATE-ERROR: %s: %s (%s)' % (name, msg, 'kept previous text' if kept else 'omitted'))
    print('changed' if write_if_changed(dst, text) else 'unchanged')
    sys.exit(3 if failures else 0)
