(* Generic driver for the extracted models: reads case lines
     <opcode>:<opname> <arg> <arg> ...
   (arg = comma-separated hex integers, optional '-' sign, "_" = empty list), calls
   run : Z -> Z list list -> Z list list and prints one result line per case. *)
let parse_int (s : string) : Z.t =
  if String.length s > 0 && s.[0] = '-' then
    Z.neg (Z.of_string_base 16 (String.sub s 1 (String.length s - 1)))
  else Z.of_string_base 16 s

let parse_arg (s : string) : Z.t list =
  if s = "_" then [] else List.map parse_int (String.split_on_char ',' s)

let fmt_int (z : Z.t) : string =
  if Z.sign z < 0 then "-" ^ Z.format "%x" (Z.neg z) else Z.format "%x" z

let fmt_arg (l : Z.t list) : string =
  if l = [] then "_" else String.concat "," (List.map fmt_int l)

let main (run : Z.t -> Z.t list list -> Z.t list list) : unit =
  let out = Buffer.create 65536 in
  (try
     while true do
       let line = String.trim (input_line stdin) in
       if line <> "" then begin
         let toks = List.filter (fun s -> s <> "") (String.split_on_char ' ' line) in
         match toks with
         | [] -> ()
         | head :: args ->
           let code = List.hd (String.split_on_char ':' head) in
           let op = Z.of_string code in
           let res =
             try run op (List.map parse_arg args)
             with Stack_overflow -> [[Z.of_int 8]] in
           Buffer.add_string out (String.concat " " (List.map fmt_arg res));
           Buffer.add_char out '\n';
           if Buffer.length out > 60000 then begin
             print_string (Buffer.contents out); Buffer.clear out end
       end
     done
   with End_of_file -> ());
  print_string (Buffer.contents out)
