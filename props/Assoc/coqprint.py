import sympy as sp
def cint(n):
    # positive integer as sums of 1
    assert n>0
    if n==1: return "1"
    if n<=4: return "("+"+".join(["1"]*n)+")"
    # binary
    h=cint(n//2)
    s="((1+1)*%s)"%h
    if n%2: s="(%s+1)"%s
    return s
def cmono(coeff, monom, gens):
    fs=[]
    for g,e in zip(gens,monom):
        fs += [str(g)]*e
    c=abs(int(coeff))
    if c!=1 or not fs:
        fs=[cint(c)]+fs
    return "*".join(fs)
def cpoly(p, gens):
    p=sp.Poly(p,*gens)
    if p.is_zero: return "0"
    out=""
    for monom,coeff in p.terms():
        assert coeff.is_integer, coeff
        s=cmono(coeff,monom,gens)
        if coeff<0: out+=" - "+s
        else: out+=(" + "+s if out else s)
    if out.startswith(" - "): out="0"+out
    return "("+out+")"
