"""C01: prime-field operations = integer arithmetic mod p (Montgomery backend).
Case generator + property metadata.  Cases: [[cfg_id, flavour], modulus limbs, operands...];
flavour 0 = #[derive(MontConfig)], 1 = hand-written `impl MontConfig` with every default.
Field-element operands are RAW MONTGOMERY LIMBS (any value < p is a valid representation),
so boundary classes are placed directly on what the limb algorithms see."""
import sys, os
sys.path.insert(0, '/verif/lib')
sys.path.insert(0, os.path.dirname(os.path.abspath(__file__)))
from configs import CONFIGS

OPS = {
    'cfg': 1, 'add': 2, 'sub': 3, 'neg': 4, 'double': 5, 'mul': 6, 'square': 7, 'inverse': 8,
    'from_bigint': 9, 'into_bigint': 10, 'pow': 11, 'sum_of_products': 12, 'batch_inversion': 13,
    'from_int': 14, 'from_le_bytes_mod_order': 15, 'from_be_bytes_mod_order': 16, 'from_biguint': 17,
    'from_str': 18, 'display': 19,
}
HARNESS_BIN = 'c01'
M64 = (1 << 64) - 1


def limbs(v, n):
    return [(v >> (64 * i)) & M64 for i in range(n)]


class Cfg:
    def __init__(self, cid, name, n, p):
        self.id, self.name, self.n, self.p = cid, name, n, p
        self.W = 1 << (64 * n)
        self.R = self.W % p
        self.R2 = (self.W * self.W) % p
        self.spare = (p >> (64 * n - 1)) == 0
        self.bits = p.bit_length()
        self.pl = limbs(p, n)
        top = self.pl[-1]
        low = self.pl[:-1]
        # the two no-carry eligibility rules (macro: ff-macros/src/montgomery/mod.rs, trait: montgomery_backend.rs)
        self.nc_trait = self.spare and not (top == (M64 >> 1) and all(l == M64 for l in low))
        self.nc_macro = (top < (M64 >> 1)) and (n == 1 or any(l != M64 for l in low))
        self.tag = '%s[N%d%s%s%s]' % (name, n, 's' if self.spare else 'f',
                                      'T' if self.nc_trait else 't', 'M' if self.nc_macro else 'm')

    def head(self, fl):
        return [[self.id, fl], self.pl]

    def mont(self, v):      # Montgomery limbs of the standard value v
        return (v * self.R) % self.p

    def cios_t(self, a, b):  # pre-subtraction value of a Montgomery product of raw a, b
        p, W = self.p, self.W
        q = (a * b * (-pow(p, -1, W))) % W
        return (a * b + q * p) // W


CFGS = [Cfg(*c) for c in CONFIGS]
TINY = [c for c in CFGS if c.p <= 17]
SMALLN = [c for c in CFGS if c.n <= 6]
SOP_LENGTHS = [1, 2, 3, 4, 5, 6, 7, 8, 9, 10, 16, 17]
SPARE24 = [c for c in CFGS if 2 <= 64 * c.n - c.bits <= 4 and c.p > (3 << (c.bits - 2))]   # near-top moduli, 2..4 spare bits


def operand(rng, c):
    """one raw Montgomery operand (value < p) from the structured classes; returns (value, class)"""
    p, n = c.p, c.n
    k = rng.randrange(18)
    if k == 0:
        return 0, 'zero'
    if k == 1:
        return rng.choice([1, 2, 3]) % p, 'raw_small'
    if k == 2:
        return p - 1, 'p-1'
    if k == 3:
        return (p - 2) % p, 'p-2'
    if k == 4:
        return rng.choice([(p - 1) // 2, (p + 1) // 2]) % p, 'half'
    if k == 5:
        return c.R, 'R(one)'
    if k == 6:
        return c.R2, 'R2'
    if k == 7:
        return (p - 1 - rng.randrange(1 << rng.randrange(1, 20))) % p, 'p-small'
    if k == 8:
        # all-ones limbs below p: 2^j - 1 for the largest j, or lower limbs all MAX
        j = c.bits - 1 if (1 << c.bits) - 1 >= p else c.bits
        return ((1 << j) - 1) % p, 'all_ones_below_p'
    if k == 9:
        return (1 << rng.randrange(64 * n)) % p, 'pow2'
    if k == 10:
        e = 64 * rng.randrange(0, n + 1)
        return ((1 << e) + rng.choice([-1, 0, 1])) % p, 'limb_boundary'
    if k == 11:
        return c.mont(rng.choice([1, 2, 3, p - 1, p - 2, (p - 1) // 2, (p + 1) // 2]) % p), 'std_special'
    if k == 12:
        # top limb equal to the modulus' top limb, lower limbs random but below
        v = (c.pl[-1] << (64 * (n - 1))) | (rng.getrandbits(64 * (n - 1)) if n > 1 else 0)
        return v % p, 'same_top_limb'
    if k == 13:
        v = sum((M64 if (i + rng.randrange(2)) % 2 else 0) << (64 * i) for i in range(n))
        return v % p, 'alt_limbs'
    if k == 14:
        return (p - c.R) % p, 'minus_one'
    return rng.randrange(p), 'random'


def add_pair(rng, c):
    """raw pair with the pre-subtraction sum a+b placed in [0,p), [p,W) or [W,2p)"""
    p, W = c.p, c.W
    a, ca = operand(rng, c)
    k = rng.randrange(8)
    if k == 0:
        b = (p - a) % p; cls = 'sum=p'                   # a + b = p exactly -> 0
    elif k == 1:
        b = (p - a - 1) % p; cls = 'sum=p-1'
    elif k == 2:
        b = (p - a + 1) % p; cls = 'sum=p+1'
    elif k == 3 and W - a < p and W - a >= 0:
        b = (W - a) % p if W - a < p else 0; cls = 'sum=W'  # carry out, low limbs 0 (no spare bit only)
    elif k == 4 and 0 <= W - 1 - a < p:
        b = W - 1 - a; cls = 'sum=W-1'
    elif k == 5:
        b = a; cls = 'equal'
    else:
        b, cb = operand(rng, c); cls = cb
    s = a + b
    rng_cls = '[0,p)' if s < p else ('[p,W)' if s < W else '[W,2p)')
    return a, b, ca + '/' + cls + '/sum' + rng_cls


def mul_pair(rng, c):
    """raw pair whose pre-subtraction CIOS value t = (ab + qp)/W is steered to a boundary"""
    p, W = c.p, c.W
    k = rng.randrange(10)
    if k < 6 and p > 3:
        targets = [p - 1, p, p + 1, 2 * p - 1 if 2 * p - 1 < W + p else p, 0, 1]
        if not c.spare:
            targets += [W - 1, W, W + 1, W - 2, min(2 * p - 2, W + 5)]
        t = rng.choice(targets)
        for _ in range(20):
            a = rng.randrange(1, p)
            b = (t * W * pow(a, -1, p)) % p
            if c.cios_t(a, b) == t:
                cls = 't=p%+d' % (t - p) if abs(t - p) <= 1 else ('t=W%+d' % (t - W) if abs(t - W) <= 2 else 't=%s' % ('small' if t < 2 else 'high'))
                return a, b, 'steered/' + cls
    a, ca = operand(rng, c)
    b, cb = operand(rng, c)
    if k == 6:
        b = a; cb = 'equal'
    t = c.cios_t(a, b)
    return a, b, ca + '/' + cb + '/t' + ('[0,p)' if t < p else ('[p,W)' if t < W else '[W,2p)'))


def pick(rng, pool):
    return rng.choice(pool)


def gen(rng, tier):
    scale = 1 if tier == 'quick' else 30
    FL = [0, 1]
    # --- configuration constants: every config, both flavours (R, R2, INV, flags, ONE) ---
    for c in CFGS:
        for fl in FL:
            yield 'cfg', c.head(fl), 'cfg/' + c.tag
    # --- exhaustive on toy moduli: all operand pairs, both flavours ---
    toys = TINY if tier == 'quick' else [c for c in CFGS if c.p <= 127]
    for c in toys:
        for fl in FL:
            for a in range(c.p):
                for op in ['neg', 'double', 'square', 'inverse', 'into_bigint', 'from_bigint']:
                    yield op, c.head(fl) + [[a]], 'exhaustive/' + c.name
                for b in range(c.p):
                    for op in ['add', 'sub', 'mul']:
                        yield op, c.head(fl) + [[a], [b]], 'exhaustive/' + c.name
    # --- add / sub: branches: spare-bit subtract_modulus vs subtract_modulus_with_carry (carry set / clear),
    #     sub with b > a (adds the modulus first; wraps past 2^(64N) without spare bit) and b <= a ---
    for _ in range(1500 * scale):
        c = pick(rng, CFGS); fl = rng.choice(FL)
        a, b, cls = add_pair(rng, c)
        yield rng.choice(['add', 'add', 'sub']), c.head(fl) + [limbs(a, c.n), limbs(b, c.n)], c.tag + '/' + cls
    # --- unary: neg (zero branch / non-zero), double (carry out of mul2 when no spare bit) ---
    for _ in range(600 * scale):
        c = pick(rng, CFGS); fl = rng.choice(FL)
        a, ca = operand(rng, c)
        if rng.randrange(4) == 0:
            # 2a in [p,W) / [W,2p)
            a = rng.choice([(c.p + 1) // 2, (c.W + 1) // 2 % c.p, c.W // 2 % c.p, (c.p - 1) // 2]); ca = 'double_boundary'
        yield rng.choice(['neg', 'double', 'into_bigint', 'display']), c.head(fl) + [limbs(a, c.n)], c.tag + '/' + ca
    # --- mul / square: no-carry CIOS (macro & trait rules differ on n2_top63, n2_lowmax, p25519, n3_top63, n4_lowmax),
    #     plain CIOS with subtract_modulus (spare bit: m127, m521, macro on top63/lowmax shapes),
    #     plain CIOS with carry-aware subtraction (no spare bit: carry2 set / clear), N == 1 square = mul ---
    for _ in range(2200 * scale):
        c = pick(rng, CFGS); fl = rng.choice(FL)
        a, b, cls = mul_pair(rng, c)
        if rng.randrange(4) == 0:
            yield 'square', c.head(fl) + [limbs(a, c.n)], c.tag + '/' + cls
        else:
            yield 'mul', c.head(fl) + [limbs(a, c.n), limbs(b, c.n)], c.tag + '/' + cls
    # squares steered: a^2 with t on a boundary needs a square root; use operand classes + all-ones
    for _ in range(300 * scale):
        c = pick(rng, CFGS); fl = rng.choice(FL)
        a, ca = operand(rng, c)
        yield 'square', c.head(fl) + [limbs(a, c.n)], c.tag + '/' + ca
    # --- inverse: zero -> None; u == 1 at entry (raw 1); long even runs (powers of two); the |= 1<<63 repair
    #     (no spare bit and b + p carries); v < u and v >= u branches ---
    for _ in range(200 * scale):
        c = pick(rng, CFGS if rng.randrange(3) else SMALLN); fl = rng.choice(FL)
        a, ca = operand(rng, c)
        yield 'inverse', c.head(fl) + [limbs(a, c.n)], c.tag + '/' + ca
    # --- from_bigint: zero shortcut, >= p -> None (p, p+1, W-1), p-1, random ---
    for _ in range(400 * scale):
        c = pick(rng, CFGS); fl = rng.choice(FL)
        k = rng.randrange(8)
        if k == 0:
            v, cls = c.p, '=p'
        elif k == 1:
            v, cls = min(c.p + rng.randrange(1, 4), c.W - 1), 'p+small'
        elif k == 2:
            v, cls = c.W - 1, 'W-1'
        elif k == 3:
            v, cls = rng.randrange(c.p, c.W), '>=p'
        else:
            v, cls = operand(rng, c)
        yield 'from_bigint', c.head(fl) + [limbs(v, c.n)], c.tag + '/' + cls
    # --- pow: empty exponent, zero, leading zero limbs, 1, 2, p-1, p, (p-1)/2, longer than N limbs ---
    for _ in range(100 * scale):
        c = pick(rng, SMALLN if rng.randrange(8) else CFGS); fl = rng.choice(FL)
        a, ca = operand(rng, c)
        k = rng.randrange(10)
        if k == 0:
            e, ce = [], 'empty'
        elif k == 1:
            e, ce = [0] * rng.randrange(1, 3), 'zero'
        elif k == 2:
            e, ce = [rng.choice([1, 2, 3])] + [0] * rng.randrange(0, 3), 'small+leading_zero_limbs'
        elif k == 3:
            e, ce = limbs(c.p - 1, c.n), 'p-1'
        elif k == 4:
            e, ce = limbs(c.p, c.n) + [0], 'p'
        elif k == 5:
            e, ce = limbs((c.p - 1) // 2, c.n), '(p-1)/2'
        elif k == 6:
            e, ce = [rng.getrandbits(64) for _ in range(c.n + 1)], 'longer'
        else:
            e, ce = [rng.getrandbits(rng.choice([1, 7, 63, 64])) for _ in range(rng.randrange(1, c.n + 1))], 'random'
        yield 'pow', c.head(fl) + [limbs(a, c.n), e], c.tag + '/' + ca + '/e=' + ce
    # --- sum_of_products: fallback (bits >= 64N-1), macro interleaved (M <= chunk), macro chunked
    #     (full chunk -> recursive interleaved, remainder -> naive), trait M == 2, trait chunked single-carry ---
    for _ in range(500 * scale):
        c = pick(rng, CFGS); fl = rng.choice(FL)
        M = rng.choice([1, 2, 2, 3, 4, 7, 7])
        if rng.randrange(2) == 0:
            # the accumulator bound: `chunk` = 2s - 1 products per reduction (s = spare bits); (M + 1) p <= 2^(64N) is
            # tight for moduli near the top of their bit range: lengths around chunk, 2 chunk, 2^s and their multiples
            c = pick(rng, SPARE24)
            s_ = 64 * c.n - c.bits
            ch = 2 * s_ - 1
            M = rng.choice([ch - 1, ch, ch + 1, ch + 2, 2 * ch - 1, 2 * ch, 2 * ch + 1, 3 * ch, 3 * ch + 1,
                            (1 << s_) - 1, 1 << s_, (1 << s_) + 1, 2 << s_, (2 << s_) + 1])
            M = max(1, M)
            if M not in SOP_LENGTHS:                      # lengths the harness instantiates (const generic)
                M = min(SOP_LENGTHS, key=lambda v: (abs(v - M), v))
        xs, ys = [], []
        worst = rng.randrange(3) == 0
        for _i in range(M):
            if worst:
                a = c.p - 1 - rng.randrange(3) if c.p > 4 else rng.randrange(c.p); b = c.p - 1 - rng.randrange(3) if c.p > 4 else rng.randrange(c.p)
            else:
                a, _ = operand(rng, c); b, _ = operand(rng, c)
            xs += limbs(a, c.n); ys += limbs(b, c.n)
        chunk = 2 * (64 * c.n - c.bits) - 1
        br = 'fallback' if c.bits >= 64 * c.n - 1 else ('M<=chunk' if M <= chunk else 'chunked%d' % chunk)
        yield 'sum_of_products', c.head(fl) + [[M], xs, ys], c.tag + '/M%d/%s/%s' % (M, br, 'worst' if worst else 'mixed')
    # --- batch inversion: empty, all zero, zeros at the ends / middle, single, coeff 0 / 1 / random ---
    for _ in range(150 * scale):
        c = pick(rng, SMALLN if rng.randrange(4) else CFGS); fl = rng.choice(FL)
        ln = rng.choice([0, 1, 1, 2, 3, 5, 8])
        v = []
        shape = rng.choice(['nozero', 'allzero', 'zero_first', 'zero_last', 'zeros_mixed', 'classes'])
        for i in range(ln):
            x = rng.randrange(1, c.p)
            if shape == 'allzero' or (shape == 'zero_first' and i == 0) or (shape == 'zero_last' and i == ln - 1) \
               or (shape == 'zeros_mixed' and rng.randrange(2)):
                x = 0
            if shape == 'classes':
                x, _ = operand(rng, c)
            v += limbs(x, c.n)
        co = rng.choice([0, c.R, rng.randrange(c.p), c.p - 1])
        yield 'batch_inversion', c.head(fl) + [v, limbs(co, c.n)], c.tag + '/len%d/%s' % (ln, shape)
    # --- machine integers: N == 1 reduces first; u128 with N == 2 reduces by the 128-bit modulus; signed: x <= 0 negates ---
    for _ in range(500 * scale):
        c = pick(rng, CFGS); fl = rng.choice(FL)
        bits = rng.choice([1, 8, 16, 32, 64, 64, 128, 128])
        signed = rng.randrange(2) if bits > 1 else 0
        if bits == 1:
            x = rng.randrange(2)
        elif signed:
            lo, hi = -(1 << (bits - 1)), (1 << (bits - 1)) - 1
            x = rng.choice([0, 1, -1, lo, hi, lo + 1, rng.randrange(lo, hi + 1), -(c.p % (hi + 1)), c.p % (hi + 1)])
        else:
            hi = (1 << bits) - 1
            x = rng.choice([0, 1, hi, hi - 1, rng.randrange(hi + 1), c.p % (hi + 1), (c.p - 1) % (hi + 1), (c.p + 1) % (hi + 1),
                            (2 * c.p) % (hi + 1)])
        yield 'from_int', c.head(fl) + [[bits, signed], [x]], c.tag + '/%s%d' % ('i' if signed else 'u', bits)
    # --- byte strings: empty, shorter than / equal to / one more than / much longer than the modulus, all 0xff,
    #     the modulus itself, p-1, p+1 ---
    for _ in range(280 * scale):
        c = pick(rng, CFGS if rng.randrange(3) == 0 else SMALLN); fl = rng.choice(FL)
        nb = (c.bits + 7) // 8
        k = rng.randrange(10)
        if k == 0:
            bs, cls = [], 'empty'
        elif k == 1:
            bs, cls = [0xff] * rng.choice([nb - 1, nb, nb + 1, 2 * nb + 3 if c.n <= 6 else nb + 2]), 'all_ff'
        elif k == 2:
            v = rng.choice([c.p, c.p - 1, c.p + 1, 2 * c.p, c.W - 1, c.W])
            bs, cls = list(v.to_bytes((v.bit_length() + 7) // 8 or 1, 'little')), 'near_p'
        elif k == 3:
            bs, cls = [rng.randrange(256) for _ in range(max(0, nb - 1))], 'len=nb-1'
        elif k == 4:
            bs, cls = [rng.randrange(256) for _ in range(nb)], 'len=nb'
        elif k == 5:
            bs, cls = [rng.randrange(256) for _ in range(nb + 1)], 'len=nb+1'
        elif k == 6:
            bs, cls = [rng.randrange(256) for _ in range(rng.randrange(1, max(2, nb)))] + [0] * rng.randrange(0, 4), 'short+zero_pad'
        else:
            bs, cls = [rng.randrange(256) for _ in range(rng.randrange(0, (3 * nb + 4) if c.n <= 4 else nb + 9))], 'random_len'
        op = rng.choice(['from_le_bytes_mod_order', 'from_be_bytes_mod_order'])
        if op.startswith('from_be'):
            bs = bs[::-1]
        yield op, c.head(fl) + [bs], c.tag + '/' + cls
    for _ in range(100 * scale):
        c = pick(rng, CFGS if rng.randrange(3) == 0 else SMALLN); fl = rng.choice(FL)
        v = rng.choice([0, 1, c.p - 1, c.p, c.p + 1, c.W, rng.getrandbits(rng.randrange(1, (2 * c.bits + 9) if c.n <= 4 else c.bits + 70))])
        yield 'from_biguint', c.head(fl) + [[v]], c.tag + '/biguint'
    # --- decimal strings: sign, '+', leading zeros, underscores, values >= p (reduced), negative (p - v), malformed ---
    for _ in range(500 * scale):
        c = pick(rng, CFGS); fl = rng.choice(FL)
        v = rng.choice([0, 1, c.p - 1, c.p, c.p + 1, 2 * c.p - 1, c.W, rng.randrange(c.p), rng.getrandbits(2 * c.bits + 3)])
        s = str(v)
        cls = 'plain'
        k = rng.randrange(14)
        if k == 0:
            s = '-' + s; cls = 'negative'
        elif k == 1:
            s = '+' + s; cls = 'plus'
        elif k == 2:
            s = '000' + s; cls = 'leading_zeros'
        elif k == 3:
            s = ''; cls = 'empty'
        elif k == 4:
            s = '-'; cls = 'lone_minus'
        elif k == 5:
            s = s + 'x'; cls = 'bad_char'
        elif k == 6:
            s = '-+' + s; cls = 'minus_plus'
        elif k == 7:
            s = '--' + s; cls = 'minus_minus'
        elif k == 8 and len(s) > 2:
            s = s[:1] + '_' + s[1:]; cls = 'underscore'
        elif k == 9:
            s = '_' + s; cls = 'leading_underscore'
        elif k == 10:
            s = '-0'; cls = 'minus_zero'
        elif k == 11:
            s = ' ' + s; cls = 'space'
        yield 'from_str', c.head(fl) + [[ord(ch) for ch in s]], c.tag + '/' + cls


def nontrivial(case, out):
    return case['op'] == 'cfg' or any(any(x != 0 for x in a) for a in case['args'][2:])


def xcheck_ok(case):
    """keep the in-kernel (vm_compute on stdlib Z) re-evaluation cheap"""
    n = len(case['args'][1])
    if case['op'] in ('pow', 'inverse', 'batch_inversion', 'cfg', 'from_le_bytes_mod_order', 'from_be_bytes_mod_order',
                      'from_biguint'):
        return n <= 1
    if case['op'] in ('sum_of_products', 'from_str', 'from_int', 'from_bigint', 'display'):
        return n <= 2
    return n <= 4


XCHECK = {'quick': 95, 'thorough': 950}
RULE = ('38 prime moduli (N = 1..9, 12, 13; spare bit / none; every combination of the macro and trait no-carry rules; '
        'top limb 2^63-1 and 2^63-2; lower limbs all MAX; Mersenne 2^61-1, 2^127-1, 2^521-1; 3, 5, 7, 17, 127; 2^64-59; '
        '2^128-159; P-192/256/384, secp256k1 p and n, 2^255-19, bls12_381 Fq/Fr, bn254 Fr, mnt4_753 Fq; 832-bit) x 2 '
        'flavours (derive macro / hand-written impl with trait defaults); operands are raw Montgomery limbs from '
        'structured classes (0, 1, 2, p-1, p-2, (p+-1)/2, R, R2, p-small, all-ones below p, powers of two, limb '
        'boundaries, same top limb as p, alternating limbs, standard-form specials) with pairs steered so that the '
        'pre-subtraction sum / CIOS value is exactly p-1, p, p+1, W-1, W, W+1; exhaustive operand pairs on toy moduli; '
        'non-trivial = some operand after the modulus is non-zero (or a cfg case); distinct = distinct case lines')
TRUSTED = ['num-bigint (decimal parsing in FromStr, BigUint::to_bytes_le) is modelled by arbitrary-precision Z, not verified',
           'C15 leaf arithmetic GenArith.v (regenerated by the C15 package from arithmetic.rs), C15.BigIntModel chains and the C15 lemmas div2_spec / set_top_bit_spec / is_odd_spec (C15.ShiftProofs, C15.RecodeProofs) are imported']
ASSUMPTIONS = ['default features, x86-64, no `asm` feature (the portable CIOS / square loops are the ones modelled)',
               'into_bigint rotating index (j+i)%N is modelled in the rotated frame (same operations in the same order)',
               'from_random_bytes on inputs shorter than the modulus is modelled as from_bigint of the little-endian value '
               '(its masking is the identity there; the serialization path is C09)',
               'squaring: the top buffer limb before the doubling pass is 0, so `r[2N-1] = r[2N-2] >> 63` is modelled as part of one shift chain']
HYPOTHESES = ['prime (val m): premise of C01_inverse_prime (and of the batch-inversion instance on limbs); mathematics about the shipped moduli, not code',
              'field_theory zero one add mul sub opp div inv eq: the abstract field of C01_batch_inversion']

# T-limb translator (lib/xlate_limb.py): coq/GenLimb/GenLimb.v is regenerated from the working tree's source text before
# the Coq build; Props/GenLimb.v (generated per-N definitions = the list models + composed corollaries) is a strict obligation
STRICT_PROP_FILES = ['GenLimb', 'GenDerive']


def _genlimb_regen(ctx):
    import importlib.util, os
    sp = importlib.util.spec_from_file_location('genlimb_pre', os.path.join(ctx['ROOT'], 'props', 'GenLimb', 'pre.py'))
    m = importlib.util.module_from_spec(sp); sp.loader.exec_module(m)
    m.regen(ctx)
    # phase 2: the code #[derive(MontConfig)] GENERATES (expanded with rustc -Zunpretty=expanded from lib/expand_crate,
    # cached on a hash of ff-macros / ff sources) and the BigInt shifts -> coq/GenLimb/GenDerive.v, Props/GenDerive.v
    sp = importlib.util.spec_from_file_location('genlimb_pre_derive', os.path.join(ctx['ROOT'], 'props', 'GenLimb', 'pre_derive.py'))
    m2 = importlib.util.module_from_spec(sp); sp.loader.exec_module(m2)
    m2.regen(ctx)


def pre(ctx):
    _genlimb_regen(ctx)

