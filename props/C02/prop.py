"""C02: extension towers implement arithmetic of F_p[X]/(X^k - beta).
Case generator + property metadata.

A case is  op [cid, kind] PARAMS operands...  where PARAMS is the flat parameter list of
the tower (modulus, non-residues, Frobenius tables) dumped from the Rust configurations by
the harness op `dump` (pre(ctx) refreshes props/C02/params.json from the freshly built
harness, so a changed constant in /repo changes what the Coq model is given and any
inconsistency between constants and code shows up as a disagreement).
Layouts (all base-prime-field coordinates):
  kind 2  Fp2            [p, nr, c1 x2]
  kind 3  Fp3            [p, nr, c1 x3, c2 x3]
  kind 4  Fp4            [p, nr2, fp2c1 x2, nr4 x2, c1 x4]
  kind 6  Fp6 (3 over 2) [p, nr2, fp2c1 x2, nr6 x2, c1 x12, c2 x12]
  kind 7  Fp6 (2 over 3) [p, nr3, fp3c1 x3, fp3c2 x3, nr6 x3, c1 x6]
  kind 12 Fp12           kind-6 layout ++ [nr12 x6, c1 x24]
"""
import sys, os, json
sys.path.insert(0, '/verif/lib')

OPS = {
    'mul': 1, 'square': 2, 'inverse': 3, 'add': 4, 'sub': 5, 'neg': 6, 'double': 7,
    'frobenius': 8, 'frobenius_pow': 9, 'mul_by_fp': 10, 'div': 11,
    'cyc_square': 20, 'cyc_inverse': 21, 'cyc_exp': 22,
    'norm': 30, 'conjugate': 31, 'mul_by_basefield': 32, 'mul_nr': 33, 'mul_by_fp2': 34,
    'mul_assign_by_fp2': 35,
    'mul_by_034': 40, 'mul_by_014': 41, 'mul_by_1': 42, 'mul_by_01': 43,
    'dump': 99,
}

HERE = os.path.dirname(os.path.abspath(__file__))
PARAMS_JSON = HERE + '/params.json'

CURVES = {0: 'bls12_381', 1: 'bls12_377', 2: 'bn254', 3: 'mnt4_298', 4: 'mnt4_753', 5: 'mnt6_298',
          6: 'mnt6_753', 7: 'bw6_761', 8: 'bw6_767', 9: 'cp6_782',
          # toy towers defined in harness/src/bin/c02.rs (mod toy), for exhaustive enumeration
          10: 'toy7', 11: 'toy13', 12: 'toy7c'}
KINDS = {0: [2, 6, 12], 1: [2, 6, 12], 2: [2, 6, 12], 3: [2, 4], 4: [2, 4],
         5: [3, 7], 6: [3, 7], 7: [3, 7], 8: [3, 7], 9: [3, 7],
         10: [2, 6, 12], 11: [2, 4], 12: [3, 7]}
DEG = {2: 2, 3: 3, 4: 4, 6: 6, 7: 6, 12: 12}
BASEDEG = {2: 1, 3: 1, 4: 2, 6: 2, 7: 3, 12: 6}
KNAME = {2: 'fp2', 3: 'fp3', 4: 'fp4', 6: 'fp6_3o2', 7: 'fp6_2o3', 12: 'fp12'}
QUAD = (2, 4, 7, 12)
M64 = (1 << 64) - 1


def fmt_int(v):
    return ('-%x' % -v) if v < 0 else ('%x' % v)


def pre(ctx):
    """rebuild the harness and re-dump the tower constants from the Rust configs"""
    _gen_regen(ctx)
    _gen3_regen(ctx)
    sh = ctx['sh']
    rc, out = sh('cargo build --offline --bin c02', cwd=ctx['ROOT'] + '/harness', timeout=3000,
                 env={'RUSTFLAGS': '--cfg arkworks_rs_algebra_verif'})
    if rc != 0:
        raise RuntimeError('harness build failed in pre(): params.json not refreshed')
    lines = []
    keys = []
    for cid in sorted(KINDS):
        for k in KINDS[cid]:
            keys.append('%d:%d' % (cid, k))
            lines.append('99:dump %x,%x' % (cid, k))
    rc, out = sh([ctx['BUILD'] + '/target/debug/c02'], inp='\n'.join(lines) + '\n', timeout=300)
    ol = [l for l in out.splitlines() if l.strip()]
    if rc != 0 or len(ol) != len(keys):
        raise RuntimeError('dump failed: rc=%d' % rc)
    d = {}
    for key, l in zip(keys, ol):
        parts = l.split(' ')
        if parts[0] != '0':
            raise RuntimeError('dump of %s returned %s' % (key, parts[0]))
        d[key] = parts[1].split(',')
    old = None
    if os.path.exists(PARAMS_JSON):
        old = json.load(open(PARAMS_JSON))
    if old != d:
        with open(PARAMS_JSON, 'w') as f:
            json.dump(d, f, indent=0, sort_keys=True)
            f.write('\n')
        ctx['notes'].append('params.json regenerated: tower constants changed (or first run)')


def load_params():
    d = json.load(open(PARAMS_JSON))
    return {k: [int(x, 16) for x in v] for k, v in d.items()}


# ---------------------------------------------------------------------------------------
# element classes (coordinates over the prime field, to_base_prime_field_elements order)

def fp_val(rng, p):
    k = rng.randrange(8)
    if k == 0:
        return 1
    if k == 1:
        return p - 1
    if k == 2:
        return rng.choice([2, 3, (p - 1) // 2, (p + 1) // 2, p - 2])
    return rng.randrange(1, p)


def element(rng, p, deg, bdeg):
    """returns (coords, class).  bdeg = degree of the base field of the top extension"""
    k = rng.randrange(16)
    z = [0] * deg
    if k == 0:
        return z, 'zero'
    if k == 1:
        return [1] + [0] * (deg - 1), 'one'
    if k == 2:
        return [p - 1] + [0] * (deg - 1), 'minus_one'
    if k in (3, 4):
        i = rng.randrange(deg)
        z[i] = fp_val(rng, p)
        return z, 'single_coord'
    if k == 5:
        z[0] = fp_val(rng, p)
        return z, 'prime_field'
    if k == 6:
        # element of a proper subfield / sub-tower block: only the first `w` coordinates
        w = rng.choice([d for d in (1, 2, 3, 6) if d < deg and deg % d == 0])
        for i in range(w):
            z[i] = rng.randrange(p)
        return z, 'subtower%d' % w
    if k == 7:
        # (a, -a): second top-level coordinate is the negation of the first
        a = [rng.randrange(p) for _ in range(bdeg)]
        z[:bdeg] = a
        z[bdeg:2 * bdeg] = [(-x) % p for x in a]
        return z, 'a_minus_a'
    if k == 8:
        # (a, a)
        a = [rng.randrange(p) for _ in range(bdeg)]
        z[:bdeg] = a
        z[bdeg:2 * bdeg] = a
        return z, 'a_a'
    if k == 9:
        # only the last top-level coordinate block non-zero
        a = [rng.randrange(p) for _ in range(bdeg)]
        z[deg - bdeg:] = a
        return z, 'top_block_only'
    if k == 10:
        return [p - 1] * deg, 'all_minus_one'
    if k == 11:
        return [rng.choice([0, 1, p - 1]) for _ in range(deg)], 'ternary'
    if k == 12:
        # zero first top-level coordinate
        a = [rng.randrange(p) for _ in range(deg)]
        a[:bdeg] = [0] * bdeg
        return a, 'c0_zero'
    return [rng.randrange(p) for _ in range(deg)], 'random'


def nonzero_element(rng, p, deg, bdeg):
    while True:
        e, c = element(rng, p, deg, bdeg)
        if any(e):
            return e, c


def exponent(rng):
    k = rng.randrange(12)
    if k == 0:
        return [0], 'e0'
    if k == 1:
        return [rng.choice([1, 2, 3, 4, 5, 7])], 'e_small'
    if k == 2:
        return [M64], 'e_all_ones'            # NAF needs the carry out of the top limb
    if k == 3:
        return [M64, M64], 'e_all_ones2'
    if k == 4:
        return [0xd201000000010000], 'e_bls_x'
    if k == 5:
        return [0x5555555555555555], 'e_alt01'   # NAF = binary
    if k == 6:
        return [0xAAAAAAAAAAAAAAAB, 0x2AAAAAAAAAAAAAAA], 'e_alt_long'
    if k == 7:
        return [rng.getrandbits(64), 0], 'e_leading_zero_limb'
    if k == 8:
        return [1 << rng.randrange(64)], 'e_pow2'
    if k == 9:
        return [rng.getrandbits(64), rng.getrandbits(64)], 'e_128'
    return [rng.getrandbits(64)], 'e_64'


def all_elements(p, deg):
    import itertools
    return itertools.product(range(p), repeat=deg)


def gen_exhaustive(rng, tier, P):
    """toy towers: every element / every pair where enumerable"""
    thorough = tier != 'quick'
    def head(cid, kind):
        return [[cid, kind], P['%d:%d' % (cid, kind)]]
    unary = ['square', 'inverse', 'norm', 'neg', 'double']
    # Fp2 over F_7 (NONRESIDUE = -1: complex squaring path, degree-2 multiplication path): all 49^2 pairs
    h = head(10, 2)
    els = [list(e) for e in all_elements(7, 2)]
    for x in els:
        for y in els:
            yield 'mul', h + [x, y], 'toy7/fp2/all_pairs'
        for op in unary + ['conjugate']:
            yield op, h + [x], 'toy7/fp2/all_elements'
        for k in range(0, 4):
            yield 'frobenius_pow', h + [x, [k]], 'toy7/fp2/all_elements'
        if any(x):
            for op in ('cyc_square', 'cyc_inverse'):
                yield op, h + [x, [1]], 'toy7/fp2/all_easy'
            yield 'cyc_exp', h + [x, [1], [rng.randrange(1 << 12)]], 'toy7/fp2/all_easy'
    for y in range(7):
        for z in range(7):
            yield 'mul_nr', h + [[y], [z]], 'toy7/fp2/all_base_pairs'
    # Fp2 over F_13 (NONRESIDUE = 2: general squaring path): all elements; all pairs in thorough
    h = head(11, 2)
    els = [list(e) for e in all_elements(13, 2)]
    for x in els:
        for op in unary + ['conjugate']:
            yield op, h + [x], 'toy13/fp2/all_elements'
        for k in range(0, 3):
            yield 'frobenius_pow', h + [x, [k]], 'toy13/fp2/all_elements'
        ys = els if thorough else [rng.choice(els) for _ in range(6)]
        for y in ys:
            yield 'mul', h + [x, y], 'toy13/fp2/' + ('all_pairs' if thorough else 'sampled_pairs')
    # Fp3 over F_7: all 343 elements; all pairs in thorough
    h = head(12, 3)
    els = [list(e) for e in all_elements(7, 3)]
    for x in els:
        for op in unary:
            yield op, h + [x], 'toy7c/fp3/all_elements'
        for k in range(0, 4):
            yield 'frobenius_pow', h + [x, [k]], 'toy7c/fp3/all_elements'
        ys = els if thorough else [rng.choice(els) for _ in range(4)]
        for y in ys:
            yield 'mul', h + [x, y], 'toy7c/fp3/' + ('all_pairs' if thorough else 'sampled_pairs')
    # Fp4 over F_13 (28561 elements): all elements in thorough, a sample in quick
    h = head(11, 4)
    if thorough:
        xs = (list(e) for e in all_elements(13, 4))
    else:
        xs = ([rng.randrange(13) for _ in range(4)] for _ in range(400))
    for x in xs:
        for op in ('square', 'inverse', 'norm'):
            yield op, h + [x], 'toy13/fp4/' + ('all_elements' if thorough else 'sampled')
        yield 'frobenius_pow', h + [x, [rng.randrange(0, 5)]], 'toy13/fp4/' + ('all_elements' if thorough else 'sampled')
        if any(x):
            yield 'cyc_square', h + [x, [1]], 'toy13/fp4/easy'
    # Fp6 (both shapes) and Fp12 over F_7: random, with sparse second operands (many zero coordinates)
    for (cid, kind) in ((10, 6), (12, 7), (10, 12)):
        h = head(cid, kind)
        deg = DEG[kind]
        for _ in range(4000 if thorough else 250):
            x = [rng.randrange(7) for _ in range(deg)]
            y = [rng.choice([0, 0, rng.randrange(7)]) for _ in range(deg)]
            op = rng.choice(['mul', 'mul', 'square', 'inverse', 'frobenius_pow', 'cyc_square', 'cyc_inverse', 'cyc_exp', 'norm'])
            tag = '%s/%s/dense_x_sparse' % (CURVES[cid], KNAME[kind])
            if op == 'mul':
                yield op, h + [x, y], tag
            elif op == 'frobenius_pow':
                yield op, h + [y, [rng.randrange(0, deg + 1)]], tag
            elif op in ('cyc_square', 'cyc_inverse'):
                if any(x):
                    yield op, h + [x, [1]], tag
            elif op == 'cyc_exp':
                if any(x):
                    yield op, h + [x, [1], [rng.randrange(1 << 20)]], tag
            else:
                yield op, h + [y], tag


# Branches of the anchored Rust code and the generated class that executes each of them:
#  QuadExtField::mul_assign   extension_degree()==2 -> kind 2 (all Fq2, toy Fp2) ; Karatsuba -> kinds 4, 7, 12
#  QuadExtField::square_in_place  NONRESIDUE == -1 -> bls12_381/bn254/toy7 Fq2 ; general -> every other quadratic level
#  QuadExtField::inverse / CubicExtField::inverse  is_zero -> None: class 'zero' ; Alg 5.19 / Alg 17: all other classes
#  DivAssign  inverse().unwrap() panics: class div/by_zero
#  frobenius_map  table index power % degree: classes frob_k0..k(deg-1), powers beyond one period, 1000, 65537
#  CubicExtField::norm  assert!(c1, c2 == 0): executed on every 'norm' case of kinds 3, 6
#  cyclotomic_inverse  is_zero -> None: class cyc/zero ; conjugate: cyc/easy, cyc/one
#  cyclotomic_exp  is_zero shortcut: cyc/zero ; NAF path (kinds 2, 4, 7, 12): negative digits with e_all_ones, e_64, ...;
#                  bit path (kinds 3, 6) ; no non-zero digit at all: e0 ; leading zero limb: e_leading_zero_limb
#  Fp12 cyclotomic_square  Granger-Scott branch: every Fq12 case (guard true for every prime > 3; else-branch unreachable)
#  per-curve overrides of the non-residue methods: op mul_nr on cids 0, 1, 2 (Fq2 and Fq6), 7, 9 (Fq3)
def gen(rng, tier):
    P = load_params()
    for c in gen_exhaustive(rng, tier, P):
        yield c
    scale = 1 if tier == 'quick' else 30
    towers = [(cid, k) for cid in sorted(KINDS) for k in KINDS[cid]]
    for (cid, kind) in towers:
        par = P['%d:%d' % (cid, kind)]
        p = par[0]
        deg, bdeg = DEG[kind], BASEDEG[kind]
        big = p.bit_length() > 400
        w = (0.5 if big else 1.0) * (0.6 if deg >= 12 else 1.0)
        if cid >= 10:
            w = 2.0          # toy towers: tiny case lines, denser sampling
        head = [[cid, kind], par]
        tag = KNAME[kind] + '/'      # the tower id is the first argument of every case (evidence: op x class)

        def E():
            return element(rng, p, deg, bdeg)

        def BE():   # element of the base field of this extension
            if bdeg == 1:
                return [rng.choice([0, 1, p - 1, rng.randrange(p), rng.randrange(p)])], 'b'
            return element(rng, p, bdeg, max(1, bdeg // (2 if kind in (4,) else 3)))

        def n(c):
            return max(1, int(c * scale * w))

        # --- binary ops: mul / add / sub / div with correlated second operands
        # branches: QuadExtField::mul_assign degree-2 path (kind 2) vs Karatsuba (4, 7, 12);
        #           CubicExtField::mul_assign (3, 6)
        for _ in range(n(60)):
            x, cx = E()
            y, _cy = E()
            r = rng.randrange(6)
            cy = 'indep'
            if r == 0:
                y, cy = list(x), 'equal'
            elif r == 1:
                y, cy = [(-v) % p for v in x], 'negated'
            elif r == 2 and kind in QUAD:
                y, cy = x[:bdeg] + [(-v) % p for v in x[bdeg:]], 'conjugate'
            op = rng.choice(['mul', 'mul', 'mul', 'add', 'sub'])
            yield op, head + [x, y], tag + cx + '/' + cy
        for _ in range(n(12)):
            x, cx = E()
            y, cy = E()      # y = 0 exercises `inverse().unwrap()` panicking in div_assign
            yield 'div', head + [x, y], tag + 'div/' + ('by_zero' if not any(y) else 'nonzero')
        # --- unary ops.  square: complex path iff NONRESIDUE == -1 (bls12_381/bn254 Fq2), general
        # path otherwise (all other quadratic levels); CH-SQR2 for cubic levels.
        # inverse: is_zero -> None branch (class zero), Alg 5.19 / Alg 17 otherwise
        for _ in range(n(70)):
            x, cx = E()
            op = rng.choice(['square', 'square', 'inverse', 'inverse', 'neg', 'double', 'norm'])
            yield op, head + [x], tag + cx
        if kind in QUAD:
            for _ in range(n(6)):
                x, cx = E()
                yield 'conjugate', head + [x], tag + cx
        # --- Frobenius: table index = power mod degree (every residue, beyond one period, large)
        for _ in range(n(40)):
            x, cx = E()
            k = rng.choice(list(range(0, 2 * deg + 2)) + [deg * 7 + 1, 1000, 65537])
            yield 'frobenius', head + [x, [k]], tag + 'frob_k%d' % (k % deg)
        # Frobenius by k versus x^(p^k)
        kmax = 3 if (big or deg >= 12) else deg
        for _ in range(n(4) if (big and deg >= 6) or deg >= 12 else n(8)):
            x, cx = E()
            k = rng.randrange(0, kmax + 1)
            yield 'frobenius_pow', head + [x, [k]], tag + 'frobpow_k%d' % k
        # --- multiplication by base-field / prime-field elements
        for _ in range(n(14)):
            x, cx = E()
            e = rng.choice([0, 1, p - 1, rng.randrange(p), rng.randrange(p)])
            yield 'mul_by_fp', head + [x, [e]], tag + cx
        for _ in range(n(14)):
            x, cx = E()
            e, ce = BE()
            ops = ['mul_by_basefield']
            if kind == 4:
                ops.append('mul_by_fp2')
            if kind == 6:
                ops += ['mul_by_fp2', 'mul_assign_by_fp2']
            yield rng.choice(ops), head + [x, e], tag + cx
        # --- the specialisable non-residue methods (per-curve overrides: bls12_381/bls12_377/bn254
        # Fq2 + Fq6, bw6_761/cp6_782 Fq3; structural defaults of Fp4, Fp6 2-over-3, Fp12)
        for _ in range(n(16)):
            y, cy = BE()
            z, cz = BE()
            yield 'mul_nr', head + [y, z], tag + 'mul_nr'
        # --- sparse multiplications
        if kind == 7:
            for _ in range(n(30)):
                x, cx = E()
                s = [rng.choice([0, 1, p - 1, rng.randrange(p), rng.randrange(p), rng.randrange(p)]) for _ in range(3)]
                yield rng.choice(['mul_by_034', 'mul_by_014']), head + [x, s], tag + 'sparse/' + cx + '/nz%d' % sum(1 for v in s if v)
        if kind == 6:
            for _ in range(n(30)):
                x, cx = E()
                e0, c0 = element(rng, p, 2, 1)
                e1, c1 = element(rng, p, 2, 1)
                if rng.randrange(2):
                    yield 'mul_by_1', head + [x, e1], tag + 'sparse/' + cx + '/nz%d' % (1 if any(e1) else 0)
                else:
                    yield 'mul_by_01', head + [x, e0, e1], tag + 'sparse/' + cx + '/nz%d' % ((1 if any(e0) else 0) + (1 if any(e1) else 0))
        if kind == 12:
            for _ in range(n(40)):
                x, cx = E()
                es = [element(rng, p, 2, 1) for _ in range(3)]
                yield (rng.choice(['mul_by_034', 'mul_by_014']), head + [x] + [e for e, _ in es],
                       tag + 'sparse/' + cx + '/nz%d' % sum(1 for e, _ in es if any(e)))
        # --- cyclotomic operations.  mode 0: the element itself (only zero and one: the warning
        # in cyclotomic.rs restricts the domain to the subgroup); mode 1: easy-part output of f.
        # Fp12: Granger-Scott branch (characteristic_square_mod_6_is_one is true for every shipped p)
        for _ in range(n(24)):
            op = rng.choice(['cyc_square', 'cyc_inverse', 'cyc_exp', 'cyc_exp'])
            if rng.randrange(5) == 0:
                x, cx = rng.choice([([0] * deg, 'zero'), ([1] + [0] * (deg - 1), 'one')])
                mode = 0
            else:
                x, cx = nonzero_element(rng, p, deg, bdeg)
                cx = 'easy'
                mode = 1
            if op == 'cyc_exp':
                e, ce = exponent(rng)
                yield op, head + [x, [mode], e], tag + 'cyc/' + cx + '/' + ce
            else:
                yield op, head + [x, [mode]], tag + 'cyc/' + cx


def _bits(case):
    return case['args'][1][0].bit_length()


def xcheck_ok(case):
    """cases cheap enough for in-kernel vm_compute on stdlib Z"""
    kind = case['args'][0][1]
    if _bits(case) < 16:
        return True       # toy towers: everything is cheap
    if case['op'] in ('frobenius_pow',):
        return False      # x^(p^k) on stdlib Z: 4-12 s per case in the kernel
    if case['op'] == 'cyc_exp':
        return kind <= 4 and _bits(case) < 400 and len(case['args'][4]) == 1
    if _bits(case) > 400:
        return False      # 753..782-bit towers: left to the extracted model
    if kind >= 6 and case['op'] in ('inverse', 'div', 'cyc_inverse', 'cyc_square', 'norm'):
        return _bits(case) < 300
    return True


def nontrivial(case, out):
    return any(any(x != 0 for x in a) for a in case['args'][2:3])


XCHECK = {'quick': 144, 'thorough': 480}
RULE = ('every shipped tower (bls12_381/bls12_377/bn254: Fq2, Fq6 3-over-2, Fq12; mnt4_298/753: Fq2, Fq4; '
        'mnt6_298/753, bw6_761/767, cp6_782: Fq3, Fq6 2-over-3; toy towers over F_7 and F_13 enumerated exhaustively: all pairs of Fp2/F_7, all elements of Fp2/F_13 and Fp3/F_7, thorough: all pairs of those and all of Fp4/F_13) x operations x element classes (zero, one, -1, single '
        'non-zero coordinate, prime-field, sub-tower block, (a,-a), (a,a), top block only, all p-1, ternary, zero c0, random) '
        'x correlated second operands (equal, negated, conjugate); cyclotomic inputs = easy-part outputs; '
        'non-trivial = first operand non-zero; distinct = distinct case lines')
TRUSTED = ['prime-field arithmetic of the model is Z modulo p (ZpOps of coq/Base/Field.v); the Montgomery backend '
           'is the subject of C01, not of this package',
           'C15 model of find_naf (imported, frozen) supplies the NAF digits of cyclotomic_exp']
ASSUMPTIONS = ['nested base-field squarings (e.g. Fp2 squarings inside Fp4::norm) are modelled by the base '
               'multiplication, proved equal to the squaring formulas at their own level',
               'characteristic_square_mod_6_is_one is modelled by (p mod 6)^2 mod 6 = 1 (the limb-wise computation '
               'of the code computes a value congruent to p mod 6)',
               'Field::sum_of_products of the prime field is modelled as a0*b0 + a1*b1 (the fused Montgomery '
               'implementation is C01 territory)']
HYPOTHESES = ['ring_theory of the base dictionary (commutative-ring laws of the level below); discharged for '
              'QuadOps/CubicOps over any commutative ring by C02_quadops_ring / C02_cubicops_ring',
              'mul_nr x = nr * x (the specialisable non-residue method multiplies by the non-residue): proved for '
              'every structural default and per-curve override, see C02_nr_* theorems',
              'for inverses: the norm has a multiplicative inverse (n * finv n = 1)',
              'for Frobenius: the base map is a ring homomorphism and the coefficient satisfies c^2 * nr = frob(nr) '
              '(quadratic) / c1^3 * nr = frob(nr), c2 = c1^2 (cubic)',
              'for Granger-Scott: the three Fp4-coordinate relations of the cyclotomic subgroup (gs_cyclotomic)',
              'assembled towers: the constants the per-curve overrides hard-wire (fp2_consts_ok, fp3_consts_ok, '
              'fp6a_consts_ok: e.g. bls12_381 nr2 = -1, nr6 = 1+u) and structural generators as Fp4/Fp6(2/3)/Fp12 non-residues',
              'Frobenius = power (partial): freshman identity (u+v)^n = u^n + v^n in the extension and X^n = c X']

# T-field translator (lib/xlate_field.py): coq/Gen/GenField.v is regenerated from the working tree's source text before
# the Coq build; Props/Gen.v (generated formulas = the models the theorems are about + corollaries) is a strict obligation
STRICT_PROP_FILES = ['Gen', 'Gen3']


def _gen_regen(ctx):
    import importlib.util, os
    sp = importlib.util.spec_from_file_location('gen_pre', os.path.join(ctx['ROOT'], 'props', 'Gen', 'pre.py'))
    m = importlib.util.module_from_spec(sp); sp.loader.exec_module(m)
    m.regen(ctx)



# Fermat / freshman / Frobenius = p^k-th power / Euler for Z_p and the towers over it (coq/NumTh): discharges the
# frobenius_is_pow_partial premises for towers over FpOps p
EXTRA_PROP_FILES = ['NumTh', 'C02Norm']

# T-field translator, table 3 (lib/xlate_field.py --table3): per-curve hook overrides (Fp2/Fp3/Fp6 non-residue hooks,
# mul_by_a), tower helpers (norm, cyclotomic inverse, mul_by_fp*, Frobenius coefficient hooks), SubAssign / cofactor code,
# point serialisation; Props/Gen3.v is a strict obligation
def _gen3_regen(ctx):
    import importlib.util, os
    sp = importlib.util.spec_from_file_location('gen_pre3', os.path.join(ctx['ROOT'], 'props', 'Gen', 'pre3.py'))
    m = importlib.util.module_from_spec(sp); sp.loader.exec_module(m)
    m.regen(ctx)

