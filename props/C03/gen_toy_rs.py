"""One-off generator of the toy field / curve configurations inside harness/src/bin/c03.rs
(between the BEGIN/END GENERATED markers).  Run by hand when toycurves.py changes:
    python3 props/C03/gen_toy_rs.py"""
import re, sys
sys.path.insert(0, '/verif/props/C03')
from toycurves import *


def prim_root(p):
    fs = set(factor(p - 1))
    for g in range(2, p):
        if all(pow(g, (p - 1) // f, p) != 1 for f in fs):
            return g


out = []
fields = {}


def prime_field(m):
    if m not in fields:
        fields[m] = 'F%d' % m
        out.append('#[derive(MontConfig)]\n#[modulus = "%d"]\n#[generator = "%d"]\npub struct F%dConfig;\n'
                   'pub type F%d = Fp64<MontBackend<F%dConfig, 1>>;\n' % (m, prim_root(m), m, m, m))
    return fields[m]


def base_type(F):
    b = prime_field(F.p)
    if F.deg == 1:
        return b
    return '%s_%d' % (b, F.deg)


def lit(F, e):
    b = prime_field(F.p)
    if F.deg == 1:
        return 'MontFp!("%d")' % e[0]
    return '%s::new(%s)' % (base_type(F), ', '.join('MontFp!("%d")' % c for c in e))


prime_field(11); prime_field(7)
out.append('''pub struct F11_2Config;
impl Fp2Config for F11_2Config {
    type Fp = F11;
    const NONRESIDUE: F11 = MontFp!("10");
    const FROBENIUS_COEFF_FP2_C1: &'static [F11] = &[MontFp!("1"), MontFp!("10")];
}
pub type F11_2 = Fp2<F11_2Config>;
pub struct F7_3Config;
impl Fp3Config for F7_3Config {
    type Fp = F7;
    const NONRESIDUE: F7 = MontFp!("2");
    const TWO_ADICITY: u32 = 1;
    const TRACE_MINUS_ONE_DIV_TWO: &'static [u64] = &[85];
    const QUADRATIC_NONRESIDUE_TO_T: Fp3<F7_3Config> = Fp3::<F7_3Config>::new(MontFp!("6"), MontFp!("0"), MontFp!("0"));
    const FROBENIUS_COEFF_FP3_C1: &'static [F7] = &[MontFp!("1"), MontFp!("4"), MontFp!("2")];
    const FROBENIUS_COEFF_FP3_C2: &'static [F7] = &[MontFp!("1"), MontFp!("2"), MontFp!("4")];
}
pub type F7_3 = Fp3<F7_3Config>;
''')

disp_sw, disp_te = [], []
for c in TOY_SW + TOY_TE:
    setup(c)
    F = c.F
    bt = base_type(F)
    st = prime_field(c.r if c.r >= 5 else 7)     # the scalar field is not used by any C03 op
    rr = c.r if c.r >= 5 else 7
    nm = ('Sw%d' if c.kind == 'sw' else 'Te%d') % c.cid
    hinv = pow(c.h, -1, rr) if c.h % rr else 1
    out.append('// %s: %d points, r = %d, cofactor %d\n#[derive(Clone, Default, PartialEq, Eq)]\npub struct %s;' % (c.name, c.n, c.r, c.h, nm))
    out.append('impl CurveConfig for %s {\n    type BaseField = %s;\n    type ScalarField = %s;\n'
               '    const COFACTOR: &\'static [u64] = &[%d];\n    const COFACTOR_INV: %s = MontFp!("%d");\n}'
               % (nm, bt, st, c.h, st, hinv))
    if c.kind == 'sw':
        out.append('impl SWCurveConfig for %s {\n    const COEFF_A: %s = %s;\n    const COEFF_B: %s = %s;\n'
                   '    const GENERATOR: sw::Affine<Self> = sw::Affine::new_unchecked(%s, %s);\n}\n'
                   % (nm, bt, lit(F, c.a), bt, lit(F, c.b), lit(F, c.gen[0]), lit(F, c.gen[1])))
        disp_sw.append('        %d => run_sw::<toy::%s>(op, a),' % (c.cid, nm))
    else:
        amd = F.inv(F.sub(c.a, c.d))
        ma = F.mul(F.smul(2, F.add(c.a, c.d)), amd)
        mb = F.smul(4, amd)
        out.append('impl TECurveConfig for %s {\n    const COEFF_A: %s = %s;\n    const COEFF_D: %s = %s;\n'
                   '    const GENERATOR: te::Affine<Self> = te::Affine::new_unchecked(%s, %s);\n'
                   '    type MontCurveConfig = %s;\n}\nimpl MontCurveConfig for %s {\n    const COEFF_A: %s = %s;\n'
                   '    const COEFF_B: %s = %s;\n    type TECurveConfig = %s;\n}\n'
                   % (nm, bt, lit(F, c.a), bt, lit(F, c.d), lit(F, c.gen[0]), lit(F, c.gen[1]), nm, nm, bt, lit(F, ma), bt, lit(F, mb), nm))
        disp_te.append('        %d => run_te::<toy::%s>(op, a),' % (c.cid, nm))

path = '/verif/harness/src/bin/c03.rs'
s = open(path).read()


def put(s, tag, text):
    b, e = '// BEGIN GENERATED %s\n' % tag, '// END GENERATED %s' % tag
    i, j = s.index(b) + len(b), s.index(e)
    return s[:i] + text + '\n' + s[j:]


s = put(s, 'TOY CONFIGS', '\n'.join(out))
s = put(s, 'TOY SW DISPATCH', '\n'.join(disp_sw))
s = put(s, 'TOY TE DISPATCH', '\n'.join(disp_te))
open(path, 'w').write(s)
print('ok', len(out))
