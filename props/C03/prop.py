"""C03: curve point operations realise the elliptic-curve group law.
Case generator + property metadata.  Case layout (see coq/C03/Run.v):
  [cfg] [p,deg,nr] coeff_a coeff_b|d operands...
Points are raw coordinates; field elements are base-prime-field coordinate lists."""
import sys, os, json
sys.path.insert(0, '/verif/lib')
sys.path.insert(0, os.path.dirname(os.path.abspath(__file__)))
import toycurves as tc

OPS = {
    'sw_params': 1, 'sw_add_sub_eq': 2, 'sw_mixed': 3, 'sw_unary': 4, 'sw_affine': 5, 'sw_batch': 6,
    'sw_sum': 7, 'sw_on_curve': 8,
    'te_params': 11, 'te_add_sub_eq': 12, 'te_mixed': 13, 'te_unary': 14, 'te_affine': 15, 'te_batch': 16,
    'te_sum': 17, 'te_on_curve': 18,
}

HERE = os.path.dirname(os.path.abspath(__file__))


def shipped():
    out = []
    for l in open(HERE + '/shipped.json'):
        l = l.strip()
        if not l:
            continue
        j = json.loads(l)
        p, deg = int(j['field'][0]), int(j['field'][1])
        F = tc.Fld(p, deg, int(j['nr'][0]))
        iv = lambda k: tuple(int(x) for x in j[k])
        if j['kind'] == 'sw':
            c = tc.SW(j['id'], j['name'], F, iv('a'), iv('b'))
        else:
            c = tc.TE(j['id'], j['name'], F, iv('a'), iv('d'))
        c.gen = (iv('gx'), iv('gy'))
        c.r, c.h = int(j['r']), int(j['h'])
        out.append(c)
    return out


def head(c):
    F = c.F
    return [[c.cid], [F.p, F.deg, F.nr], list(c.a), list(c.b if c.kind == 'sw' else c.d)]


# ---------------- representations ----------------
def sw_aff(c, P):
    F = c.F
    if P is None:
        return list(F.zero) * 2 + [1]
    return list(P[0]) + list(P[1]) + [0]


def sw_jac(c, P, lam, idxy=None):
    """Jacobian representative (lam^2 x, lam^3 y, lam); identity = (X, Y, 0) with arbitrary X, Y"""
    F = c.F
    if P is None:
        X, Y = idxy if idxy else (F.one, F.one)
        return list(X) + list(Y) + list(F.zero)
    l2 = F.sq(lam)
    return list(F.mul(l2, P[0])) + list(F.mul(F.mul(l2, lam), P[1])) + list(lam)


def te_aff(c, P):
    return list(P[0]) + list(P[1])


def te_ext(c, P, lam):
    F = c.F
    return list(F.mul(lam, P[0])) + list(F.mul(lam, P[1])) + list(F.mul(lam, F.mul(P[0], P[1]))) + list(lam)


def lam_choices(c, rng, k):
    """k rescaling factors: 1, -1, then random non-zero"""
    F = c.F
    out = [F.one, F.neg(F.one)]
    while len(out) < k:
        out.append(F.rand_nz(rng))
    return out[:k]


def id_xy(c, rng):
    F = c.F
    return rng.choice([(F.one, F.one), (F.zero, F.zero), (F.zero, F.one), (F.rand(rng), F.rand(rng))])


def sw_rep(c, P, rng, mode):
    """mode: 'one' (Z = 1 / canonical identity), 'neg' (Z = -1), 'rnd' (random rescaling, identity with arbitrary X, Y)"""
    F = c.F
    if mode == 'one':
        return sw_jac(c, P, F.one)
    if mode == 'neg':
        return sw_jac(c, P, F.neg(F.one), id_xy(c, rng))
    return sw_jac(c, P, F.rand_nz(rng), id_xy(c, rng))


def te_rep(c, P, rng, mode):
    F = c.F
    if mode == 'one':
        return te_ext(c, P, F.one)
    if mode == 'neg':
        return te_ext(c, P, F.neg(F.one))
    return te_ext(c, P, F.rand_nz(rng))


def sw_pair_class(c, P, Q):
    # which branch of add_assign the pair reaches
    if P is None:
        return 'idL'                      # BRANCH: self.is_zero() -> *self = other
    if Q is None:
        return 'idR'                      # BRANCH: other.is_zero() -> return
    if P == Q:
        # BRANCH: U1 == U2 && S1 == S2 -> double_in_place (Y = 0: 2-torsion, Z3 = 0)
        return 'equal_2tors' if P[1] == c.F.zero else 'equal'
    if P == c.neg(Q):
        return 'opposite'                 # BRANCH: U1 == U2 && S1 != S2 -> zero
    return 'generic'                      # BRANCH: add-2007-bl / madd-2007-bl


def te_ok(c, P, Q):
    """both P + Q and P - Q have non-vanishing denominators (the domain of the unified formulas)"""
    F = c.F
    d1, d2 = c.dens(P, Q)
    return d1 != F.zero and d2 != F.zero          # dens(P, -Q) = (d2, d1)


def te_pair_class(c, P, Q):
    if P == c.ident or Q == c.ident:
        return 'id'
    if P == Q:
        return 'equal'
    if P == c.neg(Q):
        return 'opposite'
    return 'generic'


# ---------------- generators ----------------
def gen_sw_curve(c, pts, rng, pairs, tag, nrep):
    """pairs: list of (P, Q); emits the binary ops"""
    for (P, Q) in pairs:
        cl = '%s/%s/' % (tag, sw_pair_class(c, P, Q))
        modes = [('one', 'one'), ('rnd', 'rnd'), ('neg', 'rnd'), ('rnd', 'one')][:nrep]
        for (m1, m2) in modes:
            yield 'sw_add_sub_eq', head(c) + [sw_rep(c, P, rng, m1), sw_rep(c, Q, rng, m2)], cl + m1 + '-' + m2
        for m1 in ['one', 'rnd'][:max(1, nrep - 1)]:
            yield 'sw_mixed', head(c) + [sw_rep(c, P, rng, m1), sw_aff(c, Q)], cl + m1 + '-aff'
        yield 'sw_affine', head(c) + [sw_aff(c, P), sw_aff(c, Q)], cl + 'aff-aff'


def gen_sw_unary(c, pts, rng, tag, nrep):
    for P in pts:
        cl = '%s/%s/' % (tag, 'id' if P is None else ('2tors' if P[1] == c.F.zero else 'pt'))
        # BRANCH double_in_place: is_zero / a == 0 (deg <= 2 | deg > 2) / a != 0; Y = 0 gives Z3 = 0
        # BRANCH From<Projective>: is_zero / z.is_one() / inversion
        for m in (['one', 'neg'] + ['rnd'] * nrep):
            yield 'sw_unary', head(c) + [sw_rep(c, P, rng, m)], cl + m


def gen_sw_lists(c, pts, rng, tag, n):
    F = c.F
    for _ in range(n):
        ln = rng.choice([0, 1, 1, 2, 3, 5, 8, 17])
        k = rng.randrange(4)
        lst = []
        for _ in range(ln):
            P = rng.choice(pts)
            if k == 1 and rng.randrange(2):
                P = None                     # BRANCH batch inversion: zero entries are skipped
            lst.append(P)
        if k == 2 and lst:
            lst = [None] * len(lst)          # all identities: nothing to invert
        if k == 3 and len(lst) > 1:
            lst[-1] = None                   # identity last / first
            lst[0] = None
        yield 'sw_batch', head(c) + [sw_rep(c, P, rng, rng.choice(['one', 'neg', 'rnd', 'rnd'])) for P in lst], '%s/batch/%s' % (tag, ['mixed', 'some_id', 'all_id', 'id_ends'][k])
        yield 'sw_sum', head(c) + [sw_aff(c, P) for P in lst], '%s/sum/%s' % (tag, ['mixed', 'some_id', 'all_id', 'id_ends'][k])
    # sum through the doubling / opposite branches: [P, P], [P, -P], [P, P, -P]
    for _ in range(max(2, n // 4)):
        P = rng.choice(pts)
        yield 'sw_sum', head(c) + [sw_aff(c, P), sw_aff(c, P), sw_aff(c, c.neg(P)), sw_aff(c, c.neg(P))], tag + '/sum/cancel'


def gen_te_curve(c, rng, pairs, tag, nrep):
    for (P, Q) in pairs:
        if not te_ok(c, P, Q):
            # outside the domain of the unified law (incomplete curve, exceptional pair)
            assert not c.complete, 'vanishing denominator on a complete curve: %s' % c.name
            continue
        cl = '%s/%s/' % (tag, te_pair_class(c, P, Q))
        modes = [('one', 'one'), ('rnd', 'rnd'), ('neg', 'rnd'), ('rnd', 'one')][:nrep]
        for (m1, m2) in modes:
            yield 'te_add_sub_eq', head(c) + [te_rep(c, P, rng, m1), te_rep(c, Q, rng, m2)], cl + m1 + '-' + m2
        for m1 in ['one', 'rnd'][:max(1, nrep - 1)]:
            yield 'te_mixed', head(c) + [te_rep(c, P, rng, m1), te_aff(c, Q)], cl + m1 + '-aff'
        yield 'te_affine', head(c) + [te_aff(c, P), te_aff(c, Q)], cl + 'aff-aff'


def gen_te_unary(c, pts, rng, tag, nrep):
    for P in pts:
        if not te_ok(c, P, P):
            continue
        cl = '%s/%s/' % (tag, 'id' if P == c.ident else ('ord2' if P == c.neg(P) else 'pt'))
        # BRANCH From<Projective>: is_zero / z.is_one() / inversion;  is_zero: (0, z, 0, z) vs (0, -z, 0, z)
        for m in (['one', 'neg'] + ['rnd'] * nrep):
            yield 'te_unary', head(c) + [te_rep(c, P, rng, m)], cl + m


def gen_te_lists(c, sub, rng, tag, n):
    """sub: points whose pairwise sums are all inside the domain (prime-order subgroup / whole complete curve)"""
    for _ in range(n):
        ln = rng.choice([0, 1, 1, 2, 3, 5, 8, 17])
        k = rng.randrange(3)
        lst = [rng.choice(sub) for _ in range(ln)]
        if k == 1:
            lst = [c.ident if rng.randrange(2) else P for P in lst]
        if k == 2 and lst:
            lst = [c.ident] * len(lst)
        yield 'te_batch', head(c) + [te_rep(c, P, rng, rng.choice(['one', 'neg', 'rnd', 'rnd'])) for P in lst], '%s/batch/%s' % (tag, ['mixed', 'some_id', 'all_id'][k])
        # partial sums must stay in the domain
        acc, okk = c.ident, True
        for P in lst:
            if not te_ok(c, acc, P):
                okk = False
                break
            acc = c.add(acc, P)
        if okk:
            yield 'te_sum', head(c) + [te_aff(c, P) for P in lst], '%s/sum/%s' % (tag, ['mixed', 'some_id', 'all_id'][k])


def subgroup(c):
    out, P = [c.ident], c.gen
    while P != c.ident:
        out.append(P)
        P = c.add(P, c.gen)
    return out


def all_pairs(pts):
    return [(P, Q) for P in pts for Q in pts]


def sample_pairs(pts, rng, n, neg):
    out = []
    for _ in range(n):
        P = rng.choice(pts)
        k = rng.randrange(8)
        if k == 0:
            Q = P
        elif k == 1:
            Q = neg(P)
        elif k == 2:
            Q = pts[0]
        elif k == 3:
            P, Q = pts[0], P
        else:
            Q = rng.choice(pts)
        out.append((P, Q))
    return out


def shipped_points(c, rng, n):
    """generator multiples, identity, and (where the cofactor is > 1) points outside the subgroup"""
    G = c.gen
    pts = [c.ident, G, c.add(G, G)]
    pts.append(c.add(pts[-1], G))
    pts.append(c.neg(G))
    for _ in range(n):
        pts.append(c.mul(rng.getrandbits(rng.choice([8, 64, 128])) + 2, rng.choice(pts[1:])))
    if c.h > 1:
        got = 0
        F = c.F
        for _ in range(40):
            if got >= 3:
                break
            x = F.rand(rng)
            Q = c.lift_x(x) if c.kind == 'sw' else c.lift_y(x)
            if Q is not None:
                pts.append(Q)
                got += 1
    return [P for P in pts if P is not None or c.kind == 'sw']


def gen(rng, tier):
    thorough = tier == 'thorough'
    ships = shipped()
    # the constants the model is given are the constants of the code
    for c in tc.TOY_SW + ships:
        if c.kind == 'sw':
            yield 'sw_params', head(c), 'params'
    for c in tc.TOY_TE + ships:
        if c.kind == 'te':
            yield 'te_params', head(c), 'params'

    # ---- toy short Weierstrass curves ----
    for c in tc.TOY_SW:
        pts = tc.setup(c)
        exhaustive = (c.cid in tc.QUICK_SW) or (thorough and len(pts) <= 140)
        tag = c.name
        if exhaustive:
            pairs = all_pairs(pts)
            nrep = 4 if thorough else 3
        else:
            pairs = sample_pairs(pts, rng, 6000 if thorough else 260, c.neg)
            nrep = 3
        yield from gen_sw_curve(c, pts, rng, pairs, tag, nrep)
        upts = pts if (len(pts) <= 140 or thorough) else [pts[0]] + rng.sample(pts, 100) + [P for P in pts if P and P[1] == c.F.zero]
        yield from gen_sw_unary(c, upts, rng, tag, 3 if thorough else 2)
        yield from gen_sw_lists(c, pts, rng, tag, 200 if thorough else 24)
        # is_on_curve over the whole plane (small fields) / a sample
        F = c.F
        if F.q <= 23 or (thorough and F.q <= 125):
            plane = [(x, y) for x in F.all() for y in F.all()]
        else:
            plane = [(F.rand(rng), F.rand(rng)) for _ in range(120)] + [P for P in rng.sample(pts[1:], min(20, len(pts) - 1))]
        for P in plane:
            yield 'sw_on_curve', head(c) + [sw_aff(c, P)], tag + ('/on' if c.on_curve(P) else '/off')

    # ---- toy twisted Edwards curves ----
    for c in tc.TOY_TE:
        pts = tc.setup(c)
        exhaustive = (c.cid in tc.QUICK_TE) or (thorough and len(pts) <= 140)
        tag = c.name
        sub = subgroup(c)
        if exhaustive:
            pairs = all_pairs(pts)
            nrep = 4 if thorough else 3
        else:
            pairs = sample_pairs(pts, rng, 6000 if thorough else 260, c.neg) + all_pairs(sub[:12])
            nrep = 3
        yield from gen_te_curve(c, rng, pairs, tag, nrep)
        yield from gen_te_unary(c, pts if len(pts) <= 140 else rng.sample(pts, 100), rng, tag, 3 if thorough else 2)
        yield from gen_te_lists(c, pts if c.complete else sub, rng, tag, 200 if thorough else 24)
        F = c.F
        if F.q <= 23 or (thorough and F.q <= 125):
            plane = [(x, y) for x in F.all() for y in F.all()]
        else:
            plane = [(F.rand(rng), F.rand(rng)) for _ in range(120)] + rng.sample(pts, min(20, len(pts)))
        for P in plane:
            yield 'te_on_curve', head(c) + [te_aff(c, P)], tag + ('/on' if c.on_curve(P) else '/off')

    # ---- shipped curves ----
    for c in ships:
        tag = c.name
        big = c.F.deg >= 2
        pts = shipped_points(c, rng, (6 if thorough else 3) if big else (16 if thorough else 6))
        npairs = (400 if thorough else 36) if big else (1500 if thorough else 70)
        pairs = sample_pairs(pts, rng, npairs, c.neg)
        # each single non-zero coordinate of the base field enters through the rescalings (separates
        # any linear override of mul_by_a from multiplication by COEFF_A)
        if c.kind == 'sw':
            yield from gen_sw_curve(c, pts, rng, pairs, tag, 3)
            yield from gen_sw_unary(c, pts, rng, tag, 2)
            yield from gen_sw_lists(c, pts, rng, tag, 40 if thorough else 6)
            for P in pts[1:6]:
                yield 'sw_on_curve', head(c) + [sw_aff(c, P)], tag + '/on'
                yield 'sw_on_curve', head(c) + [sw_aff(c, (P[0], c.F.add(P[1], c.F.one)))], tag + '/off'
        else:
            yield from gen_te_curve(c, rng, pairs, tag, 3)
            yield from gen_te_unary(c, pts, rng, tag, 2)
            sub = [P for P in pts[:5 + (16 if thorough else 6)]]
            yield from gen_te_lists(c, sub, rng, tag, 40 if thorough else 6)
            for P in pts[1:6]:
                yield 'te_on_curve', head(c) + [te_aff(c, P)], tag + '/on'
                yield 'te_on_curve', head(c) + [te_aff(c, (P[0], c.F.add(P[1], c.F.one)))], tag + '/off'


def nontrivial(case, out):
    return len(case['args']) > 4 and any(any(x != 0 for x in a) for a in case['args'][4:])


def xcheck_ok(case):
    # kernel re-evaluation: keep to prime fields below 2^260 and short lists
    p = case['args'][1][0]
    return p < (1 << 260) and len(case['args']) <= 12


RULE = ('toy curves (SW: a = 0 / a != 0 / b = 0, cofactor 1, 2, 3, 4, full and cyclic 2-torsion, over F_p, F_p^2, F_p^3; '
        'TE: complete and incomplete): ALL ordered pairs of points x representations {affine, Z = 1, Z = -1, random '
        'rescalings, identity with arbitrary X, Y}; shipped curves: generator multiples, identity, P+P, P+(-P), points '
        'outside the subgroup, rescaled representatives; batch lists with identities anywhere; is_on_curve over the whole '
        'plane of the small fields.  TE pairs whose Edwards denominators vanish (incomplete curves) are outside the '
        'property and skipped.  non-trivial = some operand coordinate non-zero; distinct = distinct case lines')
XCHECK = {'quick': 320, 'thorough': 1600}
TRUSTED = ['toy field/curve configurations inside harness/src/bin/c03.rs are generated from props/C03/toycurves.py '
           '(gen_toy_rs.py); the *_params ops compare modulus, extension structure and coefficients of every configuration '
           'with what the model is given',
           'props/C03/shipped.json (constants of the shipped curves, dumped by `c03 dump`; re-checked by *_params every run)']
ASSUMPTIONS = ['default features (no parallel): normalize_batch uses serial_batch_inversion_and_mul',
               'per-curve overrides of mul_by_a / add_b are modelled as multiplication by COEFF_A / addition of COEFF_B',
               'Field::square/double/sum_of_products are modelled by x*x, x+x, 0 + a0*b0 + a1*b1 (value-level)']
HYPOTHESES = ['field_theory of the dictionary operations (F is a field)', 'feqb decides equality', '1 + 1 <> 0 (characteristic <> 2)']


# pinned theorems that instantiate this package's abstract-field theorems at the executed ZpOps dictionary
EXTRA_PROP_FILES = ['Bridge', 'Bridge2']

# T-field translator (lib/xlate_field.py): coq/Gen/GenField.v is regenerated from the working tree's source text before
# the Coq build; Props/Gen.v (generated formulas = the models the theorems are about + corollaries) is a strict obligation
STRICT_PROP_FILES = ['Gen', 'Gen3']


def _gen_regen(ctx):
    import importlib.util, os
    sp = importlib.util.spec_from_file_location('gen_pre', os.path.join(ctx['ROOT'], 'props', 'Gen', 'pre.py'))
    m = importlib.util.module_from_spec(sp); sp.loader.exec_module(m)
    m.regen(ctx)


def pre(ctx):
    _gen_regen(ctx)
    _gen3_regen(ctx)

# T-field translator, table 3 (lib/xlate_field.py --table3): per-curve hook overrides (Fp2/Fp3/Fp6 non-residue hooks,
# mul_by_a), tower helpers (norm, cyclotomic inverse, mul_by_fp*, Frobenius coefficient hooks), SubAssign / cofactor code,
# point serialisation; Props/Gen3.v is a strict obligation
def _gen3_regen(ctx):
    import importlib.util, os
    sp = importlib.util.spec_from_file_location('gen_pre3', os.path.join(ctx['ROOT'], 'props', 'Gen', 'pre3.py'))
    m = importlib.util.module_from_spec(sp); sp.loader.exec_module(m)
    m.regen(ctx)

