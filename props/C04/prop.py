"""C04: every scalar-multiplication path computes k*P.
Case generator + property metadata.  Case layout (see coq/C04/Run.v):
  [cfg] [p,deg,nr] coeff_a coeff_b|d [r,N,modbits,ovr] glv|_ beta|_ operands...
Points are raw projective coordinates; field elements are base-prime-field coordinate lists;
scalars are integers.  The expected outputs always come from the Coq model; the python curve
arithmetic in toycurves.py (a copy of props/C03/toycurves.py) only *builds inputs* (points)."""
import sys, os, json
sys.path.insert(0, '/verif/lib')
HERE = os.path.dirname(os.path.abspath(__file__))
sys.path.insert(0, HERE)
import toycurves as tc

_BASE = ['params', 'mul_scalar', 'mul_bigint', 'mul_bits_be', 'wnaf_table', 'wnaf_mul', 'wnaf_mul_with_table',
         'glv_params', 'glv_decomp', 'glv_mul', 'fixed_base', 'fixed_base_table', 'batch_mul']
OPS = {}
for _i, _n in enumerate(_BASE):
    OPS['sw_' + _n] = _i + 1
    if not _n.startswith('glv'):
        OPS['te_' + _n] = _i + 21

M64 = (1 << 64) - 1

# toy configurations compiled into harness/src/bin/c04.rs: id -> GLV data (lambda, rows, beta, ovr)
TOY_GLV = {
    1: dict(consts=[7, 5, 2, -2, 3], beta=(9,), ovr=0),
    11: dict(consts=[5, 5, -1, 1, 6], beta=(56,), ovr=0),
    16: dict(consts=[7, 5, 2, -2, 3], beta=(9,), ovr=1),
}
TOY_SW_IDS = [1, 2, 4, 5, 8, 10, 11, 12, 14, 15, 16]
TOY_TE_IDS = [1, 2, 3, 4, 7, 9]
QUICK_EXH_SW = {1, 2, 4, 5, 16}       # all (k, P), k in [0, 4r], in the quick tier
QUICK_EXH_TE = {1, 3}


def limbs(v, n):
    return [(v >> (64 * i)) & M64 for i in range(n)]


def nlimbs(v):
    return max(1, (v.bit_length() + 63) // 64)


class Cfg:
    """a curve configuration as the generator sees it"""
    pass


def finish(c, r, N, modbits, glv):
    c.r, c.N, c.modbits = r, N, modbits
    c.glv = glv
    c.ovr = glv['ovr'] if glv else 0
    return c


def toy_configs():
    out = []
    by_id = {c.cid: c for c in tc.TOY_SW}
    for cid in TOY_SW_IDS:
        if cid == 16:
            b = by_id[1]
            c = tc.SW(16, 'sw13_a0_prime_ovr', b.F, b.a, b.b)
        else:
            c = by_id[cid]
        c.pts = tc.setup(c)
        finish(c, c.r, 1, c.r.bit_length(), TOY_GLV.get(cid))
        out.append(c)
    by_id = {c.cid: c for c in tc.TOY_TE}
    for cid in TOY_TE_IDS:
        c = by_id[cid]
        c.pts = tc.setup(c)
        finish(c, c.r, 1, c.r.bit_length(), None)
        out.append(c)
    return out


def shipped():
    out = []
    for l in open(HERE + '/shipped.json'):
        l = l.strip()
        if not l:
            continue
        j = json.loads(l)
        p, deg = int(j['field'][0]), int(j['field'][1])
        F = tc.Fld(p, deg, int(j['nr'][0]))
        iv = lambda k: tuple(int(x) for x in j[k])
        if j['kind'] == 'sw':
            c = tc.SW(j['id'], j['name'], F, iv('a'), iv('c3'))
        else:
            c = tc.TE(j['id'], j['name'], F, iv('a'), iv('c3'))
        c.gen = (iv('gx'), iv('gy'))
        c.h = int(j['h'])
        g = j['glv']
        glv = None
        if g:
            glv = dict(consts=[int(x) for x in g['consts']], beta=tuple(int(x) for x in g['beta']), ovr=1 if g['ovr'] else 0)
        r, N, modbits = (int(x) for x in j['scalar'])
        finish(c, r, N, modbits, glv)
        out.append(c)
    return out


def head(c):
    F = c.F
    g = c.glv
    return [[c.cid], [F.p, F.deg, F.nr], list(c.a), list(c.b if c.kind == 'sw' else c.d),
            [c.r, c.N, c.modbits, c.ovr], (g['consts'] if g else []), (list(g['beta']) if g else [])]


def K(c):
    return c.kind + '_'


# ---------------- representations ----------------
def rep(c, P, rng, mode):
    """projective representative: 'one' (Z = 1), 'neg' (Z = -1), 'rnd' (random rescaling; the SW
    identity with arbitrary X, Y)"""
    F = c.F
    lam = F.one if mode == 'one' else (F.neg(F.one) if mode == 'neg' else F.rand_nz(rng))
    if c.kind == 'sw':
        if P is None:
            X, Y = (F.one, F.one) if mode == 'one' else rng.choice([(F.zero, F.one), (F.zero, F.zero), (F.rand(rng), F.rand(rng))])
            return list(X) + list(Y) + list(F.zero)
        l2 = F.sq(lam)
        return list(F.mul(l2, P[0])) + list(F.mul(F.mul(l2, lam), P[1])) + list(lam)
    return list(F.mul(lam, P[0])) + list(F.mul(lam, P[1])) + list(F.mul(lam, F.mul(P[0], P[1]))) + list(lam)


def rmode(rng):
    return rng.choice(['one', 'neg', 'rnd', 'rnd'])


def subgroup(c):
    out, P = [c.ident], c.gen
    while True:
        out.append(P)
        P = c.add(P, c.gen)
        if P == c.ident:
            return out


def pclass(c, P, insub):
    if P == c.ident:
        return 'identity'
    return 'sub' if insub else 'outside_subgroup'


def point_pool(c, rng, n):
    """[(P, in_prime_order_subgroup)]: identity, generator, -G, random multiples, and (cofactor > 1)
    points outside the prime-order subgroup"""
    G = c.gen
    pts = [(c.ident, True), (G, True), (c.neg(G), True)]
    for _ in range(n):
        pts.append((c.mul(rng.getrandbits(rng.choice([8, 64, 128])) + 2, G), True))
    if c.h > 1:
        got = 0
        for _ in range(60):
            if got >= 2:
                break
            x = c.F.rand(rng)
            Q = c.lift_x(x) if c.kind == 'sw' else c.lift_y(x)
            if Q is not None and c.mul(c.r, Q) != c.ident:
                pts.append((Q, False))
                got += 1
    return [(P, s) for (P, s) in pts if P is not None or c.kind == 'sw']


# ---------------- scalar classes ----------------
def scalar_classes(rng, r, bits, n_random):
    """(k, class) with 0 <= k; boundary values of the property statement, recoding worst cases"""
    out = [(0, 'k=0'), (1, 'k=1'), (2, 'k=2'), (3, 'k=3'), (r - 1, 'k=r-1'), (r, 'k=r'), (r + 1, 'k=r+1'), (r - 2, 'k=r-2'),
           ((r - 1) // 2, 'k=(r-1)/2'), ((r + 1) // 2, 'k=(r+1)/2')]
    js = sorted({1, 2, 3, 31, 32, 33, 62, 63, 64, 65, 127, 128, 129, bits - 2, bits - 1, bits} | {rng.randrange(1, bits + 1) for _ in range(3)})
    for j in js:
        if 0 < j:
            out.append((1 << j, 'k=2^j'))
            out.append(((1 << j) - 1, 'k=2^j-1'))
            out.append(((1 << j) + 1, 'k=2^j+1'))
    for _ in range(4):
        a, b = sorted([rng.randrange(bits + 1), rng.randrange(bits + 1)])
        out.append(((1 << b) - (1 << a), 'k=run_of_ones'))
    # NAF / wNAF worst cases: 0101.., 011011.., 01110111.. (every window carries), 1010..
    for pat in ['01', '10', '011', '0111', '01111', '0011', '1101']:
        s = (pat * (bits // len(pat) + 1))[:bits]
        out.append((int(s, 2), 'k=naf_pattern_' + pat))
    for _ in range(n_random):
        out.append((rng.getrandbits(bits), 'k=dense'))
        out.append((rng.getrandbits(rng.randrange(1, bits + 1)), 'k=dense_short'))
    return [(k, cl) for (k, cl) in out if k >= 0]


def raw_limb_classes(rng, c, n_random):
    """(limb list, class) for mul_bigint: any length, leading zero limbs, values >= r"""
    N, r = c.N, c.r
    W = 1 << (64 * N)
    out = []
    for (k, cl) in scalar_classes(rng, r, c.modbits, n_random):
        k %= W
        ln = rng.choice([N, N, N, nlimbs(k)])
        out.append((limbs(k, max(ln, nlimbs(k))), cl + '/len=' + ('N' if ln >= N else 'short')))
    out.append(([], 'empty_slice'))
    out.append(([0] * N, 'k=0/zero_limbs'))
    for v, cl in [(W - 1, 'all_ones'), (W - r, 'W-r'), (2 * r % W, '2r'), (W >> 1, 'top_bit'), (rng.getrandbits(64 * N), 'dense_full_width'),
                  (r + rng.getrandbits(c.modbits - 1), '>=r_dense')]:
        out.append((limbs(v, N), 'value>=r/' + cl))
    return out


def long_slices(rng, c, n_random):
    """slices longer than the scalar field's N limbs: leading zero limbs, and (only where the
    product is still the plain k*P, i.e. not behind a mod-r reduction) values >= 2^(64N)"""
    N, r = c.N, c.r
    out = []
    for extra in (1, 2, 3):
        for (k, cl) in [(0, 'k=0'), (1, 'k=1'), (r - 1, 'k=r-1'), (r, 'k=r'), (r + 1, 'k=r+1'), (rng.getrandbits(c.modbits), 'k=dense')][:n_random + 3]:
            out.append((limbs(k, N + extra), 'leading_zero_limbs=%d/%s' % (extra, cl)))
    return out


# Special-case branches of the anchored Rust code and the generated class that executes each:
#   double-and-add: leading zeros skipped ........ every k below 2^(64N-1); 'k=0' (no iteration at all),
#                                                 'empty_slice', 'zero_limbs', 'leading_zero_limbs=*'
#   double-and-add: bit set / clear .............. every class; identity base: pclass 'identity'
#   affine base (mixed add) vs projective base ... mul_scalar / mul_bigint print both paths
#   mul_bits_be skip_while ....................... 'bits/lead0=*' (0, 1, 70 leading zeros, all-zero stream, empty stream)
#   WnafContext::new asserts ..................... 'bad_w' (w = 0, 1, 64)
#   mul_with_table: table too small -> None ...... 'table_one_short', 'table_smaller_window'
#   mul_with_table: found_non_zero / n > 0 / n < 0  every k (negative digits: 'k=2^j-1', 'k=naf_pattern_*', 'k=r-1')
#   mul_with_table: longer (precomputed) table ... 'table_bigger_window', 'table_exact_after_drop'
#   find_wnaf carry out of the top limb (F12) .... secp256k1 'k=r-1' (r within 2^129 of 2^256) with every w
#   glv: sign of k1 / k2 (b1 = -p, b2 = -phi p) .. 'k=dense' on every GLV curve (all four sign combinations occur), toy exhaustive
#   glv: rounding up (2 rem > r) or not ......... toy exhaustive; 'k=dense'
#   glv: skip_zeros on the first (0,0) pair ...... every case (halves are < 2^(64N-1)); k = 0: all pairs (0,0)
#   glv: (1,0) / (0,1) / (1,1) / (0,0) arms ...... 'k=dense'
#   glv override: slice longer than N ............ 'glv_override_long_slice*' (F16)
#   fixed base: window = 3 (< 32 scalars) vs ln .. num_scalars 0, 1, 31 | 32, 33, 1000
#   fixed base: shorter last window .............. max_scalar_size 1, 2, 64, bits-1, bits, bits+7 (remainders 0, 1, 2 mod window)
#   fixed base: bit index >= MODULUS_BIT_SIZE .... max_scalar_size = bits+7; toy curves with bits < window
#   batch_mul: table hint = slice length ......... lengths 0, 1, 2, 31, 32, 33
def gen_curve(c, rng, tier, pool, nk, toy_exhaustive):
    thorough = tier == 'thorough'
    k_ = K(c)
    tag = c.name
    H = head(c)
    sw = c.kind == 'sw'
    in_domain = lambda insub: insub or not c.ovr      # the GLV override is only k*P on the prime-order subgroup (O5)

    def P_(P):
        return rep(c, P, rng, rmode(rng))

    # ---- toy: all (k, P), k in [0, 4r] ----
    if toy_exhaustive:
        sub = set(subgroup(c))
        allpts = c.pts if (c.complete_or_sw) else sorted(sub, key=str)
        for P in allpts:
            insub = P in sub
            pc = pclass(c, P, insub)
            for k in range(0, 4 * c.r + 1):
                cl = '%s/exh/%s' % (tag, pc)
                if in_domain(insub):
                    yield k_ + 'mul_scalar', H + [[k], P_(P)], cl
                    yield k_ + 'mul_bigint', H + [limbs(k, 2 if (k % 3 == 0 and not c.ovr) else 1), P_(P)], cl
                bits = [0] * (k % 4) + [int(b) for b in bin(k)[2:]]
                yield k_ + 'mul_bits_be', H + [bits, P_(P)], cl
                yield k_ + 'wnaf_mul', H + [[2 + k % 4], [k], P_(P)], cl
                if c.glv and insub:
                    yield k_ + 'glv_mul', H + [[k], P_(P)], cl
                if k < c.r:
                    yield k_ + 'fixed_base', H + [[rng.choice([0, 1, 31, 32, 33, 1000]), c.modbits, rng.randrange(2)], [k], P_(P)], cl
        if c.glv:
            for k in range(0, 4 * c.r + 1):
                yield k_ + 'glv_decomp', H + [[k]], tag + '/exh'

    ks = scalar_classes(rng, c.r, c.modbits, nk)
    # ---- Projective * scalar, Affine * scalar ----
    for (k, cl) in ks:
        P, insub = rng.choice(pool)
        if not in_domain(insub):
            P, insub = pool[1]
        yield k_ + 'mul_scalar', H + [[k], P_(P)], '%s/%s/%s' % (tag, cl, pclass(c, P, insub))
    # ---- mul_bigint on raw limb slices ----
    for (l, cl) in raw_limb_classes(rng, c, nk):
        P, insub = rng.choice(pool)
        if not in_domain(insub):
            P, insub = pool[1]
        yield k_ + 'mul_bigint', H + [l, P_(P)], '%s/%s/%s' % (tag, cl, pclass(c, P, insub))
    for (l, cl) in long_slices(rng, c, 1 if not thorough else 3):
        P, insub = rng.choice(pool)
        if c.ovr:
            # KNOWN FINDING F16: from_sign_and_limbs asserts len <= N
            yield k_ + 'mul_bigint', H + [l, P_(pool[1][0])], 'glv_override_long_slice/%s/%s' % (tag, cl)
        else:
            yield k_ + 'mul_bigint', H + [l, P_(P)], '%s/%s/%s' % (tag, cl, pclass(c, P, insub))
    if not c.ovr:
        for _ in range(3):
            P, insub = rng.choice(pool)
            ln = c.N + rng.choice([1, 2])
            v = rng.getrandbits(64 * ln)
            yield k_ + 'mul_bigint', H + [limbs(v, ln), P_(P)], '%s/value>=2^(64N)/%s' % (tag, pclass(c, P, insub))
    # ---- mul_bits_be ----
    for (k, cl) in ks[:: (1 if thorough else 3)]:
        P, insub = rng.choice(pool)
        lead = rng.choice([0, 0, 1, 70])
        bits = [0] * lead + ([int(b) for b in bin(k)[2:]] if k else [0] * rng.randrange(3))
        yield k_ + 'mul_bits_be', H + [bits, P_(P)], '%s/bits/lead0=%d/%s/%s' % (tag, lead, cl, pclass(c, P, insub))
    yield k_ + 'mul_bits_be', H + [[], P_(pool[1][0])], tag + '/bits/empty_stream'
    # ---- windowed NAF ----
    ws = list(range(2, 10))
    for w in ws:
        if thorough or w in (2, 3, 5, 9) or c.cid < 100:
            P, insub = rng.choice(pool)
            yield k_ + 'wnaf_table', H + [[w], P_(P)], '%s/wnaf_table/w=%d/%s' % (tag, w, pclass(c, P, insub))
    for (k, cl) in ks:
        for w in (ws if thorough else [rng.choice(ws), rng.choice([2, 3, 4])]):
            P, insub = rng.choice(pool)
            yield k_ + 'wnaf_mul', H + [[w], [k], P_(P)], '%s/wnaf/w=%d/%s/%s' % (tag, w, cl, pclass(c, P, insub))
    for (k, cl) in ks[:: (2 if thorough else 7)]:
        P, insub = rng.choice(pool)
        w = rng.choice(ws[:-1])
        half = 1 << (w - 1)
        variants = [([w, w, 0], 'table_exact'), ([w, w + 1, 0], 'table_bigger_window'), ([w, w, 1], 'table_one_short'),
                    ([w, w + 1, half], 'table_exact_after_drop'), ([w, w + 1, half + 1], 'table_one_short_after_drop')]
        if w > 2:
            variants.append(([w, w - 1, 0], 'table_smaller_window'))
        for (v, vc) in variants:
            yield k_ + 'wnaf_mul_with_table', H + [v, [k], P_(P)], '%s/wnaf/%s/w=%d/%s/%s' % (tag, vc, w, cl, pclass(c, P, insub))
    for w in (0, 1, 64):
        yield k_ + 'wnaf_mul', H + [[w], [5], P_(pool[1][0])], tag + '/wnaf/bad_w'
        yield k_ + 'wnaf_table', H + [[w], P_(pool[1][0])], tag + '/wnaf_table/bad_w'
    yield k_ + 'wnaf_mul_with_table', H + [[64, 3, 0], [5], P_(pool[1][0])], tag + '/wnaf/bad_w'
    # ---- GLV ----
    if c.glv:
        subpool = [(P, s) for (P, s) in pool if s]
        for (k, cl) in ks:
            yield k_ + 'glv_decomp', H + [[k]], '%s/glv/%s' % (tag, cl)
            P, _ = rng.choice(subpool)
            yield k_ + 'glv_mul', H + [[k], P_(P)], '%s/glv/%s/%s' % (tag, cl, pclass(c, P, True))
    # ---- fixed-base batch multiplication ----
    bits = c.modbits
    sizes = [1, 2, 64, bits - 1, bits, bits + 7]
    nss = [0, 1, 31, 32, 33, 1000]
    combos = [(ns, mss) for ns in nss for mss in sizes if mss >= 1]
    if not thorough and c.cid >= 100:
        combos = [(ns, mss) for (ns, mss) in combos if rng.randrange(3) == 0 or (ns, mss) in ((1000, bits), (33, bits + 7), (0, 1))]
    for (ns, mss) in combos:
        P, insub = rng.choice(pool)
        top = min(1 << mss, c.r)
        kk = sorted({0, 1 % top, top - 1, rng.randrange(top), rng.randrange(top)})
        if mss >= 2:
            kk.append((1 << (min(mss, top.bit_length() - 1))) - 1)
        kk = [k for k in kk if k < top]
        yield k_ + 'fixed_base', H + [[ns, mss, 0], kk, P_(P)], '%s/fixed_base/ns=%d/size=%s/%s' % (tag, ns, size_class(mss, bits), pclass(c, P, insub))
    for ns in nss:
        P, insub = rng.choice(pool)
        kk = [k % c.r for (k, _) in rng.sample(ks, 4)]
        yield k_ + 'fixed_base', H + [[ns, 0, 1], kk, P_(P)], '%s/fixed_base/new/ns=%d/%s' % (tag, ns, pclass(c, P, insub))
    if c.cid < 100 or thorough:
        for (ns, mss) in [(0, 1), (1, bits), (32, bits + 7), (1000, bits), (33, 2)]:
            P, insub = rng.choice(pool)
            yield k_ + 'fixed_base_table', H + [[ns, mss], P_(P)], '%s/fixed_base_table/ns=%d/size=%s' % (tag, ns, size_class(mss, bits))
    for ln in ([0, 1, 2, 31, 32, 33] if (thorough or c.cid < 100) else [0, 2, 33]):
        P, insub = rng.choice(pool)
        kk = [rng.choice(ks)[0] % c.r for _ in range(ln)]
        yield k_ + 'batch_mul', H + [kk, P_(P)], '%s/batch_mul/len=%d/%s' % (tag, ln, pclass(c, P, insub))


def size_class(mss, bits):
    return {bits - 1: 'bits-1', bits: 'bits', bits + 7: 'bits+7'}.get(mss, str(mss))


def gen(rng, tier):
    thorough = tier == 'thorough'
    toys = toy_configs()
    ships = shipped()
    # the constants the model is given are the constants of the code
    for c in toys + ships:
        yield K(c) + 'params', head(c), 'params'
        if c.glv:
            yield 'sw_glv_params', head(c), 'params'
    for c in toys:
        c.complete_or_sw = c.kind == 'sw' or bool(getattr(c, 'complete', False))
        sub = subgroup(c)
        subset = set(sub)
        if c.complete_or_sw:
            pool = [(P, P in subset) for P in c.pts]
        else:
            pool = [(P, True) for P in sub]       # incomplete Edwards curve: the law is only total on the odd-order subgroup
        if pool[0][0] != c.ident or pool[1][0] == c.ident:
            pool = [(c.ident, True), (c.gen, True)] + pool
        exh = (thorough and len(c.pts) <= 140) or (c.cid in (QUICK_EXH_SW if c.kind == 'sw' else QUICK_EXH_TE))
        yield from gen_curve(c, rng, tier, pool, 6 if thorough else 2, exh)
    for c in ships:
        c.complete_or_sw = True
        pool = point_pool(c, rng, 4 if thorough else 2)
        yield from gen_curve(c, rng, tier, pool, 40 if thorough else 3, False)


def extra(ctx, cases, lines, impl_out, model_out):
    """the cached constants are the current ones: shipped.json = `c04 dump`, GlvShipped.v = its GLV part"""
    out = []
    rc, dump = ctx['sh']([ctx['hbin_path'], 'dump'], timeout=300)
    if rc != 0 or dump.strip() != open(HERE + '/shipped.json').read().strip():
        out.append(({'case': {'op': 'sw_params', 'args': [], 'class': 'stale/shipped.json'}, 'line': '',
                     'why': 'props/C04/shipped.json differs from `c04 dump` (a shipped constant changed): regenerate it and coq/C04/GlvShipped.v'}, 'stale'))
    import gen_glv_shipped
    if gen_glv_shipped.text() != open(ctx['COQ'] + '/C04/GlvShipped.v').read():
        out.append(({'case': {'op': 'sw_glv_params', 'args': [], 'class': 'stale/GlvShipped.v'}, 'line': '',
                     'why': 'coq/C04/GlvShipped.v is not the output of props/C04/gen_glv_shipped.py'}, 'stale'))
    return out


def xcheck_ok(case):
    # kernel cross-check on toy-curve cases only (vm_compute on 256..761-bit fields is slow)
    return case['args'][0][0] < 100 and len(case['args']) <= 11 and sum(len(a) for a in case['args']) < 200


def nontrivial(case, out):
    return any(any(x != 0 for x in a) for a in case['args'][7:])


RULE = ('toy curves: all (k, P) with k in [0, 4r] through every path; every curve: scalar classes 0, 1, 2, r-1, r, r+1, '
        '2^j, 2^j+-1, runs of ones, NAF worst-case patterns, dense x points (identity, generator, random multiples, points '
        'outside the prime-order subgroup for non-GLV paths) in random projective representations x windows 2..9 x table '
        'variants x fixed-base sizings; non-trivial = some operand after the configuration header is non-zero; '
        'distinct = distinct case lines')
XCHECK = {'quick': 300, 'thorough': 1500}
TRUSTED = ['toy / shipped curve constants are given to the model as case arguments and compared with the Rust constants by the '
           '*_params ops every run (props/C04/shipped.json is only a cache of `c04 dump`)',
           'the curve arithmetic underneath (C03 models, Base.Field dictionaries) is the subject of C03 / C01 / C02',
           'num-bigint div_rem (truncating) inside scalar_decomposition is modelled by Z.quot / Z.rem']
ASSUMPTIONS = ['default features (serial batch normalisation), dev profile with overflow checks',
               'points on GLV paths (glv_mul_*, and mul_bigint / `*` on curves whose mul_projective is overridden with GLV) are '
               'taken from the prime-order subgroup (observation O5)']
HYPOTHESES = ['affine_law_is_group: the target of the interpretation (A, add, neg, zero) is a commutative group (associativity of '
              'the elliptic-curve law is classical and not re-proved)',
              'realises: the projective / affine operations are homomorphic images of that law (what C03 proves for on-curve '
              'representatives)',
              'glv premises: lattice rows n_i1 + lambda n_i2 = 0 (mod r); phi(P) = lambda P; r P = 0; halves below 2^(64N-1)']

# pinned theorems that discharge this package's group-level premises for the concrete C03 curve dictionaries
EXTRA_PROP_FILES = ['Link', 'Assoc']
