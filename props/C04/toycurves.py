"""Toy curve tables for C03 (shared by prop.py and the one-off Rust config generator
gen_toy_rs.py).  Fields: F_p, F_p[u]/(u^2-nr), F_p[u]/(u^3-nr); field elements are tuples of
deg ints.  Pure-python field / curve helpers used to *enumerate inputs* (the oracle is the
Coq model, not this file)."""
import itertools


class Fld:
    def __init__(self, p, deg=1, nr=0):
        self.p, self.deg, self.nr = p, deg, nr % p
        self.zero = (0,) * deg
        self.one = (1,) + (0,) * (deg - 1)
        self.q = p ** deg
        self._z = None

    def el(self, *c):
        c = list(c) + [0] * (self.deg - len(c))
        return tuple(x % self.p for x in c)

    def add(self, a, b):
        return tuple((x + y) % self.p for x, y in zip(a, b))

    def sub(self, a, b):
        return tuple((x - y) % self.p for x, y in zip(a, b))

    def neg(self, a):
        return tuple((-x) % self.p for x in a)

    def mul(self, a, b):
        p, nr = self.p, self.nr
        if self.deg == 1:
            return ((a[0] * b[0]) % p,)
        if self.deg == 2:
            return ((a[0] * b[0] + nr * a[1] * b[1]) % p, (a[0] * b[1] + a[1] * b[0]) % p)
        return ((a[0] * b[0] + nr * (a[1] * b[2] + a[2] * b[1])) % p,
                (a[0] * b[1] + a[1] * b[0] + nr * a[2] * b[2]) % p,
                (a[0] * b[2] + a[1] * b[1] + a[2] * b[0]) % p)

    def sq(self, a):
        return self.mul(a, a)

    def pow(self, a, e):
        r = self.one
        while e:
            if e & 1:
                r = self.mul(r, a)
            a = self.mul(a, a)
            e >>= 1
        return r

    def inv(self, a):
        if self.deg == 1:
            return (pow(a[0], -1, self.p),)
        if self.deg == 2:
            n = pow((a[0] * a[0] - self.nr * a[1] * a[1]) % self.p, -1, self.p)
            return ((a[0] * n) % self.p, (-a[1] * n) % self.p)
        return self.pow(a, self.q - 2)

    def smul(self, k, a):
        return tuple((k * x) % self.p for x in a)

    def all(self):
        return [tuple(reversed(t)) for t in itertools.product(range(self.p), repeat=self.deg)]

    def rand(self, rng):
        return tuple(rng.randrange(self.p) for _ in range(self.deg))

    def rand_nz(self, rng):
        while True:
            r = self.rand(rng)
            if r != self.zero:
                return r

    def is_square(self, a):
        return a == self.zero or self.pow(a, (self.q - 1) // 2) == self.one

    def nonresidue(self):
        if self._z is None:
            k = 2
            while True:
                cand = tuple(((k >> (4 * i)) & 0xf) % self.p for i in range(self.deg)) if self.deg > 1 else (k % self.p,)
                if cand != self.zero and not self.is_square(cand):
                    self._z = cand
                    break
                k += 1
        return self._z

    def sqrt(self, a):
        """Tonelli-Shanks in F_q; None when a is not a square"""
        if a == self.zero:
            return a
        if not self.is_square(a):
            return None
        s, t = 0, self.q - 1
        while t % 2 == 0:
            s += 1; t //= 2
        c = self.pow(self.nonresidue(), t)
        x = self.pow(a, (t + 1) // 2)
        b = self.pow(a, t)
        m = s
        while b != self.one:
            i, b2 = 0, b
            while b2 != self.one:
                b2 = self.sq(b2); i += 1
            e = self.pow(c, 1 << (m - i - 1))
            x = self.mul(x, e)
            c = self.sq(e)
            b = self.mul(b, c)
            m = i
        return x


class SW:
    kind = 'sw'

    def __init__(self, cid, name, fld, a, b, gen=None, r=None, h=None):
        self.cid, self.name, self.F, self.a, self.b, self.gen, self.r, self.h = cid, name, fld, fld.el(*a), fld.el(*b), gen, r, h
        self.ident = None

    def rhs(self, x):
        F = self.F
        return F.add(F.add(F.mul(F.sq(x), x), F.mul(self.a, x)), self.b)

    def on_curve(self, P):
        return P is None or self.F.sq(P[1]) == self.rhs(P[0])

    def points(self):
        """all affine points (None = infinity first)"""
        F = self.F
        roots = {}
        for y in F.all():
            roots.setdefault(F.sq(y), []).append(y)
        pts = [None]
        for x in F.all():
            for y in roots.get(self.rhs(x), []):
                pts.append((x, y))
        return pts

    def neg(self, P):
        return None if P is None else (P[0], self.F.neg(P[1]))

    def add(self, P, Q):
        F = self.F
        if P is None:
            return Q
        if Q is None:
            return P
        if P[0] == Q[0]:
            if F.add(P[1], Q[1]) == F.zero:
                return None
            l = F.mul(F.add(F.smul(3, F.sq(P[0])), self.a), F.inv(F.smul(2, P[1])))
        else:
            l = F.mul(F.sub(Q[1], P[1]), F.inv(F.sub(Q[0], P[0])))
        x3 = F.sub(F.sub(F.sq(l), P[0]), Q[0])
        return (x3, F.sub(F.mul(l, F.sub(P[0], x3)), P[1]))

    def mul(self, k, P):
        R = None
        if k < 0:
            k, P = -k, self.neg(P)
        while k:
            if k & 1:
                R = self.add(R, P)
            P = self.add(P, P)
            k >>= 1
        return R

    def lift_x(self, x):
        y = self.F.sqrt(self.rhs(x))
        return None if y is None else (x, y)


class TE:
    kind = 'te'

    def __init__(self, cid, name, fld, a, d, gen=None, r=None, h=None, complete=None):
        self.cid, self.name, self.F, self.a, self.d, self.gen, self.r, self.h = cid, name, fld, fld.el(*a), fld.el(*d), gen, r, h
        self.complete = complete
        self.ident = (fld.zero, fld.one)

    def on_curve(self, P):
        F = self.F
        x2, y2 = F.sq(P[0]), F.sq(P[1])
        return F.add(F.mul(self.a, x2), y2) == F.add(F.one, F.mul(self.d, F.mul(x2, y2)))

    def points(self):
        F = self.F
        els = F.all()
        return [(x, y) for x in els for y in els if self.on_curve((x, y))]

    def neg(self, P):
        return (self.F.neg(P[0]), P[1])

    def dens(self, P, Q):
        F = self.F
        k = F.mul(self.d, F.mul(F.mul(P[0], Q[0]), F.mul(P[1], Q[1])))
        return F.add(F.one, k), F.sub(F.one, k)

    def add(self, P, Q):
        """Edwards law; None when a denominator vanishes (or an operand is already None)"""
        F = self.F
        if P is None or Q is None:
            return None
        d1, d2 = self.dens(P, Q)
        if d1 == F.zero or d2 == F.zero:
            return None
        x3 = F.mul(F.add(F.mul(P[0], Q[1]), F.mul(P[1], Q[0])), F.inv(d1))
        y3 = F.mul(F.sub(F.mul(P[1], Q[1]), F.mul(self.a, F.mul(P[0], Q[0]))), F.inv(d2))
        return (x3, y3)

    def mul(self, k, P):
        R = self.ident
        if k < 0:
            k, P = -k, self.neg(P)
        while k:
            if k & 1:
                R = self.add(R, P)
            k >>= 1
            if k:
                P = self.add(P, P)
        return R

    def lift_y(self, y):
        F = self.F
        y2 = F.sq(y)
        den = F.sub(self.a, F.mul(self.d, y2))
        if den == F.zero:
            return None
        x = F.sqrt(F.mul(F.sub(F.one, y2), F.inv(den)))
        return None if x is None else (x, y)


F11, F13, F17, F19, F23, F101, F103 = (Fld(p) for p in (11, 13, 17, 19, 23, 101, 103))
F11_2 = Fld(11, 2, 10)      # F_121 = F_11[u]/(u^2+1)
F7_3 = Fld(7, 3, 2)         # F_343 = F_7[u]/(u^3-2)

# cid, name, field, a, b
TOY_SW = [
    SW(1, 'sw13_a0_prime', F13, (0,), (2,)),          # a = 0, 19 points, cofactor 1
    SW(2, 'sw19_a0_h4', F19, (0,), (12,)),            # a = 0, 28 points, full 2-torsion
    SW(3, 'sw13_a0_h3', F13, (0,), (4,)),             # a = 0, 21 points, cofactor 3
    SW(4, 'sw11_a1_prime', F11, (1,), (6,)),          # a != 0, 13 points
    SW(5, 'sw17_a1_h2', F17, (1,), (4,)),             # 14 points, one point of order 2
    SW(6, 'sw23_a1_h4', F23, (1,), (15,)),            # 20 points, full 2-torsion
    SW(7, 'sw17_a1_z4', F17, (1,), (11,)),            # 20 points, cyclic 4-part
    SW(8, 'sw17_a3_b0', F17, (3,), (0,)),             # b = 0 branch of add_b, (0,0) has order 2
    SW(9, 'sw19_am3_prime', F19, (16,), (12,)),       # a = -3, 19 points
    SW(10, 'sw101_am3_prime', F101, (98,), (6,)),     # 109 points
    SW(11, 'sw103_a0_h4', F103, (0,), (3,)),          # a = 0, 124 points, full 2-torsion
    SW(12, 'sw103_a1_h4', F103, (1,), (7,)),          # 92 points
    SW(13, 'sw121_a0', F11_2, (0,), (1, 1)),          # over F_121, a = 0, 100 points, full 2-torsion
    SW(14, 'sw121_a', F11_2, (3, 1), (2, 2)),         # over F_121, a != 0 (both coordinates), 132 points
    SW(15, 'sw343_a0', F7_3, (0,), (0, 1, 0)),        # over F_343, a = 0 (381 points): extension degree > 2 path of D
]
QUICK_SW = {1, 2, 4, 5, 6, 8}        # exhaustively enumerated in the quick tier

TOY_TE = [
    TE(1, 'te13_m1_complete', F13, (12,), (6,), complete=True),     # a = -1 square, d non-square
    TE(2, 'te17_1_complete', F17, (1,), (7,), complete=True),
    TE(3, 'te19_a5_complete', F19, (5,), (2,), complete=True),
    TE(4, 'te19_m1_incomplete', F19, (18,), (7,), complete=False),  # a = -1 non-square, d square; 26 affine points, group order 28
    TE(5, 'te17_a3_incomplete', F17, (3,), (5,), complete=False),   # a, d non-squares; 18 affine points, group order 20
    TE(6, 'te23_m1_incomplete', F23, (22,), (6,), complete=False),
    TE(7, 'te101_a5_complete', F101, (5,), (2,), complete=True),
    TE(8, 'te103_m1_incomplete', F103, (102,), (2,), complete=False),   # 90 affine points, r = 23
    TE(10, 'te19_1_dsq_incomplete', F19, (1,), (6,), complete=False),  # a, d squares; 20 affine points, group order 24, r = 3
    TE(9, 'te121_complete', F11_2, (1,), (1, 1), complete=True),    # over F_121, 104 points
]
QUICK_TE = {1, 2, 3, 4, 5, 10}


def factor(n):
    f, d = [], 2
    while d * d <= n:
        while n % d == 0:
            f.append(d); n //= d
        d += 1
    if n > 1:
        f.append(n)
    return f


def sw_mul_raw(c, k, P):
    return SW.mul(c, k, P)


def setup(c):
    """fills n (affine points incl. identity) / r / h / generator (a point of exact prime order r
    whose multiples never hit a vanishing denominator) of a toy curve; returns its points"""
    pts = c.points()
    n = len(pts)
    c.n = n
    best = None
    for P in pts:
        if P == c.ident:
            continue
        Q, k = P, 1
        while k <= n + 4:
            Q = c.add(Q, P)
            k += 1
            if Q is None or Q == c.ident:
                break
        if Q == c.ident and len(factor(k)) == 1 and k >= 3 and (best is None or k > best[0]):
            best = (k, P)
    c.r, c.gen = best
    c.h = n // c.r if n % c.r == 0 else 4
    return pts
