"""C05: multi-scalar multiplication equals sum k_i*P_i for every shape and history.
Case generator + property metadata.  Case layout (see coq/C05/Run.v):
  [cfg,kind] [p] [a] [b|d] [r,num_bits,N] params scalars bases_flat
Points are affine coordinates (SW: x, y, infinity flag; TE: x, y); the result is one affine point.
Pairing target groups (kind 2 = Fp12, 3 = Fp4): [cfg,kind] [p] [nr2] [nr6 c0,c1] [r,num_bits,N] params scalars bases_flat,
elements are their 12 (4) base-prime-field coordinates.
Python curve arithmetic below only *builds inputs* (on-curve points, negatives, subgroup members);
expected outputs always come from the Coq model."""
import sys, os, json
sys.path.insert(0, '/verif/lib')
sys.path.insert(0, '/verif/props/C03')          # toycurves.py (frozen helper of package C03)
import toycurves as tc
sys.path.insert(0, '/verif/props/C10')          # tower.py: plain tower-field arithmetic (frozen helper of package C10)
from tower import target_field, fpow

OPS = {'params': 1, 'msm': 2, 'msm_unchecked': 3, 'msm_bigint': 4, 'msm_signed': 5, 'msm_plain': 6,
       'msm_chunks': 7, 'make_digits': 8, 'chunked': 9, 'hashmap': 10,
       'msm_chunks_long': 11}

M64 = (1 << 64) - 1


class Cfg:
    def __init__(self, cid, curve, r, gen, toy):
        self.cid, self.c, self.r, self.gen, self.toy = cid, curve, r, gen, toy
        self.kind = 0 if curve.kind == 'sw' else 1
        self.nb = r.bit_length()
        self.N = 1 if toy else 4
        self.name = curve.name

    def head(self):
        c = self.c
        return [[self.cid, self.kind], [c.F.p], list(c.a), list(c.b if c.kind == 'sw' else c.d), [self.r, self.nb, self.N]]

    def flat(self, pts):
        out = []
        for P in pts:
            if self.kind == 0:
                out += [0, 0, 1] if P is None else [P[0][0], P[1][0], 0]
            else:
                out += [P[0][0], P[1][0]]
        return out


def configs():
    F = tc.Fld
    out = [
        Cfg(1, tc.SW(1, 'toy_sw17_r7_h2', F(17), (1,), (4,)), 7, ((4,), (2,)), True),
        Cfg(2, tc.SW(2, 'toy_sw13_a0_r19', F(13), (0,), (2,)), 19, ((1,), (4,)), True),
        Cfg(3, tc.SW(3, 'toy_sw101_r109', F(101), (98,), (6,)), 109, ((0,), (39,)), True),
        Cfg(4, tc.TE(4, 'toy_te19_r7_h4', F(19), (5,), (2,), complete=True), 7, ((4,), (9,)), True),
        Cfg(5, tc.TE(5, 'toy_te101_r29_h4', F(101), (5,), (2,), complete=True), 29, ((1,), (2,)), True),
    ]
    ship = {}
    for l in open('/verif/props/C03/shipped.json'):
        l = l.strip()
        if l:
            j = json.loads(l)
            ship[j['name']] = j
    for cid, nm in ((10, 'bls12_381_g1'), (12, 'secp256k1')):
        j = ship[nm]
        Fp = F(int(j['field'][0]))
        out.append(Cfg(cid, tc.SW(cid, nm, Fp, (int(j['a'][0]),), (int(j['b'][0]),)), int(j['r']),
                       ((int(j['gx'][0]),), (int(j['gy'][0]),)), False))
    # ark_test_curves::ed_on_bls12_381 (a = -1, d = 10240/10241 as written in test-curves/src/ed_on_bls12_381/g.rs)
    q = 52435875175126190479447740508185965837690552500527637822603658699938581184513
    out.append(Cfg(11, tc.TE(11, 'tc_ed_on_bls12_381', F(q), (q - 1,),
                             (19257038036680949359750312669786877991949435402254120286184196891950884077233,), complete=True),
                   6554484396890773809930967563523245729705921265872317281365359162392183254199,
                   ((8076246640662884909881801758704306714034609987455869804520522091855516602923,),
                    (13262374693698910701929044844600465831413122818447359594527400194675274060458,)), False))
    for g in out:
        assert g.c.on_curve(g.gen), g.name
    return sorted(out, key=lambda g: g.cid)


def subgroup(g):
    """the r multiples of the generator (toy curves)"""
    c = g.c
    out, P = [c.ident], g.gen
    while P != c.ident:
        out.append(P)
        P = c.add(P, g.gen)
    assert len(out) == g.r
    return out


def pool(g, rng, n):
    """points of the prime-order subgroup of a shipped curve: small multiples of the generator,
    their negatives, a few large multiples (built with additions only)"""
    c = g.c
    G = g.gen
    pts = [G, c.add(G, G)]
    for _ in range(n):
        pts.append(c.add(pts[-1], rng.choice(pts[:2])))
    big = c.mul(rng.getrandbits(200) + 5, G)
    pts += [big, c.add(big, G), c.neg(G), c.neg(big)]
    return pts


# ---------------- scalars ----------------
def scalar(rng, g, bigint):
    """one scalar and its class; field-element scalars are < r, big-integer scalars < 2^num_bits"""
    r, nb = g.r, g.nb
    top = (1 << nb) if bigint else r
    k = rng.randrange(12)
    if k == 0:
        return 0, 'zero'                  # BRANCH plain: zero scalars filtered / wnaf: all digits 0
    if k == 1:
        return 1, 'one'                   # BRANCH plain: unit scalar handled once (w_start == 0)
    if k == 2:
        return r - 1, 'r-1'
    if k == 3:
        return (1 << rng.randrange(nb)) % top, 'pow2'
    if k == 4:
        return ((1 << rng.randrange(1, nb + 1)) - 1) % top, 'ones'      # long carry chains in make_digits
    if k == 5 and bigint:
        return top - 1, 'bigint_all_ones'   # BRANCH make_digits: carry folded into the last digit (digit = 2^w)
    if k == 6 and bigint and top > r:
        return rng.randrange(r, top), 'bigint>=r'
    if k == 7:
        return rng.randrange(min(top, 8)), 'tiny'
    if k == 8:
        # every window exactly at the recentring threshold 2^(c-1) (c = 3)
        v = 0
        for i in range(0, nb, 3):
            v |= 4 << i
        return v % top, 'threshold_windows'
    if k == 9 and nb > 64:
        # 64-bit limb patterns: a fast path keyed on one limb (low limb 1, a zero limb, an all-ones limb) must not speak
        # for the whole integer; windows that straddle a limb boundary read both limbs
        v = 0
        for i in range((nb + 63) // 64):
            v |= rng.choice([0, 1, (1 << 64) - 1, 1 << 63, rng.getrandbits(64)]) << (64 * i)
        if v % top:
            return v % top, 'limb_pattern'
    if k == 10 and nb > 64:
        v = (1 + (rng.randrange(1, 1 << (nb - 64)) << 64))
        if v < top:
            return v, 'low_limb_one'      # 1 + m 2^64: not the unit scalar
    if k == 11 and nb > 64:
        j = 64 * rng.randrange(1, (nb + 63) // 64)
        v = rng.choice([1 << j, (1 << j) - 1, (1 << j) + 1, 3 << (j - 1), ((1 << 6) - 1) << (j - 3)])
        if 0 < v < top:
            return v, 'limb_boundary'     # bits on both sides of a limb boundary
    return rng.randrange(top), 'random'


def scalars(rng, g, n, bigint):
    mode = rng.randrange(6)
    if mode == 0:
        k, cl = scalar(rng, g, bigint)
        return [k] * n, 'all_' + cl
    if mode == 1:
        return [rng.choice([0, 1, g.r - 1]) for _ in range(n)], 'special_mix'
    out = [scalar(rng, g, bigint)[0] for _ in range(n)]
    return out, 'mixed'


def bases(rng, g, pts, n):
    """pts: candidate points; classes: random, all equal (buckets hit the doubling branch), identity inside,
    negatives of each other (buckets cancel to the identity), all identity"""
    c = g.c
    mode = rng.randrange(7)
    if n == 0:
        return [], 'empty'
    if mode == 0:
        P = rng.choice(pts)
        return [P] * n, 'all_equal'
    if mode == 1:
        out = [rng.choice(pts) for _ in range(n)]
        for _ in range(1 + n // 8):
            out[rng.randrange(n)] = c.ident
        return out, 'some_identity'
    if mode == 2:
        out = []
        while len(out) < n:
            P = rng.choice(pts)
            out += [P, c.neg(P)]
        return out[:n], 'neg_pairs'
    if mode == 3:
        return [c.ident] * n, 'all_identity'
    if mode == 4:
        few = [rng.choice(pts) for _ in range(2)]
        return [rng.choice(few) for _ in range(n)], 'two_distinct'
    return [rng.choice(pts) for _ in range(n)], 'random'


def case(g, op, par, ks, bs):
    return op, g.head() + [par, list(ks), g.flat(bs)]


MSM_OPS_FIELD = ['msm', 'msm_unchecked', 'msm_chunks']
MSM_OPS_BIG = ['msm_bigint', 'msm_signed', 'msm_plain']


def limbs(v, n):
    return [(v >> (64 * i)) & M64 for i in range(n)]


# ---------------- make_digits ----------------
def gen_digits(rng, count):
    """BRANCHES of make_digits:
       window inside one limb (bit_idx < 64 - w) ............ every w, small i
       window ending exactly at a limb border (bit_idx == 64 - w, else-branch reading the next limb whose bits
         are then masked away) ............................... w | 64: w in {2, 4, 8, 16}
       window straddling two limbs ........................... w not dividing 64, N >= 2
       last limb (u64_idx == len - 1) with bit_idx >= 64 - w . num_bits = 64N, 64N - 1
       carry = 1 / carry = 0, carry chain up to the last digit 'ones', 'all_ones', 'threshold'
       last digit absorbs the carry (digit = 2^w possible) .... 'all_ones' with w | num_bits
       num_bits == 0 -> a.num_bits() ........................... 'nb0' (incl. a = 0: no digits at all)"""
    for _ in range(count):
        N = rng.choice([1, 1, 2, 2, 3, 4, 4, 6])
        w = rng.choice(list(range(2, 17)))
        nbs = [64 * N, 64 * N - 1, 64 * N - w, 64 * N - w + 1, 1, w, w + 1, 2 * w, 63, 64, 65, 127, 128, 129, 252, 255,
               256, 381, rng.randrange(1, 64 * N + 1)]
        nb = rng.choice([x for x in nbs if 1 <= x <= 64 * N])
        top = 1 << nb
        k = rng.randrange(9)
        if k == 0:
            v, cl = 0, 'zero'
        elif k == 1:
            v, cl = top - 1, 'all_ones'
        elif k == 2:
            v, cl = (1 << rng.randrange(1, nb + 1)) - 1, 'ones'
        elif k == 3:
            v, cl = 0, 'threshold'
            for i in range(0, nb, w):
                v |= ((1 << (w - 1)) - rng.choice([0, 0, 1])) << i
            v %= top
        elif k == 4:
            v, cl = 1 << rng.randrange(nb), 'pow2'
        elif k == 5:
            v, cl = sum((M64 if (i + rng.randrange(2)) % 2 else 0) << (64 * i) for i in range(N)) % top, 'alt_limbs'
        elif k == 6:
            v, cl = top >> 1, 'top_bit'
        else:
            v, cl = rng.getrandbits(nb), 'random'
        if rng.randrange(10) == 0:
            nb_arg, cl = 0, cl + '/nb0'
            if rng.randrange(3) == 0:
                v = rng.getrandbits(64 * N)          # with num_bits = 0 every value is in the domain
        else:
            nb_arg = nb
        yield 'make_digits', [[0, 0], [0], [0], [0], [0, 0, N], [w, nb_arg], limbs(v, N), []], 'digits/w%d/%s' % (w, cl)


# ---------------- generator ----------------
def gen(rng, tier):
    thorough = tier == 'thorough'
    cfgs = configs()
    for g in cfgs:
        yield case(g, 'params', [], [], []) + ('params',)

    yield from gen_digits(rng, 20000 if thorough else 700)

    toys = [g for g in cfgs if g.toy]
    ships = [g for g in cfgs if not g.toy]
    pts_all, pts_sub = {}, {}
    for g in toys:
        pts_all[g.cid] = g.c.points()
        pts_sub[g.cid] = subgroup(g)
    for g in ships:
        pts_sub[g.cid] = pts_all[g.cid] = [g.c.ident] + pool(g, rng, 40 if thorough else 24)

    # ---- exhaustive on toy curves: n = 0, n = 1 (every point incl. identity and points outside the subgroup,
    #      every big integer below 2^num_bits), n = 2 on the r = 7 curves ----
    for g in toys:
        for op in MSM_OPS_FIELD + MSM_OPS_BIG:
            yield case(g, op, [], [], []) + ('toy/n0/' + op,)                     # BRANCH size = 0
        big_ops = MSM_OPS_BIG if (thorough or g.cid in (1, 2, 4)) else ['msm_signed', 'msm_plain']
        n1pts = pts_all[g.cid]
        if not thorough and len(n1pts) > 40:
            n1pts = [n1pts[0]] + rng.sample(n1pts[1:], 24)
        for P in n1pts:
            for k in range(1 << g.nb):
                for op in big_ops:
                    yield case(g, op, [], [k], [P]) + ('toy/n1/' + op,)
                if k < g.r and (thorough or g.cid in (1, 4)):
                    for op in MSM_OPS_FIELD:
                        yield case(g, op, [], [k], [P]) + ('toy/n1/' + op,)
    for g in toys:
        if g.cid not in (1, 4):
            continue
        pts = pts_all[g.cid] if thorough else pts_sub[g.cid]
        top = (1 << g.nb) if thorough else g.r
        for P in pts:
            for Q in pts:
                for k1 in range(top):
                    for k2 in range(top):
                        yield case(g, 'msm_signed', [], [k1, k2], [P, Q]) + ('toy/n2/msm_signed',)
                        yield case(g, 'msm_plain', [], [k1, k2], [P, Q]) + ('toy/n2/msm_plain',)
    if thorough:
        g = toys[0]
        pts = pts_sub[g.cid]
        for P in pts:
            for Q in pts[1:3]:
                for R in pts[1:4]:
                    for k1 in range(g.r):
                        for k2 in range(g.r):
                            for k3 in (0, 1, 3, 6):
                                yield case(g, 'msm_signed', [], [k1, k2, k3], [P, Q, R]) + ('toy/n3/msm_signed',)
                                yield case(g, 'msm_plain', [], [k1, k2, k3], [P, Q, R]) + ('toy/n3/msm_plain',)

    # ---- lengths around the window-size rule, every entry point ----
    # BRANCH size < 32 -> c = 3 (31); else ln_without_floats + 2: 32 -> 5, 33 -> 6, 100 -> 6, 257 -> 8, 1025 -> 9
    reps = 6 if thorough else 1
    for g in cfgs:
        lens = [0, 1, 2, 3, 31, 32, 33, 100, 257]
        if thorough and g.toy:
            lens += [1023, 1025]
        for n in lens:
            for op in MSM_OPS_FIELD + MSM_OPS_BIG:
                nrep = reps * (2 if (g.toy or n <= 33) else 1)
                if not thorough and not g.toy and n >= 100 and op not in ('msm', 'msm_signed', 'msm_plain'):
                    continue
                for _ in range(nrep):
                    big = op in MSM_OPS_BIG
                    ks, ck = scalars(rng, g, n, big)
                    bs, cb = bases(rng, g, pts_all[g.cid] if big or g.toy else pts_sub[g.cid], n)
                    yield case(g, op, [], ks, bs) + ('%s/len%d/%s/%s/%s' % ('toy' if g.toy else g.name, n, op, ck, cb),)

    # ---- mismatched lengths: checked -> Err(min); unchecked / bigint -> truncated to the shorter;
    #      msm_chunks: longer bases -> the LAST len(scalars) bases are used, longer scalars -> assertion ----
    pairs = [(0, 1), (1, 0), (1, 2), (2, 1), (2, 3), (5, 0), (0, 5), (31, 32), (32, 31), (32, 33), (33, 32), (33, 100), (40, 7)]
    for g in cfgs:
        for (nbases, nscal) in pairs:
            if not g.toy and not thorough and max(nbases, nscal) > 33:
                continue
            for op in MSM_OPS_FIELD + MSM_OPS_BIG:
                for _ in range(reps):
                    big = op in MSM_OPS_BIG
                    ks, ck = scalars(rng, g, nscal, big)
                    bs, cb = bases(rng, g, pts_all[g.cid], nbases)
                    yield case(g, op, [], ks, bs) + ('%s/mismatch_%d_%d/%s' % ('toy' if g.toy else g.name, nbases, nscal, op),)

    # ---- accumulators: every history is new(size); add^n; finalize ----
    # BRANCH add: len == buf_size -> flush (sizes 1, 2, n-1, n, n/2), never (n+1, 0: the length is >= 1 after the push)
    # BRANCH finalize: buffer empty (flushed on the last add: size divides n; n = 0) / non-empty
    # BRANCH hashmap: new key / existing key (merge, sum wraps mod r, sum = 0 stays in the map as a zero scalar)
    for g in cfgs:
        ns = [0, 1, 2, 3, 5, 8, 12, 33, 40] if g.toy else ([0, 1, 2, 5, 33] + ([40, 70] if thorough else []))
        for n in ns:
            sizes = sorted(set(s for s in [0, 1, 2, 3, n - 1, n, n + 1, n // 2, 32, 33] if s >= 0))
            for size in sizes:
                if not g.toy and not thorough and n >= 33 and size in (1, 2, 3):
                    continue
                for _ in range(reps):
                    ks, ck = scalars(rng, g, n, True)
                    bs, cb = bases(rng, g, pts_all[g.cid], n)
                    yield case(g, 'chunked', [size, rng.randrange(2)], ks, bs) + ('%s/chunked/n%d/size%s/%s' % (
                        'toy' if g.toy else g.name, n, sizeclass(n, size), cb),)
                    # hashmap: bases in the prime-order subgroup (premise r*P = 0), few distinct keys
                    sub = pts_sub[g.cid]
                    keys = [rng.choice(sub) for _ in range(rng.choice([1, 2, 3, 5, 40]))]
                    bs = [rng.choice(keys) for _ in range(n)]
                    ks, ck = scalars(rng, g, n, False)
                    cl = 'merge'
                    if n >= 2 and rng.randrange(3) == 0:
                        # same base with k and r - k: the entry becomes 0 and stays in the map
                        i, j = rng.sample(range(n), 2)
                        bs[j] = bs[i]
                        ks[j] = (g.r - ks[i]) % g.r
                        cl = 'cancel'
                    elif n >= 2 and rng.randrange(3) == 0:
                        i, j = rng.sample(range(n), 2)
                        bs[j] = bs[i]
                        ks[i] = ks[j] = g.r - 1          # sum wraps modulo r
                        cl = 'wrap'
                    distinct = len(set(bs))
                    yield case(g, 'hashmap', [size], ks, bs) + ('%s/hashmap/n%d/keys%s/%s' % (
                        'toy' if g.toy else g.name, n, sizeclass(distinct, size), cl),)
    yield from gen_long(rng, cfgs, pts_sub, thorough)
    yield from gen_gt(rng, thorough)


def gen_long(rng, cfgs, pts_sub, thorough):
    """msm_chunks on a stream LONGER than the hard-coded chunk size 2^20 (the chunk loop runs twice; the second chunk
    must pair ITS bases with ITS scalars): the stream is given intensionally (see Run.v op 11); non-zero scalars sit at
    the chunk border (2^20 - 1, 2^20, 2^20 + 1), at the very end and at a few random places, everything else is 0."""
    STEP = 1 << 20
    # the toy curve with the LARGEST prime order (109): a wrong sum coincides with the right one with probability 1/r
    gs = sorted([g for g in cfgs if g.toy], key=lambda g: -g.r)[:1] + ([g for g in cfgs if not g.toy][:1] if thorough else [])
    for g in gs:
        sub = [P for P in pts_sub[g.cid] if P != g.c.ident][:7] or pts_sub[g.cid]      # 7 distinct non-identity bases, cyclic
        for extra in ([9] if not thorough else [1, 9, 4097]):
            n = STEP + extra
            idxs = sorted({0, 1, STEP - 1, STEP, n - 1, rng.randrange(2, STEP - 1)} | ({STEP + 1} if extra > 2 else set()))
            ks = [rng.choice([1, 2, g.r - 1, rng.randrange(1, g.r)]) for _ in idxs]
            # more bases than scalars (the leading bases are skipped once) / equal lengths
            more = rng.choice([3, 1]) if (thorough or extra == 9) else 0
            yield case(g, 'msm_chunks_long', [n, more] + idxs, ks, sub) + ('%s/msm_chunks_long/n=2^20+%d/bases+%d' % ('toy' if g.toy else g.name, extra, more),)
            if thorough:
                yield case(g, 'msm_chunks_long', [n, 0] + idxs, ks, sub) + ('%s/msm_chunks_long/n=2^20+%d/bases+0' % ('toy' if g.toy else g.name, extra),)


# ---------------- pairing target groups (PairingOutput<P>: zero = 1, + = product in the target field) ----------------
class GtCfg:
    """gt.json: tower constants and g = e(G1 generator, G2 generator) as printed by the harness op `params`
    (regenerate: echo '1:params <cid hex>,2 0 0 0 0 _ _ _' | build/target/debug/c05, fields 8 and 6); every run compares
    them with the real constants again through the `params` case."""
    toy = False

    def __init__(self, cid, e):
        self.cid, self.name, self.p, self.tower = cid, e['name'], e['p'], e['tower']
        self.kind = 2 if self.tower == 12 else 3
        self.nr2, self.nr6 = e['nr2'], list(e['nr6'])
        self.r, self.nb, self.N = e['r'], e['nb'], e['N']
        self.F = target_field(self.p, self.tower, self.nr2, self.nr6)
        self.g = self.F.el(e['g'])
        self.ident = self.F.one()

    def head(self):
        return [[self.cid, self.kind], [self.p], [self.nr2], self.nr6, [self.r, self.nb, self.N]]

    def flat(self, els):
        out = []
        for x in els:
            out += self.F.co(x)
        return out

    def inv(self, x):
        """inverse on the cyclotomic subgroup = conjugation over the quadratic top level"""
        return (x[0], self.F.B.neg(x[1]))

    def pool(self, rng):
        """non-identity elements of the order-r subgroup: g, g^2, .. g^9, g^-1 = g^(r-1), g^-2, two large powers and their inverses"""
        F = self.F
        small = [self.g]
        for _ in range(8):
            small.append(F.mul(small[-1], self.g))
        big = [fpow(F, self.g, rng.randrange(1 << (self.nb - 2), self.r)) for _ in range(2)]
        assert F.mul(self.g, self.inv(self.g)) == F.one() and fpow(F, self.g, self.r) == F.one()
        return small + [self.inv(small[0]), self.inv(small[1])] + big + [self.inv(b) for b in big]


def gt_configs():
    d = json.load(open('/verif/props/C05/gt.json'))
    return [GtCfg(int(k), d[k]) for k in sorted(d, key=int)]


def gt_bases(rng, G, pool, n, mode=None):
    """identity (= 1) at the first / middle / last position (an identity base must still consume ITS scalar), several
    identities, all identity, repeated bases (bucket doubling), inverse pairs (buckets cancel to 1), random"""
    one = G.ident
    if n == 0:
        return [], 'empty'
    modes = ['ident_first', 'ident_middle', 'ident_last', 'ident_multi', 'all_identity', 'all_equal', 'inv_pairs',
             'two_distinct', 'random', 'random']
    mode = mode or rng.choice(modes)
    out = [rng.choice(pool) for _ in range(n)]
    if mode == 'ident_first':
        out[0] = one
    elif mode == 'ident_middle':
        out[n // 2 if n > 2 else 0] = one
    elif mode == 'ident_last':
        out[-1] = one
    elif mode == 'ident_multi':
        for _ in range(2 + n // 8):
            out[rng.randrange(n)] = one
        out[rng.randrange(max(1, n - 1))] = one            # one of them not last
    elif mode == 'all_identity':
        out = [one] * n
    elif mode == 'all_equal':
        out = [rng.choice(pool)] * n
    elif mode == 'inv_pairs':
        out = []
        while len(out) < n:
            P = rng.choice(pool)
            out += [P, G.inv(P)]
        out = out[:n]
    elif mode == 'two_distinct':
        few = [rng.choice(pool) for _ in range(2)]
        out = [rng.choice(few) for _ in range(n)]
    return out, mode


def gt_scalars(rng, G, n, bigint, full):
    """small scalars mostly; `full`: the classes of the curve groups (r-1, 2^j, runs of ones, >= r for big integers, random).
    Distinct non-zero values whenever possible, so that a base paired with a neighbour's scalar changes the product."""
    if full:
        return scalars(rng, G, n, bigint)
    k = rng.randrange(4)
    if k == 0:
        return [rng.choice([0, 1, G.r - 1]) for _ in range(n)], 'special_mix'
    if k == 1:
        return [rng.randrange(8) for _ in range(n)], 'tiny'
    ks = rng.sample(range(1, 64 + n), n)
    return ks, 'small_distinct'


def gen_gt(rng, thorough):
    ALL = MSM_OPS_FIELD + MSM_OPS_BIG
    for G in gt_configs():
        yield ('params', G.head() + [[], [], G.F.co(G.g)], 'params/gt')
        pool = G.pool(rng)
        # ark_bls12_381 runs the same generic code as the ark_test_curves engine: a thin slice in the quick tier
        thin = (G.cid == 21) and not thorough
        reps = 6 if thorough else (1 if thin else 2)
        lens = [0, 1, 2, 3, 5, 31, 32, 33] + ([100, 257] if thorough else [])
        if thin:
            lens = [0, 2, 5]
        tag = G.name

        def mk(op, n, mode=None, nb=None, full=None):
            big = op in MSM_OPS_BIG
            if full is None:
                full = rng.randrange(4) == 0
            ks, ck = gt_scalars(rng, G, n, big, full)
            bs, cb = gt_bases(rng, G, pool, n if nb is None else nb, mode)
            return ks, bs, ck, cb

        # ---- every entry point x lengths 0, 1, 2, 3, 5, 33 (window rule: 3 below 32, 6 at 33) ----
        for n in lens:
            for op in ALL:
                for _ in range(reps * (2 if n <= 5 else 1)):
                    ks, bs, ck, cb = mk(op, n)
                    yield case(G, op, [], ks, bs) + ('%s/len%d/%s/%s/%s' % (tag, n, op, ck, cb),)
        # ---- the identity base at every position class, every entry point, distinct non-zero scalars ----
        for mode in ('ident_first', 'ident_middle', 'ident_last', 'ident_multi'):
            for n in ([3] if thin else [2, 3, 5]):
                for op in ALL:
                    for _ in range(reps):
                        ks, bs, ck, cb = mk(op, n, mode, full=False)
                        ks = rng.sample(range(1, 200), n) if rng.randrange(3) else [rng.randrange(1, G.r) for _ in range(n)]
                        yield case(G, op, [], ks, bs) + ('%s/%s/n%d/%s' % (tag, mode, n, op),)
        # ---- full-size scalars: r-1 (g^(r-1) = g^-1), all ones, >= r for the big-integer entry points ----
        if not thin:
            for op in ALL:
                big = op in MSM_OPS_BIG
                top = (1 << G.nb) if big else G.r
                for ks, cl in (([G.r - 1, 1], 'r-1'), ([top - 1, G.r - 1, 2], 'top'),
                               ([rng.randrange(top) for _ in range(3)], 'random_full')):
                    bs = [pool[0]] + [rng.choice(pool) for _ in ks[1:]]
                    yield case(G, op, [], ks, bs) + ('%s/fullsize/%s/%s' % (tag, cl, op),)
        # ---- mismatched lengths ----
        pairs = [(1, 2), (2, 1), (0, 2), (2, 0), (3, 5), (5, 3)] + ([(33, 32), (32, 33)] if thorough else [])
        if thin:
            pairs = [(2, 3), (3, 2)]
        for (nbases, nscal) in pairs:
            for op in ALL:
                ks, bs, ck, cb = mk(op, nscal, nb=nbases, full=False)
                yield case(G, op, [], ks, bs) + ('%s/mismatch_%d_%d/%s' % (tag, nbases, nscal, op),)
        # ---- accumulators ----
        for n in ([3] if thin else [0, 1, 2, 3, 5] + ([33] if thorough else [])):
            sizes = sorted(set(s for s in [0, 1, 2, n - 1, n, n + 1] if s >= 0))
            if thin:
                sizes = [1, 2]
            for size in sizes:
                ks, bs, ck, cb = mk('msm_bigint', n)
                yield case(G, 'chunked', [size, rng.randrange(2)], ks, bs) + ('%s/chunked/n%d/size%s/%s' % (tag, n, sizeclass(n, size), cb),)
                keys = [rng.choice(pool + [G.ident]) for _ in range(rng.choice([1, 2, 3]))]
                bs = [rng.choice(keys) for _ in range(n)]
                ks, ck = gt_scalars(rng, G, n, False, rng.randrange(3) == 0)
                cl = 'merge'
                if n >= 2 and rng.randrange(2) == 0:
                    i, j = rng.sample(range(n), 2)
                    bs[j] = bs[i]
                    if rng.randrange(2):
                        ks[j] = (G.r - ks[i]) % G.r
                        cl = 'cancel'
                    else:
                        ks[i] = ks[j] = G.r - 1
                        cl = 'wrap'
                yield case(G, 'hashmap', [size], ks, bs) + ('%s/hashmap/n%d/keys%s/%s' % (tag, n, sizeclass(len(set(bs)), size), cl),)


def sizeclass(n, size):
    if size == 0:
        return '=0(never flushes)'
    if size == n:
        return '=n'
    if size == n + 1:
        return '=n+1'
    if size == n - 1:
        return '=n-1'
    if size > n:
        return '>n'
    return '=%d' % size if size <= 3 else '<n'


def nontrivial(case, out):
    return case['op'] != 'params' and len(case['args'][6]) > 0 and any(x != 0 for x in case['args'][6])


def xcheck_ok(case):
    # kernel re-evaluation on toy-curve cases only (and make_digits)
    a = case['args']
    if case['op'] == 'make_digits':
        return True
    if case['op'] == 'msm_chunks_long':
        return False
    if a[0][0] >= 20:
        # pairing target groups: in the kernel (stdlib Z) only Fp4 cases with at most two small scalars (~1 s each; one
        # full-size exponent over Fp12 takes minutes there)
        return case['op'] != 'params' and a[0][1] == 3 and len(a[6]) <= 2 and len(a[7]) <= 8 and all(k < 256 for k in a[6])
    return a[0][0] < 10 and len(a[6]) <= 12 and len(a[7]) <= 36


RULE = ('toy curves (SW a = 0 / a != 0, cofactor 1 and 2, TE complete; r = 7, 19, 29, 109): n = 0, n = 1 exhaustive over every '
        'point x every big integer below 2^num_bits, n = 2 exhaustive on the r = 7 curves for both bucket methods; all '
        'configurations incl. bls12_381 G1, ed_on_bls12_381, secp256k1: lengths 0,1,2,3,31,32,33,100,257 x six entry points x '
        'scalar classes (0, 1, r-1, 2^j, runs of ones, all ones, >= r for big integers, threshold windows) x base classes '
        '(all equal, identities, negatives of each other, two distinct); mismatched length pairs; accumulator histories '
        'with buffer sizes 0, 1, 2, 3, n/2, n-1, n, n+1, 32, 33; make_digits for w in 2..16, N in 1..6, num_bits around limb '
        'borders.  Pairing target groups PairingOutput<P> (ark_test_curves bls12_381 and ark_bls12_381: Fp12, ark_mnt4_298: Fp4; '
        'zero = 1, + = product): every entry point and both accumulators, lengths 0,1,2,3,5,31,32,33, bases = powers of '
        'e(G1,G2) incl. g^-1 = g^(r-1), repeated bases, inverse pairs and the identity at the first / middle / last position '
        'with distinct non-zero scalars, scalars tiny / 0,1,r-1 / full size / >= r, mismatched length pairs.  '
        'non-trivial = some scalar non-zero; distinct = distinct case lines')
XCHECK = {'quick': 300, 'thorough': 1500}
TRUSTED = ['toy curve configurations inside harness/src/bin/c05.rs (hand-written; the `params` op compares modulus, '
           'coefficients, scalar modulus, MODULUS_BIT_SIZE, limb count and NEGATION_IS_CHEAP of every configuration with '
           'what the model is given)',
           'props/C03/toycurves.py and props/C03/shipped.json only build inputs (on-curve points)',
           'the verif_hooks module of ec/src/scalar_mul/variable_base/mod.rs forwards to the private functions',
           'props/C05/gt.json (tower constants and g = e(G1,G2) of the pairing engines: inputs; the `params` case compares the '
           'modulus, u^2, v^2, v^3, w^2, r, MODULUS_BIT_SIZE, limb count, NEGATION_IS_CHEAP, g and g * conj g = 1 with the real code) '
           'and props/C10/tower.py (plain tower arithmetic) only build inputs (powers of g)']
ASSUMPTIONS = ['default features (no parallel)',
               'BigInt ==, is_zero, >>=, as_ref()[0], num_bits are modelled at value level (their limb-level models are C15)',
               'scalar_digits.chunks(digits_count) is modelled as the per-scalar digit vectors',
               'the hash map is an association list; its iteration order is not observable in the result',
               'curve arithmetic = the C03 model (coq/C03/CurveExec.v)',
               'pairing target group: target-field product = the schoolbook tower of Base/Field.v (the Karatsuba / sparse '
               'algorithms of ff are C02), cyclotomic_inverse = conjugation, cyclotomic_square (Granger-Scott for Fp12) = square: '
               'equal on the cyclotomic subgroup (C02_zp_fp12_cyc_square_partial), which contains every generated base']
HYPOTHESES = ['commutative-group laws of the abstract group (A, +, -, 0) (assoc, comm, 0 + x = x, x + (-x) = 0)',
              'the dictionary operations gadd/gmadd/gmsub/gdbl/gzero are homomorphic to that group through an interpretation `den`',
              'hashmap: r * den(P) = 0 for every base (prime-order subgroup) and the base equality test is sound',
              'C05_gt_*: the ring below the quadratic top level of the target field is a commutative ring (ring_theory) with a '
              'correct equality test; carrier = norm-one elements x * conj x = 1']

# pinned theorems that discharge this package's group-level premises for the concrete C03 curve dictionaries
EXTRA_PROP_FILES = ['Link', 'Assoc']
