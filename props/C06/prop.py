"""C06: pairings (BLS12 both twist types, BN, BW6, MNT4, MNT6).  Case generator + metadata.

Model-level ops (families with an executable Coq model: BLS12, BN) compare the raw Miller
loop output and the final exponentiation coordinate by coordinate; law-level ops (all
engines) evaluate a relation with the public Rust API and compare with the model's
specified answer (all true)."""
import sys, os, json
sys.path.insert(0, '/verif/lib')

OPS = {
    'multi_pairing': 1, 'multi_miller_loop': 2, 'final_exp': 3, 'g2_prepare': 4,
    'bilinearity_check': 10, 'additivity_check': 11, 'multi_pairing_vs_product': 12,
    'pairing_with_identity_is_one': 13, 'output_order_divides_r': 14,
    'generators_nondegenerate': 15, 'prepared_vs_unprepared': 16,
}
LAW_OPS = {k for k, v in OPS.items() if v >= 10}

# engine id -> (name, tower cid of C02, family id, family tag)
ENGINES = {
    0: ('ark_bls12_381', 0, 0, 'bls12_M'),
    1: ('ark_bls12_377', 1, 0, 'bls12_D'),
    2: ('ark_bn254', 2, 1, 'bn'),
    3: ('ark_mnt4_298', 3, 2, 'mnt4'),
    4: ('ark_mnt4_753', 4, 2, 'mnt4'),
    5: ('ark_mnt6_298', 5, 3, 'mnt6'),
    6: ('ark_mnt6_753', 6, 3, 'mnt6'),
    7: ('ark_bw6_761', 7, 4, 'bw6'),
    8: ('ark_bw6_767', 8, 4, 'bw6'),
    10: ('ark_test_curves::bls12_381', 0, 0, 'bls12_M'),
}
MODELLED = [0, 1, 2, 10]
PARAMS_JSON = os.path.join(os.path.dirname(os.path.abspath(__file__)), 'params.json')
HARNESS_BIN = 'c06'


def pre(ctx):
    """rebuild the harness and re-dump every constant from the Rust configurations"""
    sh = ctx['sh']
    hdir, tdir = ctx['harness_dir']()
    rc, out = sh('cargo build --offline --bin c06', cwd=hdir, timeout=3000,
                 env={'RUSTFLAGS': '--cfg arkworks_rs_algebra_verif'})
    if rc != 0:
        raise RuntimeError('harness build failed in pre(): params.json not refreshed')
    keys = sorted(ENGINES)
    lines = ['99:dump %x' % e for e in keys]
    rc, out = sh([tdir + '/debug/c06'], inp='\n'.join(lines) + '\n', timeout=300)
    ol = [l for l in out.splitlines() if l.strip()]
    if rc != 0 or len(ol) != len(keys):
        raise RuntimeError('dump failed: rc=%d' % rc)
    d = {}
    for e, l in zip(keys, ol):
        parts = l.split(' ')
        if parts[0] != '0':
            raise RuntimeError('dump of engine %d returned %s' % (e, parts[0]))
        d[str(e)] = parts[1:]
    old = json.load(open(PARAMS_JSON)) if os.path.exists(PARAMS_JSON) else None
    if old != d:
        with open(PARAMS_JSON, 'w') as f:
            json.dump(d, f, indent=0, sort_keys=True)
            f.write('\n')
        ctx['notes'].append('params.json regenerated: pairing constants changed (or first run)')


def _pa(s):
    if s == '_':
        return []
    return [(-int(t[1:], 16) if t.startswith('-') else int(t, 16)) for t in s.split(',')]


def load_params():
    d = json.load(open(PARAMS_JSON))
    out = {}
    for k, parts in d.items():
        a = [_pa(s) for s in parts]
        e = {'p': a[0][0], 'r': a[0][1], 'g1': a[1], 'g2': a[2], 'ab1': a[3], 'ab2': a[4]}
        if len(a) > 5:
            e.update({'tower': a[5], 'fam': a[6], 'X': a[7], 'ate': a[8]})
        out[int(k)] = e
    return out


# ---------------------------------------------------------------------------------------
# input construction only (scalar multiples of the generators): affine arithmetic over
# F_p and F_p[u]/(u^2 - nr).  Nothing here is compared: both sides receive the same points.
class Fld:
    def __init__(self, p, nr=None):
        self.p, self.nr = p, nr
        self.d = 1 if nr is None else 2

    def el(self, l):
        return l[0] % self.p if self.d == 1 else (l[0] % self.p, l[1] % self.p)

    def co(self, x):
        return [x] if self.d == 1 else [x[0], x[1]]

    def add(self, a, b):
        p = self.p
        return (a + b) % p if self.d == 1 else ((a[0] + b[0]) % p, (a[1] + b[1]) % p)

    def sub(self, a, b):
        p = self.p
        return (a - b) % p if self.d == 1 else ((a[0] - b[0]) % p, (a[1] - b[1]) % p)

    def mul(self, a, b):
        p = self.p
        if self.d == 1:
            return a * b % p
        return ((a[0] * b[0] + self.nr * a[1] * b[1]) % p, (a[0] * b[1] + a[1] * b[0]) % p)

    def inv(self, a):
        p = self.p
        if self.d == 1:
            return pow(a, -1, p)
        n = pow((a[0] * a[0] - self.nr * a[1] * a[1]) % p, -1, p)
        return (a[0] * n % p, (-a[1]) * n % p)

    def smul(self, k, a):
        return self.mul(self.el([k, 0]), a)

    def zero(self):
        return self.el([0, 0])


def ec_add(F, a, P, Q):
    if P is None:
        return Q
    if Q is None:
        return P
    (x1, y1), (x2, y2) = P, Q
    if x1 == x2:
        if F.add(y1, y2) == F.zero():
            return None
        lam = F.mul(F.add(F.smul(3, F.mul(x1, x1)), a), F.inv(F.smul(2, y1)))
    else:
        lam = F.mul(F.sub(y2, y1), F.inv(F.sub(x2, x1)))
    x3 = F.sub(F.sub(F.mul(lam, lam), x1), x2)
    return (x3, F.sub(F.mul(lam, F.sub(x1, x3)), y1))


def ec_mul(F, a, k, P):
    R = None
    for bit in bin(k)[2:] if k else '':
        R = ec_add(F, a, R, R)
        if bit == '1':
            R = ec_add(F, a, R, P)
    return R


class Curve:
    def __init__(self, e, prm):
        self.e, self.prm = e, prm
        p = prm['p']
        self.r = prm['r']
        self.F1 = Fld(p)
        self.F2 = Fld(p, prm["tower"][1])
        self.a1 = self.F1.el(prm['ab1'][0:1])
        self.a2 = self.F2.el(prm['ab2'][0:2])
        self.G1 = (self.F1.el(prm['g1'][1:2]), self.F1.el(prm['g1'][2:3]))
        self.G2 = (self.F2.el(prm['g2'][1:3]), self.F2.el(prm['g2'][3:5]))

    def g1(self, k):
        return ec_mul(self.F1, self.a1, k % self.r, self.G1)

    def g2(self, k):
        return ec_mul(self.F2, self.a2, k % self.r, self.G2)

    def pair_arg(self, s, t):
        P, Q = self.g1(s), self.g2(t)
        l = [1, 0, 0] if P is None else [0, P[0], P[1]]
        l += [1, 0, 0, 0, 0] if Q is None else [0, Q[0][0], Q[0][1], Q[1][0], Q[1][1]]
        return l

    def g2_arg(self, t):
        Q = self.g2(t)
        return [1, 0, 0, 0, 0] if Q is None else [0, Q[0][0], Q[0][1], Q[1][0], Q[1][1]]

    def head(self):
        name, cid, fam, tag = ENGINES[self.e]
        prm = self.prm
        return [[self.e, cid, fam], prm['tower'], prm['fam'], prm['X'], prm['ate']]


def scalar(rng, r):
    """(value, class) from {0, 1, 2, r-1, random}"""
    k = rng.randrange(8)
    if k == 0:
        return 0, '0'
    if k == 1:
        return 1, '1'
    if k == 2:
        return 2, '2'
    if k == 3:
        return r - 1, 'r-1'
    return rng.randrange(1, r), 'rnd'


def nz_scalar(rng, r):
    while True:
        v, c = scalar(rng, r)
        if v:
            return v, c


# Special-case branches of the anchored Rust code and the generated class that executes each:
#   filter_map drops a pair when p.is_zero() || q.is_zero() .... idpat 'P0' (G1 identity), 'Q0' (G2 identity),
#       'PQ0' (both), lists made only of identity pairs ('all_identity'), ids interleaved at every position
#   empty `pairs` after the filter / empty input ............... 'n0', 'all_identity' (product of no chunk = one)
#   chunks(4): one partial chunk / exactly one / 4+1 / 4+4 / 4+4+1 .. n = 1, 3 / 4 / 5 / 8 / 9 surviving pairs
#   X_IS_NEGATIVE conjugation (Miller loop, exp_by_x, BN y-flip) .. engines 0, 10 (negative) vs 1, 2 (positive)
#   TwistType::M -> mul_by_014 / TwistType::D -> mul_by_034 .... engines 0, 10 (M) vs 1, 2 (D)
#   loop bit set / clear; BN digit 1 / -1 / 0 ................... every shipped constant has all of them
#   BN: two extra Frobenius-twisted lines after the chunk product  engine 2, every n (also n = 5, 9: across chunks)
#   G2Prepared::from identity -> { [], infinity } ............... g2_prepare 'Q0'
#   From<Projective> (into_affine), G1/G2Prepared::from, prepare_g1/g2 .. mode 1, 2, 3
#   final_exponentiation: f.inverse() == None -> None ........... final_exp 'zero'
#   cyclotomic_exp: zero shortcut unreachable after the easy part; NAF digits -1/0/1 of X: every final_exp
#   MNT4/MNT6: no filter (G2 identity panics: F18; G1 identity gives 1) .. 'mnt_g2_identity*', 'mnt_g1_identity'
#   BW6: chunks restart from the global f_u (F17) ................ 'bw6_ge5pairs*'; <= 4 pairs 'n<=4'
#   BW6 T_MOD_R_IS_ZERO false (bw6_761) / true (bw6_767) ........ engines 7 / 8 (8: thorough tier only)
#   MNT ATE_IS_LOOP_COUNT_NEG, W0_IS_NEG ........................ engines 3, 5 (and 4, 6 in thorough)
def gen(rng, tier):
    prm = load_params()
    quick = tier == 'quick'
    curves = {e: Curve(e, prm[e]) for e in MODELLED}

    # ---------------- model-level: multi_pairing (Miller loop + final exponentiation) ----------------
    lengths = [0, 1, 1, 3, 4, 5, 8, 9]
    reps = 5 if quick else 60
    for e in MODELLED:
        C = curves[e]
        tag = ENGINES[e][3]
        for _ in range(reps):
            for n in lengths:
                mode = rng.randrange(4)
                pairs, pat = [], []
                for i in range(n):
                    k = rng.randrange(10)
                    s, cs = nz_scalar(rng, C.r)
                    t, ct = nz_scalar(rng, C.r)
                    if k == 0:
                        s, cs = 0, 'P0'
                    elif k == 1:
                        t, ct = 0, 'Q0'
                    elif k == 2:
                        s, t, cs, ct = 0, 0, 'P0', 'Q0'
                    pairs.append(C.pair_arg(s, t))
                    pat.append(cs + ':' + ct)
                yield 'multi_pairing', C.head() + [[mode]] + pairs, '%s/n%d/mode%d/%s' % (tag, n, mode, ','.join(pat))
        # surviving-pair counts at the chunk thresholds, identities interleaved
        for n, ids in [(3, 1), (4, 1), (4, 3), (5, 1), (5, 4), (8, 2), (9, 3)] * (1 if quick else 6):
            slots = ['k'] * n + ['i'] * ids
            rng.shuffle(slots)
            pairs = []
            for sl in slots:
                s, _ = nz_scalar(rng, C.r)
                t, _ = nz_scalar(rng, C.r)
                if sl == 'i':
                    if rng.randrange(2):
                        s = 0
                    else:
                        t = 0
                pairs.append(C.pair_arg(s, t))
            yield 'multi_pairing', C.head() + [[0]] + pairs, '%s/survive%d/ids_interleaved%d' % (tag, n, ids)
        # all identity; cancelling pairs e(P,Q) e(-P,Q); equal pairs
        yield 'multi_pairing', C.head() + [[0]] + [C.pair_arg(0, 1), C.pair_arg(1, 0), C.pair_arg(0, 0)], tag + '/all_identity'
        s, _ = nz_scalar(rng, C.r)
        t, _ = nz_scalar(rng, C.r)
        yield 'multi_pairing', C.head() + [[0]] + [C.pair_arg(s, t), C.pair_arg(C.r - s, t)], tag + '/cancelling'
        yield 'multi_pairing', C.head() + [[2]] + [C.pair_arg(s, t), C.pair_arg(s, t)], tag + '/equal_pairs'
        yield 'multi_miller_loop', C.head() + [[0]] + [C.pair_arg(1, 1)], tag + '/generators'
        # ---------------- g2_prepare ----------------
        for t, ct in [(0, 'Q0'), (1, 'gen'), (2, '2'), (C.r - 1, 'r-1')] + [nz_scalar(rng, C.r) for _ in range(4 if quick else 40)]:
            yield 'g2_prepare', C.head() + [[0], C.g2_arg(t)], tag + '/' + ct
        # ---------------- final_exp on arbitrary field elements ----------------
        p = C.prm['p']
        els = [([0] * 12, 'zero'), ([1] + [0] * 11, 'one'), ([p - 1] + [0] * 11, 'minus_one'),
               ([rng.randrange(p)] + [0] * 11, 'prime_subfield'),
               ([rng.randrange(p) for _ in range(6)] + [0] * 6, 'c1_zero'),
               ([0] * 6 + [rng.randrange(p) for _ in range(6)], 'c0_zero')]
        els += [([rng.randrange(p) for _ in range(12)], 'dense') for _ in range(8 if quick else 120)]
        for v, cl in els:
            yield 'final_exp', C.head() + [[0], v], tag + '/' + cl

    # ---------------- law-level: every engine ----------------
    law_engines = [0, 1, 2, 3, 5, 7, 10] if quick else sorted(ENGINES)
    for e in law_engines:
        r = prm[e]['r']
        tag = ENGINES[e][3]
        fam = ENGINES[e][2]
        big = e in (4, 6, 7, 8)
        k = (2 if quick else 12) if big else (5 if quick else 40)
        yield 'generators_nondegenerate', [[e]], tag
        for _ in range(k):
            s, cs = nz_scalar(rng, r)
            t, ct = nz_scalar(rng, r)
            x, cx = scalar(rng, r)
            y, cy = scalar(rng, r)
            bcl = '%s/%s,%s,%s,%s' % (tag, cs, ct, cx, cy)
            if fam in (2, 3) and (x == 0 or y == 0):
                bcl = 'mnt_g2_identity_scalar0/' + bcl       # yQ or xQ is the G2 identity: F18
            yield 'bilinearity_check', [[e], [s, t, x, y]], bcl
            s2, cs2 = nz_scalar(rng, r)
            t2, ct2 = nz_scalar(rng, r)
            if rng.randrange(3) == 0:
                s2, cs2 = r - s, 'opposite'
            if rng.randrange(3) == 0:
                t2, ct2 = t, 'equal'
            acl = '%s/%s,%s,%s,%s' % (tag, cs, cs2, ct, ct2)
            if fam in (2, 3) and (t + t2) % r == 0:
                acl = 'mnt_g2_identity_sum/' + acl             # Q + Q' is the G2 identity: F18
            yield 'additivity_check', [[e], [s, s2, t, t2]], acl
            yield 'output_order_divides_r', [[e], [s, t]], '%s/%s,%s' % (tag, cs, ct)
            yield 'prepared_vs_unprepared', [[e], [s, t]], '%s/%s,%s' % (tag, cs, ct)
        # identity in the G1 slot (every family)
        s, _ = nz_scalar(rng, r)
        yield 'pairing_with_identity_is_one', [[e], [0, s]], ('mnt_g1_identity' if fam in (2, 3) else tag + '/P0')
        # identity in the G2 slot: MNT4/MNT6 panic (F18, known finding)
        yield 'pairing_with_identity_is_one', [[e], [s, 0]], ('mnt_g2_identity/' + tag if fam in (2, 3) else tag + '/Q0')
        yield 'pairing_with_identity_is_one', [[e], [0, 0]], ('mnt_g2_identity_both/' + tag if fam in (2, 3) else tag + '/PQ0')
        # multi-pairing vs product of pairings
        ns = [0, 1, 3, 4, 5, 8, 9] if quick else [0, 1, 2, 3, 4, 5, 7, 8, 9, 12, 13] * 3
        if big and quick:
            ns = [0, 1, 4, 5, 9]
        for n in ns:
            for with_ids in ([False] if n == 0 else [False, True]):
                ss, ts = [], []
                for i in range(n):
                    s, _ = nz_scalar(rng, r)
                    t, _ = nz_scalar(rng, r)
                    ss.append(s)
                    ts.append(t)
                extra = 0
                if with_ids:
                    if fam in (2, 3):
                        # MNT: only G1 identities here (G2 identities: the mnt_g2_identity class)
                        for j in range(1 + rng.randrange(2)):
                            pos = rng.randrange(len(ss) + 1)
                            ss.insert(pos, 0)
                            ts.insert(pos, nz_scalar(rng, r)[0])
                            extra += 1
                    else:
                        for j in range(1 + rng.randrange(3)):
                            pos = rng.randrange(len(ss) + 1)
                            which = rng.randrange(3)
                            ss.insert(pos, 0 if which != 1 else nz_scalar(rng, r)[0])
                            ts.insert(pos, 0 if which != 0 else nz_scalar(rng, r)[0])
                            extra += 1
                mode = rng.randrange(2)
                if fam == 4 and n >= 5:
                    cl = 'bw6_ge5pairs/n%d+%dids/mode%d' % (n, extra, mode)          # F17
                else:
                    cl = '%s/n%d+%dids/mode%d' % (tag, n, extra, mode)
                yield 'multi_pairing_vs_product', [[e], [mode], ss, ts], cl
        if fam in (2, 3):
            s, _ = nz_scalar(rng, r)
            yield 'multi_pairing_vs_product', [[e], [0], [s, 1], [1, 0]], 'mnt_g2_identity_in_list/' + tag   # F18


def nontrivial(case, out):
    if case['op'] in LAW_OPS:
        return True
    return len(case['args']) > 6 and any(any(x != 0 for x in a) for a in case['args'][6:])


def xcheck_ok(case):
    # a pairing is ~3*10^4 multiplications mod a 254..381-bit prime: minutes per case under vm_compute
    # on stdlib Z.  Only the law-level dispatch is re-evaluated in the kernel (see NOTES.md).
    return case['op'] in LAW_OPS


XCHECK = {'quick': 14, 'thorough': 28}
RULE = ('model-level: engines bls12_381 (curves/ and test-curves/), bls12_377, bn254 x list lengths 0,1,3,4,5,8,9 x '
        'scalars {0,1,2,r-1,random} on both generators x identities interleaved x input forms (affine, projective, '
        'prepared, prepare_g1/g2); final_exp on zero/one/-1/subfield/half-zero/dense elements; g2_prepare on '
        'identity/generator/multiples.  law-level: every engine x the same scalar classes.  non-trivial = law op, or '
        'some operand coordinate is non-zero; distinct = distinct case lines')
TRUSTED = ['input construction in prop.py (affine scalar multiples of the dumped generators): both sides receive the same points',
           'C02 tower model (coq/C02) for Fp2/Fp6/Fp12 arithmetic, C15 model of find_naf (imported, frozen)',
           'law-level ops: the relation is evaluated by the Rust public API (PairingOutput ==, +, *); the model side is the constant specification']
ASSUMPTIONS = ['default features (no parallel): cfg_chunks_mut! = chunks_mut',
               'prime-field arithmetic is Z mod p (C01 covers the Montgomery representation)']
HYPOTHESES = ['tate_additive_l / tate_additive_r (LawProofs.v): the mathematical reduced (optimal) ate pairing is additive in each '
              'argument (divisor theory / Weil reciprocity; not formalisable with the installed libraries); that the model value is '
              'this pairing is NOT proved (bilinear_partial)',
              'cgroup one mul inv U: commutative-group laws of the units of the target field (and of G1, G2 in LawProofs.v)',
              'cyclotomic-subgroup operation specifications conj_Cy, conj_U, cyc_sq_spec, frob_spec, expx_spec / exp_neg_x_spec / '
              'exp_w1_spec / exp_w0_spec / exp_m_spec / exp_d1_spec / exp_d2_spec, tinv_spec, Cy closed under mul/inv: premises of the '
              'exponent-chain theorems (C02: quad_cyclotomic_inverse_spec; gs_square_partial, frobenius_is_pow_partial, exp_loop_naf_spec)',
              'tmul_assoc, tmul_comm, tmul_1_l, tsq_is_mul, ell_is_mul (mul_by_014_is_mul / mul_by_034_is_mul), conj_mul, conj_one: '
              'field-arithmetic premises of the multi-equals-product theorems (C02_zp_fp12_mul, _square, _mul_by_014, _mul_by_034, '
              'C02_quadops_ring establish them for the tower over Z_p)']
